#!/bin/bash
# seedrecheck.sh <k> <n> : re-runs, for every kept seeded change number i with i % n == k, the registered quick
# checks that caught it when it was verified (meta.json checks_run with exit 1; if none, the property's own check)
# against /repo's current HEAD + the patch, with the harness as it stands now. One line per seed:
#   RECHECK <name> <prop>=<exit>[signatures] ...      or   RECHECK <name> patch-does-not-apply / does-not-build
k=$1; n=$2
wt=/tmp/seedrecheck-wt$k
export GOFLAGS=-mod=mod GOPROXY=off GOSUMDB=off
git -C /repo worktree remove --force $wt 2>/dev/null
git -C /repo worktree add -q --detach $wt HEAD || exit 2
i=0
for d in /verif/seeded/*; do
  i=$((i+1)); [ $((i % n)) -eq $k ] || continue
  name=$(basename $d)
  grep -q '"superseded_by_fix"' $d/meta.json && { echo "RECHECK $name superseded"; continue; }
  cd $wt; git reset -q --hard; git clean -fdq
  if ! git apply $d/patch.diff 2>/dev/null && ! git apply --3way $d/patch.diff 2>/dev/null; then echo "RECHECK $name patch-does-not-apply"; continue; fi
  git reset -q 2>/dev/null
  if ! go build ./... >/dev/null 2>&1; then echo "RECHECK $name does-not-build"; continue; fi
  props=$(python3 -c "
import json
m=json.load(open('$d/meta.json'))
c=[p for p,v in (m.get('checks_run') or {}).items() if v['exit']==1]
print(' '.join(sorted(c)) if c else '$name'.split('-')[0])")
  line="RECHECK $name"
  for p in $props; do
    out=$(cd /verif && VERIF_REPO=$wt VERIF_EVIDENCE_DIR=/var/tmp/seed-evidence$k VERIF_REPLAYS_DIR=/var/tmp/seed-replays/re-$name bin/vcheck $p --tier quick 2>&1); rc=$?
    sig=$(echo "$out" | grep -m3 "signature=" | sed 's/.*signature=//' | tr '\n' ';')
    line="$line $p=$rc[$sig]"
  done
  echo "$line"
done
cd /; git -C /repo worktree remove --force $wt
