#!/bin/bash
# runs every registered quick check on /repo as it stands; prints one line per property
cd /verif
ids=${@:-$(python3 -c "import json;print(' '.join(sorted(json.load(open('checks.json')))))")}
for p in $ids; do
  out=$(bin/vcheck $p --tier quick 2>&1); rc=$?
  echo "$p exit=$rc $(echo "$out" | grep -m1 "^$p quick" | cut -c1-120) $(echo "$out" | grep -c '^VIOLATION') violation(s) $(echo "$out" | grep -c '^KNOWN-FINDING') known"
  [ $rc -ne 0 ] && echo "$out" | grep -A3 "^VIOLATION\|HARNESS TROUBLE" | head -20
done
