#!/bin/bash
# seedcheck.sh <property-id> <n> [check-property-ids...]
# Verifies seeded change /tmp/seed-<id>/out/<n> in the scratch worktree /tmp/seed-<id>:
#   demo passes on the clean tree, pinned suite passes with the patch, demo fails with the patch,
# then runs the registered quick check(s) (default: the property itself) against the patched tree.
# Prints one summary line:  SEED <id>-<n> demo_clean=<pass|fail> suite=<ok|broken> demo_patched=<pass|fail> <prop>=<exit code> ...
id=$1; n=$2; shift 2
props=${@:-$id}
wt=${SEED_PREFIX:-/tmp/seed-}$id
label=$id-$((n + ${SEED_OFFSET:-0}))
out=$wt/out/$n
export GOFLAGS=-mod=mod GOPROXY=off GOSUMDB=off
export GOCACHE=$(go env GOCACHE) GOMODCACHE=$(go env GOMODCACHE) GOPATH=$(go env GOPATH)
cd $wt || exit 2
git reset -q --hard 2>/dev/null; git checkout -q -- . ; git clean -fdq -e out
# bring the scratch worktree to /repo's current HEAD (fixes committed since the seed was made)
git checkout -q --detach $(git -C /repo rev-parse HEAD) 2>/dev/null
pkg=$(python3 -c "import json;print(json.load(open('$out/meta.json')).get('demo_package_dir','.'))")
[ -z "$pkg" ] && pkg=.
pkg=${pkg#./}
raceflag=""; grep -q -- "-race" $out/meta.json && raceflag="-race"
demo() {
  for f in $out/*.go; do cp $f $wt/$pkg/zzseed_$(basename $f); done
  SB=$(mktemp -d /var/tmp/seeddemo.XXXXXX); mkdir -p $SB/home $SB/tmp
  HOME=$SB/home TMPDIR=$SB/tmp timeout 600 unshare -n bash -c "ip link set lo up; cd $wt && go test $raceflag -vet=off -count=1 -timeout 300s -run '^TestDemo' ./$pkg" > $out/demo_$1.log 2>&1
  rc=$?
  rm -rf $SB; rm -f $wt/$pkg/zzseed_*
  [ $rc -eq 0 ] && echo pass || echo fail
}
dc=$(demo clean)
git apply $out/patch.diff 2>/dev/null || git apply --3way $out/patch.diff 2>/dev/null || { echo "SEED $label patch does not apply to the current HEAD"; git checkout -q -- .; exit 2; }
git reset -q 2>/dev/null
suite=$(dastard-tests $wt 2>&1 | tail -1); [ "$suite" = "PASS-SET OK" ] && suite=ok || suite=broken
dp=$(demo patched)
line="SEED $label demo_clean=$dc suite=$suite demo_patched=$dp"
for p in $props; do
  (cd /verif && VERIF_REPO=$wt VERIF_EVIDENCE_DIR=/var/tmp/seed-evidence VERIF_REPLAYS_DIR=/var/tmp/seed-replays/$label bin/vcheck $p --tier quick) > $out/vcheck_$p.log 2>&1
  rc=$?
  sig=$(grep -m3 "signature=" $out/vcheck_$p.log | sed 's/.*signature=//' | tr '\n' ';')
  line="$line $p=$rc[$sig]"
done
git reset -q --hard 2>/dev/null; git checkout -q -- . ; git clean -fdq -e out
echo "$line"
