#!/usr/bin/env python3
"""Regenerates the tables of DESIGN.md §9.3/§9.4 between their markers."""
import subprocess, os, re
V = os.path.dirname(os.path.dirname(os.path.abspath(__file__)))
out = subprocess.run(["python3", os.path.join(V, "tools/gen_design_tables.py")], capture_output=True, text=True).stdout
fixes, seeds = out.split("\n\n", 1)
p = os.path.join(V, "DESIGN.md")
s = open(p).read()
s = re.sub(r"<!-- FIXES-BEGIN -->.*?<!-- FIXES-END -->", lambda m: "<!-- FIXES-BEGIN -->\n" + fixes.strip() + "\n<!-- FIXES-END -->", s, flags=re.S)
s = re.sub(r"<!-- SEEDS-BEGIN -->.*?<!-- SEEDS-END -->", lambda m: "<!-- SEEDS-BEGIN -->\n" + seeds.strip() + "\n<!-- SEEDS-END -->", s, flags=re.S)
open(p, "w").write(s)
print("DESIGN.md tables updated")
