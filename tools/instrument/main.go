// Command instrument rewrites a scratch copy of usnistgov/dastard so that every
// synchronisation point goes through verif/simrt (see DESIGN.md §2.2). It is a typed,
// syntax-directed source-to-source rewriter working by text splicing: each rewritten
// construct's source range is replaced by generated text in which the construct's own
// sub-parts are emitted recursively (so nested constructs are rewritten too and
// comments/formatting elsewhere stay untouched).
//
// usage: instrument -dir <module root> [-tags verif] [-report out.json] ./pkg ...
package main

import (
	"encoding/json"
	"flag"
	"fmt"
	"go/ast"
	"go/format"
	"go/token"
	"go/types"
	"os"
	"path/filepath"
	"sort"
	"strings"

	"golang.org/x/tools/go/packages"
)

type report struct {
	Files          int            `json:"files"`
	Rules          map[string]int `json:"rules"`
	Uninstrumented []string       `json:"uninstrumented"`
	Regions        map[string]int `json:"regions"`
}

var rep = report{Rules: map[string]int{}, Regions: map[string]int{}}

func main() {
	dir := flag.String("dir", ".", "module root of the scratch copy")
	tags := flag.String("tags", "verif", "build tags")
	reportPath := flag.String("report", "", "write a JSON report here")
	flag.Parse()
	pats := flag.Args()
	if len(pats) == 0 {
		fmt.Fprintln(os.Stderr, "no packages given")
		os.Exit(2)
	}
	cfg := &packages.Config{
		Mode: packages.NeedName | packages.NeedFiles | packages.NeedCompiledGoFiles | packages.NeedSyntax |
			packages.NeedTypes | packages.NeedTypesInfo | packages.NeedImports,
		Dir:        *dir,
		BuildFlags: []string{"-tags=" + *tags},
		Env:        os.Environ(),
	}
	pkgs, err := packages.Load(cfg, pats...)
	if err != nil {
		fmt.Fprintln(os.Stderr, "load:", err)
		os.Exit(2)
	}
	bad := false
	for _, p := range pkgs {
		for _, e := range p.Errors {
			fmt.Fprintln(os.Stderr, "package error:", e)
			bad = true
		}
	}
	if bad {
		os.Exit(2)
	}
	for _, p := range pkgs {
		for i, f := range p.Syntax {
			path := p.CompiledGoFiles[i]
			if strings.HasSuffix(path, "_test.go") {
				continue
			}
			src, err := os.ReadFile(path)
			if err != nil {
				fmt.Fprintln(os.Stderr, err)
				os.Exit(2)
			}
			if strings.Contains(string(src), "//verif:noinstrument") {
				continue
			}
			out, changed, err := rewriteFile(p, f, src)
			if err != nil {
				fmt.Fprintf(os.Stderr, "%s: %v\n", path, err)
				os.Exit(2)
			}
			if changed {
				if err := os.WriteFile(path, out, 0644); err != nil {
					fmt.Fprintln(os.Stderr, err)
					os.Exit(2)
				}
				rep.Files++
			}
		}
	}
	sort.Strings(rep.Uninstrumented)
	if *reportPath != "" {
		b, _ := json.MarshalIndent(rep, "", " ")
		os.WriteFile(*reportPath, b, 0644)
	}
}

// ---------------------------------------------------------------------------------

type rewriter struct {
	pkg     *packages.Package
	info    *types.Info
	fset    *token.FileSet
	file    *ast.File
	src     []byte
	base    int // offset of file start in fset
	parent  map[ast.Node]ast.Node
	used    bool // simrt referenced
	curFunc string
	tmpSeq  int
}

func rewriteFile(p *packages.Package, f *ast.File, src []byte) ([]byte, bool, error) {
	r := &rewriter{pkg: p, info: p.TypesInfo, fset: p.Fset, file: f, src: src, parent: map[ast.Node]ast.Node{}}
	r.base = p.Fset.File(f.Pos()).Base()
	// parent map
	var stack []ast.Node
	ast.Inspect(f, func(n ast.Node) bool {
		if n == nil {
			stack = stack[:len(stack)-1]
			return true
		}
		if len(stack) > 0 {
			r.parent[n] = stack[len(stack)-1]
		}
		stack = append(stack, n)
		return true
	})
	// emit declarations one by one (imports handled afterwards)
	var out strings.Builder
	last := f.Pos()
	for _, d := range f.Decls {
		out.WriteString(r.text(last, d.Pos()))
		if fd, ok := d.(*ast.FuncDecl); ok {
			r.curFunc = fd.Name.Name
		} else {
			r.curFunc = ""
		}
		out.WriteString(r.emit(d.Pos(), d.End(), d, false))
		last = d.End()
	}
	out.WriteString(r.text(last, f.End()))
	// trailing text after f.End() (comments at EOF)
	if off := r.off(f.End()); off < len(src) {
		out.WriteString(string(src[off:]))
	}
	if !r.used {
		return src, false, nil
	}
	res := out.String() // text from the package keyword to EOF
	prefix := string(src[:r.off(f.Pos())])
	cut := r.off(f.Name.End()) - r.off(f.Pos())
	// keep possibly-unused imports alive
	keep := ""
	for _, imp := range f.Imports {
		path := strings.Trim(imp.Path.Value, `"`)
		name := filepath.Base(path)
		if imp.Name != nil {
			name = imp.Name.Name
		}
		if name == "_" || name == "." {
			continue
		}
		switch path {
		case "os":
			keep += "var _ " + name + ".FileMode\n"
		case "math/rand":
			keep += "var _ = " + name + ".Intn\n"
		case "os/signal":
			keep += "var _ = " + name + ".Stop\n"
		case "sync":
			keep += "var _ " + name + ".Mutex\n"
		case "time":
			keep += "var _ " + name + ".Duration\n"
		case "net":
			keep += "var _ " + name + ".Listener\n"
		}
	}
	imp := "\n\nimport simrt \"verif/simrt\"\n"
	for _, i := range f.Imports {
		if strings.Trim(i.Path.Value, `"`) == "verif/simrt" {
			imp = "\n"
		}
	}
	final := prefix + res[:cut] + imp + res[cut:] + "\n" + keep
	fmted, err := format.Source([]byte(final))
	if err != nil {
		// keep the unformatted text for debugging
		os.WriteFile(filepath.Join(os.TempDir(), "instrument-failed.go"), []byte(final), 0644)
		return nil, false, fmt.Errorf("generated code does not parse: %v", err)
	}
	return fmted, true, nil
}

func (r *rewriter) off(p token.Pos) int { return r.fset.Position(p).Offset }

func (r *rewriter) text(a, b token.Pos) string {
	if !a.IsValid() || !b.IsValid() || b <= a {
		return ""
	}
	return string(r.src[r.off(a):r.off(b)])
}

func (r *rewriter) site(n ast.Node) string {
	p := r.fset.Position(n.Pos())
	return fmt.Sprintf("%q", fmt.Sprintf("%s:%d", filepath.Base(p.Filename), p.Line))
}

func (r *rewriter) note(rule string) { rep.Rules[rule]++; r.used = true }

func (r *rewriter) unins(n ast.Node, why string) {
	p := r.fset.Position(n.Pos())
	rep.Uninstrumented = append(rep.Uninstrumented, fmt.Sprintf("%s:%d: %s", filepath.Base(p.Filename), p.Line, why))
}

// emit returns the source text of [start,end) inside root with all top-most interesting
// descendants rewritten. If skipSelf, root itself is not considered.
func (r *rewriter) emit(start, end token.Pos, root ast.Node, skipSelf bool) string {
	type edit struct {
		a, b token.Pos
		text string
	}
	var edits []edit
	ast.Inspect(root, func(n ast.Node) bool {
		if n == nil {
			return true
		}
		if n.End() <= start || n.Pos() >= end {
			return false
		}
		if n == root && skipSelf {
			return true
		}
		if n.Pos() < start || n.End() > end {
			return true
		}
		if txt, ok := r.rewrite(n); ok {
			edits = append(edits, edit{n.Pos(), n.End(), txt})
			return false
		}
		return true
	})
	sort.Slice(edits, func(i, j int) bool { return edits[i].a < edits[j].a })
	var b strings.Builder
	cur := start
	for _, e := range edits {
		b.WriteString(r.text(cur, e.a))
		b.WriteString(e.text)
		cur = e.b
	}
	b.WriteString(r.text(cur, end))
	return b.String()
}

// emitNode emits a whole node, considering the node itself.
func (r *rewriter) emitNode(n ast.Node) string {
	if n == nil {
		return ""
	}
	return r.emit(n.Pos(), n.End(), n, false)
}

// emitInner emits a node without considering the node itself for rewriting.
func (r *rewriter) emitInner(n ast.Node) string {
	if n == nil {
		return ""
	}
	return r.emit(n.Pos(), n.End(), n, true)
}

func (r *rewriter) emitStmts(list []ast.Stmt) string {
	var b strings.Builder
	for _, s := range list {
		b.WriteString(r.emitNode(s))
		b.WriteString("\n")
	}
	return b.String()
}

func (r *rewriter) inStmtList(n ast.Node) bool {
	switch p := r.parent[n].(type) {
	case *ast.BlockStmt, *ast.CaseClause:
		return true
	case *ast.CommClause:
		return p.Comm != n
	}
	return false
}

// rewrite decides whether n is an interesting node and returns its replacement.
func (r *rewriter) rewrite(n ast.Node) (string, bool) {
	switch x := n.(type) {
	case *ast.CallExpr:
		return r.rewriteCall(x)
	case *ast.GoStmt:
		return r.rewriteGo(x)
	case *ast.LabeledStmt:
		switch inner := x.Stmt.(type) {
		case *ast.SelectStmt:
			if txt, ok := r.rewriteSelect(inner, x.Label.Name); ok {
				return txt, true
			}
		case *ast.RangeStmt:
			if txt, ok := r.rewriteRange(inner, x.Label.Name); ok {
				return txt, true
			}
		}
		return "", false
	case *ast.SelectStmt:
		if _, isLabeled := r.parent[x].(*ast.LabeledStmt); isLabeled {
			return "", false // handled at the LabeledStmt (or left alone)
		}
		return r.rewriteSelect(x, "")
	case *ast.RangeStmt:
		if _, isLabeled := r.parent[x].(*ast.LabeledStmt); isLabeled {
			return "", false
		}
		return r.rewriteRange(x, "")
	case *ast.FuncDecl:
		return r.rewriteFuncDecl(x)
	case *ast.FuncLit:
		return r.rewriteFuncLit(x)
	case *ast.ExprStmt:
		if r.curFunc == "CoreLoop" {
			if call, ok := x.X.(*ast.CallExpr); ok && len(call.Args) == 0 {
				if id, ok := call.Fun.(*ast.Ident); ok {
					if _, isVar := r.info.Uses[id].(*types.Var); isVar && r.inStmtList(x) {
						rep.Regions["request"]++
						r.note("region")
						return "simrt.Enter(\"request\"); " + r.emitInner(x) + "; simrt.Exit(\"request\")", true
					}
				}
			}
		}
		return r.rewriteBlockingStmt(x)
	case *ast.AssignStmt, *ast.SendStmt, *ast.DeclStmt, *ast.ReturnStmt, *ast.IfStmt,
		*ast.SwitchStmt, *ast.ForStmt, *ast.DeferStmt, *ast.IncDecStmt:
		return r.rewriteBlockingStmt(x.(ast.Stmt))
	}
	return "", false
}

// ---- calls -----------------------------------------------------------------------

var osShims = map[string]string{
	"Create": "OsCreate", "OpenFile": "OsOpenFile", "Open": "OsOpen", "MkdirAll": "OsMkdirAll", "Mkdir": "OsMkdir",
	"Stat": "OsStat", "Remove": "OsRemove", "Rename": "OsRename", "ReadFile": "OsReadFile", "CreateTemp": "OsCreateTemp", "Link": "OsLink",
}
var randShims = map[string]string{"Intn": "RandIntn", "Int63n": "RandInt63n", "Int31n": "RandInt31n", "Float64": "RandFloat64", "Int": "RandInt"}
var signalShims = map[string]string{"Notify": "SignalNotify", "Stop": "SignalStop"}
var timeShims = map[string]string{"NewTicker": "TimeNewTicker", "NewTimer": "TimeNewTimer", "After": "TimeAfter", "Tick": "TimeTick"}

func (r *rewriter) pkgOf(id *ast.Ident) string {
	if obj, ok := r.info.Uses[id].(*types.PkgName); ok {
		return obj.Imported().Path()
	}
	return ""
}

func (r *rewriter) args(call *ast.CallExpr) string {
	var parts []string
	for _, a := range call.Args {
		parts = append(parts, r.emitNode(a))
	}
	s := strings.Join(parts, ", ")
	if call.Ellipsis.IsValid() {
		s += "..."
	}
	return s
}

func (r *rewriter) rewriteCall(call *ast.CallExpr) (string, bool) {
	// Call-site wrapper: when the package (with the harness overlaid) declares verifWrap_F for a
	// package-level function F of its own, every call F(...) in a non-harness file becomes
	// verifWrap_F(...). The wrapper (harness code, same signature) calls the real F and may act on
	// its result: a hook for objects that the program keeps in local variables (RunRPCServer's
	// SourceControl). Harness files (zz_verif*) keep calling F itself.
	if id, ok := call.Fun.(*ast.Ident); ok {
		if fn, ok := r.info.Uses[id].(*types.Func); ok && fn.Pkg() != nil && fn.Pkg() == r.pkg.Types && fn.Parent() == fn.Pkg().Scope() {
			wrap := "verifWrap_" + fn.Name()
			if r.pkg.Types.Scope().Lookup(wrap) != nil && !strings.HasPrefix(filepath.Base(r.fset.Position(call.Pos()).Filename), "zz_verif") {
				r.note("call-wrap")
				return wrap + "(" + r.args(call) + ")", true
			}
		}
		return "", false
	}
	sel, ok := call.Fun.(*ast.SelectorExpr)
	if !ok {
		return "", false
	}
	// package-level functions
	if id, ok := sel.X.(*ast.Ident); ok {
		switch r.pkgOf(id) {
		case "os":
			if shim, ok := osShims[sel.Sel.Name]; ok {
				r.note("os-shim")
				return "simrt." + shim + "(" + r.args(call) + ")", true
			}
		case "math/rand":
			if shim, ok := randShims[sel.Sel.Name]; ok {
				r.note("rand-shim")
				return "simrt." + shim + "(" + r.args(call) + ")", true
			}
		case "net":
			if sel.Sel.Name == "Listen" {
				r.note("net-shim")
				return "simrt.NetListen(" + r.args(call) + ")", true
			}
		case "time":
			if shim, ok := timeShims[sel.Sel.Name]; ok {
				r.note("timer-skew")
				return "simrt." + shim + "(" + r.args(call) + ")", true
			}
		case "os/signal":
			if shim, ok := signalShims[sel.Sel.Name]; ok {
				r.note("signal-shim")
				return "simrt." + shim + "(" + r.args(call) + ")", true
			}
		}
	}
	// methods
	selection := r.info.Selections[sel]
	if selection == nil {
		return "", false
	}
	fn, ok := selection.Obj().(*types.Func)
	if !ok || fn.Pkg() == nil {
		return "", false
	}
	sig := fn.Type().(*types.Signature)
	if sig.Recv() == nil {
		return "", false
	}
	recvT := sig.Recv().Type()
	if p, ok := recvT.(*types.Pointer); ok {
		recvT = p.Elem()
	}
	named, ok := recvT.(*types.Named)
	if !ok {
		return "", false
	}
	tname := named.Obj().Name()
	recvExpr := func() string {
		txt := r.emitNode(sel.X)
		if _, isPtr := r.info.TypeOf(sel.X).Underlying().(*types.Pointer); isPtr {
			return txt
		}
		return "&" + txt
	}
	switch fn.Pkg().Path() {
	case "sync":
		if tname == "Mutex" || tname == "RWMutex" {
			switch fn.Name() {
			case "Lock":
				r.note("lock")
				return "simrt.Lock(" + r.site(call) + ", " + recvExpr() + ")", true
			case "Unlock":
				r.note("unlock")
				return "simrt.Unlock(" + recvExpr() + ")", true
			case "RLock":
				r.note("lock")
				return "simrt.RLock(" + r.site(call) + ", " + recvExpr() + ")", true
			case "RUnlock":
				r.note("unlock")
				return "simrt.RUnlock(" + recvExpr() + ")", true
			}
		}
	case "github.com/pebbe/zmq4":
		if tname == "Socket" {
			switch fn.Name() {
			case "Bind":
				r.note("zmq-shim")
				return "simrt.ZmqBind(" + r.emitNode(sel.X) + ", " + r.args(call) + ")", true
			case "SendMessage":
				r.note("zmq-shim")
				return "simrt.ZmqSendMessage(" + r.emitNode(sel.X) + ", " + r.args(call) + ")", true
			}
		}
	}
	return "", false
}

// isBlockingCall reports calls that may block: wg.Wait, cond.Wait, time.Sleep.
func (r *rewriter) isBlockingCall(call *ast.CallExpr) bool {
	sel, ok := call.Fun.(*ast.SelectorExpr)
	if !ok {
		return false
	}
	if id, ok := sel.X.(*ast.Ident); ok && r.pkgOf(id) == "time" && sel.Sel.Name == "Sleep" {
		return true
	}
	selection := r.info.Selections[sel]
	if selection == nil {
		return false
	}
	fn, ok := selection.Obj().(*types.Func)
	if !ok || fn.Pkg() == nil || fn.Pkg().Path() != "sync" || fn.Name() != "Wait" {
		return false
	}
	return true
}

// hasBlockingOp reports whether the node (outside function literals and nested
// statements lists) contains a channel receive, or is/contains a blocking call.
func (r *rewriter) hasBlockingOp(n ast.Node) bool {
	found := false
	ast.Inspect(n, func(m ast.Node) bool {
		if m == nil || found {
			return false
		}
		switch y := m.(type) {
		case *ast.FuncLit:
			return false
		case *ast.BlockStmt:
			return m == n // do not look into nested statement lists
		case *ast.UnaryExpr:
			if y.Op == token.ARROW {
				found = true
			}
		case *ast.CallExpr:
			if r.isBlockingCall(y) {
				found = true
			}
		}
		return true
	})
	return found
}

func (r *rewriter) rewriteBlockingStmt(s ast.Stmt) (string, bool) {
	if cc, ok := r.parent[s].(*ast.CommClause); ok && cc.Comm == s {
		return "", false // the communication of a select case: handled by the select rewrite
	}
	switch x := s.(type) {
	case *ast.SendStmt:
		if !r.inStmtList(s) {
			return "", false
		}
		r.note("send")
		st := r.site(s)
		return "simrt.Y(" + st + "); " + r.emitInner(s) + "; simrt.W(" + st + ")", true
	case *ast.ExprStmt, *ast.AssignStmt, *ast.DeclStmt, *ast.IncDecStmt:
		if !r.hasBlockingOp(s) {
			return "", false
		}
		if !r.inStmtList(s) {
			r.unins(s, "blocking operation in a statement that is not in a statement list")
			return "", false
		}
		// CoreLoop's request() call gets the "request" region
		r.note("blocking-stmt")
		st := r.site(s)
		return "simrt.Y(" + st + "); " + r.emitInner(s) + "; simrt.W(" + st + ")", true
	case *ast.ReturnStmt, *ast.DeferStmt:
		if !r.hasBlockingOp(s) || !r.inStmtList(s) {
			return "", false
		}
		r.note("blocking-stmt-partial")
		return "simrt.Y(" + r.site(s) + "); " + r.emitInner(s), true
	case *ast.IfStmt:
		if !(x.Init != nil && r.hasBlockingOp(x.Init) || r.hasBlockingOp(x.Cond)) || !r.inStmtList(s) {
			return "", false
		}
		r.note("blocking-stmt-partial")
		return "simrt.Y(" + r.site(s) + "); " + r.emitInner(s), true
	case *ast.SwitchStmt:
		if !(x.Init != nil && r.hasBlockingOp(x.Init) || x.Tag != nil && r.hasBlockingOp(x.Tag)) || !r.inStmtList(s) {
			return "", false
		}
		r.note("blocking-stmt-partial")
		return "simrt.Y(" + r.site(s) + "); " + r.emitInner(s), true
	case *ast.ForStmt:
		if x.Cond != nil && r.hasBlockingOp(x.Cond) || x.Init != nil && r.hasBlockingOp(x.Init) || x.Post != nil && r.hasBlockingOp(x.Post) {
			r.unins(s, "blocking operation in a for header")
		}
		return "", false
	}
	return "", false
}

// ---- go statements ---------------------------------------------------------------

func (r *rewriter) rewriteGo(g *ast.GoStmt) (string, bool) {
	if !r.inStmtList(g) {
		r.unins(g, "go statement not in a statement list")
		return "", false
	}
	call := g.Call
	st := r.site(g)
	// simplest form: go func() { ... }()
	if fl, ok := call.Fun.(*ast.FuncLit); ok && len(call.Args) == 0 && fl.Type.Params.NumFields() == 0 {
		r.note("go")
		return "simrt.Go(" + st + ", " + r.emitNode(fl) + ")", true
	}
	var b strings.Builder
	b.WriteString("{\n")
	b.WriteString("_simf := " + r.emitNode(call.Fun) + "\n")
	var names []string
	for i, a := range call.Args {
		tv := r.info.Types[a]
		if tv.Value != nil || tv.IsNil() {
			names = append(names, r.emitNode(a))
			continue
		}
		if t, ok := tv.Type.(*types.Tuple); ok && t.Len() != 1 {
			r.unins(g, "go call with a multi-value argument")
			return "", false
		}
		nm := fmt.Sprintf("_sima%d", i)
		b.WriteString(nm + " := " + r.emitNode(a) + "\n")
		names = append(names, nm)
	}
	argtxt := strings.Join(names, ", ")
	if call.Ellipsis.IsValid() {
		argtxt += "..."
	}
	b.WriteString("simrt.Go(" + st + ", func() { _simf(" + argtxt + ") })\n}")
	r.note("go")
	return b.String(), true
}

// ---- select ----------------------------------------------------------------------

func (r *rewriter) rewriteSelect(sel *ast.SelectStmt, label string) (string, bool) {
	if !r.inStmtList(sel) {
		if _, ok := r.parent[sel].(*ast.LabeledStmt); !ok {
			r.unins(sel, "select not in a statement list")
			return "", false
		}
	}
	hasDefault := false
	var clauses []*ast.CommClause
	for _, c := range sel.Body.List {
		cc := c.(*ast.CommClause)
		if cc.Comm == nil {
			hasDefault = true
		}
		clauses = append(clauses, cc)
	}
	st := r.site(sel)
	lbl := ""
	if label != "" {
		lbl = label + ": "
	}
	if hasDefault {
		// non-blocking poll: deterministic given the state, unless several cases are ready
		ncomm := len(clauses) - 1
		if ncomm >= 2 {
			r.unins(sel, "select with default and several communication cases (runtime picks among ready ones)")
		}
		r.note("select-default")
		return "simrt.Y(" + st + "); " + lbl + r.emitInner(sel), true
	}
	if len(clauses) == 0 {
		return "", false // select {} blocks for ever
	}
	if len(clauses) == 1 {
		// a single blocking operation: Y before, W at the start of the body
		cc := clauses[0]
		r.note("select-single")
		var b strings.Builder
		b.WriteString("simrt.Y(" + st + "); " + lbl + "select {\n case " + r.emitNode(cc.Comm) + ":\n simrt.W(" + st + ")\n")
		b.WriteString(r.emitStmts(cc.Body))
		b.WriteString("}")
		return b.String(), true
	}
	n := len(clauses)
	if n > 16 {
		r.unins(sel, "select with more than 16 cases")
		return "", false
	}
	var pre, polls, blocking, bodies strings.Builder
	for i, cc := range clauses {
		ci := fmt.Sprintf("_simc%d", i)
		var commTxt string // the communication using temporaries
		var bind string    // statement at the top of the case body binding received values
		switch comm := cc.Comm.(type) {
		case *ast.SendStmt:
			pre.WriteString(ci + " := " + r.emitNode(comm.Chan) + "\n")
			val := ""
			tv := r.info.Types[comm.Value]
			if tv.Value != nil || tv.IsNil() {
				val = r.emitNode(comm.Value)
			} else {
				val = fmt.Sprintf("_sims%d", i)
				pre.WriteString(val + " := " + r.emitNode(comm.Value) + "\n")
			}
			commTxt = ci + " <- " + val
		case *ast.ExprStmt:
			ue, ok := unparen(comm.X).(*ast.UnaryExpr)
			if !ok || ue.Op != token.ARROW {
				r.unins(sel, "unexpected select case form")
				return "", false
			}
			pre.WriteString(ci + " := " + r.emitNode(ue.X) + "\n")
			commTxt = "<-" + ci
		case *ast.AssignStmt:
			if len(comm.Rhs) != 1 {
				r.unins(sel, "unexpected select case form")
				return "", false
			}
			ue, ok := unparen(comm.Rhs[0]).(*ast.UnaryExpr)
			if !ok || ue.Op != token.ARROW {
				r.unins(sel, "unexpected select case form")
				return "", false
			}
			pre.WriteString(ci + " := " + r.emitNode(ue.X) + "\n")
			vi := fmt.Sprintf("_simv%d", i)
			oki := fmt.Sprintf("_simok%d", i)
			zero := "simrt.ZeroOf"
			if ch, ok := r.info.TypeOf(ue.X).Underlying().(*types.Chan); ok && ch.Dir() == types.SendRecv {
				zero = "simrt.ZeroOfBi"
			}
			pre.WriteString(vi + " := " + zero + "(" + ci + ")\n" + oki + " := false\n_, _ = " + vi + ", " + oki + "\n")
			commTxt = vi + ", " + oki + " = <-" + ci
			var lhs []string
			for _, l := range comm.Lhs {
				lhs = append(lhs, r.emitNode(l))
			}
			tok := comm.Tok.String()
			if len(lhs) == 1 {
				bind = lhs[0] + " " + tok + " " + vi
			} else {
				bind = lhs[0] + ", " + lhs[1] + " " + tok + " " + vi + ", " + oki
			}
			if comm.Tok == token.DEFINE {
				var uses []string
				for _, l := range lhs {
					if l != "_" {
						uses = append(uses, l)
					}
				}
				if len(uses) > 0 {
					bind += "\n" + strings.Repeat("_, ", len(uses)-1) + "_ = " + strings.Join(uses, ", ")
				} else {
					bind = "" // `_ := <-c` cannot occur; `_, _ :=` neither
				}
			}
		default:
			r.unins(sel, "unexpected select case form")
			return "", false
		}
		polls.WriteString(fmt.Sprintf("case %d:\nselect {\ncase %s:\n_simch = %d\ndefault:\n}\n", i, commTxt, i))
		blocking.WriteString(fmt.Sprintf("case %s:\n_simch = %d\n", commTxt, i))
		bodies.WriteString(fmt.Sprintf("case %d:\n", i))
		if bind != "" {
			bodies.WriteString(bind + "\n")
		}
		bodies.WriteString(r.emitStmts(cc.Body))
	}
	var b strings.Builder
	b.WriteString("{\n")
	b.WriteString(pre.String())
	b.WriteString("_simch := -1\n")
	b.WriteString("simrt.Y(" + st + ")\n")
	b.WriteString(fmt.Sprintf("_simord := simrt.SelOrder(%s, %d)\n", st, n))
	b.WriteString(fmt.Sprintf("for _simk := 0; _simk < %d && _simch < 0; _simk++ {\nswitch _simord[_simk] {\n%s}\n}\n", n, polls.String()))
	b.WriteString("if _simch < 0 {\nselect {\n" + blocking.String() + "}\n}\n")
	b.WriteString("simrt.W(" + st + ")\n")
	// The default clause is never reached (_simch is one of the cases); it keeps Go's terminating-statement
	// analysis as it was for the select: a function whose last statement is a select with a return in
	// every case still compiles ("missing return" otherwise).
	b.WriteString(lbl + "switch _simch {\n" + bodies.String() + "default:\npanic(\"simrt: rewritten select chose no case\")\n}\n}")
	r.note("select-multi")
	return b.String(), true
}

func unparen(e ast.Expr) ast.Expr {
	for {
		p, ok := e.(*ast.ParenExpr)
		if !ok {
			return e
		}
		e = p.X
	}
}

// ---- range -----------------------------------------------------------------------

func (r *rewriter) rewriteRange(rs *ast.RangeStmt, label string) (string, bool) {
	t := r.info.TypeOf(rs.X)
	if t == nil {
		return "", false
	}
	lbl := ""
	if label != "" {
		lbl = label + ": "
	}
	switch t.Underlying().(type) {
	case *types.Map:
		key, val := "", ""
		if rs.Key != nil {
			key = r.emitNode(rs.Key)
		}
		if rs.Value != nil {
			val = r.emitNode(rs.Value)
		}
		tok := rs.Tok.String()
		var b strings.Builder
		b.WriteString("{\n_simm := " + r.emitNode(rs.X) + "\n")
		b.WriteString(lbl + "for _, _simk := range simrt.MapKeys(_simm) {\n")
		b.WriteString("_simval, _simok := _simm[_simk]\nif !_simok {\ncontinue\n}\n_ = _simval\n")
		if key != "" && key != "_" {
			b.WriteString(key + " " + tok + " _simk\n")
			if rs.Tok == token.DEFINE {
				b.WriteString("_ = " + key + "\n")
			}
		}
		if val != "" && val != "_" {
			b.WriteString(val + " " + tok + " _simval\n")
			if rs.Tok == token.DEFINE {
				b.WriteString("_ = " + val + "\n")
			}
		}
		b.WriteString(r.emitStmts(rs.Body.List))
		b.WriteString("}\n}")
		r.note("map-range")
		return b.String(), true
	case *types.Chan:
		key := ""
		if rs.Key != nil {
			key = r.emitNode(rs.Key)
		}
		st := r.site(rs)
		var b strings.Builder
		b.WriteString("{\n_simrc := " + r.emitNode(rs.X) + "\n")
		b.WriteString(lbl + "for {\nsimrt.Y(" + st + ")\n_simrv, _simrok := <-_simrc\nsimrt.W(" + st + ")\nif !_simrok {\nbreak\n}\n_ = _simrv\n")
		if key != "" && key != "_" {
			b.WriteString(key + " " + rs.Tok.String() + " _simrv\n")
			if rs.Tok == token.DEFINE {
				b.WriteString("_ = " + key + "\n")
			}
		}
		b.WriteString(r.emitStmts(rs.Body.List))
		b.WriteString("}\n}")
		r.note("chan-range")
		return b.String(), true
	}
	return "", false
}

// ---- regions ---------------------------------------------------------------------

func (r *rewriter) sendsOnQueuedResults(body *ast.BlockStmt) bool {
	found := false
	ast.Inspect(body, func(m ast.Node) bool {
		if found || m == nil {
			return false
		}
		if _, ok := m.(*ast.FuncLit); ok {
			return false
		}
		if s, ok := m.(*ast.SendStmt); ok {
			if sel, ok := s.Chan.(*ast.SelectorExpr); ok && sel.Sel.Name == "queuedResults" {
				found = true
			}
		}
		return true
	})
	return found
}

func (r *rewriter) bodyWithRegion(body *ast.BlockStmt, region string) string {
	inner := r.emitInner(body) // "{ ... }"
	return "{\nsimrt.Enter(" + fmt.Sprintf("%q", region) + ")\ndefer simrt.Exit(" + fmt.Sprintf("%q", region) + ")\n" + inner[1:]
}

func (r *rewriter) rewriteFuncDecl(fd *ast.FuncDecl) (string, bool) {
	if fd.Body == nil {
		return "", false
	}
	if fd.Name.Name == "ProcessSegments" && fd.Recv != nil {
		rep.Regions["process"]++
		r.note("region")
		return r.text(fd.Pos(), fd.Body.Pos()) + r.bodyWithRegion(fd.Body, "process"), true
	}
	return "", false
}

func (r *rewriter) rewriteFuncLit(fl *ast.FuncLit) (string, bool) {
	if r.sendsOnQueuedResults(fl.Body) {
		rep.Regions["closure"]++
		r.note("region")
		return r.text(fl.Pos(), fl.Body.Pos()) + r.bodyWithRegion(fl.Body, "closure"), true
	}
	return "", false
}
