#!/usr/bin/env python3
"""Generates MANIFEST.json from checks.json + manifest_meta.json (kept valid at all times)."""
import json, os
V = os.path.dirname(os.path.dirname(os.path.abspath(__file__)))
checks = json.load(open(os.path.join(V, "checks.json")))
meta = json.load(open(os.path.join(V, "manifest_meta.json")))
props = [json.loads(l) for l in open(os.path.join(V, "properties.jsonl"))]
m = {
    "version": 1,
    "setup_cmd": "bin/vcheck build",
    "hooks": {
        "guard": "verif",
        "enable": "no hook is committed to /repo: every check rsyncs /repo's working tree to a scratch directory, overlays /verif/harness/<pkg>/*.go (build tag verif) into the packages, rewrites synchronisation points with tools/instrument and builds with `go1.26.8 test -c -tags verif`",
        "baseline_off_cmd": "cd /repo && GOFLAGS=-mod=mod go test -vet=off -count=1 -timeout 25m ./...",
        "source_commits": [],
        "add_only": True,
    },
    "engines": [
        {"name": "simrt", "path": "simrt", "serves_properties": sorted(checks), "kind_free_text": "deterministic simulation runtime: serialising seeded scheduler over real goroutines inside a testing/synctest bubble (fake clock), choice tape with record/replay/minimise, stall and I/O faults, os/zmq/rand shims, region monitor"},
        {"name": "instrument", "path": "tools/instrument", "serves_properties": sorted(checks), "kind_free_text": "typed source-to-source rewriter (go/packages): yields at channel ops/selects/go/locks/waits, seeded select priority, canonical map order, os/zmq/rand/signal interposition"},
        {"name": "vcheck", "path": "bin/vcheck", "serves_properties": sorted(checks), "kind_free_text": "driver: scratch copy of /repo, overlay harness, instrument, build, 16 worker processes, aggregate evidence, known-findings matching, replay"},
    ],
    "checks": [],
    "not_applicable": [],
    "notes": meta.get("notes", ""),
}
for p in props:
    pid = p["id"]
    if pid in checks:
        md = meta["checks"][pid]
        m["checks"].append({
            "property_id": pid,
            "quick_cmd": "bin/vcheck %s --tier quick" % pid,
            "thorough_cmd": "bin/vcheck %s --tier thorough" % pid,
            "evidence_file": "evidence/%s.json" % pid,
            "replay_cmd_template": "bin/vcheck replay {path}",
            "engine": "simrt",
            "level_claimed": {"category": md.get("category", "exploration"), "text": md["text"], "design_ref": "DESIGN.md §5 " + pid},
            "level_note": md["note"],
            "technique": md.get("technique", "deterministic simulation with fault injection (seeded schedule/fault search, replayable)"),
        })
    else:
        m["not_applicable"].append({"property_id": pid, "reason": meta["not_applicable"][pid]})
json.dump(m, open(os.path.join(V, "MANIFEST.json"), "w"), indent=1)
print("MANIFEST.json:", len(m["checks"]), "checks,", len(m["not_applicable"]), "not applicable")
