#!/usr/bin/env python3
"""Collects verified seeded changes from /tmp/seed-<id>/out/<n> into /verif/seeded/<id>-<n>/ using the
summary lines of tools/seedcheck.sh (latest line per seed wins; check results are merged)."""
import json, os, re, shutil, sys, glob
logs = sys.argv[1:]
res = {}
for lg in logs:
    for line in open(lg):
        m = re.match(r"SEED (C\d+)-(\d+) demo_clean=(\w+) suite=(\w+) demo_patched=(\w+) (.*)", line.strip())
        if not m:
            continue
        pid, n, dc, suite, dp, rest = m.groups()
        checks = {}
        for cm in re.finditer(r"(C\d+)=(\d+)\[([^\]]*)\]", rest):
            checks[cm.group(1)] = {"exit": int(cm.group(2)), "signatures": [s for s in cm.group(3).split(";") if s]}
        # the verification fields of the latest line win; check results are merged over the lines (a later
        # line may have run other properties' checks against the same change)
        prev = res.get((pid, n), {}).get("checks", {})
        prev.update(checks)
        res[(pid, n)] = dict(demo_clean=dc, suite=suite, demo_patched=dp, checks=prev)
for (pid, n), r in sorted(res.items()):
    off = int(os.environ.get("SEED_OFFSET", "0"))
    src = "%s%s/out/%s" % (os.environ.get("SEED_PREFIX", "/tmp/seed-"), pid, int(n) - off)
    if off and int(n) <= off:
        continue
    if not os.path.isdir(src):
        continue
    ok = r["demo_clean"] == "pass" and r["suite"] == "ok" and r["demo_patched"] == "fail"
    dst = "/verif/seeded/%s-%s" % (pid, n)
    if not ok:
        print("NOT KEPT %s-%s: %s" % (pid, n, r))
        continue
    os.makedirs(dst, exist_ok=True)
    for f in glob.glob(src + "/*"):
        b = os.path.basename(f)
        if b.endswith(".log") or os.path.isdir(f):
            continue
        shutil.copy(f, dst)
    meta = json.load(open(src + "/meta.json"))
    meta["verified_by_coordinator"] = {
        "demo_passes_on_unchanged_tree": True, "pinned_suite_with_patch": "PASS-SET OK (72 baseline tests)",
        "demo_fails_with_patch": True,
        "how": "tools/seedcheck.sh %s %s in a scratch worktree: demo on clean tree, git apply patch.diff, dastard-tests, demo again, then bin/vcheck <property> --tier quick with VERIF_REPO=<worktree>" % (pid, n)}
    meta["checks_run"] = r["checks"]
    meta["detected"] = any(c["exit"] == 1 for c in r["checks"].values())
    json.dump(meta, open(dst + "/meta.json", "w"), indent=1)
    print("%s-%s %s %s" % (pid, n, "DETECTED" if meta["detected"] else "MISSED  ", {k: v["signatures"][:2] for k, v in r["checks"].items()}))
