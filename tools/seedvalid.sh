#!/bin/bash
# seedvalid.sh [seed-dir ...]   (default: every /verif/seeded/*)
# Cheap re-validation of kept seeded changes against /repo's current HEAD: the patch applies, the tree
# builds, and the change's own demonstration still fails with it. (The full verification - suite, demo on the
# clean tree, the registered checks - is tools/seedcheck.sh.) Prints one line per seed.
wt=/tmp/seedvalid-wt
export GOFLAGS=-mod=mod GOPROXY=off GOSUMDB=off
export GOCACHE=$(go env GOCACHE) GOMODCACHE=$(go env GOMODCACHE) GOPATH=$(go env GOPATH)
git -C /repo worktree remove --force $wt 2>/dev/null
git -C /repo worktree add -q --detach $wt HEAD || exit 2
cd $wt
for d in ${@:-/verif/seeded/*}; do
  name=$(basename $d)
  git reset -q --hard; git clean -fdq
  if ! git apply $d/patch.diff 2>/dev/null && ! git apply --3way $d/patch.diff 2>/dev/null; then echo "SEEDVALID $name patch-does-not-apply"; continue; fi
  git reset -q 2>/dev/null
  if ! go build ./... >/dev/null 2>&1; then echo "SEEDVALID $name does-not-build"; continue; fi
  pkg=$(python3 -c "import json;print(json.load(open('$d/meta.json')).get('demo_package_dir','.') or '.')"); pkg=${pkg#./}
  raceflag=""; grep -q -- "-race" $d/meta.json && raceflag="-race"
  for f in $d/*.go; do cp $f $wt/$pkg/zzseed_$(basename $f); done
  SB=$(mktemp -d /var/tmp/seedvalid.XXXXXX); mkdir -p $SB/home $SB/tmp
  HOME=$SB/home TMPDIR=$SB/tmp timeout 600 unshare -n bash -c "ip link set lo up; cd $wt && go test $raceflag -vet=off -count=1 -timeout 300s -run '^TestDemo' ./$pkg" > $SB/log 2>&1
  rc=$?
  if [ $rc -eq 0 ]; then echo "SEEDVALID $name demo-passes(neutral-on-HEAD)"; else
    if grep -q "\[build failed\]\|cannot find\|undefined:" $SB/log; then echo "SEEDVALID $name demo-does-not-build: $(grep -m1 'undefined:\|cannot' $SB/log | cut -c1-120)"; else echo "SEEDVALID $name ok"; fi
  fi
  rm -rf $SB
done
cd /; git -C /repo worktree remove --force $wt
