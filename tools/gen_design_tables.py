#!/usr/bin/env python3
"""Prints the markdown tables of DESIGN.md section 9 (fixes recorded, seeded changes and which checks catch them)
from known_findings.json and seeded/*/meta.json."""
import json, glob, os, re
V = os.path.dirname(os.path.dirname(os.path.abspath(__file__)))
k = json.load(open(os.path.join(V, "known_findings.json")))
print("| # | property | fix commit | what failed (short) |")
print("|---|----------|-----------|---------------------|")
for i, line in enumerate(k["fixed"], 1):
    m = re.match(r"fixed: property=(C\d+) (\w+) (.*)", line)
    prop, sha, what = m.groups()
    what = re.sub(r"\(replays?: [^)]*\)", "", what).strip()
    if len(what) > 230:
        what = what[:227] + "..."
    print("| %d | %s | `%s` | %s |" % (i, prop, sha, what.replace("|", "\\|")))
print()
print("| seeded change | what it does | needs to manifest | caught by (signatures) |")
print("|---------------|--------------|-------------------|------------------------|")
for d in sorted(glob.glob(os.path.join(V, "seeded", "*"))):
    mp = os.path.join(d, "meta.json")
    if not os.path.exists(mp):
        continue
    m = json.load(open(mp))
    name = os.path.basename(d)
    caught = []
    for p, c in sorted((m.get("checks_run") or {}).items()):
        if c["exit"] == 1:
            caught.append("%s: %s" % (p, ", ".join("`%s`" % s for s in c["signatures"][:2])))
    res = "; ".join(caught) if caught else ("not counted: see scope_note in meta.json (%s)" % ("superseded by a later fix" if m.get("superseded_by_fix") else "outside the property's quantifier") if m.get("scope_note") else "**missed**")
    if caught and m.get("superseded_by_fix"):
        res += " (on the tree it was written for; superseded by fix `%s`, see scope_note)" % m["superseded_by_fix"]
    short = lambda s, n: (s if len(s) <= n else s[:n - 3] + "...").replace("|", "\\|").replace("\n", " ")
    print("| %s | %s | %s | %s |" % (name, short(m.get("title", ""), 110), short(m.get("needs_to_manifest", ""), 170), res))
