//go:build verif

package dastard

// C10b, simulated devices of the life-cycle world for the Abaco and Lancero sources.
//
// c10bHW is the hardware's clock: firmware produces data as a function of the *sending time*
// (fake-clock time minus the injected silences), so a silence simply pauses the firmware —
// sequence numbers and frame counters continue where they stopped, no loss is ever injected
// (loss and lag are C03's and C04's subject).
//
// Abaco. c10bPort stands for one UDP port of the host: the operating-system resource. A
// c10bProducer is what AbacoSource.Configure makes for a host:port entry (a receiver object that
// is not bound yet). start() binds the port and fails with "address already in use" while any
// receiver object — this one or an earlier one that was never stopped — still holds it, exactly
// like net.ListenUDP; stop() releases it. stop() on a receiver that is not started panics as the
// real AbacoUDPReceiver.stop does (close of a nil / closed channel). Packets are evaluated lazily
// when the socket is read: everything the firmware sent while the port was bound and that has
// not been read yet (the socket buffer holds the newest c10bSockBuf packets per group).
// Every packet is built with the packets package and goes through Bytes()/ReadPacket().
//
// Lancero. c10bCard implements lancero.Lanceroer with the semantics of the real card as the
// lancero package implements them, not those of the repository's NoHardware stub: StartAdapter
// stops the adapter first (adapter.start calls adapter.stop), ChangeRingBuffer stops it
// (allocateRingBuffer calls stop), StartCollector/StopCollector are register writes that never
// fail unless a fault is injected (below). Frames are whole, in readout order, frame bit on row 0 (NoHardware's layout); bytes stay
// in the ring until released. Wait returns after 20 ms whether or not data arrived (the stub's
// pace; the real Wait blocks in the driver for a threshold interrupt).
//
// Hardware faults on the shutdown path (faulted configuration). A stop request may report an
// error, as the real devices' do: collector.stop is a register write followed by a flushing read
// (either can fail), adapter.stop reports "could not set state RUN|FLUSH" before, or "could not
// set state 0" after, it stopped the DMA engine; AbacoUDPReceiver.stop returns the error of
// conn.Close(). c10bCard.armStopFault makes the n-th StopCollector and/or StopAdapter call from
// now report such an error, either with the component stopped nevertheless (the error concerns
// the confirmation) or with the component still running (the request did not reach the card:
// the component is then "stuck" until the next request that stops or restarts it, and the
// devices-released check does not count it). The fault is over after that one call: every later
// request is obeyed. c10bPort.stopErr makes the next stop() of the bound receiver release the
// port and return an error.

import (
	"bytes"
	"fmt"
	"time"

	"github.com/usnistgov/dastard/packets"

	"verif/simrt"
)

// ---------------------------------------------------------------------------------
// hardware clock

type c10bHW struct {
	env         *simrt.Env
	epoch       time.Time
	silent      bool
	silentSince time.Time
	paused      time.Duration // total length of the finished silences
}

// sending returns the time the firmware has spent sending since the epoch.
func (hw *c10bHW) sending() time.Duration {
	now := time.Now()
	d := now.Sub(hw.epoch) - hw.paused
	if hw.silent {
		d -= now.Sub(hw.silentSince)
	}
	return d
}

func (hw *c10bHW) setSilent(on bool) {
	if on == hw.silent {
		return
	}
	now := time.Now()
	if on {
		hw.silent, hw.silentSince = true, now
		return
	}
	hw.paused += now.Sub(hw.silentSince)
	hw.silent = false
}

// ---------------------------------------------------------------------------------
// Abaco

const c10bSockBuf = 64 // packets per group a bound socket holds

type c10bGroup struct {
	firstChan int
	nchan     int
	wide      bool
	seq0      uint32
}

type c10bPort struct {
	hw      *c10bHW
	id      int
	groups  []*c10bGroup
	fpp     int
	period  time.Duration
	tsStep  uint64
	boundBy *c10bProducer
	lastIdx int64 // index of the newest packet already taken from (or never put into) the socket buffer
	nBinds  int
	// faults
	startErr   error // the next start() fails with this error (port taken by somebody else for a moment)
	readErrNow bool  // the next ReadAllPackets of a bound receiver returns an error
	stopErr    bool  // the next stop() of the bound receiver releases the port and reports an error
	nStopErrs  int
	nPackets   int
}

type c10bProducer struct {
	port    *c10bPort
	gen     int
	started bool
	stopped bool
}

func (pt *c10bPort) indexNow() int64 { return int64(pt.hw.sending() / pt.period) }

func (p *c10bProducer) name() string { return fmt.Sprintf("receiver #%d of port %d", p.gen, p.port.id) }

func (p *c10bProducer) start() error {
	pt := p.port
	if pt.startErr != nil {
		err := pt.startErr
		pt.startErr = nil
		simrt.Fault("producer-start-error")
		pt.hw.env.Op("fault: start of %s fails: %v", p.name(), err)
		return err
	}
	if pt.boundBy != nil {
		simrt.Hit("bind-refused-port-still-bound")
		return fmt.Errorf("listen udp 127.0.0.1:%d: bind: address already in use (simulated; held by receiver #%d)", 4000+pt.id, pt.boundBy.gen)
	}
	pt.boundBy = p
	pt.nBinds++
	p.started, p.stopped = true, false
	pt.lastIdx = pt.indexNow()
	return nil
}

func (p *c10bProducer) stop() error {
	if !p.started || p.stopped {
		// AbacoUDPReceiver.stop: conn.Close() on a nil connection, then close(device.sendmore) of a nil or closed channel
		panic(fmt.Sprintf("close of nil or closed channel: AbacoUDPReceiver.stop on %s, which is not started (simulated)", p.name()))
	}
	p.stopped = true
	if p.port.boundBy == p {
		p.port.boundBy = nil
	}
	if p.port.stopErr {
		p.port.stopErr = false
		p.port.nStopErrs++
		simrt.Fault("producer-stop-error")
		p.port.hw.env.Op("fault: stop of %s releases the port and reports an error", p.name())
		return fmt.Errorf("close udp 127.0.0.1:%d: input/output error (simulated; the socket is closed)", 4000+p.port.id)
	}
	return nil
}

func (p *c10bProducer) bound() bool { return p.started && !p.stopped && p.port.boundBy == p }

// pull returns the indices that are in the socket buffer now.
func (p *c10bProducer) pull() (from, to int64) {
	pt := p.port
	now := pt.indexNow()
	if now-pt.lastIdx > c10bSockBuf {
		pt.lastIdx = now - c10bSockBuf // the buffer overflowed: the oldest packets are gone
	}
	from, to = pt.lastIdx+1, now
	return
}

func (pt *c10bPort) packet(g *c10bGroup, idx int64) *packets.Packet {
	pk := packets.NewPacket(10, uint32(20+pt.id), g.seq0+uint32(idx)-1, g.firstChan) // NewData adds one
	pk.SetTimestamp(&packets.PacketTimestamp{T: 1000 + uint64(idx)*pt.tsStep, Rate: 1e8})
	n := pt.fpp * g.nchan
	var err error
	if g.wide {
		d := make([]int32, n)
		for k := range d {
			d[k] = int32((int(idx)*pt.fpp+k/g.nchan)%500) << 16
		}
		err = pk.NewData(d, []int16{int16(g.nchan)})
	} else {
		d := make([]int16, n)
		for k := range d {
			d[k] = int16((int(idx)*pt.fpp + k/g.nchan) % 500)
		}
		err = pk.NewData(d, []int16{int16(g.nchan)})
	}
	if err != nil {
		simrt.Fail("harness.packet", "harness:packet-build", "NewData: %v", err)
	}
	q, err := packets.ReadPacket(bytes.NewReader(pk.Bytes()))
	if err != nil {
		simrt.Fail("harness.packet", "harness:packet-decode", "ReadPacket of a packet made by Bytes(): %v", err)
	}
	pt.nPackets++
	return q
}

func (p *c10bProducer) take(from, to int64) []*packets.Packet {
	pt := p.port
	var out []*packets.Packet
	for idx := from; idx <= to; idx++ {
		for _, g := range pt.groups {
			out = append(out, pt.packet(g, idx))
		}
	}
	if to > pt.lastIdx {
		pt.lastIdx = to
	}
	return out
}

// samplePackets returns once two or more packets per group are there, or at the deadline with
// whatever there is (the real receiver waits for 100 packets or the deadline).
func (p *c10bProducer) samplePackets(d time.Duration) ([]*packets.Packet, error) {
	deadline := time.Now().Add(d)
	for {
		time.Sleep(25 * time.Millisecond)
		if !p.bound() {
			return nil, nil
		}
		from, to := p.pull()
		if to-from+1 >= 3 {
			return p.take(from, to), nil
		}
		if time.Now().After(deadline) {
			if to-from+1 < 2 {
				// fewer than two packets cannot give a rate: the world never lets the hardware
				// start or stop sending in the middle of a sampling window, so this is "nothing"
				return nil, nil
			}
			return p.take(from, to), nil
		}
	}
}

func (p *c10bProducer) discardStale() error {
	if p.bound() {
		p.port.lastIdx = p.port.indexNow()
	}
	return nil
}

func (p *c10bProducer) ReadAllPackets() ([]*packets.Packet, error) {
	pt := p.port
	if !p.bound() {
		return nil, fmt.Errorf("read udp: use of closed network connection (simulated %s)", p.name())
	}
	if pt.readErrNow {
		pt.readErrNow = false
		simrt.Fault("producer-read-error")
		pt.hw.env.Op("fault: ReadAllPackets of %s returns an error", p.name())
		return nil, fmt.Errorf("simulated read error on %s", p.name())
	}
	from, to := p.pull()
	return p.take(from, to), nil
}

// ---------------------------------------------------------------------------------
// Lancero

type c10bCard struct {
	hw          *c10bHW
	id          int
	rows, cols  int
	framePeriod time.Duration
	isOpen      bool
	adap        bool
	coll        bool
	capAt       time.Duration // hw.sending() when the capture began
	produced    int64         // frames put into the ring since then
	ring        []byte
	rowCount    int
	nAdapStarts int
	nReads      int
	// fault: the hardware goes silent at the moment of this StartAdapter call (0: never)
	silentAtAdapStart int
	// fault: the n-th StopCollector / StopAdapter call from now reports an error (0: none)
	collFaultIn, adapFaultIn int
	faultObeyed              bool // the component stops nevertheless
	collStuck, adapStuck     bool // still running because a faulted stop request did not reach the card
	nStopFaults              int
	phase                    func() string // what the source is doing (for the probes and the replay log)
}

// armStopFault: see the header comment.
func (lc *c10bCard) armStopFault(collIn, adapIn int, obeyed bool) {
	lc.collFaultIn, lc.adapFaultIn, lc.faultObeyed = collIn, adapIn, obeyed
}

func (lc *c10bCard) stopFaultArmed() bool { return lc.collFaultIn > 0 || lc.adapFaultIn > 0 }

// stopFault is called by the two stop requests: true when this call is the faulted one.
func (lc *c10bCard) stopFault(countdown *int, what string) bool {
	if *countdown == 0 {
		return false
	}
	*countdown--
	if *countdown > 0 {
		return false
	}
	lc.nStopFaults++
	ph := "?"
	if lc.phase != nil {
		ph = lc.phase()
	}
	simrt.Fault("card-" + what + "-error")
	simrt.Hit("card-stop-error-while-source-" + ph)
	if lc.faultObeyed {
		simrt.Hit("card-stop-error:component-stopped")
	} else {
		simrt.Hit("card-stop-error:component-keeps-running")
	}
	lc.hw.env.Op("fault: %s of card %d reports an error (source %s; the component %s)", what, lc.id, ph,
		map[bool]string{true: "stops nevertheless", false: "keeps running"}[lc.faultObeyed])
	return true
}

func (lc *c10bCard) frameSize() int { return lc.rows * lc.cols * 4 }

func (lc *c10bCard) begin() {
	lc.ring = lc.ring[:0]
	lc.capAt = lc.hw.sending()
	lc.produced = 0
}

func (lc *c10bCard) ChangeRingBuffer(length, threshold int) error {
	if length <= 0 || length%32 != 0 || threshold <= 0 || threshold*2 > length {
		return fmt.Errorf("c10bCard.ChangeRingBuffer(%d, %d): invalid sizes", length, threshold)
	}
	lc.adap, lc.adapStuck = false, false
	lc.ring = lc.ring[:0]
	return nil
}

func (lc *c10bCard) Close() error {
	lc.isOpen = false
	lc.adap, lc.coll = false, false
	lc.adapStuck, lc.collStuck = false, false
	return nil
}

func (lc *c10bCard) StartAdapter(waitSeconds, verbosity int) error {
	lc.nAdapStarts++
	if lc.silentAtAdapStart > 0 && lc.nAdapStarts == lc.silentAtAdapStart {
		lc.hw.setSilent(true)
		simrt.Fault("silent-after-sampling")
		lc.hw.env.Op("fault: the card stops sending when the run is about to begin (StartAdapter #%d)", lc.nAdapStarts)
	}
	lc.adap, lc.adapStuck = true, false
	lc.begin()
	return nil
}

func (lc *c10bCard) StopAdapter() error {
	if lc.stopFault(&lc.adapFaultIn, "StopAdapter") {
		if !lc.faultObeyed {
			lc.adapStuck = lc.adap
			return fmt.Errorf("adapter.stop() could not set state RUN|FLUSH (simulated card %d)", lc.id)
		}
		lc.adap, lc.adapStuck = false, false
		lc.ring = lc.ring[:0]
		return fmt.Errorf("adapter.stop() could not set state 0 (simulated card %d; the DMA engine is stopped)", lc.id)
	}
	lc.adap, lc.adapStuck = false, false
	lc.ring = lc.ring[:0]
	return nil
}

func (lc *c10bCard) CollectorConfigure(linePeriod, dataDelay int, channelMask uint32, frameLength int) error {
	return nil
}

func (lc *c10bCard) StartCollector(simulate bool) error {
	lc.coll, lc.collStuck = true, false
	lc.begin()
	return nil
}

func (lc *c10bCard) StopCollector() error {
	if lc.stopFault(&lc.collFaultIn, "StopCollector") {
		if !lc.faultObeyed {
			lc.collStuck = lc.coll
			return fmt.Errorf("could not write file /dev/lancero_user%d offset: 0x104, value: 0x0 (simulated)", lc.id)
		}
		lc.coll, lc.collStuck = false, false
		return fmt.Errorf("could not read file /dev/lancero_user%d offset: 0x100 (simulated; the collector is stopped, the flushing read failed)", lc.id)
	}
	lc.coll, lc.collStuck = false, false
	return nil
}

func (lc *c10bCard) Wait() (time.Time, time.Duration, error) {
	time.Sleep(20 * time.Millisecond)
	return time.Now(), 20 * time.Millisecond, nil
}

func (lc *c10bCard) produce() {
	if !lc.adap || !lc.coll {
		return
	}
	want := int64((lc.hw.sending() - lc.capAt) / lc.framePeriod)
	fs := lc.frameSize()
	for ; lc.produced < want; lc.produced++ {
		if len(lc.ring) >= 600*fs {
			continue // the ring is full: the frame is lost (nobody is reading)
		}
		for row := 0; row < lc.rows; row++ {
			for col := 0; col < lc.cols; col++ {
				v := byte(lc.rowCount)
				lc.rowCount++
				fb := byte(0)
				if row == 0 {
					fb = 1
				}
				lc.ring = append(lc.ring, 0x00, v, fb, v)
			}
		}
	}
}

func (lc *c10bCard) AvailableBuffer() ([]byte, time.Time, error) {
	now := time.Now()
	if !lc.isOpen {
		return nil, now, fmt.Errorf("c10bCard.AvailableBuffer: the card is closed")
	}
	if !lc.adap || !lc.coll {
		return nil, now, fmt.Errorf("c10bCard.AvailableBuffer: adapter running=%v collector running=%v", lc.adap, lc.coll)
	}
	lc.nReads++
	lc.produce()
	out := make([]byte, len(lc.ring))
	copy(out, lc.ring)
	return out, now, nil
}

func (lc *c10bCard) ReleaseBytes(nBytes int) error {
	if nBytes < 0 {
		nBytes = 0
	}
	if nBytes > len(lc.ring) {
		nBytes = len(lc.ring) // the ring was reset by a stop in between: the real card just moves its read index
	}
	lc.ring = lc.ring[nBytes:]
	return nil
}

func (lc *c10bCard) InspectAdapter() uint32 { return 0 }

// String keeps spew.Sdump (called by sampleCard on its card) short.
func (lc *c10bCard) String() string { return "c10bCard" }
