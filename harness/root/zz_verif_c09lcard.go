//go:build verif

package dastard

// C09L world, part 1: ground truth and the simulated Lancero card.
//
// c09lTruth is the firmware's data: for every dastard channel c (column-major, error even,
// feedback odd: c = 2*(col*rows+row) [+1]) and every truth frame n a 16-bit value val(c, n) =
// a small ripple that depends on (c, n) plus the pulses planned on that channel. The error
// half of a word is sent as it is, the feedback half is a multiple of 4 with the frame bit
// (bit 0, row 0 only) added by the card; the external-trigger bit stays clear.
//
// c09lCard implements lancero.Lanceroer as a byte ring with read-index accounting (bytes
// stay in the ring until released). Unlike a real card it has no clock of its own: frames
// are produced (a) inside Wait(), which only the start-up code (sampleCard, StartRun) calls,
// and (b) when the harness calls feed(). Every block of the run is therefore exactly what
// was fed since the reader's previous read: one processing cycle per feed, whatever the
// virtual CPU speed of the run. Ingest proper (chunking, losses) is C04's subject.

import (
	"encoding/binary"
	"fmt"
	"time"

	"verif/simrt"
)

type c09lPulse struct {
	start  int // truth frame of the first elevated sample
	height int
}

type c09lTruth struct {
	rows, cols int
	W          int // words per frame
	nchan      int
	pulses     [][]c09lPulse // per channel, in order of start
}

var c09lPulseShape = [...]int{8, 6, 4, 2, 1} // eighths of the height

func c09lNewTruth(rows, cols int) *c09lTruth {
	return &c09lTruth{rows: rows, cols: cols, W: rows * cols, nchan: 2 * rows * cols, pulses: make([][]c09lPulse, 2*rows*cols)}
}

// val is the value channel c carries in truth frame n (feedback: before the one-sample delay).
func (t *c09lTruth) val(c, n int) uint16 {
	r := (n*7 + c*13) % 64
	p := 0
	ps := t.pulses[c]
	for i := len(ps) - 1; i >= 0; i-- {
		d := n - ps[i].start
		if d >= len(c09lPulseShape) {
			if d > 64 {
				break
			}
			continue
		}
		if d >= 0 {
			p += ps[i].height * c09lPulseShape[d] / 8
		}
	}
	if c%2 == 0 {
		return uint16(int16(r - 32 + p))
	}
	return uint16(8000+4*r+4*p) &^ 3
}

type c09lCard struct {
	env         *simrt.Env
	truth       *c09lTruth
	frameSize   int
	framePeriod time.Duration
	waitFrames  int

	isOpen      bool
	adapRunning bool
	collRunning bool
	captures    int // times the collector was started

	ring      []byte // produced and unreleased bytes
	ringStart int64  // truth byte offset of ring[0]
	visible   int    // bytes handed out by AvailableBuffer and not yet released
	next      int64  // truth byte offset of the next byte the firmware produces

	runFirstFrame int // truth frame at the read index after the run's alignment release (-1: not yet)
	nReads        int
}

func c09lNewCard(env *simrt.Env, truth *c09lTruth, framePeriod time.Duration) *c09lCard {
	return &c09lCard{env: env, truth: truth, frameSize: 4 * truth.W, framePeriod: framePeriod, waitFrames: 20, isOpen: true, runFirstFrame: -1}
}

func (lc *c09lCard) capturing() bool { return lc.adapRunning && lc.collRunning }

func (lc *c09lCard) resetRing() {
	lc.ring = nil
	lc.ringStart = lc.next
	lc.visible = 0
}

// beginCapture: the firmware cycles through its rows all the time, so a capture begins at a
// drawn word inside a frame.
func (lc *c09lCard) beginCapture() {
	if !lc.capturing() {
		return
	}
	fs := int64(lc.frameSize)
	frame := (lc.next + fs - 1) / fs
	phase := simrt.Draw(lc.truth.W)
	lc.next = frame*fs + int64(4*phase)
	lc.resetRing()
	lc.env.Op("card: capture #%d starts at frame %d word %d", lc.captures, frame, phase)
}

func (lc *c09lCard) produce(nbytes int) {
	t := lc.truth
	old := len(lc.ring)
	lc.ring = append(lc.ring, make([]byte, nbytes)...)
	for off := 0; off < nbytes; off += 4 {
		k := (lc.next + int64(off)) / 4
		n := int(k / int64(t.W))
		idx := int(k % int64(t.W))
		row, col := idx/t.cols, idx%t.cols
		c := 2 * (col*t.rows + row)
		fb := t.val(c+1, n)
		if row == 0 {
			fb |= 1
		}
		binary.LittleEndian.PutUint16(lc.ring[old+off:], t.val(c, n))
		binary.LittleEndian.PutUint16(lc.ring[old+off+2:], fb)
	}
	lc.next += int64(nbytes)
}

// nextFrame is the truth frame the next feed starts with (the ring always ends on a frame boundary
// once a capture is under way: production is in whole frames after the first partial one).
func (lc *c09lCard) nextFrame() int { return int((lc.next + int64(lc.frameSize) - 1) / int64(lc.frameSize)) }

// feed makes the firmware send k more whole frames.
func (lc *c09lCard) feed(k int) {
	if !lc.capturing() {
		simrt.Fail("harness.card", "harness:feed-while-stopped", "feed on a card that is not capturing")
	}
	lc.produce(k * lc.frameSize)
}

func (lc *c09lCard) ChangeRingBuffer(length, threshold int) error {
	if length <= 0 || length%32 != 0 || threshold <= 0 || threshold*2 > length {
		return fmt.Errorf("c09lCard.ChangeRingBuffer(%d, %d): invalid sizes", length, threshold)
	}
	lc.adapRunning = false
	lc.resetRing()
	return nil
}

func (lc *c09lCard) Close() error {
	lc.isOpen = false
	return nil
}

func (lc *c09lCard) StartAdapter(waitSeconds, verbosity int) error {
	if lc.adapRunning {
		return fmt.Errorf("c09lCard.StartAdapter: already started")
	}
	lc.adapRunning = true
	lc.beginCapture()
	return nil
}

func (lc *c09lCard) StopAdapter() error {
	if !lc.adapRunning {
		return fmt.Errorf("c09lCard.StopAdapter: not started")
	}
	lc.adapRunning = false
	lc.resetRing()
	return nil
}

func (lc *c09lCard) CollectorConfigure(linePeriod, dataDelay int, channelMask uint32, frameLength int) error {
	return nil
}

func (lc *c09lCard) StartCollector(simulate bool) error {
	if lc.collRunning {
		return fmt.Errorf("c09lCard.StartCollector: started already")
	}
	lc.collRunning = true
	lc.captures++
	lc.beginCapture()
	return nil
}

func (lc *c09lCard) StopCollector() error {
	if !lc.collRunning {
		return fmt.Errorf("c09lCard.StopCollector: stopped already")
	}
	lc.collRunning = false
	return nil
}

// Wait: the time it takes the firmware to send waitFrames frames passes. Called by the start-up
// code only (the run's reader is driven by its own ticker).
func (lc *c09lCard) Wait() (time.Time, time.Duration, error) {
	d := time.Duration(lc.waitFrames) * lc.framePeriod
	time.Sleep(d)
	if lc.capturing() {
		// complete the partial first frame of the capture, then whole frames
		part := int((int64(lc.frameSize) - lc.next%int64(lc.frameSize)) % int64(lc.frameSize))
		lc.produce(part + lc.waitFrames*lc.frameSize)
	}
	return time.Now(), d, nil
}

func (lc *c09lCard) AvailableBuffer() ([]byte, time.Time, error) {
	now := time.Now()
	if !lc.adapRunning || !lc.collRunning || !lc.isOpen {
		return nil, now, fmt.Errorf("c09lCard.AvailableBuffer: not capturing")
	}
	lc.nReads++
	lc.visible = len(lc.ring)
	out := make([]byte, len(lc.ring))
	copy(out, lc.ring)
	return out, now, nil
}

func (lc *c09lCard) ReleaseBytes(nBytes int) error {
	if nBytes < 0 || nBytes > lc.visible {
		simrt.Fail("harness.card", "harness:driver-contract", "ReleaseBytes(%d) with %d bytes handed out and unreleased (C04's subject)", nBytes, lc.visible)
	}
	lc.ring = lc.ring[nBytes:]
	lc.ringStart += int64(nBytes)
	lc.visible -= nBytes
	if lc.captures >= 2 && lc.runFirstFrame < 0 {
		// the alignment release of StartRun: the read index now stands at the first frame of the run
		if lc.ringStart%int64(lc.frameSize) != 0 {
			simrt.Fail("harness.card", "harness:run-not-frame-aligned", "after StartRun's release the read index is at byte %d, not a frame boundary (C04's subject)", lc.ringStart)
		}
		lc.runFirstFrame = int(lc.ringStart / int64(lc.frameSize))
	}
	return nil
}

func (lc *c09lCard) InspectAdapter() uint32 { return 0 }

// String keeps spew.Sdump (called by sampleCard on its card) short.
func (lc *c09lCard) String() string { return "c09lCard" }
