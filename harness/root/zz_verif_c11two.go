//go:build verif

package dastard

// C11, second client. net/rpc serves every connection on its own goroutine, so a second client
// (a GUI next to a script) acts concurrently with the first. In a third of the runs some of the
// requests of the workload are replaced by an episode in which a second client task calls Stop or
// Start while the first client's request is queued, executing, or about to be issued:
//
//   concurrentStop   client A issues an ordinary request, client B calls Stop at a drawn moment
//                    (at once / when the core loop enters A's request / when a block is being
//                    processed / a fraction of a block later, plus 0-5 scheduler steps)
//   concurrentStart  (sources started through the real Start method) client B calls Start, which
//                    is slow in this episode (Lancero samples its card for 200 ms; for Triangle and
//                    SimPulse a configuration save is simulated by holding viperMutex, on which
//                    PrepareRun waits), client A issues 1-3 ordinary requests meanwhile
//
// Oracle: both clients' calls return within the bound. While the calls overlap either order is
// accepted, i.e. A's reply is free; B's Stop on a healthy source and B's Start on an inactive one
// must succeed (A's overlapping requests are never Start/Stop). What the world knows afterwards is
// decided from both clients' completed calls: after B's Stop no source is running, after B's Start
// a source is running and every rule of the single-client oracle applies again — in particular a
// well-formed request must not be answered "no source is active", and blocks keep being processed.

import (
	"time"

	"verif/simrt"
)

// callB issues one call of the second client with its own 20 s watchdog.
func (c *c11World) callB(kind string, do func() error) error {
	done := make(chan struct{})
	go func() {
		if simrt.IdleTimeout(done, 20*time.Second) {
			simrt.Note("C11.returns", "hang:second-client:"+kind+":during-"+c.callKind, "%s of the second client did not return within 20 s of simulated time (first client's request around it: %s, entered by the core loop: %v); tasks: %v", kind, c.callKind, c.callEntered, simrt.AliveTaskInfo())
		}
	}()
	err := do()
	close(done)
	reply := "<nil>"
	if err != nil {
		reply = err.Error()
	}
	c.env.Op("second client: %s -> %s", kind, reply)
	return err
}

// ordinaryRequest draws a request that is neither Start nor Stop.
func (c *c11World) ordinaryRequest(preferLengthChange bool) *c11Req {
	if preferLengthChange && simrt.Draw(3) == 0 {
		return c.reqLengthsFam(1)
	}
	for i := 0; i < 6; i++ {
		// (nor a configuration request: whether it meets the source before or after the other client's
		// Start / Stop decides what the next run looks like)
		if r := c.drawRequest(); r.kind != "Start" && r.kind != "Stop" && !r.config {
			return r
		}
	}
	return c.reqSendAll()
}

func (c *c11World) twoClientEpisode() bool {
	switch st := c.state(); {
	case st == c11Healthy && c.endReq == 0:
		c.concurrentStop()
		return true
	case st == c11Down && c.kind != 0:
		c.concurrentStart()
		return true
	}
	return false
}

func (c *c11World) concurrentStop() {
	r := c.ordinaryRequest(true)
	trigger, steps := simrt.Draw(4), simrt.Draw(6)
	entered := make(chan struct{})
	c.enteredSignal = entered
	var proc chan struct{}
	if trigger == 2 {
		proc = make(chan struct{})
		c.procSignal = proc
	}
	delay := c.blockTime * time.Duration(1+simrt.Draw(10)) / 10
	bDone := make(chan error, 1)
	go func() {
		tm := time.NewTimer(time.Second)
		switch trigger {
		case 1:
			select {
			case <-entered:
			case <-tm.C:
			}
		case 2:
			select {
			case <-proc:
			case <-tm.C:
			}
		case 3:
			time.Sleep(delay)
		}
		tm.Stop()
		for k := steps; k > 0; k-- {
			simrt.Gosched()
		}
		switch {
		case c.callActive && c.callEntered:
			simrt.Hit("second-client-stop-while-request-executing")
		case c.callActive:
			simrt.Hit("second-client-stop-while-request-queued")
		default:
			simrt.Hit("second-client-stop-around-request")
		}
		var dummy string
		var ok bool
		bDone <- c.callB("Stop", func() error { return c.sc.Stop(&dummy, &ok) })
	}()
	wasHealthy := c.state() == c11Healthy
	c.overlap = true
	c.call(r)
	errB := <-bDone
	c.overlap = false
	c.enteredSignal, c.procSignal = nil, nil
	ended := c.termSent
	switch {
	case errB == nil:
		if c.up {
			c.noteDown(false)
		}
		c.stopHardware()
	case wasHealthy && !ended:
		simrt.Fail("C11.reply-kind", "reply:error-for-valid:Stop(second client)", "the second client's Stop on a running source was answered %q while the first client's %s(%s) was in flight", errB.Error(), r.kind, r.desc)
	}
}

// c11HoldConfigSave, when set by an optional harness file (see //verif:requires), takes (true) or
// releases (false) the lock a configuration save holds, which makes a Start in progress slow.
var c11HoldConfigSave func(hold bool)

func (c *c11World) concurrentStart() {
	// a stale flag would make Start refuse (as in startMain)
	for deadline := time.Now().Add(10 * time.Second); c.state() != c11Down && time.Now().Before(deadline); {
		time.Sleep(time.Millisecond)
	}
	if c.state() != c11Down {
		return
	}
	var ok bool
	var dummy string
	c.sc.SendAllStatus(&dummy, &ok)
	c.ensureConfigured()
	if c.kind != 3 && c11HoldConfigSave != nil {
		// A configuration save in progress: PrepareRun waits for it. The save takes its own time, whatever
		// the clients do meanwhile (with one request served at a time, client A's requests below wait for
		// B's Start, so the save must not wait for them).
		saveTakes := time.Duration(20+simrt.Draw(400)) * time.Millisecond
		saving := make(chan struct{})
		go func() {
			c11HoldConfigSave(true)
			close(saving)
			time.Sleep(saveTakes)
			c11HoldConfigSave(false)
		}()
		<-saving
	}
	bDone := make(chan error, 1)
	name := c.name
	go func() {
		var ok2 bool
		bDone <- c.callB("Start", func() error { return c.sc.Start(&name, &ok2) })
	}()
	c.overlap = true
	n := 1 + simrt.Draw(3)
	for i := 0; i < n; i++ {
		if simrt.Draw(2) == 0 {
			time.Sleep(time.Duration(5+simrt.Draw(60)) * time.Millisecond)
		} else {
			for k := simrt.Draw(8); k > 0; k-- {
				simrt.Gosched()
			}
		}
		if c.main.GetState() == Starting {
			simrt.Hit("request-while-start-in-progress")
		}
		c.call(c.ordinaryRequest(false))
	}
	errB := <-bDone
	c.overlap = false
	if errB != nil {
		simrt.Fail("C11.reply-kind", "reply:error-for-valid:Start(second client)", "the second client's Start of the inactive, configured %s source was answered %q", c.name, errB.Error())
	}
	c.noteStarted(c.main, c.nchanMain, false)
	// requests of the first client may have been executed by the new run already: what they left is not known
	c.writing, c.lenKnown, c.emt, c.emtShort, c.projAsked, c.offMaybe = c11WUnknown, false, true, true, true, true
	c.env.Op("start %s by the second client (#%d, %d channels)", c.name, c.starts, c.nchanMain)
}
