//go:build verif

package dastard

// C01 (records are exact, correctly labelled excerpts) and C02 (no pulse lost or
// invented across block edges): pipeline world, DESIGN §5.

import (
	"fmt"
	"sort"
	"time"

	"github.com/spf13/viper"

	"verif/simrt"
)

func init() {
	real := []string{"Start/CoreLoop/ProcessSegments", "DataStreamProcessor (append, trigger, analyze, trim)", "TriggerBroker", "DataPublisher (publish path)",
		"SourceControl RPC methods (ConfigureTriggers, ConfigurePulseLengths, group coupling, Stop)", "saveState + viper restore of the TRIGGER topic"}
	stub := []string{"hardware (ScriptedSource feeding harness-made blocks)", "ZMQ record/summary publishers (sinks on the same channels)", "status publisher (sink on clientMessageChan)", "net/rpc transport (methods called directly)"}
	simrt.Register(&simrt.Check{Name: "C01", Property: "C01", Body: func(env *simrt.Env) { pipeBody(env, "C01") }, Classify: classify, Real: real, Stub: stub})
	simrt.Register(&simrt.Check{Name: "C02", Property: "C02", Body: func(env *simrt.Env) { pipeBody(env, "C02") }, Classify: classify, Real: real, Stub: stub})
}

// epoch is a period during which one channel's settings were constant.
type epoch struct {
	from     int // first sample index delivered after the settings took effect
	recFrom  int // index into the channel's observed record list
	ts       TriggerState
	npre     int
	nsamp    int
	groupRx  bool // channel may receive secondary triggers in this epoch
	lengthOK bool
}

type chanObs struct {
	// block tables of the run the records come from (nil: the world's)
	blockFirst []int
	blockStamp []time.Time
	recs   []recObs
	epochs []epoch
}

func drawLengths() (nsamp, npre int) {
	nsamp = []int{8, 10, 16, 25, 50, 120, 400}[simrt.Draw(7)]
	switch simrt.Draw(4) {
	case 0:
		npre = 4
	case 1:
		npre = nsamp - 4
	case 2:
		npre = nsamp / 2
	default:
		npre = 4 + simrt.Draw(nsamp-7)
	}
	return
}

// drain waits until the sinks have taken everything published so far.
func (w *pipeWorld) drain() {
	for i := 0; len(PubRecordsChan) > 0 || len(PubSummariesChan) > 0 || len(clientMessageChan) > 0; i++ {
		time.Sleep(20 * time.Microsecond)
		if i > 200000 {
			simrt.Fail("harness.drain", "harness:drain", "sinks never drained")
		}
	}
}

func (w *pipeWorld) perChannel() []chanObs {
	out := make([]chanObs, w.nchan)
	for _, r := range w.sk.recs {
		c := r.rec.channelIndex
		if c < 0 || c >= w.nchan {
			simrt.Fail("C01.channel-index", "record:bad-channel-index", "record with channelIndex %d (nchan %d)", c, w.nchan)
		}
		out[c].recs = append(out[c].recs, r)
	}
	return out
}

func (w *pipeWorld) recCount(c int) int {
	n := 0
	for _, r := range w.sk.recs {
		if r.rec.channelIndex == c {
			n++
		}
	}
	return n
}

func pipeBody(env *simrt.Env, prop string) {
	nchan := 1 + simrt.Draw(4)
	nsamp, npre := drawLengths()
	rate := 10000.0
	w := newPipeWorld(env, nchan, npre, nsamp, rate)
	resetViper(env.Dir)
	for c := range w.signed {
		w.signed[c] = simrt.Draw(2) == 0
	}
	w.F0 = FrameIndex([]int64{0, 1, 12345, 1 << 33, 1 << 52}[simrt.Draw(5)])
	w.T0 = time.Now().Add(time.Duration(simrt.Draw(1000)) * time.Millisecond)
	if simrt.Draw(2) == 1 {
		// block stamps with read-out jitter / clock skew: each block off its nominal time by its own amount
		jit := make(map[int]time.Duration)
		amp := int64(w.period) * int64(1+simrt.Draw(3))
		w.stampJitter = func(b int) time.Duration {
			if _, ok := jit[b]; !ok {
				jit[b] = time.Duration(int64(simrt.Draw(int(2*amp))) - amp + int64(b%7) + 1)
			}
			return jit[b]
		}
	}

	total := nsamp * (6 + simrt.Draw(30))
	if total > 12000 {
		total = 12000
	}
	blocks := genPartition(total, nsamp)
	if len(blocks) > 120 {
		// cap the number of blocks: merge the tail
		rest := 0
		for _, n := range blocks[120:] {
			rest += n
		}
		blocks = append(blocks[:120], rest)
	}
	edges := edgesOf(blocks)
	w.edges = map[int]bool{}
	for _, e := range edges {
		w.edges[e] = true
	}
	specs := make([]streamSpec, nchan)
	w.stream = make([][]RawType, nchan)
	for c := 0; c < nchan; c++ {
		w.stream[c], specs[c] = genStream(total, edges, w.signed[c], nsamp)
	}
	env.Op("pipeline nchan=%d nsamp=%d npre=%d total=%d blocks=%d F0=%d signed=%v", nchan, nsamp, npre, total, len(blocks), w.F0, w.signed)

	allowEMT := prop == "C01"
	history := simrt.Draw(4)
	obs := make([]chanObs, nchan)
	curTS := make([]TriggerState, nchan)

	genTS := func(c int) TriggerState {
		if allowEMT && simrt.Draw(3) == 0 {
			return genEMTState(specs[c], w.signed[c], nsamp, npre)
		}
		return genTriggerState(specs[c], w.signed[c], nsamp, rate, true)
	}

	// ---- history 1: settings restored from the saved configuration before Start
	if history == 1 {
		var fts []FullTriggerState
		for c := 0; c < nchan; c++ {
			ts := genTriggerState(specs[c], w.signed[c], nsamp, rate, true)
			fts = append(fts, FullTriggerState{ChannelIndices: []int{c}, TriggerState: ts})
		}
		saveState(map[string]interface{}{"TRIGGER": fts})
		resetViper(env.Dir)
		if err := viper.ReadInConfig(); err != nil {
			simrt.Fail("harness.viper", "harness:viper", "cannot read the saved configuration back: %v", err)
		}
		simrt.Hit("start-with-restored-triggers")
		env.Op("restore trigger settings from the saved configuration")
	}
	if err := w.startScripted(); err != nil {
		simrt.Fail("harness.start", "harness:start", "Start failed: %v", err)
	}
	// settings in force at start = what the server reports
	for _, f := range w.ss.ComputeFullTriggerState() {
		for _, c := range f.ChannelIndices {
			curTS[c] = f.TriggerState
		}
	}
	for c := 0; c < nchan; c++ {
		obs[c].epochs = append(obs[c].epochs, epoch{from: 0, recFrom: 0, ts: curTS[c], npre: npre, nsamp: nsamp})
	}

	configure := func(c int, ts TriggerState) {
		var ok bool
		st := FullTriggerState{ChannelIndices: []int{c}, TriggerState: ts}
		err := w.sc.ConfigureTriggers(&st, &ok)
		env.Op("ConfigureTriggers chan=%d %s -> %v", c, tsString(&ts), err)
		if err != nil {
			return
		}
		w.drain()
		curTS[c] = st.TriggerState
		obs[c].epochs = append(obs[c].epochs, epoch{from: w.sent, recFrom: w.recCount(c), ts: st.TriggerState, npre: w.npre, nsamp: w.nsamp})
	}
	if history != 1 {
		for c := 0; c < nchan; c++ {
			configure(c, genTS(c))
		}
	}

	// group-trigger connections (C01 only): a few random pairs
	groupOn := false
	if prop == "C01" && nchan >= 2 && simrt.Draw(3) == 0 {
		conns := map[int][]int{}
		for i := 0; i < 1+simrt.Draw(3); i++ {
			s, r := simrt.Draw(nchan), simrt.Draw(nchan)
			conns[s] = append(conns[s], r)
		}
		var ok bool
		err := w.sc.AddGroupTriggerCoupling(GroupTriggerState{Connections: conns}, &ok)
		env.Op("AddGroupTriggerCoupling %v -> %v", conns, err)
		groupOn = true
	}
	_ = groupOn
	// C02 with group triggering: channel 0 triggers on its own (auto only) and every other channel
	// receives its triggers as secondaries. Secondaries are no triggers of the receiving channel: its own
	// edge/level/auto triggering must be as sound and complete as without them.
	c02Group := false
	if prop == "C02" && nchan >= 2 && history < 2 && simrt.Draw(3) == 0 {
		c02Group = true
		configure(0, TriggerState{AutoTrigger: true, AutoDelay: time.Duration(float64(nsamp+simrt.Draw(3*nsamp)) / rate * float64(time.Second)), EdgeLevel: 100, EdgeRising: true, LevelLevel: 4000})
		obs[0].epochs = obs[0].epochs[len(obs[0].epochs)-1:]
		obs[0].epochs[0].from, obs[0].epochs[0].recFrom = 0, 0
		conns := map[int][]int{0: nil}
		for c := 1; c < nchan; c++ {
			conns[0] = append(conns[0], c)
		}
		var ok bool
		if err := w.sc.AddGroupTriggerCoupling(GroupTriggerState{Connections: conns}, &ok); err != nil {
			simrt.Fail("harness.group", "harness:group", "AddGroupTriggerCoupling %v: %v", conns, err)
		}
		env.Op("group triggering: channel 0 (auto only) -> all other channels")
		simrt.Hit("group-triggered-receivers-with-own-triggers")
	}

	// when (in blocks) mid-run requests happen
	reconfAt := -1
	if history >= 2 && len(blocks) > 4 {
		reconfAt = 2 + simrt.Draw(len(blocks)-3)
	}
	// a request the server refuses (invalid edge-multi settings; invalid lengths) is no reconfiguration:
	// nothing about the triggering may change
	refuseAt := -1
	if len(blocks) > 3 && simrt.Draw(3) == 0 {
		refuseAt = 1 + simrt.Draw(len(blocks)-2)
	}
	for bi, n := range blocks {
		if bi == refuseAt {
			w.sync()
			w.drain()
			var ok bool
			var err error
			what := ""
			if simrt.Draw(2) == 0 {
				bad := TriggerState{EdgeMulti: true, EdgeRising: true, AutoDelay: 250 * time.Millisecond}
				bad.EdgeMultiLevel = 100
				bad.EdgeMultiVerifyNMonotone = w.nsamp + 5 // more than the post-trigger length: invalid
				c := simrt.Draw(nchan)
				err = w.sc.ConfigureTriggers(&FullTriggerState{ChannelIndices: []int{c}, TriggerState: bad}, &ok)
				what = fmt.Sprintf("ConfigureTriggers chan=%d with invalid edge-multi settings", c)
			} else {
				err = w.sc.ConfigurePulseLengths(SizeObject{Nsamp: w.npre, Npre: w.npre + 2}, &ok)
				what = "ConfigurePulseLengths with pre-trigger longer than the record"
			}
			env.Op("%s -> %v", what, err)
			if err == nil {
				simrt.Fail("harness.refused", "harness:invalid-request-accepted", "%s was accepted", what)
			}
			w.drain()
			simrt.Hit("refused-request-mid-run")
		}
		if bi == reconfAt {
			w.sync()
			w.drain()
			if history == 2 {
				// pulse-length request: unchanged or changed
				ns, np := w.nsamp, w.npre
				if simrt.Draw(2) == 0 {
					ns, np = drawLengths()
					simrt.Hit("pulse-length-request-with-change")
				} else {
					simrt.Hit("pulse-length-request-without-change")
				}
				var ok bool
				err := w.sc.ConfigurePulseLengths(SizeObject{Nsamp: ns, Npre: np}, &ok)
				env.Op("ConfigurePulseLengths nsamp=%d npre=%d -> %v", ns, np, err)
				w.drain()
				if err == nil && (ns != w.nsamp || np != w.npre) {
					w.nsamp, w.npre = ns, np
					for c := 0; c < nchan; c++ {
						obs[c].epochs = append(obs[c].epochs, epoch{from: w.sent, recFrom: w.recCount(c), ts: curTS[c], npre: np, nsamp: ns})
					}
				}
			} else {
				c := simrt.Draw(nchan)
				configure(c, genTS(c))
				simrt.Hit("reconfiguration-with-data-retained")
			}
		}
		if n < npre {
			simrt.Hit("block-shorter-than-pretrigger")
		}
		if n == 1 {
			simrt.Hit("block-of-one-sample")
		}
		w.feedBlock(n, nil)
		if simrt.Draw(4) == 0 {
			w.sync()
		}
	}
	w.sync()
	w.drain()
	w.stop()
	w.drain()

	// ---- oracles
	per := w.perChannel()
	nrec := 0
	src := map[FrameIndex]int{} // group mode: frames of channel 0's (primary) records
	if c02Group {
		for _, ro := range per[0].recs {
			src[ro.rec.trigFrame]++
		}
	}
	for c := 0; c < nchan; c++ {
		obs[c].recs = per[c].recs
		nrec += len(obs[c].recs)
		checkExcerpts(w, c, &obs[c])
		if prop == "C02" {
			if c02Group && c > 0 {
				// one record per source trigger is a secondary; what remains are the channel's own triggers
				left := map[FrameIndex]int{}
				for f, n := range src {
					left[f] = n
				}
				var own []recObs
				for _, ro := range obs[c].recs {
					if left[ro.rec.trigFrame] > 0 {
						left[ro.rec.trigFrame]--
						continue
					}
					own = append(own, ro)
				}
				missing := 0
				for _, n := range left {
					missing += n
				}
				if missing > 0 {
					// a secondary can only be cut when the receiver still holds the samples around it; the
					// very first and last triggers of a run may lack them. More than that is C09's business.
					simrt.Hit("secondary-not-cut")
				}
				// (which of two records at one frame was the secondary is unknowable and irrelevant: order by frame)
				sort.SliceStable(own, func(i, j int) bool { return own[i].rec.trigFrame < own[j].rec.trigFrame })
				obs[c].recs = own
			}
			checkTriggers(w, c, &obs[c], total)
		}
	}
	if len(w.sk.sumRecs) != len(w.sk.recs) {
		simrt.Fail("C01.summary-channel", "record:summary-count", "%d records on the record channel but %d on the summary channel", len(w.sk.recs), len(w.sk.sumRecs))
	}
	env.Sample(map[string]interface{}{"nchan": nchan, "nsamp": nsamp, "npre": npre, "samples_per_channel": total, "blocks": len(blocks),
		"history":     []string{"fresh+ConfigureTriggers", "restored-config", "fresh+ConfigurePulseLengths", "fresh+reconfigure"}[history],
		"trigger_ch0": tsString(&obs[0].epochs[len(obs[0].epochs)-1].ts), "stream_ch0": fmt.Sprintf("kind=%d base=%d noise=%d %v", specs[0].kind, specs[0].baseline, specs[0].noise, specs[0].features),
		"records": nrec})
}

func epochOfRec(o *chanObs, idx int) *epoch {
	e := &o.epochs[0]
	for i := range o.epochs {
		if o.epochs[i].recFrom <= idx {
			e = &o.epochs[i]
		}
	}
	return e
}

// checkExcerpts is C01's oracle for one channel.
func checkExcerpts(w *pipeWorld, c int, o *chanObs) {
	s := w.stream[c]
	for idx, ro := range o.recs {
		r := ro.rec
		e := epochOfRec(o, idx)
		k := int(r.trigFrame - w.F0)
		L := len(r.data)
		variable := e.ts.EdgeMulti && e.ts.EMTState.mode == EMTRecordsVariableLength
		if variable {
			if r.presamples < 0 || r.presamples > e.npre || L-r.presamples < 1 || L-r.presamples > e.nsamp-e.npre {
				simrt.Fail("C01.lengths", "record:variable-length-out-of-range", "chan %d record %d: len=%d presamples=%d with configured nsamp=%d npre=%d", c, idx, L, r.presamples, e.nsamp, e.npre)
			}
		} else if L != e.nsamp || r.presamples != e.npre {
			simrt.Fail("C01.lengths", "record:wrong-length", "chan %d record %d (frame %d): len=%d presamples=%d, configured nsamp=%d npre=%d", c, idx, r.trigFrame, L, r.presamples, e.nsamp, e.npre)
		}
		lo := k - r.presamples
		if lo < 0 || lo+L > w.sent {
			simrt.Fail("C01.range", "record:outside-delivered-stream", "chan %d record %d: trigger sample %d, window [%d,%d) but %d samples delivered", c, idx, k, lo, lo+L, w.sent)
		}
		for i := 0; i < L; i++ {
			if r.data[i] != s[lo+i] {
				simrt.Fail("C01.samples", "record:samples-differ", "chan %d record %d (trigger sample %d, frame %d): data[%d]=%d but the source delivered %d at that position", c, idx, k, r.trigFrame, i, r.data[i], s[lo+i])
			}
		}
		// The record was cut while some block b was the newest one delivered: b holds the record's last
		// sample or comes later, and had been delivered when the sink saw the record. The time the block
		// stamps assign to sample k is stamp(b) + (k - first(b)) * period for that b.
		okTime := false
		var cands []time.Time
		// (ro.cycle counts hand-overs the producer task has completed; the block being processed may
		// not be counted yet, hence <=)
		bFirst, bStamp := w.blockFirst, w.blockStamp
		if o.blockFirst != nil {
			bFirst, bStamp = o.blockFirst, o.blockStamp
		}
		for b := 0; b < len(bFirst) && b <= ro.cycle; b++ {
			end := w.sent
			if b+1 < len(bFirst) {
				end = bFirst[b+1]
			}
			if end < lo+L {
				continue // the record's last sample had not been delivered yet
			}
			want := bStamp[b].Add(time.Duration(k-bFirst[b]) * w.period)
			cands = append(cands, want)
			if r.trigTime.Equal(want) {
				okTime = true
				break
			}
		}
		if !okTime {
			simrt.Fail("C01.time", "record:wrong-time", "chan %d record %d: trigger sample %d stamped %v, but the block time stamps give %v (one per block that could have been the newest when the record was cut)", c, idx, k, r.trigTime, cands)
		}
		if w.stampJitter != nil {
			simrt.Hit("record-with-jittered-block-stamps")
		}
		if r.signed != w.signed[c] {
			simrt.Fail("C01.signed", "record:wrong-signedness", "chan %d record %d: signed=%v, channel is %v", c, idx, r.signed, w.signed[c])
		}
		if k-lo <= 3 || lo+L-k <= 3 {
			simrt.Hit("short-side-record")
		}
		if L > 0 && (s[lo] == 0 || s[lo] == 65535) {
			simrt.Hit("record-with-extreme-sample")
		}
	}
}

// checkTriggers is C02's oracle for one channel (non-EMT settings only).
func checkTriggers(w *pipeWorld, c int, o *chanObs, total int) {
	s := w.stream[c]
	signed := w.signed[c]
	var trig []int // all trigger sample indices, in emission order
	for _, ro := range o.recs {
		trig = append(trig, int(ro.rec.trigFrame-w.F0))
	}
	sorted := append([]int(nil), trig...)
	sort.Ints(sorted)
	hasTrigIn := func(lo, hi int) bool { // any emitted trigger t with lo <= t <= hi
		i := sort.SearchInts(sorted, lo)
		return i < len(sorted) && sorted[i] <= hi
	}
	for ei := range o.epochs {
		e := &o.epochs[ei]
		ts := &e.ts
		recTo := len(o.recs)
		sampTo := total
		if ei+1 < len(o.epochs) {
			recTo = o.epochs[ei+1].recFrom
			sampTo = o.epochs[ei+1].from
		}
		autoD := int(ts.AutoDelay.Seconds()*w.rate + 0.5)
		if autoD < e.nsamp {
			autoD = e.nsamp
		}
		// (1) soundness and (4) no overlap, over the records emitted in this epoch
		prev := -1 << 40
		for idx := e.recFrom; idx < recTo; idx++ {
			k := trig[idx]
			ok := (ts.EdgeTrigger && edgeCrit(s, k, signed, ts)) || (ts.LevelTrigger && levelCrit(s, k, signed, ts))
			if !ok && ts.AutoTrigger && (idx == e.recFrom || k-prev >= autoD) {
				ok = true
			}
			if !ok {
				simrt.Fail("C02.sound", "trigger:unsound", "chan %d: record at sample %d (frame %d) satisfies no enabled criterion (%s; previous trigger %d)", c, k, o.recs[idx].rec.trigFrame, tsString(ts), prev)
			}
			if ts.EdgeTrigger && !ts.LevelTrigger && !ts.AutoTrigger && idx > e.recFrom && k-prev < e.nsamp {
				simrt.Fail("C02.no-overlap", "trigger:edge-overlap", "chan %d: edge-only triggers at samples %d and %d are closer than one record (%d)", c, prev, k, e.nsamp)
			}
			prev = k
		}
		// completeness over the interior of the epoch
		old := e.nsamp
		if ei > 0 && o.epochs[ei-1].nsamp > old {
			old = o.epochs[ei-1].nsamp
		}
		lo := e.from + 2*old + 10
		if ei == 0 {
			lo = e.npre
			if lo < 3 {
				lo = 3
			}
		}
		hi := total - 2*e.nsamp // exclusive
		if ei+1 < len(o.epochs) {
			nx := o.epochs[ei+1].nsamp
			if nx < e.nsamp {
				nx = e.nsamp
			}
			hi = sampTo - 2*nx - 10
		}
		_ = sampTo
		for k := lo; k < hi; k++ {
			if ts.EdgeTrigger && edgeCrit(s, k, signed, ts) {
				if isEdgeOfBlock(w, k) {
					simrt.Hit("criterion-sample-at-block-edge")
				}
				if !hasTrigIn(k-e.nsamp, k) {
					simrt.Fail("C02.edge-complete", "trigger:edge-missed", "chan %d: sample %d (frame %d) satisfies the edge criterion but is no trigger and no trigger lies in the %d samples before it (%s)", c, k, int64(w.F0)+int64(k), e.nsamp, tsString(ts))
				}
			}
			if ts.LevelTrigger && levelCrit(s, k, signed, ts) {
				if !hasTrigIn(k-e.nsamp, k+e.nsamp) {
					simrt.Fail("C02.level-complete", "trigger:level-missed", "chan %d: sample %d (frame %d) satisfies the level criterion but no trigger lies within one record (%d) of it (%s)", c, k, int64(w.F0)+int64(k), e.nsamp, tsString(ts))
				}
			}
		}
		// (5) auto trigger cadence
		if ts.AutoTrigger && ts.AutoVetoRange == 0 && hi-lo > 0 {
			last := lo
			i := sort.SearchInts(sorted, lo)
			for ; i < len(sorted) && sorted[i] < hi; i++ {
				if sorted[i]-last > autoD+e.nsamp {
					simrt.Fail("C02.auto-gap", "trigger:auto-gap", "chan %d: no trigger between samples %d and %d although auto trigger (delay %d samples, record %d) is on", c, last, sorted[i], autoD, e.nsamp)
				}
				last = sorted[i]
			}
			if hi-last > autoD+e.nsamp {
				simrt.Fail("C02.auto-gap", "trigger:auto-gap", "chan %d: no trigger between samples %d and %d although auto trigger (delay %d samples, record %d) is on", c, last, hi, autoD, e.nsamp)
			}
			simrt.Hit("auto-cadence-checked")
		}
		if ts.AutoTrigger && ts.AutoVetoRange > 0 {
			simrt.Hit("auto-veto-configured")
		}
	}
}

func isEdgeOfBlock(w *pipeWorld, k int) bool {
	for d := -3; d <= 3; d++ {
		if w.edges[k+d] {
			return true
		}
	}
	return false
}
