//go:build verif

package dastard

// C01 (records are exact, correctly labelled excerpts) and C02 (no pulse lost or
// invented across block edges): pipeline world, DESIGN §5.

import (
	"fmt"
	"sort"
	"time"

	"github.com/spf13/viper"

	"verif/simrt"
)

func init() {
	real := []string{"Start/CoreLoop/ProcessSegments", "DataStreamProcessor (append, trigger, analyze, trim)", "TriggerBroker", "DataPublisher (publish path)",
		"SourceControl RPC methods (ConfigureTriggers, ConfigurePulseLengths, group coupling, Stop)", "saveState + viper restore of the TRIGGER topic"}
	stub := []string{"hardware (ScriptedSource feeding harness-made blocks)", "ZMQ record/summary publishers (sinks on the same channels)", "status publisher (sink on clientMessageChan)", "net/rpc transport (methods called directly)"}
	simrt.Register(&simrt.Check{Name: "C01", Property: "C01", Body: func(env *simrt.Env) { pipeBody(env, "C01") }, Classify: classify, Real: real, Stub: stub})
	simrt.Register(&simrt.Check{Name: "C02", Property: "C02", Body: func(env *simrt.Env) { pipeBody(env, "C02") }, Classify: classify, Real: real, Stub: stub})
}

// epoch is a period during which one channel's settings were constant.
type epoch struct {
	from     int // first sample index delivered after the settings took effect
	recFrom  int // index into the channel's observed record list
	ts       TriggerState
	npre     int
	nsamp    int
	groupRx  bool // channel may receive secondary triggers in this epoch
	lengthOK bool
	start    bool // the epoch begins with a start of the source: new processors, no samples retained
}

type chanObs struct {
	// block tables of the run the records come from (nil: the world's)
	blockFirst  []int
	blockStamp  []time.Time
	blockFrame0 []FrameIndex
	recs        []recObs
	epochs      []epoch
	// filled in by checkExcerpts: index into the delivered stream of each record's trigger sample, and
	// whether the record reaches across a loss of frames (restricted oracle)
	idx    []int
	across []bool
}

func drawLengths() (nsamp, npre int) {
	nsamp = []int{8, 10, 16, 25, 50, 120, 400}[simrt.Draw(7)]
	switch simrt.Draw(4) {
	case 0:
		npre = 4
	case 1:
		npre = nsamp - 4
	case 2:
		npre = nsamp / 2
	default:
		npre = 4 + simrt.Draw(nsamp-7)
	}
	return
}

// drain waits until the sinks have taken everything published so far.
func (w *pipeWorld) drain() {
	for i := 0; len(PubRecordsChan) > 0 || len(PubSummariesChan) > 0 || len(clientMessageChan) > 0; i++ {
		time.Sleep(20 * time.Microsecond)
		if i > 200000 {
			simrt.Fail("harness.drain", "harness:drain", "sinks never drained")
		}
	}
}

func (w *pipeWorld) perChannel() []chanObs {
	out := make([]chanObs, w.nchan)
	for _, r := range w.sk.recs {
		c := r.rec.channelIndex
		if c < 0 || c >= w.nchan {
			simrt.Fail("C01.channel-index", "record:bad-channel-index", "record with channelIndex %d (nchan %d)", c, w.nchan)
		}
		out[c].recs = append(out[c].recs, r)
	}
	return out
}

func (w *pipeWorld) recCount(c int) int {
	n := 0
	for _, r := range w.sk.recs {
		if r.rec.channelIndex == c {
			n++
		}
	}
	return n
}

func pipeBody(env *simrt.Env, prop string) {
	nchan := 1 + simrt.Draw(4)
	nsamp, npre := drawLengths()
	rate := 10000.0
	// faulted runs: one kind of hardware / consumer trouble per run (0, 1: none)
	//   2 frames lost between blocks, reported (droppedFrames set, as a Lancero source does)
	//   3 frames lost between blocks, not reported (only the frame numbers jump)
	//   4 droppedFrames set on blocks of a contiguous stream (an Abaco source that filled in lost packets)
	//   5 both kinds in one run
	//   6 the consumer of the record/summary channel takes nothing for a while (back-pressure)
	trouble := 0
	if env.Faulted() {
		trouble = simrt.DrawFault(7)
	}
	backPressure := trouble == 6
	if backPressure {
		// many short records on several channels, so that the 500 slots of the publish channel fill up
		if nchan < 2 {
			nchan = 2 + simrt.Draw(3)
		}
		if nsamp > 25 {
			nsamp = []int{8, 10, 16, 25}[simrt.Draw(4)]
			npre = 4 + simrt.Draw(nsamp-7)
		}
	}
	w := newPipeWorld(env, nchan, npre, nsamp, rate)
	resetViper(env.Dir)
	for c := range w.signed {
		w.signed[c] = simrt.Draw(2) == 0
	}
	w.F0 = FrameIndex([]int64{0, 1, 12345, 1 << 33, 1 << 52}[simrt.Draw(5)])
	w.T0 = time.Now().Add(time.Duration(simrt.Draw(1000)) * time.Millisecond)
	if simrt.Draw(2) == 1 {
		// block stamps with read-out jitter / clock skew: each block off its nominal time by its own amount
		jit := make(map[int]time.Duration)
		amp := int64(w.period) * int64(1+simrt.Draw(3))
		w.stampJitter = func(b int) time.Duration {
			if _, ok := jit[b]; !ok {
				jit[b] = time.Duration(int64(simrt.Draw(int(2*amp))) - amp + int64(b%7) + 1)
			}
			return jit[b]
		}
	}

	total := nsamp * (6 + simrt.Draw(30))
	if total > 12000 {
		total = 12000
	}
	blocks := genPartition(total, nsamp)
	if len(blocks) > 120 {
		// cap the number of blocks: merge the tail
		rest := 0
		for _, n := range blocks[120:] {
			rest += n
		}
		blocks = append(blocks[:120], rest)
	}
	var bpBlocks []int
	if backPressure {
		for i := 0; i < 520/nchan+60; i++ {
			n := nsamp + simrt.Draw(nsamp+1)
			bpBlocks = append(bpBlocks, n)
			total += n
		}
	}
	edges := edgesOf(append(append([]int(nil), blocks...), bpBlocks...))
	w.edges = map[int]bool{}
	for _, e := range edges {
		w.edges[e] = true
	}
	// lost frames and droppedFrames flags: which blocks (never the first)
	gapAt := map[int]int{}
	flagAt := map[int]int{}
	if (trouble == 2 || trouble == 3 || trouble == 5) && len(blocks) > 2 {
		for i := 0; i < 1+simrt.DrawFault(3); i++ {
			sizes := []int{1, 2, 3, npre - 1, npre, nsamp - npre, nsamp - 1, nsamp, nsamp + 1, nsamp + npre + 10, nsamp + npre + 11, 2*nsamp + 10, 2*nsamp + 11,
				3 * nsamp, 10*nsamp + simrt.DrawFault(1000), 1 << 20}
			gapAt[1+simrt.DrawFault(len(blocks)-1)] = sizes[simrt.DrawFault(len(sizes))]
		}
	}
	if trouble == 4 || trouble == 5 {
		for bi := 1; bi < len(blocks); bi++ {
			if simrt.DrawFault(4) == 1 {
				flagAt[bi] = 1 + simrt.DrawFault(40)
			}
		}
	}
	specs := make([]streamSpec, nchan)
	w.stream = make([][]RawType, nchan)
	for c := 0; c < nchan; c++ {
		w.stream[c], specs[c] = genStream(total, edges, w.signed[c], nsamp)
	}
	env.Op("pipeline nchan=%d nsamp=%d npre=%d total=%d blocks=%d F0=%d signed=%v", nchan, nsamp, npre, total, len(blocks), w.F0, w.signed)

	allowEMT := prop == "C01"
	history := simrt.Draw(4)
	obs := make([]chanObs, nchan)
	curTS := make([]TriggerState, nchan)

	busy := func(ts TriggerState) TriggerState {
		if backPressure {
			// a record at least every record length on every channel
			ts.AutoTrigger, ts.AutoVetoRange = true, 0
			ts.AutoDelay = time.Duration(float64(1+simrt.Draw(nsamp)) / rate * float64(time.Second))
		}
		return ts
	}
	genTS := func(c int) TriggerState {
		if allowEMT && !backPressure && simrt.Draw(3) == 0 {
			return genEMTState(specs[c], w.signed[c], w.nsamp, w.npre)
		}
		return busy(genTriggerState(specs[c], w.signed[c], w.nsamp, rate, true))
	}

	// saveTriggers puts trigger groups into the configuration the way dastard saves them (the client updater
	// hands the last message of the TRIGGER topic to saveState) and decides how the next start finds them:
	// read back from the file by a new process, or still in viper (a Stop and Start in one process).
	saveTriggers := func(fts []FullTriggerState) {
		saveState(map[string]interface{}{"TRIGGER": fts})
		if simrt.Draw(2) == 0 {
			resetViper(env.Dir)
			if err := viper.ReadInConfig(); err != nil {
				simrt.Fail("harness.viper", "harness:viper", "cannot read the saved configuration back: %v", err)
			}
			simrt.Hit("restored-triggers:read-from-the-file")
		} else {
			simrt.Hit("restored-triggers:still-in-memory")
		}
	}
	// restoredRef is the reference model of a start with restored settings: every channel has the settings
	// the saved configuration holds FOR THAT CHANNEL (dastard restores them with edge-multi switched off, its
	// issue #271); a channel the saved configuration does not mention has what the server reports for it.
	restoredRef := func(saved []*TriggerState) {
		for _, f := range w.ss.ComputeFullTriggerState() {
			for _, c := range f.ChannelIndices {
				curTS[c] = f.TriggerState
			}
		}
		kinds := map[string]bool{}
		for c := 0; c < nchan; c++ {
			if saved[c] != nil {
				curTS[c] = *saved[c]
				curTS[c].EdgeMulti = false
				curTS[c].EMTState = EMTState{}
				kinds[tsString(&curTS[c])] = true
			} else {
				kinds["-"] = true
			}
		}
		if len(kinds) > 1 {
			simrt.Hit("start-with-restored-triggers:channels-differ")
		}
	}

	// ---- history 1: settings restored from the saved configuration before Start. The saved list is what
	// dastard writes: groups of channels with equal settings, in no particular order. Channels may differ,
	// some may not be mentioned at all (the array has grown since), and a group may mention channels that
	// no longer exist.
	saved := make([]*TriggerState, nchan)
	if history == 1 {
		ngroups := 1 + simrt.Draw(nchan)
		member := make([][]int, ngroups)
		for c := 0; c < nchan; c++ {
			if nchan >= 2 && !backPressure && simrt.Draw(6) == 0 {
				simrt.Hit("start-with-restored-triggers:channel-not-mentioned")
				continue
			}
			g := simrt.Draw(ngroups)
			member[g] = append(member[g], c)
		}
		var fts []FullTriggerState
		for g := range member {
			if len(member[g]) == 0 {
				continue
			}
			c0 := member[g][0]
			ts := busy(genTriggerState(specs[c0], w.signed[c0], nsamp, rate, true))
			for _, c := range member[g] {
				t := ts
				saved[c] = &t
			}
			idx := append([]int(nil), member[g]...)
			if simrt.Draw(8) == 0 {
				idx = append(idx, nchan+simrt.Draw(3)) // a channel of a larger array saved earlier
			}
			fts = append(fts, FullTriggerState{ChannelIndices: idx, TriggerState: ts})
		}
		// the order of the groups in the list means nothing
		for i := len(fts) - 1; i > 0; i-- {
			j := simrt.Draw(i + 1)
			fts[i], fts[j] = fts[j], fts[i]
		}
		saveTriggers(fts)
		simrt.Hit("start-with-restored-triggers")
		env.Op("restore trigger settings from the saved configuration: %d group(s) %v", len(fts), groupsString(fts))
	}
	if err := w.startScripted(); err != nil {
		simrt.Fail("harness.start", "harness:start", "Start failed: %v", err)
	}
	// settings in force at start: the saved ones, channel by channel
	restoredRef(saved)
	for c := 0; c < nchan; c++ {
		obs[c].epochs = append(obs[c].epochs, epoch{from: 0, recFrom: 0, ts: curTS[c], npre: npre, nsamp: nsamp, start: true})
	}

	configure := func(c int, ts TriggerState) {
		var ok bool
		st := FullTriggerState{ChannelIndices: []int{c}, TriggerState: ts}
		err := w.sc.ConfigureTriggers(&st, &ok)
		env.Op("ConfigureTriggers chan=%d %s -> %v", c, tsString(&ts), err)
		if err != nil {
			simrt.Hit("request-refused:triggers")
			return
		}
		w.drain()
		curTS[c] = st.TriggerState
		obs[c].epochs = append(obs[c].epochs, epoch{from: w.sent, recFrom: w.recCount(c), ts: st.TriggerState, npre: w.npre, nsamp: w.nsamp})
	}
	if history != 1 {
		for c := 0; c < nchan; c++ {
			configure(c, genTS(c))
		}
	}

	// group-trigger connections (C01 only): a few random pairs
	groupOn := false
	if prop == "C01" && nchan >= 2 && simrt.Draw(3) == 0 {
		conns := map[int][]int{}
		for i := 0; i < 1+simrt.Draw(3); i++ {
			s, r := simrt.Draw(nchan), simrt.Draw(nchan)
			conns[s] = append(conns[s], r)
		}
		var ok bool
		err := w.sc.AddGroupTriggerCoupling(GroupTriggerState{Connections: conns}, &ok)
		env.Op("AddGroupTriggerCoupling %v -> %v", conns, err)
		groupOn = true
	}
	_ = groupOn
	// C02 with group triggering: channel 0 triggers on its own (auto only) and every other channel
	// receives its triggers as secondaries. Secondaries are no triggers of the receiving channel: its own
	// edge/level/auto triggering must be as sound and complete as without them.
	c02Group := false
	if prop == "C02" && nchan >= 2 && history < 2 && simrt.Draw(3) == 0 {
		c02Group = true
		configure(0, TriggerState{AutoTrigger: true, AutoDelay: time.Duration(float64(nsamp+simrt.Draw(3*nsamp)) / rate * float64(time.Second)), EdgeLevel: 100, EdgeRising: true, LevelLevel: 4000})
		obs[0].epochs = obs[0].epochs[len(obs[0].epochs)-1:]
		obs[0].epochs[0].from, obs[0].epochs[0].recFrom = 0, 0
		conns := map[int][]int{0: nil}
		for c := 1; c < nchan; c++ {
			conns[0] = append(conns[0], c)
		}
		var ok bool
		if err := w.sc.AddGroupTriggerCoupling(GroupTriggerState{Connections: conns}, &ok); err != nil {
			simrt.Fail("harness.group", "harness:group", "AddGroupTriggerCoupling %v: %v", conns, err)
		}
		env.Op("group triggering: channel 0 (auto only) -> all other channels")
		simrt.Hit("group-triggered-receivers-with-own-triggers")
	}

	// setLengths issues a pulse-length request and follows the server's answer.
	setLengths := func(ns, np int) {
		var ok bool
		err := w.sc.ConfigurePulseLengths(SizeObject{Nsamp: ns, Npre: np}, &ok)
		env.Op("ConfigurePulseLengths nsamp=%d npre=%d -> %v", ns, np, err)
		w.drain()
		if err != nil {
			simrt.Hit("request-refused:lengths")
		}
		if err == nil && (ns != w.nsamp || np != w.npre) {
			w.nsamp, w.npre = ns, np
			for c := 0; c < nchan; c++ {
				obs[c].epochs = append(obs[c].epochs, epoch{from: w.sent, recFrom: w.recCount(c), ts: curTS[c], npre: np, nsamp: ns})
			}
		}
	}
	// requestSequence: pulse-length requests and trigger requests one after the other with data retained,
	// in both orders, including requests the server refuses (lengths too short on one side for the edge-multi
	// settings in force, or edge-multi settings that do not fit the lengths in force). Whether a request is
	// valid depends on what the EARLIER requests left in force; the harness does not predict the answer, it
	// follows it: what the server accepted is in force from here on, what it refused changed nothing.
	oddLengths := [][2]int{{8, 6}, {8, 5}, {10, 3}, {6, 3}, {5, 4}, {4, 3}, {12, 9}, {16, 13}, {7, 3}, {9, 4}, {10, 8}, {16, 14}, {25, 23}, {50, 49}, {120, 118}}
	requestSequence := func() {
		c := simrt.Draw(nchan)
		pat := simrt.Draw(4)
		n := 2 + simrt.Draw(3)
		for i := 0; i < n; i++ {
			// 0 usual lengths, 1 lengths with a short side, 2 trigger request (edge/level/auto), 3 edge-multi request, 4 all triggers off
			kind := simrt.Draw(5)
			switch pat {
			case 0:
				kind = []int{1, 3, 0, 3}[i]
			case 1:
				kind = []int{4, 1, 3, 0}[i]
			case 2:
				kind = []int{3, 1, 3, 0}[i]
			}
			if !allowEMT && kind >= 3 {
				kind = 2
			}
			switch kind {
			case 0:
				ns, np := drawLengths()
				if ns > 120 {
					ns, np = 25, 4+simrt.Draw(18)
				}
				// one time in three only the pre-trigger length moves (see zz_verif_c08.go)
				if simrt.Draw(3) == 0 {
					np2 := w.npre + 1 + simrt.Draw(30)
					if simrt.Draw(3) == 0 {
						np2 = w.npre - 1 - simrt.Draw(30)
					}
					if np2 >= 1 && np2 < w.nsamp-1 {
						ns, np = w.nsamp, np2
					}
				}
				setLengths(ns, np)
			case 1:
				l := oddLengths[simrt.Draw(len(oddLengths))]
				setLengths(l[0], l[1])
				simrt.Hit("request-order:lengths-with-a-short-side")
			case 2:
				configure(c, busy(genTriggerState(specs[c], w.signed[c], w.nsamp, rate, true)))
			case 3:
				ts := genEMTState(specs[c], w.signed[c], w.nsamp, w.npre)
				if simrt.Draw(4) == 0 {
					ts.EdgeMultiVerifyNMonotone = w.nsamp - w.npre + 1 + simrt.Draw(3)
				}
				was := curTS[c].EdgeMulti
				configure(c, ts)
				if curTS[c].EdgeMulti && !was {
					simrt.Hit("request-order:edge-multi-switched-on-mid-run")
					if w.nsamp-w.npre < 4 || w.npre < 4 {
						simrt.Hit("request-order:edge-multi-on-with-a-short-side")
					}
				}
			default:
				configure(c, TriggerState{AutoDelay: 250 * time.Millisecond, EdgeLevel: 100, EdgeRising: true, LevelLevel: 4000})
			}
		}
		simrt.Hit("request-sequence-mid-run")
	}

	// when (in blocks) mid-run requests happen
	reconfAt := -1
	if history >= 2 && len(blocks) > 4 {
		reconfAt = 2 + simrt.Draw(len(blocks)-3)
	}
	// a request the server refuses (invalid edge-multi settings; invalid lengths) is no reconfiguration:
	// nothing about the triggering may change
	refuseAt := -1
	if len(blocks) > 3 && simrt.Draw(3) == 0 {
		refuseAt = 1 + simrt.Draw(len(blocks)-2)
	}
	orderAt := -1
	if len(blocks) > 4 && !c02Group && simrt.Draw(3) == 0 {
		orderAt = 1 + simrt.Draw(len(blocks)-3)
	}
	// a Stop and a new Start mid-history: the settings the requests so far have left in force are saved
	// through the server's own TRIGGER message, the new run restores them, and data follow before any request
	restartAt := -1
	if len(blocks) > 5 && !backPressure && !c02Group && simrt.Draw(3) == 0 {
		restartAt = 2 + simrt.Draw(len(blocks)-4)
	}
	for bi, n := range blocks {
		if bi == orderAt {
			w.sync()
			w.drain()
			requestSequence()
		}
		if bi == refuseAt {
			w.sync()
			w.drain()
			var ok bool
			var err error
			what := ""
			if simrt.Draw(2) == 0 {
				bad := TriggerState{EdgeMulti: true, EdgeRising: true, AutoDelay: 250 * time.Millisecond}
				bad.EdgeMultiLevel = 100
				bad.EdgeMultiVerifyNMonotone = w.nsamp + 5 // more than the post-trigger length: invalid
				c := simrt.Draw(nchan)
				err = w.sc.ConfigureTriggers(&FullTriggerState{ChannelIndices: []int{c}, TriggerState: bad}, &ok)
				what = fmt.Sprintf("ConfigureTriggers chan=%d with invalid edge-multi settings", c)
			} else {
				err = w.sc.ConfigurePulseLengths(SizeObject{Nsamp: w.npre, Npre: w.npre + 2}, &ok)
				what = "ConfigurePulseLengths with pre-trigger longer than the record"
			}
			env.Op("%s -> %v", what, err)
			if err == nil {
				simrt.Fail("harness.refused", "harness:invalid-request-accepted", "%s was accepted", what)
			}
			w.drain()
			simrt.Hit("refused-request-mid-run")
		}
		if bi == reconfAt {
			w.sync()
			w.drain()
			if history == 2 {
				// pulse-length request: unchanged or changed
				ns, np := w.nsamp, w.npre
				if simrt.Draw(2) == 0 {
					ns, np = drawLengths()
					simrt.Hit("pulse-length-request-with-change")
				} else {
					simrt.Hit("pulse-length-request-without-change")
				}
				setLengths(ns, np)
			} else {
				c := simrt.Draw(nchan)
				configure(c, genTS(c))
				simrt.Hit("reconfiguration-with-data-retained")
			}
		}
		if bi == restartAt {
			w.sync()
			w.drain()
			m, have := w.sk.lastMsg("TRIGGER")
			fts, isFTS := m.state.([]FullTriggerState)
			if !have || !isFTS {
				simrt.Fail("harness.restart", "harness:no-trigger-message", "no TRIGGER status message to save (have=%v, state %T)", have, m.state)
			}
			saveTriggers(fts)
			w.stop()
			w.drain()
			w.cycleBase, w.ss.delivered = w.fed, 0
			if err := w.startScripted(); err != nil {
				simrt.Fail("harness.start", "harness:start", "second Start failed: %v", err)
			}
			was := make([]*TriggerState, nchan)
			for c := 0; c < nchan; c++ {
				t := curTS[c]
				was[c] = &t
			}
			restoredRef(was)
			w.drain()
			for c := 0; c < nchan; c++ {
				obs[c].epochs = append(obs[c].epochs, epoch{from: w.sent, recFrom: w.recCount(c), ts: curTS[c], npre: w.npre, nsamp: w.nsamp, start: true})
			}
			simrt.Hit("stop-and-start-with-restored-triggers")
			env.Op("Stop, Start: the run restores %d saved group(s) %v at sample %d", len(fts), groupsString(fts), w.sent)
		}
		if n < npre {
			simrt.Hit("block-shorter-than-pretrigger")
		}
		if n == 1 {
			simrt.Hit("block-of-one-sample")
		}
		if g := gapAt[bi]; g > 0 {
			w.gapNext = g
			if trouble != 3 {
				w.dropNext = g
			}
			simrt.Fault("frames-lost-between-blocks")
			if g > w.nsamp+w.npre+10 {
				simrt.Hit("lost-frames:more-than-the-retained-history")
			} else {
				simrt.Hit("lost-frames:fewer-than-the-retained-history")
			}
			env.Op("hardware loses %d frames before block %d (sample %d)", g, bi, w.sent)
		} else if d := flagAt[bi]; d > 0 {
			w.dropNext = d
			simrt.Fault("dropped-frames-flag-on-contiguous-block")
		}
		w.feedBlock(n, nil)
		if simrt.Draw(4) == 0 {
			w.sync()
		}
	}
	if backPressure {
		// The consumer of the record and/or summary channel stalls (a subscriber that does not read, a
		// socket at its high-water mark). The channels fill up, the processors must WAIT (nothing may
		// be dropped: the oracle below compares what was published with the stream as always); then the
		// consumer resumes and more data follow.
		w.sync()
		w.drain()
		which := 1 + simrt.DrawFault(3)
		w.sk.holdRecs, w.sk.holdSums = which&1 != 0, which&2 != 0
		simrt.Fault("stall:record-consumer")
		env.Op("consumer stalls: records=%v summaries=%v", w.sk.holdRecs, w.sk.holdSums)
		released, feeding := false, true
		simrt.GoHarness("release-consumer", func() {
			full, fedAtFull, stepsAtFull := false, 0, 0
			for feeding {
				time.Sleep(100 * time.Microsecond)
				if len(PubRecordsChan) == cap(PubRecordsChan) || len(PubSummariesChan) == cap(PubSummariesChan) {
					if !full {
						full, fedAtFull, stepsAtFull = true, w.fed, simrt.Steps()
						simrt.Hit("publish-channel-full")
					}
					// resume after the producers have had ample opportunity to run into the full channel
					if w.fed >= fedAtFull+8 || simrt.Steps()-stepsAtFull > 8000 {
						break
					}
				}
			}
			w.sk.holdRecs, w.sk.holdSums = false, false
			released = true
		})
		after := 0
		for _, n := range bpBlocks {
			if released {
				if after++; after > 12 {
					break
				}
			}
			w.feedBlock(n, nil)
		}
		feeding = false
		for !released {
			time.Sleep(100 * time.Microsecond)
		}
		if after > 0 {
			simrt.Hit("blocks-after-consumer-resumed")
		}
		env.Op("consumer resumed; %d blocks fed after that", after)
	}
	w.sync()
	w.drain()
	w.stop()
	w.drain()
	total = w.sent // what was delivered (a run with a stalled consumer may not use up its stream)

	// ---- oracles
	per := w.perChannel()
	nrec := 0
	src := map[FrameIndex]int{} // group mode: frames of channel 0's (primary) records
	if c02Group {
		for _, ro := range per[0].recs {
			src[ro.rec.trigFrame]++
		}
	}
	for c := 0; c < nchan; c++ {
		obs[c].recs = per[c].recs
		nrec += len(obs[c].recs)
		checkExcerpts(w, c, &obs[c])
		if prop == "C02" {
			if c02Group && c > 0 {
				// one record per source trigger is a secondary; what remains are the channel's own triggers
				left := map[FrameIndex]int{}
				for f, n := range src {
					left[f] = n
				}
				var own []int // positions in obs[c].recs
				for i, ro := range obs[c].recs {
					if left[ro.rec.trigFrame] > 0 {
						left[ro.rec.trigFrame]--
						continue
					}
					own = append(own, i)
				}
				missing := 0
				for _, n := range left {
					missing += n
				}
				if missing > 0 {
					// a secondary can only be cut when the receiver still holds the samples around it; the
					// very first and last triggers of a run may lack them. More than that is C09's business.
					simrt.Hit("secondary-not-cut")
				}
				// (which of two records at one frame was the secondary is unknowable and irrelevant: order by frame)
				all := obs[c]
				sort.SliceStable(own, func(i, j int) bool { return all.recs[own[i]].rec.trigFrame < all.recs[own[j]].rec.trigFrame })
				obs[c].recs, obs[c].idx, obs[c].across = nil, nil, nil
				for _, i := range own {
					obs[c].recs = append(obs[c].recs, all.recs[i])
					obs[c].idx = append(obs[c].idx, all.idx[i])
					obs[c].across = append(obs[c].across, all.across[i])
				}
			}
			checkTriggers(w, c, &obs[c], total)
		}
	}
	if len(w.sk.sumRecs) != len(w.sk.recs) {
		simrt.Fail("C01.summary-channel", "record:summary-count", "%d records on the record channel but %d on the summary channel", len(w.sk.recs), len(w.sk.sumRecs))
	}
	env.Sample(map[string]interface{}{"nchan": nchan, "nsamp": nsamp, "npre": npre, "samples_per_channel": total, "blocks": len(blocks),
		"history":     []string{"fresh+ConfigureTriggers", "restored-config", "fresh+ConfigurePulseLengths", "fresh+reconfigure"}[history],
		"trigger_ch0": tsString(&obs[0].epochs[len(obs[0].epochs)-1].ts), "stream_ch0": fmt.Sprintf("kind=%d base=%d noise=%d %v", specs[0].kind, specs[0].baseline, specs[0].noise, specs[0].features),
		"records": nrec, "restart_at_block": restartAt})
}

func groupsString(fts []FullTriggerState) string {
	out := ""
	for i := range fts {
		out += fmt.Sprintf("%v:{%s} ", fts[i].ChannelIndices, tsString(&fts[i].TriggerState))
	}
	return out
}

func epochOfRec(o *chanObs, idx int) *epoch {
	e := &o.epochs[0]
	for i := range o.epochs {
		if o.epochs[i].recFrom <= idx {
			e = &o.epochs[i]
		}
	}
	return e
}

// section is a run of blocks with contiguous frame numbering: delivered samples [from, to) carry the
// frame numbers off+from .. off+to-1. A new section starts where the hardware lost data (the first
// frame number of a block is ahead of the end of the previous block).
type section struct {
	from, to int
	off      int64 // frame number minus index into the delivered stream
	block    int   // number of the section's first block
}

func sectionsOf(w *pipeWorld, bFirst []int, bFrame0 []FrameIndex) []section {
	if len(bFrame0) != len(bFirst) || len(bFirst) == 0 {
		return []section{{from: 0, to: w.sent, off: int64(w.F0)}}
	}
	var out []section
	for b := range bFirst {
		off := int64(bFrame0[b]) - int64(bFirst[b])
		if b == 0 || off != out[len(out)-1].off {
			if len(out) > 0 {
				out[len(out)-1].to = bFirst[b]
			}
			out = append(out, section{from: bFirst[b], to: w.sent, off: off, block: b})
		}
	}
	return out
}

// checkExcerpts is C01's oracle for one channel.
//
// Streams with lost frames (faulted runs). The property speaks of "the contiguous samples the data source
// delivered around the record's stated trigger frame"; where frames are missing between two blocks there are
// no such contiguous samples, and the property does not say what a record that reaches across the loss looks
// like (dastard documents that it re-labels the samples it still holds with the frame numbers and time of the
// new block, "not necessarily [consistent] with the previous values": DataStream.AppendSegment). The oracle
// therefore demands, of a record that was cut after the block behind a loss had arrived and whose window
// begins before the loss: right lengths, and samples that are a contiguous excerpt of what was delivered, at
// the place its trigger frame names in the numbering of that block counted backwards. Every other record -
// in particular every record that begins at or after the first sample behind the loss - gets the full check
// in the numbering the source gave its samples.
func checkExcerpts(w *pipeWorld, c int, o *chanObs) {
	s := w.stream[c]
	bFirst, bStamp, bFrame0 := w.blockFirst, w.blockStamp, w.blockFrame0
	if o.blockFirst != nil {
		bFirst, bStamp, bFrame0 = o.blockFirst, o.blockStamp, o.blockFrame0
	}
	secs := sectionsOf(w, bFirst, bFrame0)
	o.idx = make([]int, len(o.recs))
	o.across = make([]bool, len(o.recs))
	for idx, ro := range o.recs {
		r := ro.rec
		e := epochOfRec(o, idx)
		L := len(r.data)
		variable := e.ts.EdgeMulti && e.ts.EMTState.mode == EMTRecordsVariableLength
		if variable {
			if r.presamples < 0 || r.presamples > e.npre || L-r.presamples < 1 || L-r.presamples > e.nsamp-e.npre {
				simrt.Fail("C01.lengths", "record:variable-length-out-of-range", "chan %d record %d: len=%d presamples=%d with configured nsamp=%d npre=%d", c, idx, L, r.presamples, e.nsamp, e.npre)
			}
		} else if L != e.nsamp || r.presamples != e.npre {
			simrt.Fail("C01.lengths", "record:wrong-length", "chan %d record %d (frame %d): len=%d presamples=%d, configured nsamp=%d npre=%d", c, idx, r.trigFrame, L, r.presamples, e.nsamp, e.npre)
		}
		same := func(lo int) int { // first differing position, -1 if none
			for i := 0; i < L; i++ {
				if r.data[i] != s[lo+i] {
					return i
				}
			}
			return -1
		}
		// the section whose numbering holds the stated trigger frame
		home := -1
		for j := range secs {
			if kk := int64(r.trigFrame) - secs[j].off; kk >= int64(secs[j].from) && kk < int64(secs[j].to) {
				home = j
			}
		}
		// ordinary: the full check in the numbering the source gave the samples; returns "" if it holds
		var k, lo int
		ordinary := func() (rule, sig, msg string) {
			if home < 0 {
				return "C01.range", "record:outside-delivered-stream", fmt.Sprintf("chan %d record %d: trigger frame %d is no frame the source delivered (received in cycle %d; sections %v)", c, idx, r.trigFrame, ro.cycle, secs)
			}
			sec := secs[home]
			k = int(int64(r.trigFrame) - sec.off)
			lo = k - r.presamples
			if lo < sec.from || lo+L > sec.to {
				if len(secs) > 1 {
					return "C01.range", "record:outside-delivered-stream", fmt.Sprintf("chan %d record %d: trigger sample %d (frame %d), window [%d,%d) leaves the contiguous part [%d,%d) of the delivered stream and is no excerpt of the delivered samples in the numbering of a later block either (received in cycle %d; sections %v)", c, idx, k, r.trigFrame, lo, lo+L, sec.from, sec.to, ro.cycle, secs)
				}
				return "C01.range", "record:outside-delivered-stream", fmt.Sprintf("chan %d record %d: trigger sample %d, window [%d,%d) but %d samples delivered", c, idx, k, lo, lo+L, w.sent)
			}
			if i := same(lo); i >= 0 {
				return "C01.samples", "record:samples-differ", fmt.Sprintf("chan %d record %d (trigger sample %d, frame %d): data[%d]=%d but the source delivered %d at that position", c, idx, k, r.trigFrame, i, r.data[i], s[lo+i])
			}
			// The record was cut while some block b was the newest one delivered: b holds the record's last
			// sample or comes later, and had been delivered when the sink saw the record. The time the block
			// stamps assign to sample k is stamp(b) + (k - first(b)) * period for that b.
			// (ro.cycle counts hand-overs the producer task has completed; the block being processed may
			// not be counted yet, hence <=)
			var cands []time.Time
			for b := sec.block; b < len(bFirst) && b <= ro.cycle && bFirst[b] < sec.to; b++ {
				end := w.sent
				if b+1 < len(bFirst) {
					end = bFirst[b+1]
				}
				if end < lo+L {
					continue // the record's last sample had not been delivered yet
				}
				want := bStamp[b].Add(time.Duration(k-bFirst[b]) * w.period)
				cands = append(cands, want)
				if r.trigTime.Equal(want) {
					return "", "", ""
				}
			}
			return "C01.time", "record:wrong-time", fmt.Sprintf("chan %d record %d: trigger sample %d stamped %v, but the block time stamps give %v (one per block that could have been the newest when the record was cut)", c, idx, k, r.trigTime, cands)
		}
		rule, sig, msg := ordinary()
		if rule != "" {
			// a record across a loss of frames: the numbering of the block behind the loss, counted backwards
			// (with flat data several losses may fit: the one the window is nearest to)
			best := int64(-1)
			for j := len(secs) - 1; j >= 1; j-- {
				kk := int64(r.trigFrame) - secs[j].off
				lo := kk - int64(r.presamples)
				if lo >= 0 && lo < int64(secs[j].from) && lo+int64(L) <= int64(w.sent) && ro.cycle >= secs[j].block && same(int(lo)) < 0 {
					if d := int64(secs[j].from) - lo; best < 0 || d < best {
						best = d
						o.idx[idx] = int(kk)
						o.across[idx] = true
					}
				}
			}
			if !o.across[idx] {
				simrt.Fail(rule, sig, "%s", msg)
			}
			simrt.Hit("record-across-lost-frames")
			if r.signed != w.signed[c] {
				simrt.Fail("C01.signed", "record:wrong-signedness", "chan %d record %d: signed=%v, channel is %v", c, idx, r.signed, w.signed[c])
			}
			continue
		}
		o.idx[idx] = k
		if home > 0 {
			simrt.Hit("ordinary-record-behind-lost-frames")
		}
		if w.stampJitter != nil {
			simrt.Hit("record-with-jittered-block-stamps")
		}
		if r.signed != w.signed[c] {
			simrt.Fail("C01.signed", "record:wrong-signedness", "chan %d record %d: signed=%v, channel is %v", c, idx, r.signed, w.signed[c])
		}
		if k-lo <= 3 || lo+L-k <= 3 {
			simrt.Hit("short-side-record")
		}
		if L > 0 && (s[lo] == 0 || s[lo] == 65535) {
			simrt.Hit("record-with-extreme-sample")
		}
	}
}

// checkTriggers is C02's oracle for one channel (non-EMT settings only).
func checkTriggers(w *pipeWorld, c int, o *chanObs, total int) {
	s := w.stream[c]
	signed := w.signed[c]
	// trigger sample indices into the delivered stream, in emission order (resolved by checkExcerpts), and
	// the frame numbers the records state (distances between triggers are distances in frames)
	var trig []int
	var frame []int64
	for i, ro := range o.recs {
		trig = append(trig, o.idx[i])
		frame = append(frame, int64(ro.rec.trigFrame))
	}
	sorted := append([]int(nil), trig...)
	sort.Ints(sorted)
	hasTrigIn := func(lo, hi int) bool { // any emitted trigger t with lo <= t <= hi
		i := sort.SearchInts(sorted, lo)
		return i < len(sorted) && sorted[i] <= hi
	}
	// Lost frames (faulted runs): the criteria compare neighbouring samples, and the property does not say
	// what a "sample satisfying the criterion" is where the neighbours are not neighbours in time, nor what
	// is owed for the samples next to the loss. Completeness is demanded again one record length away from
	// the loss on either side; soundness everywhere except on the three samples behind the loss whose
	// criterion reaches across it.
	secs := sectionsOf(w, w.blockFirst, w.blockFrame0)
	nearLoss := func(k, d int) bool {
		for j := 1; j < len(secs); j++ {
			if k > secs[j].from-d && k < secs[j].from+d {
				return true
			}
		}
		return false
	}
	// context for messages of runs with lost frames: the sections and the records around sample k
	ctx := func(k int) string {
		if len(secs) < 2 {
			return ""
		}
		out := fmt.Sprintf("; frames were lost in this run: sections %v; records near: ", secs)
		for i := range trig {
			if trig[i] > k-60 && trig[i] < k+60 {
				out += fmt.Sprintf("[sample %d frame %d cycle %d across=%v] ", trig[i], frame[i], o.recs[i].cycle, o.across[i])
			}
		}
		return out
	}
	criterionAcrossLoss := func(k int) bool {
		for j := 1; j < len(secs); j++ {
			if k >= secs[j].from && k < secs[j].from+3 {
				return true
			}
		}
		return false
	}
	for ei := range o.epochs {
		e := &o.epochs[ei]
		ts := &e.ts
		recTo := len(o.recs)
		sampTo := total
		if ei+1 < len(o.epochs) {
			recTo = o.epochs[ei+1].recFrom
			sampTo = o.epochs[ei+1].from
		}
		autoD := int(ts.AutoDelay.Seconds()*w.rate + 0.5)
		if autoD < e.nsamp {
			autoD = e.nsamp
		}
		// (1) soundness and (4) no overlap, over the records emitted in this epoch
		prev := -1 << 40
		prevF := int64(-1) << 60
		for idx := e.recFrom; idx < recTo; idx++ {
			k := trig[idx]
			ok := (ts.EdgeTrigger && edgeCrit(s, k, signed, ts)) || (ts.LevelTrigger && levelCrit(s, k, signed, ts))
			if !ok && ts.AutoTrigger && (idx == e.recFrom || frame[idx]-prevF >= int64(autoD)) {
				ok = true
			}
			if !ok && criterionAcrossLoss(k) {
				ok = true
				simrt.Hit("trigger-on-first-samples-behind-lost-frames")
			}
			if !ok {
				simrt.Fail("C02.sound", "trigger:unsound", "chan %d: record at sample %d (frame %d) satisfies no enabled criterion (%s; previous trigger %d)%s", c, k, o.recs[idx].rec.trigFrame, tsString(ts), prev, ctx(k))
			}
			if ts.EdgeTrigger && !ts.LevelTrigger && !ts.AutoTrigger && idx > e.recFrom && frame[idx]-prevF < int64(e.nsamp) {
				simrt.Fail("C02.no-overlap", "trigger:edge-overlap", "chan %d: edge-only triggers at samples %d and %d (frames %d and %d) are closer than one record (%d)%s", c, prev, k, prevF, frame[idx], e.nsamp, ctx(k))
			}
			prev, prevF = k, frame[idx]
		}
		// completeness over the interior of the epoch
		// (several requests may follow each other without data in between: every record length that was in
		// force at that boundary counts, and the one before it)
		old := e.nsamp
		for j := ei - 1; j >= 0; j-- {
			if o.epochs[j].nsamp > old {
				old = o.epochs[j].nsamp
			}
			if o.epochs[j].from < e.from {
				break
			}
		}
		lo := e.from + 2*old + 10
		if ei == 0 || e.start {
			// the first block after a start: everything from the first sample that has its pre-trigger samples
			lo = e.npre
			if lo < 3 {
				lo = 3
			}
			lo += e.from
		}
		hi := total - 2*e.nsamp // exclusive
		if ei+1 < len(o.epochs) {
			nx := e.nsamp
			for j := ei + 1; j < len(o.epochs) && o.epochs[j].from == sampTo; j++ {
				if o.epochs[j].nsamp > nx {
					nx = o.epochs[j].nsamp
				}
			}
			hi = sampTo - 2*nx - 10
		}
		_ = sampTo
		for k := lo; k < hi; k++ {
			if len(secs) > 1 && nearLoss(k, e.nsamp) {
				continue
			}
			if ts.EdgeTrigger && edgeCrit(s, k, signed, ts) {
				if isEdgeOfBlock(w, k) {
					simrt.Hit("criterion-sample-at-block-edge")
				}
				if !hasTrigIn(k-e.nsamp, k) {
					simrt.Fail("C02.edge-complete", "trigger:edge-missed", "chan %d: sample %d (frame %d) satisfies the edge criterion but is no trigger and no trigger lies in the %d samples before it (%s)%s", c, k, int64(w.F0)+int64(k), e.nsamp, tsString(ts), ctx(k))
				}
			}
			if ts.LevelTrigger && levelCrit(s, k, signed, ts) {
				if !hasTrigIn(k-e.nsamp, k+e.nsamp) {
					simrt.Fail("C02.level-complete", "trigger:level-missed", "chan %d: sample %d (frame %d) satisfies the level criterion but no trigger lies within one record (%d) of it (%s)%s", c, k, int64(w.F0)+int64(k), e.nsamp, tsString(ts), ctx(k))
				}
			}
		}
		// (5) auto trigger cadence
		if ts.AutoTrigger && ts.AutoVetoRange == 0 && hi-lo > 0 {
			// (a loss of frames cuts the range: the cadence is owed up to one record before the loss and
			// again from one record behind it)
			type span struct{ lo, hi int }
			spans := []span{{lo, hi}}
			for j := 1; j < len(secs); j++ {
				P := secs[j].from
				last := spans[len(spans)-1]
				if P-e.nsamp < last.hi && P+e.nsamp > last.lo {
					spans = spans[:len(spans)-1]
					if P-e.nsamp > last.lo {
						spans = append(spans, span{last.lo, P - e.nsamp})
					}
					if P+e.nsamp < last.hi {
						spans = append(spans, span{P + e.nsamp, last.hi})
					}
					if len(spans) == 0 {
						break
					}
				}
			}
			for _, sp := range spans {
				last := sp.lo
				i := sort.SearchInts(sorted, sp.lo)
				for ; i < len(sorted) && sorted[i] < sp.hi; i++ {
					if sorted[i]-last > autoD+e.nsamp {
						simrt.Fail("C02.auto-gap", "trigger:auto-gap", "chan %d: no trigger between samples %d and %d although auto trigger (delay %d samples, record %d) is on%s", c, last, sorted[i], autoD, e.nsamp, ctx(last))
					}
					last = sorted[i]
				}
				if sp.hi-last > autoD+e.nsamp {
					simrt.Fail("C02.auto-gap", "trigger:auto-gap", "chan %d: no trigger between samples %d and %d although auto trigger (delay %d samples, record %d) is on%s", c, last, sp.hi, autoD, e.nsamp, ctx(last))
				}
			}
			simrt.Hit("auto-cadence-checked")
		}
		if ts.AutoTrigger && ts.AutoVetoRange > 0 {
			simrt.Hit("auto-veto-configured")
		}
	}
}

func isEdgeOfBlock(w *pipeWorld, k int) bool {
	for d := -3; d <= 3; d++ {
		if w.edges[k+d] {
			return true
		}
	}
	return false
}
