//go:build verif

package dastard

// C12 — phase unwrapping keeps the signal modulo flux quanta and is block-independent.
//
// World: the Abaco ingest world (zz_verif_c03_world.go), loss-free, with the unwrap options
// on. The simulator contributes what makes this a simulation target at all: the splitting of
// every channel's stream into UnwrapInPlace calls by reader-tick batching (latency skew, a
// lagging group, stalled and slow reads). In the same runs stand-alone PhaseUnwrapper
// instances with drawn fraction bits / dropped bits / bias / reset interval are fed exactly
// the batches one channel saw, and the whole stream in one call. The options are drawn to their
// legal limits (reset intervals around and far beyond 2^16, PulseSign of any magnitude, long and
// odd InvertChan lists); one history in eight is a one-channel source with ~10^5 samples whose
// signal leaves the home offset once and stays away, so that the long reset intervals are reached.
//
// Oracle = an integer checker written from the property statement (c12Check); it never calls
// UnwrapInPlace. Definitions taken from the meaning of the options as the code documents
// them (phase_unwrap.go / abaco.go comments), because the statement uses the words without
// numbers:
//   quantum      one ϕ0 after the bit drop = 2^(fractionBits − lowBitsToDrop)
//                ("we want 2^(fractionBits-lowBitsToDrop) to be exactly one single ϕ0")
//   input in'    the low fractionBits bits of the raw sample (after the optional inversion of
//                all 16 bits), shifted right by lowBitsToDrop; bits above fractionBits are
//                whole quanta and therefore covered by "plus an integer number of quanta"
//   bias         biasLevel is in raw (pre-drop) units; AbacoUnwrapOptions.Bias means
//                0.38 ϕ0 = round(0.38·2^16) raw units with the sign of PulseSign ("a bias of
//                ±0.38*ϕ0 (sign given by the pulseSign)"), no bias otherwise
//   home offset  out − in' of the rest state: +1 quantum for positive pulses, −2 quanta for
//                negative pulses (NewPhaseUnwrapper: resetOffset)
//   arithmetic   outputs are 16-bit words, so offsets and steps are taken modulo 2^16 (the
//                quantum divides 2^16); a step is the difference read as a signed 16-bit number
//
// Rules
//   C12.quanta   out[k] − in'[k] ≡ 0 (mod quantum), every k, whether or not unwrapping is on
//   C12.step     unwrapping on, k ≥ 1, not an automatic reset: the output step lies within
//                half a quantum of the bias (both ends admitted; one dropped-unit of slack
//                because the bias itself is truncated by the bit drop). Together with
//                C12.quanta this is "the input step reduced modulo one quantum".
//   C12.reset    if the resetAfter samples before k were all away from the home offset, then
//                out[k] − in'[k] is the home offset; a jump that breaks C12.step is admitted
//                only there (an earlier one is a premature reset)
//   C12.split    the output for a sequence fed in batches equals the output of a fresh
//                unwrapper with the same options fed the whole sequence in one call
//                (stand-alone instances and, against the real per-tick batches, the source's
//                own channels)
// The first sample's step is not constrained (the statement does not say what precedes it).

import (
	"fmt"
	"math"
	"time"

	"verif/simrt"
)

func init() {
	real := []string{"PhaseUnwrapper (NewPhaseUnwrapper, UnwrapInPlace) inside AbacoGroup.demuxData, one call per reader batch", "AbacoUnwrapOptions → NewAbacoGroup (bias level, inverted channels, bits dropped)", "AbacoSource ingest path as in C03", "stand-alone PhaseUnwrapper instances (fraction bits 13–16, 0–6 bits dropped)"}
	stub := []string{"UDP receiver and network (scripted PacketProducer), loss-free", "core loop (harness takes raw blocks from getNextBlock())"}
	simrt.Register(&simrt.Check{Name: "C12", Property: "C12", Body: c12Body, Classify: c03Classify, MaxSteps: 120000, Real: real, Stub: stub})
}

type c12Params struct {
	fb, drop   uint
	enable     bool
	biasLevel  int
	resetAfter int
	pulseSign  int
	invert     bool
}

func (p c12Params) String() string {
	return fmt.Sprintf("fractionBits=%d drop=%d unwrap=%v biasLevel=%d resetAfter=%d pulseSign=%d invert=%v", p.fb, p.drop, p.enable, p.biasLevel, p.resetAfter, p.pulseSign, p.invert)
}

func (p c12Params) quantum() int { return 1 << (p.fb - p.drop) }

// reduce gives in' for a raw sample.
func (p c12Params) reduce(raw RawType) int {
	v := int(raw)
	if p.invert {
		v ^= 0xffff
	}
	v &= (1 << p.fb) - 1
	return v >> p.drop
}

func (p c12Params) home() int {
	q := p.quantum()
	if p.pulseSign > 0 {
		return q & 0xffff
	}
	return (-2 * q) & 0xffff
}

// stepOK: is the signed 16-bit output step s within half a quantum of the bias?
func (p c12Params) stepOK(s int) (ok, edge bool) {
	q := p.quantum()
	d := s<<p.drop - p.biasLevel
	if d < 0 {
		d = -d
	}
	lim := (q/2 + 1) << p.drop
	return d <= lim, d >= (q/2-1)<<p.drop
}

type c12Verdict struct {
	rule, sig, detail string
	resets, edges     int
	awayMax           int
}

// c12Check checks one channel's whole output against its whole input.
func c12Check(p c12Params, raw, out []RawType) (v c12Verdict) {
	if len(raw) != len(out) {
		v.rule, v.sig, v.detail = "C12.quanta", "unwrap:length-changed", fmt.Sprintf("%d samples in, %d out", len(raw), len(out))
		return
	}
	q := p.quantum()
	for k := range raw {
		d := (int(out[k]) - p.reduce(raw[k])) & 0xffff
		if d%q != 0 { // q divides 65536; q == 65536 demands d == 0
			v.rule, v.sig = "C12.quanta", "unwrap:not-a-multiple-of-the-quantum"
			v.detail = fmt.Sprintf("sample %d: raw 0x%04x → in' %d, output %d: the difference %d is not a multiple of the quantum %d", k, raw[k], p.reduce(raw[k]), out[k], d, q)
			return
		}
	}
	if !p.enable || p.drop == 0 {
		return
	}
	home := p.home()
	away := 0
	for k := range raw {
		off := (int(out[k]) - p.reduce(raw[k])) & 0xffff
		if k > 0 {
			s := int(int16(uint16(out[k]) - uint16(out[k-1])))
			ok, edge := p.stepOK(s)
			if edge && ok {
				v.edges++
			}
			if away == p.resetAfter {
				if off != home {
					v.rule, v.sig = "C12.reset", "unwrap:no-reset-after-resetAfter"
					v.detail = fmt.Sprintf("samples %d..%d (%d = resetAfter consecutive samples) were away from the home offset %d, but sample %d has offset %d (raw 0x%04x in' %d out %d)",
						k-away, k-1, away, home, k, off, raw[k], p.reduce(raw[k]), out[k])
					return
				}
				if !ok {
					v.resets++
				}
			} else if !ok {
				v.rule, v.sig = "C12.step", "unwrap:step-outside-half-quantum-of-bias"
				if off == home {
					v.rule, v.sig = "C12.reset", "unwrap:premature-reset"
				}
				v.detail = fmt.Sprintf("sample %d: output step %d (from %d to %d; in' %d → %d) is not within half a quantum (%d) of the bias %d/2^%d; offset %d → %d, home %d, %d consecutive samples away before (resetAfter %d)",
					k, s, out[k-1], out[k], p.reduce(raw[k-1]), p.reduce(raw[k]), q/2, p.biasLevel, p.drop, (int(out[k-1])-p.reduce(raw[k-1]))&0xffff, off, home, away, p.resetAfter)
				return
			}
		}
		if off == home {
			away = 0
		} else {
			away++
			if away > v.awayMax {
				v.awayMax = away
			}
		}
	}
	return
}

// c12Signal makes a raw 16-bit phase stream of n frames from a handful of tape draws.
func c12Signal(n int, unit int) []uint16 {
	kind := simrt.Draw(6)
	seed := uint32(simrt.Draw(1 << 20))
	out := make([]uint16, n)
	phi := int(simrt.Draw(1 << 16))
	rnd := func(k, salt int) int { return int(abacoSimHash(seed, uint32(k), uint32(salt), 0xc12) >> 4) }
	switch kind {
	case 0: // constant
		for k := range out {
			out[k] = uint16(phi)
		}
	case 1: // ramp: slow or fast, either direction
		rate := []int{1, 7, 100, 900, 5000, 20000, 31000}[simrt.Draw(7)]
		if simrt.Draw(2) == 1 {
			rate = -rate
		}
		for k := range out {
			out[k] = uint16(phi)
			phi += rate + rnd(k, 1)%3 - 1
		}
	case 2: // random walk
		amp := []int{40, 2000, 12000, 30000}[simrt.Draw(4)]
		for k := range out {
			out[k] = uint16(phi)
			phi += rnd(k, 2)%(2*amp+1) - amp
		}
	case 3: // uniform noise
		for k := range out {
			out[k] = uint16(rnd(k, 3))
		}
	default: // step and hold: jumps of about half a quantum, a quantum, the bias window edges
		hold := []int{1, 2, 4, 12, 40}[simrt.Draw(5)]
		b := int(math.Round(0.38 * 65536))
		menu := []int{32768, -32768, 32768 - unit, 32768 + unit, -32768 + unit, -32768 - unit, b + 32768, b - 32768, -b + 32768, -b - 32768,
			b + 32768 + unit, b - 32768 - unit, -b + 32768 + unit, -b - 32768 - unit, 65536 - unit, unit, 40000, -40000, 20000, -20000, 3 * unit, -3 * unit}
		for k := range out {
			out[k] = uint16(phi)
			if rnd(k, 4)%hold == 0 {
				phi += menu[rnd(k, 5)%len(menu)] + (rnd(k, 6)%3-1)*(rnd(k, 7)%unit)
			} else if kind == 5 {
				phi += rnd(k, 8)%5 - 2
			}
		}
	}
	return out
}

// c12Excursion makes a stream that leaves the home offset once and stays away: quiet around a
// level, one jump of 0.55–0.7 ϕ0 that the unwrapper with parameters p takes for a wrap (the
// direction is chosen against the bias, the level so that the 16-bit phase does not wrap at the
// jump), then quiet again for the rest of the stream — a flux jump that does not come back.
// Only the reset interval brings the output home again.
func c12Excursion(n int, p c12Params) []uint16 {
	seed := uint32(simrt.Draw(1 << 20))
	jump := 36045 + simrt.Draw(9830)  // 0.55 … 0.70 ϕ0 in raw units
	level := 3277 + simrt.Draw(13107) // 0.05 … 0.25 ϕ0
	noise := []int{0, 3, 40, 400}[simrt.Draw(4)]
	at := 1 + simrt.Draw(1+n/16)
	down := p.biasLevel > 0 || (p.biasLevel == 0 && simrt.Draw(2) == 1)
	low := level
	if down { // climb to a high level in small steps (the unwrapper starts from 0), jump down
		level = 65535 - level
		jump = -jump
		at += 40
	}
	out := make([]uint16, n)
	for k := range out {
		v := level
		if down && low+k*2600 < level {
			v = low + k*2600 // 0.04 ϕ0 per sample
		}
		if k >= at {
			v += jump
		}
		if noise > 0 {
			v += int(abacoSimHash(seed, uint32(k), 9, 0xc12)>>4)%(2*noise+1) - noise
		}
		out[k] = uint16(v)
		if p.invert {
			out[k] ^= 0xffff
		}
	}
	return out
}

// c12DrawResetAfter draws a reset interval. Any positive int is legal when unwrapping is on: small
// ones, the default 20000, values around 2^16 and far beyond (a one-second relock time at Abaco
// rates of 100–250 kHz is 100000–250000 samples), the largest ints. With unwrapping off the
// option is ignored, so zero (what a client that omits it sends) and negative values are legal too.
func c12DrawResetAfter(unwrap bool) int {
	menu := []int{3, 1, 2, 5, 10, 30, 100, 20000, 3, 1, 2, 5, 10, 30, 100, 20000,
		65534, 65535, 65536, 65537, 65536 + 3, 65536 + 10, 65536 + 40, 2*65536 + 1, 3 * 65536, 100000, 250000,
		1<<31 - 1, 1 << 31, 1<<32 + 2, math.MaxInt64, math.MaxInt64 - 65533}
	if !unwrap {
		menu = append(menu, 0, 0, -1, -65536, math.MinInt64)
	}
	return menu[simrt.Draw(len(menu))]
}

// c12DrawOptions draws the unwrap options of one run. InvertChan is what a client may send:
// any order, duplicates, channel numbers the source does not have, empty, a single entry.
func c12DrawOptions(w *abacoSimWorld) AbacoUnwrapOptions {
	var opts AbacoUnwrapOptions
	opts.RescaleRaw = simrt.Draw(5) != 4
	opts.Unwrap = opts.RescaleRaw && simrt.Draw(5) != 4
	opts.Bias = simrt.Draw(2) == 1
	opts.ResetAfter = c12DrawResetAfter(opts.Unwrap)
	// the sign of PulseSign is what counts; 0 has none and is not generated
	opts.PulseSign = []int{1, -1, 1, -1, 1, -1, 2, -2, 1000, -7, math.MaxInt32, math.MinInt32, math.MaxInt64, math.MinInt64}[simrt.Draw(14)]
	var list []int
	switch simrt.Draw(7) {
	case 5: // every channel
		for _, g := range w.groups {
			for c := 0; c < g.nchan; c++ {
				list = append(list, g.firstChan+c)
			}
		}
	case 6: // a long list: every channel many times over, between numbers that belong to no group
		for rep := 0; rep < 40; rep++ {
			for _, g := range w.groups {
				for c := 0; c < g.nchan; c++ {
					if simrt.Draw(4) != 3 {
						list = append(list, g.firstChan+c)
					}
				}
			}
			list = append(list, []int{math.MaxInt64, math.MinInt64, math.MaxInt32, -1, 1 << 16, 1 << 32}[rep%6])
		}
	case 0: // a subset of the channels
		for _, g := range w.groups {
			for c := 0; c < g.nchan; c++ {
				if simrt.Draw(3) == 2 {
					list = append(list, g.firstChan+c)
				}
			}
		}
	case 1: // empty
	case 2: // a single entry
		g := w.groups[simrt.Draw(len(w.groups))]
		list = append(list, g.firstChan+simrt.Draw(g.nchan))
	default: // a subset with repeats and with numbers that belong to no group
		last := w.groups[len(w.groups)-1]
		for _, g := range w.groups {
			for c := 0; c < g.nchan; c++ {
				switch simrt.Draw(5) {
				case 2, 3:
					list = append(list, g.firstChan+c)
				case 4:
					list = append(list, g.firstChan+c, g.firstChan+c)
				}
			}
			if simrt.Draw(3) == 2 {
				list = append(list, []int{g.firstChan + g.nchan, last.firstChan + last.nchan + 1 + simrt.Draw(50), 9999, -1 - simrt.Draw(3)}[simrt.Draw(4)])
			}
		}
	}
	// the order is the client's: shuffle (a 0-draw keeps the element where it is)
	for i := 0; i < len(list)-1; i++ {
		j := i + simrt.Draw(len(list)-i)
		list[i], list[j] = list[j], list[i]
	}
	for i := 1; i < len(list); i++ {
		if list[i] < list[i-1] {
			simrt.Hit("invert-list-not-increasing")
			break
		}
	}
	opts.InvertChan = list
	return opts
}

// c12Body runs a history of 1–3 runs on one AbacoSource object: every run has its own
// options (new ones, or exactly the previous run's) and its own input, and must satisfy the
// oracle from a fresh state — the output of a run depends on that run's options and input only.
func c12Body(env *simrt.Env) {
	// one run in eight is a long-stream run: one channel, ~10^5 samples, so that the reset intervals at and
	// beyond 2^16 are reached by a signal that stays away from the home offset
	w := newAbacoSimWorldOf(env, "C12", simrt.Draw(8) == 7)
	w.lowZero = true
	var opts AbacoUnwrapOptions
	for {
		w.discardWorks = false // no start-up gap: every emitted sample is a known input sample
		if w.faulted {
			w.drawFaults(false)
		}
		if w.runNo > 0 && simrt.Draw(3) == 2 {
			simrt.Hit("restart-with-the-same-options")
		} else {
			if w.runNo > 0 {
				simrt.Hit("restart-with-other-options")
			}
			opts = c12DrawOptions(w)
		}
		c12Run(env, w, opts)
		if w.runNo+1 >= w.histLen {
			return
		}
		time.Sleep(time.Duration(simrt.Draw(4)) * 70 * time.Millisecond)
		w = w.nextRun()
	}
}

// c12Run is one Configure/Start/…/Stop cycle with the given options.
func c12Run(env *simrt.Env, w *abacoSimWorld, opts AbacoUnwrapOptions) {
	nframes := w.npackets * w.fpp
	env.Op("%s", w.describe())
	env.Op("unwrap options %+v", opts)

	// the checker's view of the options, per block channel
	params := make([]c12Params, w.nchan)
	for _, g := range w.groups {
		for c := 0; c < g.nchan; c++ {
			p := c12Params{fb: 16, enable: opts.Unwrap, resetAfter: opts.ResetAfter, pulseSign: opts.PulseSign}
			if opts.RescaleRaw {
				p.drop = 4
			}
			if opts.Bias {
				p.biasLevel = int(math.Round(0.38 * 65536))
				if opts.PulseSign < 0 {
					p.biasLevel = -p.biasLevel
				}
			}
			for _, ic := range opts.InvertChan {
				if ic == g.firstChan+c {
					p.invert = true
					simrt.Hit("inverted-channel")
				}
			}
			params[g.chanOff+c] = p
		}
	}
	w.signal = make([][]uint16, w.nchan)
	for c := range w.signal {
		if w.long && simrt.Draw(4) != 3 {
			w.signal[c] = c12Excursion(nframes, params[c])
		} else {
			w.signal[c] = c12Signal(nframes, 16)
		}
	}
	if w.long {
		simrt.Hit("long-stream-run")
	}
	if opts.Unwrap && opts.ResetAfter >= 65535 {
		simrt.Hit("reset-interval-2^16-or-more")
	}
	if opts.PulseSign != 1 && opts.PulseSign != -1 {
		simrt.Hit("pulse-sign-not-unit")
	}
	if !opts.Unwrap && opts.ResetAfter <= 0 {
		simrt.Hit("reset-interval-not-positive-unwrap-off")
	}
	if opts.Bias && opts.Unwrap {
		simrt.Hit("biased")
	}
	if !opts.Unwrap {
		simrt.Hit("unwrap-off")
	}

	w.startSource(opts)
	o := newC03Oracle(w, "C12")
	o.keepOut = true
	o.cmp = func(g *abacoSimGroup, ch, frame int, got RawType) bool {
		p := params[g.chanOff+ch]
		v, _ := w.demuxed(g, ch, frame)
		return ((int(got)-p.reduce(v))&0xffff)%p.quantum() == 0
	}
	g0 := abacoSimRun(w, o)

	// ---- every channel of the source against the checker, and against a one-call run
	raws := make([][]RawType, w.nchan)
	resets, edges, away, longResets := 0, 0, 0, 0
	for _, g := range w.groups {
		for c := 0; c < g.nchan; c++ {
			bc := g.chanOff + c
			raw := make([]RawType, 0, nframes)
			for f := g0 * w.fpp; f < nframes; f++ {
				v, _ := w.demuxed(g, c, f)
				raw = append(raw, v)
			}
			raws[bc] = raw
			out := o.out[bc]
			v := c12Check(params[bc], raw, out)
			if v.rule != "" {
				simrt.Fail(v.rule, v.sig, "channel %d (block channel %d, %s), stream fed in %d batches: %s", g.firstChan+c, bc, params[bc], len(o.lens), v.detail)
			}
			resets += v.resets
			edges += v.edges
			if v.awayMax > away {
				away = v.awayMax
			}
			if v.resets > 0 && params[bc].resetAfter >= 65535 {
				longResets++
			}
			p := params[bc]
			if p.enable || p.drop > 0 || p.invert {
				whole := append([]RawType(nil), raw...)
				NewPhaseUnwrapper(p.fb, p.drop, p.enable, p.biasLevel, p.resetAfter, p.pulseSign, p.invert).UnwrapInPlace(&whole)
				for k := range whole {
					if whole[k] != out[k] {
						simrt.Fail("C12.split", "unwrap:depends-on-batching", "channel %d (%s — the documented meaning of the source's options): sample %d is %d when the stream goes through the source in %d batches %v…, %d when a fresh unwrapper with these parameters gets it in one call",
							g.firstChan+c, p, k, out[k], len(o.lens), c12Head(o.lens), whole[k])
					}
				}
			}
		}
	}
	// a wrap (or reset) decided on the first sample of a batch: the carried state matters
	at := 0
	for _, n := range o.lens[:len(o.lens)-1] {
		at += n
		for bc := range raws {
			p := params[bc]
			if p.enable && (int(o.out[bc][at])-p.reduce(raws[bc][at]))&0xffff != (int(o.out[bc][at-1])-p.reduce(raws[bc][at-1]))&0xffff {
				simrt.Hit("offset-change-at-batch-start")
			}
		}
	}

	// ---- stand-alone instances on one channel's stream, same batches
	for i := 0; i < 2; i++ {
		bc := simrt.Draw(w.nchan)
		p := c12Params{fb: uint(13 + simrt.Draw(4)), resetAfter: []int{1, 2, 3, 7, 25, 20000, 65535, 65536, 65536 + 7, 100000, math.MaxInt64}[simrt.Draw(11)], pulseSign: 1 - 2*simrt.Draw(2), invert: simrt.Draw(3) == 2}
		p.drop = uint(simrt.Draw(7))
		p.enable = p.drop > 0 && simrt.Draw(5) != 4
		half := 1 << (p.fb - 1)
		switch simrt.Draw(5) {
		case 1:
			p.biasLevel = int(math.Round(0.38 * float64(2*half)))
		case 2:
			p.biasLevel = -int(math.Round(0.38 * float64(2*half)))
		case 3:
			p.biasLevel = half/2 - simrt.Draw(half)
		case 4:
			p.biasLevel = half - 1 - simrt.Draw(2*half-1)
		}
		raw := raws[bc]
		batched := append([]RawType(nil), raw...)
		ua := NewPhaseUnwrapper(p.fb, p.drop, p.enable, p.biasLevel, p.resetAfter, p.pulseSign, p.invert)
		at := 0
		for _, n := range o.lens {
			part := batched[at : at+n : at+n]
			ua.UnwrapInPlace(&part)
			at += n
		}
		whole := append([]RawType(nil), raw...)
		NewPhaseUnwrapper(p.fb, p.drop, p.enable, p.biasLevel, p.resetAfter, p.pulseSign, p.invert).UnwrapInPlace(&whole)
		for k := range whole {
			if whole[k] != batched[k] {
				simrt.Fail("C12.split", "unwrap:depends-on-batching", "stand-alone unwrapper (%s): sample %d is %d when the stream is fed in the %d batches channel %d saw (%v…), %d when fed in one call",
					p, k, batched[k], len(o.lens), bc, c12Head(o.lens), whole[k])
			}
		}
		v := c12Check(p, raw, batched)
		if v.rule != "" {
			simrt.Fail(v.rule, v.sig, "stand-alone unwrapper (%s) fed the %d batches of block channel %d: %s", p, len(o.lens), bc, v.detail)
		}
		resets += v.resets
		edges += v.edges
		if v.awayMax > away {
			away = v.awayMax
		}
		if v.resets > 0 && p.resetAfter >= 65535 {
			longResets++
		}
		if p.fb < 16 {
			simrt.Hit("fraction-bits-below-16")
		}
	}
	if resets > 0 {
		simrt.Hit("automatic-reset")
	}
	if edges > 0 {
		simrt.Hit("step-at-window-edge")
	}
	if away >= 3 {
		simrt.Hit("away-from-home-3+")
	}
	if away >= 30000 {
		simrt.Hit("away-from-home-30000+")
	}
	if away >= 65535 {
		simrt.Hit("away-from-home-65535+")
	}
	if longResets > 0 {
		simrt.Hit("automatic-reset-after-65535+")
	}
	env.Sample(map[string]interface{}{"groups": len(w.groups), "channels": w.nchan, "frames_per_packet": w.fpp, "packets_per_group": w.npackets,
		"batches": len(o.lens), "frames_out": o.emitted, "options": fmt.Sprintf("%+v", opts), "automatic_resets": resets, "edge_steps": edges,
		"period_ms": int(w.period / time.Millisecond)})
}

func c12Head(l []int) []int {
	if len(l) > 12 {
		return l[:12]
	}
	return l
}
