//go:build verif

package dastard

// C18b world: the shared-memory ring buffer as the Abaco transport (DESIGN §3.3 "ring
// transport", §3.8, §5 C18 "and as transport in 3.3").
//
// Real: ringbuffer.RingBuffer in /dev/shm (Create/Write/BytesWriteable on the writer's
// handle; Open/PacketSize/DiscardStride/ReadMultipleOf/Read/BytesReadable/Close on the
// reader's), AbacoRing (NewAbacoRing with a negative card number, start, discardStale,
// samplePackets, ReadAllPackets, stop), AbacoSource (Configure with ActiveCards, Sample,
// PrepareChannels, PrepareRun, StartRun, readerMainLoop, getNextBlock, distributeData), the
// packets package (every packet is built with NewPacket/SetTimestamp/NewData/Bytes and
// decoded by the real ReadPacketPlusPad).
// Stub: the DEED process (a harness task that writes packets, padded to the fixed packet
// size, with the package's own Write), the core loop (the harness performs the steps of
// Start() and takes raw blocks from getNextBlock()).
//
// The writer (DEED stand-in) never overwrites unread data: it writes a packet only when it
// fits (nominal runs), or only as many bytes as fit and the rest later (faulted runs), so
// back-pressure delays packets and never loses one. Packet k of the ring (k = 0,1,2,…) lives
// at stream offset k·packetSize; with G channel groups packet k belongs to group k mod G and
// is that group's packet number k div G. Sequence numbers are consecutive per group.
//
// The shared description block is looked at (and, for the history before the source starts,
// written) through a mapping of the harness's own: that block is the interface between DEED
// and dastard (magic, version, write pointer, read pointer, buffer size, packet size). That
// the harness reads it correctly is verified after Create, not assumed.
//
// Per run: packet size 128…8200 bytes (8192 = the firmware's; powers of two, multiples of 8 that
// are not, odd and prime: 1001, 257, 8191), ring of 2–64 packets plus, in half of the runs, 1…packetSize-1 extra bytes (so that packets straddle the wrap point at a
// different place on every lap); 1–2 channel groups sharing the ring; packet period 0.2–40 ms
// against the reader's 5 ms (sampling) and 50 ms (run) polls, so the ring runs empty in some
// runs and is full nearly all the time in others. History before the first start: none, or
// an earlier session that moved both pointers on by up to three laps. In a quarter of the
// runs the source is stopped (like Stop(), at any moment) and, after a pause in which DEED
// fills the ring, configured and started again on the same ring (as TestAbacoSource does).
// Faulted runs add: stale unread packets and a partly written packet in the ring at the
// first start; a writer that writes only what fits and the rest later (the ring becomes
// exactly full, size-1 bytes) or writes packets in pieces (sized around the wrap point, with
// pauses of up to more than a reader tick); bursts without pacing; writer stalls (<= 1.2 s);
// reader stalls (scheduler fault, 60–900 ms).
// One run in c18bBigOneIn ("big" runs, nominal and faulted) has a ring of DEED's real order of
// magnitude (17–21 MB, a packet size that is not a power of two: 8000 … 16000 bytes) and a
// DEED that hands over its DMA buffer in one go once or twice per session: 1700–2400 packets
// between two reads, so that one ReadAllPackets finds more than 16 MiB. The history of such a
// ring (an earlier session) is made by moving both pointers, not by writing the packets.
//
// The source's only producer is the real *AbacoRing made by NewAbacoRing and selected through
// Configure(ActiveCards); the harness wraps it in an observing shim (c18bProducer) whose five
// methods call the real ones and note what went in and what came out.

import (
	"encoding/binary"
	"fmt"
	"os"
	"runtime/debug"
	"strings"
	"syscall"
	"time"

	"github.com/usnistgov/dastard/packets"
	"github.com/usnistgov/dastard/ringbuffer"

	"verif/simrt"
)

const (
	c18bNone      = uint8(0) // not (yet) handed to the source
	c18bOld       = uint8(1) // in the ring (or already gone) before the source opened it; discarded by start()
	c18bSampled   = uint8(2) // handed to Sample()
	c18bDiscarded = uint8(3) // discarded by StartRun()
	c18bDelivered = uint8(4) // returned by ReadAllPackets in the run phase
)

const c18bTick = 50 * time.Millisecond // the reader's period (set by StartRun)

const c18bBigOneIn = 50

// c18bInStartRun is true while the harness is inside AbacoSource.StartRun(): the only
// goroutine started from abaco.go in that window is the reader loop.
var c18bInStartRun bool

var c18bDebug = os.Getenv("VERIF_VERBOSE") == "1"

func c18bClassify(site string) string {
	if c18bInStartRun && strings.HasPrefix(site, "abaco.go:") {
		return "abacoReader"
	}
	return classify(site)
}

type c18bGroup struct {
	ord       int
	firstChan int
	nchan     int
	chanOff   int
	wide      bool
	seq0      uint32

	base        int // group packet number of the first packet handed to Sample(); -1 before
	lastSampled int
	lastDeliv   int
	fate        []uint8
	delivAt     []time.Time
}

func (g *c18bGroup) fateOf(i int) uint8 {
	if i < 0 || i >= len(g.fate) {
		return c18bNone
	}
	return g.fate[i]
}

func (g *c18bGroup) setFate(i int, f uint8, at time.Time) {
	for len(g.fate) <= i {
		g.fate = append(g.fate, c18bNone)
		g.delivAt = append(g.delivAt, time.Time{})
	}
	g.fate[i] = f
	g.delivAt[i] = at
}

type c18bWorld struct {
	env     *simrt.Env
	faulted bool
	delta   time.Duration

	// geometry
	big    bool // a ring of 17-21 MB and DMA flushes of more than 16 MiB
	psize  int
	npk    int // whole packets the ring's size has room for
	extra  int // size - npk*psize
	size   int
	fpp    int
	nchan  int
	groups []*c18bGroup
	hdrLen int

	// pacing and the writer's behaviour
	period    time.Duration
	poll      time.Duration
	mode      int // 0 whole packets only, 1 writes what fits, 2 packets in pieces
	runTicks  int
	sessions  int // 1, or 2: the source is stopped and started again on the same ring while DEED keeps writing
	session   int
	pause     time.Duration
	restart   int  // two sessions: 0 DEED keeps writing; 1 DEED is restarted with another packet size and re-creates the ring; 2 … and rewrites the description block of the existing ring
	kill      bool // DEED is killed where it stands
	oldPsize  int  // the packet size before DEED was restarted (0: never restarted)
	prepDelay time.Duration
	salt      uint32
	ts0       uint64
	tsStep    uint64
	tsRate    float64

	// faults
	burstOn      bool
	wStallOn     bool
	rStallOn     bool
	nWStalls     int
	lastWStall   int
	nRStalls     int
	burstLeft    int
	nFlush       int  // big runs: DMA flushes so far (this session)
	flushedRun   bool // big runs: a flush happened in the run phase of this session
	staleWhole   int
	stalePartial int
	history      int

	// ring
	rawName  string
	descName string
	wb       *ringbuffer.RingBuffer
	desc     []byte
	dev      *AbacoRing
	unlinked bool

	// model
	wpos    int // bytes accepted by Write so far (from Write's return values only)
	built   int // packets completely written
	cur     []byte
	curOff  int
	doneAt  []time.Time // when packet k was complete in the ring
	next    int         // the ring packet the producer has to hand over next; -1 before start()
	started bool
	running bool
	stop    bool
	wdone   bool
	as      *AbacoSource

	// statistics
	nReads       int
	nDelivered   int
	sessDeliv    int
	nSampled     int
	nDiscarded   int
	nOld         int
	maxPerRead   int
	nTruncated   int
	lastDelivAt  time.Time
	startRunGap  int
	writerWaited int
}

// ---------------------------------------------------------------------------------
// generation

func c18bPick(menu []int) int { return menu[simrt.Draw(len(menu))] }

func c18bHash(a, b, c, d uint32) uint32 {
	x := uint64(a)*0x9e3779b97f4a7c15 ^ uint64(b)*0xbf58476d1ce4e5b9 ^ uint64(c)*0x94d049bb133111eb ^ uint64(d)*0xd6e8feb86659fd93
	x ^= x >> 31
	x *= 0xbf58476d1ce4e5b9
	x ^= x >> 29
	x *= 0x94d049bb133111eb
	x ^= x >> 32
	return uint32(x)
}

func newC18bWorld(env *simrt.Env) *c18bWorld {
	w := &c18bWorld{env: env, faulted: env.Faulted(), next: -1}
	// virtual CPU time per scheduler step, measured
	t1 := time.Now()
	simrt.Gosched()
	w.delta = time.Since(t1)
	if w.delta <= 0 {
		w.delta = time.Microsecond
	}

	w.big = simrt.Draw(c18bBigOneIn) == c18bBigOneIn-1
	w.psize = c18bPick([]int{8192, 512, 256, 1024, 128, 1000, 4096, 200, 1001, 8191, 257, 520, 3000, 8200})
	w.npk = c18bPick([]int{4, 2, 3, 8, 16, 5, 2 + simrt.Draw(15), 17 + simrt.Draw(48)})
	if w.big {
		w.psize = c18bPick([]int{8000, 10000, 12000, 16000, 8200, 8191, 9000, 8192})
		w.npk = (1<<24)/w.psize + 20 + simrt.Draw(300)
		simrt.Hit("big-ring")
	}
	if simrt.Draw(2) == 1 {
		w.extra = c18bPick([]int{1, w.psize - 1, w.psize / 2, 8, 1 + simrt.Draw(w.psize-1)})
	}
	w.size = w.npk*w.psize + w.extra

	ngroups := 1
	if simrt.Draw(4) == 3 {
		ngroups = 2
	}
	first := simrt.Draw(3)
	for i := 0; i < ngroups; i++ {
		g := &c18bGroup{ord: i, base: -1, lastSampled: -1, lastDeliv: -1}
		g.nchan = c18bPick([]int{2, 1, 3, 4})
		g.firstChan = first
		first += g.nchan + simrt.Draw(2)*3
		g.chanOff = w.nchan
		w.nchan += g.nchan
		g.wide = simrt.Draw(4) == 3
		g.seq0 = 1 + uint32(simrt.Draw(1<<30))
		w.groups = append(w.groups, g)
	}
	w.salt = uint32(simrt.Draw(1 << 16))
	w.ts0 = 1000 + uint64(simrt.Draw(1<<30))
	w.tsRate = 1e8

	w.hdrLen = w.headerLength()
	w.drawFrames()

	w.period = time.Duration(c18bPick([]int{2000, 5000, 1000, 10000, 500, 20000, 200, 40000})) * time.Microsecond
	if w.big {
		w.period = time.Duration(c18bPick([]int{5000, 10000, 20000, 2000})) * time.Microsecond
	}
	w.poll = time.Duration(c18bPick([]int{2000, 5000, 1000, 10000})) * time.Microsecond
	w.tsStep = uint64(w.period * time.Duration(ngroups) / (10 * time.Nanosecond))
	w.runTicks = 6 + simrt.Draw(30)
	w.history = simrt.Draw(3) // 0 a fresh ring, 1/2 an earlier session moved the pointers on
	if simrt.Draw(3) == 2 {
		w.prepDelay = time.Duration(c18bPick([]int{1, 5, 20, 60, 1 + simrt.Draw(100)})) * time.Millisecond
	}
	w.sessions = 1
	if simrt.Draw(4) == 3 {
		w.sessions = 2
		w.pause = time.Duration(c18bPick([]int{20, 120, 400, 1 + simrt.Draw(300)})) * time.Millisecond
		if !w.big {
			w.restart = c18bPick([]int{0, 1, 2, 1})
		}
	}
	if w.faulted {
		w.drawFaults()
	}
	return w
}

// drawFrames draws the number of frames per packet: limited by the packet size (one value for all groups).
func (w *c18bWorld) drawFrames() {
	w.fpp = 1
	maxF := 1 << 30
	exact := 0
	for _, g := range w.groups {
		bpf := 2 * g.nchan
		if g.wide {
			bpf = 4 * g.nchan
		}
		room := w.psize - w.hdrLen
		if m := room / bpf; m < maxF {
			maxF = m
		}
		if room%bpf == 0 && len(w.groups) == 1 {
			exact = room / bpf // the packet fills its slot exactly: no padding
		}
	}
	if maxF < 1 {
		w.fail("harness.geometry", "harness:packet-too-small", "a packet of %d bytes has no room for one frame (header %d bytes)", w.psize, w.hdrLen)
	}
	w.fpp = c18bPick([]int{4, 1, 2, 8, 16, 25, 50, 1 + simrt.Draw(64)})
	if exact > 0 && exact <= 128 && simrt.Draw(3) == 2 {
		w.fpp = exact
	}
	if w.fpp > maxF {
		w.fpp = maxF
	}
}

func (w *c18bWorld) drawFaults() {
	any := false
	for try := 0; !any; try++ {
		if try == 3 { // (a replayed, shortened tape answers 0 for ever)
			w.mode = 1
			break
		}
		if m := simrt.DrawFault(3); m > 0 {
			w.mode = m
			any = true
		}
		if simrt.DrawFault(2) == 1 {
			w.staleWhole = simrt.DrawFault(w.npk) // 0..npk-1 whole packets left unread
			any = true
		}
		if simrt.DrawFault(2) == 1 {
			w.stalePartial = c18bFaultPick([]int{1, w.psize - 1, w.psize / 2, w.hdrLen, 16, 1 + simrt.DrawFault(w.psize-1)})
			any = true
		}
		if simrt.DrawFault(3) == 1 {
			w.burstOn = true
			any = true
		}
		if simrt.DrawFault(3) == 1 {
			w.wStallOn = true
			any = true
		}
		if simrt.DrawFault(3) == 1 {
			w.rStallOn = true
			any = true
		}
	}
	// stale data must fit (one byte of the ring always stays free)
	for w.staleWhole*w.psize+w.stalePartial > w.size-1 {
		if w.staleWhole > 0 {
			w.staleWhole--
		} else {
			w.stalePartial = w.size - 1
		}
	}
}

func c18bFaultPick(menu []int) int { return menu[simrt.DrawFault(len(menu))] }

func (w *c18bWorld) describe() string {
	s := fmt.Sprintf("C18b world: big=%v ring of %d bytes = %d packets of %d + %d; %d group(s), %d frames/packet (header %d bytes), packet period %v, writer poll %v, writer mode %d, %d run ticks, history %d, %d session(s) (pause %v)",
		w.big, w.size, w.npk, w.psize, w.extra, len(w.groups), w.fpp, w.hdrLen, w.period, w.poll, w.mode, w.runTicks, w.history, w.sessions, w.pause)
	if w.restart > 0 {
		s += fmt.Sprintf(", DEED restarted with another packet size between the sessions (kind %d)", w.restart)
	}
	for _, g := range w.groups {
		bits := 16
		if g.wide {
			bits = 32
		}
		s += fmt.Sprintf("; group %d: chan %d..%d int%d seq0=%d packet length %d", g.ord, g.firstChan, g.firstChan+g.nchan-1, bits, g.seq0, w.packetLength(g))
	}
	if w.faulted {
		s += fmt.Sprintf("; faults: stale %d whole packets + %d bytes, bursts=%v writer-stalls=%v reader-stalls=%v", w.staleWhole, w.stalePartial, w.burstOn, w.wStallOn, w.rStallOn)
	}
	return s
}

// ---------------------------------------------------------------------------------
// ground-truth packets

func (w *c18bWorld) groupOf(k int) (g *c18bGroup, i int) {
	n := len(w.groups)
	return w.groups[k%n], k / n
}

func (w *c18bWorld) ringIndex(g *c18bGroup, i int) int { return i*len(w.groups) + g.ord }

// payload is the value group g sends for its channel ch in frame number frame
// (= group packet number · frames per packet + frame inside the packet).
func (w *c18bWorld) payload(g *c18bGroup, ch, frame int) int32 {
	h := c18bHash(uint32(g.ord)+w.salt<<8, uint32(ch), uint32(frame), 0xc18b)
	if g.wide {
		return int32(h)
	}
	return int32(int16(h))
}

// demuxed: the 16-bit value the source may derive from a payload value (the value itself
// for 16-bit payloads; for 32-bit payloads the 16 highest bits, where floor and rounding
// towards zero are both accepted, as in C03).
func (w *c18bWorld) demuxed(g *c18bGroup, ch, frame int) (v, alt RawType) {
	p := w.payload(g, ch, frame)
	if !g.wide {
		return RawType(uint16(int16(p))), RawType(uint16(int16(p)))
	}
	return RawType(uint16(p >> 16)), RawType(uint16(p / 0x10000))
}

func (w *c18bWorld) headerLength() int {
	pk := packets.NewPacket(10, 20, 0, 0)
	pk.SetTimestamp(&packets.PacketTimestamp{T: 12345, Rate: 1e8})
	if err := pk.NewData([]int16{1, 2}, []int16{2}); err != nil {
		w.fail("harness.packet", "harness:packet-build", "NewData: %v", err)
	}
	return len(pk.Bytes()) - 4
}

func (w *c18bWorld) packetLength(g *c18bGroup) int {
	bpf := 2 * g.nchan
	if g.wide {
		bpf = 4 * g.nchan
	}
	return w.hdrLen + bpf*w.fpp
}

// packetBytes builds ring packet k and pads it to the packet size.
func (w *c18bWorld) packetBytes(k int) []byte {
	g, i := w.groupOf(k)
	pk := packets.NewPacket(10, uint32(20+g.ord), g.seq0+uint32(i)-1, g.firstChan) // NewData adds one
	pk.SetTimestamp(&packets.PacketTimestamp{T: w.ts0 + uint64(i)*w.tsStep, Rate: w.tsRate})
	n := w.fpp * g.nchan
	var err error
	if g.wide {
		d := make([]int32, n)
		for f := 0; f < w.fpp; f++ {
			for c := 0; c < g.nchan; c++ {
				d[f*g.nchan+c] = w.payload(g, c, i*w.fpp+f)
			}
		}
		err = pk.NewData(d, []int16{int16(g.nchan)})
	} else {
		d := make([]int16, n)
		for f := 0; f < w.fpp; f++ {
			for c := 0; c < g.nchan; c++ {
				d[f*g.nchan+c] = int16(w.payload(g, c, i*w.fpp+f))
			}
		}
		err = pk.NewData(d, []int16{int16(g.nchan)})
	}
	if err != nil {
		w.fail("harness.packet", "harness:packet-build", "NewData: %v", err)
	}
	b := pk.Bytes()
	if len(b) > w.psize {
		w.fail("harness.packet", "harness:packet-too-long", "packet of %d bytes for a packet size of %d", len(b), w.psize)
	}
	if len(b) == w.psize {
		simrt.Hit("packet-fills-its-slot")
	}
	out := make([]byte, w.psize)
	copy(out, b)
	for j := len(b); j < w.psize; j++ { // padding: anything but a valid header
		out[j] = byte(0xa5 ^ j ^ k*7)
	}
	return out
}

// samePacket compares a decoded packet with ring packet k; "" if equal.
func (w *c18bWorld) samePacket(p *packets.Packet, k int) string {
	g, i := w.groupOf(k)
	if p == nil {
		return "nil packet"
	}
	if sn := p.SequenceNumber(); sn != g.seq0+uint32(i) {
		return fmt.Sprintf("sequence number %d, want %d", sn, g.seq0+uint32(i))
	}
	nch, off := p.ChannelInfo()
	if nch != g.nchan || off != g.firstChan {
		return fmt.Sprintf("channel info (%d channels from %d), want (%d from %d)", nch, off, g.nchan, g.firstChan)
	}
	if p.Frames() != w.fpp {
		return fmt.Sprintf("%d frames, want %d", p.Frames(), w.fpp)
	}
	if ts := p.Timestamp(); ts == nil || ts.T != w.ts0+uint64(i)*w.tsStep {
		return fmt.Sprintf("time stamp %v, want T=%d", ts, w.ts0+uint64(i)*w.tsStep)
	}
	switch d := p.Data.(type) {
	case []int16:
		if g.wide || len(d) != w.fpp*g.nchan {
			return fmt.Sprintf("payload of %d int16 values", len(d))
		}
		for j, v := range d {
			if int32(v) != w.payload(g, j%g.nchan, i*w.fpp+j/g.nchan) {
				return fmt.Sprintf("payload value %d is %d, want %d", j, v, w.payload(g, j%g.nchan, i*w.fpp+j/g.nchan))
			}
		}
	case []int32:
		if !g.wide || len(d) != w.fpp*g.nchan {
			return fmt.Sprintf("payload of %d int32 values", len(d))
		}
		for j, v := range d {
			if v != w.payload(g, j%g.nchan, i*w.fpp+j/g.nchan) {
				return fmt.Sprintf("payload value %d is %d, want %d", j, v, w.payload(g, j%g.nchan, i*w.fpp+j/g.nchan))
			}
		}
	default:
		return fmt.Sprintf("payload of type %T", p.Data)
	}
	return ""
}

// whichPacket finds the ring packet (near k) that p equals, or -1.
func (w *c18bWorld) whichPacket(p *packets.Packet, k int) int {
	for d := 0; d <= 3*w.npk+4; d++ {
		if k-d >= 0 && w.samePacket(p, k-d) == "" {
			return k - d
		}
		if d > 0 && w.samePacket(p, k+d) == "" {
			return k + d
		}
	}
	return -1
}

// ---------------------------------------------------------------------------------
// the ring and its description block

const (
	c18bOffMagic  = 0
	c18bOffWrite  = 8
	c18bOffRead   = 16
	c18bOffSize   = 24
	c18bOffPacket = 32
)

func (w *c18bWorld) descW() int  { return int(binary.LittleEndian.Uint64(w.desc[c18bOffWrite:])) }
func (w *c18bWorld) descR() int  { return int(binary.LittleEndian.Uint64(w.desc[c18bOffRead:])) }
func (w *c18bWorld) queued() int { return w.wpos - w.descR() }

// c18bPrevNames: the names of this process's previous run. A run that ends by a panic of a goroutine
// of the program (not by w.fail) is abandoned where it stands and its deferred clean-up never runs; the
// next run removes what it left in /dev/shm (a big ring is 20 MB of memory).
var c18bPrevNames [2]string

func (w *c18bWorld) createRing() {
	debug.SetPanicOnFault(true)
	if c18bPrevNames[0] != "" {
		if old, _ := ringbuffer.NewRingBuffer(c18bPrevNames[0], c18bPrevNames[1]); old != nil {
			old.Unlink() // (normally gone already)
		}
	}
	card := -(1000000000 + os.Getpid()*1000 + w.env.Run%1000) // names only; never influences behaviour
	w.rawName = fmt.Sprintf("xdma%d_c2h_0_buffer", card)
	w.descName = fmt.Sprintf("xdma%d_c2h_0_description", card)
	c18bPrevNames = [2]string{w.rawName, w.descName}
	w.producerCreates()
	dev, err := NewAbacoRing(card)
	if err != nil {
		w.fail("harness.setup", "harness:new-abaco-ring", "NewAbacoRing(%d): %v", card, err)
	}
	w.dev = dev
}

// producerCreates: what DEED does when it starts: it creates both regions (size w.size) and states its
// packet size in the description block.
func (w *c18bWorld) producerCreates() {
	wb, _ := ringbuffer.NewRingBuffer(w.rawName, w.descName)
	wb.Unlink() // leftovers of a killed earlier process with the same pid
	if err := wb.Create(w.size); err != nil {
		w.fail("harness.setup", "harness:cannot-create-ring", "Create(%d) in /dev/shm: %v", w.size, err)
	}
	w.wb = wb
	fd, err := syscall.Open("/dev/shm/"+w.descName, syscall.O_RDWR, 0)
	if err != nil {
		w.fail("harness.setup", "harness:cannot-map-description", "open description block: %v", err)
	}
	w.desc, err = syscall.Mmap(fd, 0, 4096, syscall.PROT_READ|syscall.PROT_WRITE, syscall.MAP_SHARED)
	syscall.Close(fd)
	if err != nil {
		w.desc = nil
		w.fail("harness.setup", "harness:cannot-map-description", "mmap description block: %v", err)
	}
	if binary.LittleEndian.Uint32(w.desc[c18bOffMagic:]) != 0xb0ffde5c || int(binary.LittleEndian.Uint64(w.desc[c18bOffSize:])) != w.size || w.descW() != 0 || w.descR() != 0 {
		w.fail("harness.setup", "harness:description-layout", "the description block does not read as expected after Create(%d): % x", w.size, w.desc[:40])
	}
	// DEED states its packet size in the description block
	binary.LittleEndian.PutUint64(w.desc[c18bOffPacket:], uint64(w.psize))
	w.unlinked = false
	if w.extra != 0 {
		simrt.Hit("ring-size-not-multiple-of-packet")
	}
	if w.size%os.Getpagesize() != 0 {
		simrt.Hit("ring-size-not-multiple-of-page")
	}
}

// fail reports a violation; the names in /dev/shm go first (the task that fails need not be
// the one whose deferred clean-up would remove them).
func (w *c18bWorld) fail(rule, sig, format string, args ...interface{}) {
	w.unlink()
	simrt.Fail(rule, sig, format, args...)
}

func (w *c18bWorld) unlink() {
	if w.wb != nil && !w.unlinked {
		w.wb.Unlink()
		w.unlinked = true
	}
}

// cleanup runs however the run ends.
func (w *c18bWorld) cleanup() {
	w.stop = true
	w.unlink()
	if w.dev != nil && w.dev.ring != nil {
		w.dev.ring.Close()
	}
	if w.wb != nil {
		w.wb.Close()
	}
	if w.desc != nil {
		syscall.Munmap(w.desc)
		w.desc = nil
	}
}

// ---------------------------------------------------------------------------------
// the DEED stand-in

// put writes bytes of the current packet; returns the number accepted.
func (w *c18bWorld) put(n int) int {
	if w.cur == nil {
		w.cur = w.packetBytes(w.built)
		w.curOff = 0
	}
	rest := w.cur[w.curOff:]
	if n > len(rest) {
		n = len(rest)
	}
	q := w.queued()
	got, err := w.wb.Write(rest[:n])
	if err != nil || got < 0 || got > n {
		w.fail("C18b.write", "ring:write-result", "Write(%d bytes) with %d of %d buffered returned %d, %v", n, q, w.size, got, err)
	}
	if q+got > w.size {
		w.fail("C18b.write", "ring:write-overfills", "Write(%d bytes) accepted %d with %d already buffered in a ring of %d", n, got, q, w.size)
	}
	if got > 0 {
		off := w.wpos % w.size
		if off+got > w.size {
			simrt.Hit("write-split-across-wrap")
			if got < n {
				simrt.Hit("truncated-write-split-across-wrap")
			}
		}
	}
	if got < n {
		w.nTruncated++
		simrt.Hit("write-truncated")
	}
	w.wpos += got
	w.curOff += got
	if w.descW() != w.wpos {
		w.fail("C18b.write", "ring:write-pointer", "after Write accepted %d bytes the description block's write pointer is %d, %d bytes were accepted in total", got, w.descW(), w.wpos)
	}
	if nq := w.queued(); nq >= w.size-1 {
		simrt.Hit("ring-exactly-full")
	} else if w.size-1-nq < w.psize && w.mode == 0 {
		simrt.Hit("ring-full-for-whole-packets")
	}
	if w.curOff == len(w.cur) {
		w.cur = nil
		w.built++
		w.doneAt = append(w.doneAt, time.Now())
	}
	return got
}

// history: what happened to the ring before this source opens it.
func (w *c18bWorld) makeHistory() {
	if w.history > 0 {
		// an earlier session: packets written and consumed (the earlier reader moved the read
		// pointer on in whole packets), so that stream offsets are beyond the first lap
		hn := w.npk
		if hn > 64 { // (a ring re-used with a much smaller packet size has room for thousands: the writer's packet cap)
			hn = 64
		}
		n := 1 + simrt.Draw(3*hn)
		if w.big {
			// (thousands of packets: the earlier session is represented by its end state, both pointers
			// at packet n, and the packets it wrote and read are not written)
			w.wpos, w.built = n*w.psize, n
			w.doneAt = make([]time.Time, n)
			binary.LittleEndian.PutUint64(w.desc[c18bOffWrite:], uint64(w.wpos))
			binary.LittleEndian.PutUint64(w.desc[c18bOffRead:], uint64(w.wpos))
			n = 0
		}
		for j := 0; j < n; j++ {
			if w.put(w.psize) != w.psize {
				w.fail("harness.history", "harness:history-write", "a packet did not fit into an empty ring")
			}
			binary.LittleEndian.PutUint64(w.desc[c18bOffRead:], uint64(w.wpos))
		}
		n = w.built
		w.env.Op("history: %d packets written and consumed by an earlier session (pointers at %d)", n, w.wpos)
	}
	if w.staleWhole > 0 || w.stalePartial > 0 {
		for j := 0; j < w.staleWhole; j++ {
			if w.put(w.psize) != w.psize {
				w.fail("harness.history", "harness:history-write", "stale packet %d did not fit", j)
			}
		}
		if w.stalePartial > 0 {
			if w.put(w.stalePartial) != w.stalePartial {
				w.fail("harness.history", "harness:history-write", "stale partial packet did not fit")
			}
			simrt.Fault("stale-partial-packet")
		}
		if w.staleWhole > 0 {
			simrt.Fault("stale-whole-packets")
		}
		w.env.Op("history: %d whole packets and %d bytes of the next left unread in the ring", w.staleWhole, w.stalePartial)
	}
}

// restartProducer: between two sessions (the source is stopped, its handle on the ring closed) DEED is
// killed and started again with another packet size. The new DEED either creates both regions anew
// (new files under the same names, another ring size) or finds the regions and rewrites the description
// block (pointers back to 0, its packet size). Its stream starts at offset 0 again: ring packet k of the
// new DEED lives at k·(new packet size). The AbacoRing and AbacoSource objects stay.
func (w *c18bWorld) restartProducer() {
	// the old DEED keeps writing for a part of the pause
	time.Sleep(time.Duration(simrt.Draw(int(w.pause/time.Millisecond)+1)) * time.Millisecond)
	w.kill = true
	for !w.wdone {
		time.Sleep(time.Millisecond)
	}
	old := w.psize
	maxBpf := 0
	for _, g := range w.groups {
		bpf := 2 * g.nchan
		if g.wide {
			bpf = 4 * g.nchan
		}
		if bpf > maxBpf {
			maxBpf = bpf
		}
	}
	min := w.hdrLen + maxBpf + 8
	if min < 64 {
		min = 64
	}
	var divisors []int
	for d := 2; d <= 64 && old/d >= min; d++ {
		if old%d == 0 {
			divisors = append(divisors, old/d)
		}
	}
	kind := simrt.Draw(4)
	if kind == 0 && len(divisors) == 0 {
		kind = 1 + simrt.Draw(3)
	}
	ps := old
	switch kind {
	case 0: // smaller, dividing the old one: a boundary of the old stride is one of the new stride
		ps = c18bPick(divisors)
		simrt.Hit("restart-packet-size-divides-the-old-one")
	case 1: // a multiple of the old one
		ps = old * (2 + simrt.Draw(3))
		simrt.Hit("restart-packet-size-multiple-of-the-old-one")
	case 2: // larger, not a multiple
		ps = c18bPick([]int{old + 8, old + 1, old + old/2, old + 1 + simrt.Draw(old)})
		simrt.Hit("restart-packet-size-larger")
	default: // unrelated
		for try := 0; ps == old || ps < min; try++ {
			ps = c18bPick([]int{8192, 512, 256, 1024, 128, 1000, 4096, 200, 1001, 8191, 257, 520, 3000, 8200, min + simrt.Draw(old)})
			if try == 8 { // (a replayed, shortened tape answers 0 for ever)
				ps = old + 24
			}
		}
		if ps < old {
			simrt.Hit("restart-packet-size-smaller")
		} else {
			simrt.Hit("restart-packet-size-larger")
		}
	}
	if ps == old || ps < min {
		w.fail("harness.restart", "harness:restart-packet-size", "new packet size %d (old %d, at least %d)", ps, old, min)
	}
	how := w.restart
	if how == 2 && w.size/ps < 2 {
		how = 1 // (the existing ring is too small for the new packets)
	}
	w.oldPsize, w.psize = old, ps
	if how == 1 {
		// new regions under the same names
		w.unlink()
		w.wb.Close()
		syscall.Munmap(w.desc)
		w.desc = nil
		w.npk = c18bPick([]int{4, 2, 3, 8, 16, 5, 2 + simrt.Draw(15), 17 + simrt.Draw(48)})
		w.extra = 0
		if simrt.Draw(2) == 1 {
			w.extra = c18bPick([]int{1, w.psize - 1, w.psize / 2, 8, 1 + simrt.Draw(w.psize-1)})
		}
		w.size = w.npk*w.psize + w.extra
		w.producerCreates()
		simrt.Hit("restart-ring-recreated")
	} else {
		// the regions stay; DEED initialises the description block as Create does
		w.npk, w.extra = w.size/ps, w.size%ps
		binary.LittleEndian.PutUint64(w.desc[c18bOffWrite:], 0)
		binary.LittleEndian.PutUint64(w.desc[c18bOffRead:], 0)
		binary.LittleEndian.PutUint64(w.desc[c18bOffPacket:], uint64(ps))
		if w.unlinked {
			w.fail("harness.restart", "harness:restart-unlinked", "the regions' names are gone before the last start")
		}
		simrt.Hit("restart-description-rewritten")
	}
	simrt.Hit("producer-restarted-with-other-packet-size")
	// the new DEED's stream
	w.wpos, w.built, w.cur, w.curOff, w.doneAt = 0, 0, nil, 0, nil
	w.salt = uint32(simrt.Draw(1 << 16))
	for _, g := range w.groups {
		g.fate, g.delivAt = nil, nil
		g.seq0 = 1 + uint32(simrt.Draw(1<<30))
	}
	w.drawFrames()
	w.burstLeft, w.lastWStall = 0, 0
	w.started, w.stop, w.kill, w.wdone = false, false, false, false
	w.history = simrt.Draw(3)
	if w.stalePartial >= w.psize {
		w.stalePartial = w.psize - 1
	}
	for w.staleWhole*w.psize+w.stalePartial > w.size-1 {
		if w.staleWhole > 0 {
			w.staleWhole--
		} else {
			w.stalePartial = w.size - 1
		}
	}
	w.env.Op("DEED restarted (kind %d): packet size %d -> %d, ring of %d bytes = %d packets + %d, %d frames/packet", how, old, ps, w.size, w.npk, w.extra, w.fpp)
	w.makeHistory()
	simrt.GoHarness("c18bWriter", w.writer)
}

func (w *c18bWorld) writer() {
	defer func() { w.wdone = true }()
	debug.SetPanicOnFault(true)
	n := len(w.groups)
	for {
		if w.kill {
			return // (the process is gone, whatever it was writing)
		}
		if w.cur == nil {
			if w.built >= 4000 && !w.big || w.built >= 16000 {
				w.stop = true
			}
			if w.stop && w.built%n == 0 {
				return
			}
			// pacing of a new packet
			if w.burstLeft > 0 {
				w.burstLeft--
			} else {
				time.Sleep(w.period)
				if w.big && w.started && !w.stop && (w.nFlush < 2 || w.running && !w.flushedRun) {
					// DEED hands over a DMA buffer of tens of MB in one go (as much as the ring has room for)
					one := 8
					if w.running && !w.flushedRun {
						one = 3
					}
					if simrt.Draw(one) == 0 {
						room := (w.size - 1 - w.queued()) / w.psize
						n := c18bPick([]int{room, room - simrt.Draw(40), (1<<24)/w.psize + 1 + simrt.Draw(w.npk-(1<<24)/w.psize), room / 2})
						if n > room {
							n = room
						}
						if n > 1 {
							w.burstLeft = n - 1
							w.nFlush++
							if w.running {
								w.flushedRun = true
							}
							simrt.Hit("dma-flush")
							if n*w.psize > 1<<24 {
								simrt.Hit("dma-flush-over-16MiB")
							}
							w.env.Op("writer: DMA flush of %d packets (%d bytes), %d bytes buffered before", n, n*w.psize, w.queued())
						}
					}
				}
				if w.faulted && w.started && !w.stop {
					if w.burstOn && simrt.Chance(1, 30) {
						w.burstLeft = w.npk + simrt.DrawFault(w.npk+1)
						if w.big {
							w.burstLeft = 20 + simrt.DrawFault(200) // (the DMA flushes are this world's bursts)
						}
						simrt.Fault("writer-burst")
						w.env.Op("writer: burst of %d packets", w.burstLeft)
					}
					if w.wStallOn && w.nWStalls < 3 && w.built >= w.lastWStall+3 && simrt.Chance(1, 40) {
						w.nWStalls++
						w.lastWStall = w.built
						d := time.Duration(100+simrt.DrawFault(1100)) * time.Millisecond
						simrt.Fault("writer-stall")
						w.env.Op("writer: stalls for %v", d)
						time.Sleep(d)
					}
				}
			}
		}
		mode := w.mode
		if w.big && w.burstLeft > 0 && mode == 2 {
			mode = 1 // a DMA transfer is not written in pieces with pauses
		}
		switch mode {
		case 0: // whole packets, only when they fit
			want := w.psize - w.curOff
			if w.wb.BytesWriteable() >= want {
				if w.put(want) != want {
					w.fail("C18b.write", "ring:write-short", "BytesWriteable() said %d bytes fit, Write accepted less", want)
				}
			} else {
				w.writerWaited++
				simrt.Hit("back-pressure")
				time.Sleep(w.poll)
			}
		case 1: // as much as fits now, the rest later
			want := w.psize - w.curOff
			if w.put(want) < want {
				w.writerWaited++
				simrt.Hit("back-pressure")
				time.Sleep(w.poll)
			}
		default: // in pieces
			rest := w.psize - w.curOff
			toWrap := w.size - w.wpos%w.size
			piece := c18bPick([]int{rest, 1, rest - 1, rest / 2, toWrap, toWrap - 1, toWrap + 1, w.hdrLen, 1 + simrt.Draw(rest)})
			if piece < 1 {
				piece = 1
			}
			if piece > rest {
				piece = rest
			}
			got := w.put(piece)
			if got < piece {
				w.writerWaited++
				simrt.Hit("back-pressure")
				time.Sleep(w.poll)
			} else if w.cur != nil {
				switch simrt.Draw(4) {
				case 0:
				case 1:
					simrt.Gosched()
				case 2:
					time.Sleep(time.Duration(1+simrt.Draw(20)) * 100 * time.Microsecond)
				default:
					time.Sleep(c18bTick + time.Duration(simrt.Draw(30))*time.Millisecond)
					simrt.Hit("partial-packet-held-over-a-tick")
				}
			}
		}
	}
}

// ---------------------------------------------------------------------------------
// the observing shim around the real AbacoRing

type c18bProducer struct {
	w   *c18bWorld
	dev *AbacoRing
}

func (p *c18bProducer) start() error {
	w := p.w
	r0, w0 := w.descR(), w.descW()
	err := p.dev.start()
	r1 := w.descR()
	w.env.Op("start(): write pointer %d, read pointer %d -> %d, err=%v", w0, r0, r1, err)
	if err != nil {
		w.fail("C18b.start", "ring:start-error", "AbacoRing.start() on a ring with read pointer %d, write pointer %d (packet size %d): %v", r0, w0, w.psize, err)
	}
	state := fmt.Sprintf("start() on a ring of %d with packet size %d, write pointer %d (%d whole packets and %d bytes of the next written so far), read pointer %d: afterwards the read pointer is %d", w.size, w.psize, w0, w0/w.psize, w0%w.psize, r0, r1)
	if r1 < r0 {
		w.fail("C18b.start", "ring:start-moves-read-pointer-backwards", "%s, behind its old value: consumed data would be read again", state)
	}
	if r1 > w0 {
		w.fail("C18b.start", "ring:start-beyond-write-pointer", "%s, beyond the write pointer", state)
	}
	if r1%w.psize != 0 {
		w.fail("C18b.start-aligned", "ring:start-off-packet-boundary", "%s, which is not a packet boundary: every later read starts in the middle of a packet", state)
	}
	if w0-r1 >= w.psize {
		w.fail("C18b.start-stale", "ring:stale-packets-kept", "%s: %d whole stale packets stay in the ring and will be delivered as new", state, (w0-r1)/w.psize)
	}
	// (after the rules on what start() did to the ring, so that a wrong stride is reported by its effect where it has one)
	if p.dev.packetSize != w.psize {
		w.fail("C18b.start", "ring:packet-size", "AbacoRing.start() took packet size %d from the description block, DEED wrote %d", p.dev.packetSize, w.psize)
	}
	if w0%w.psize != 0 {
		simrt.Hit("start-with-partial-packet-in-ring")
	}
	if w0-r0 >= w.psize {
		simrt.Hit("start-with-stale-whole-packets")
	}
	if w0 > w.size {
		simrt.Hit("start-beyond-first-lap")
	}
	w.next = r1 / w.psize
	w.nOld = w.next
	for k := 0; k < w.next; k++ {
		g, i := w.groupOf(k)
		g.setFate(i, c18bOld, time.Time{})
	}
	w.started = true
	if w.session == w.sessions-1 {
		w.unlink() // both sides hold their mappings: nothing is left in /dev/shm however the run ends
	}
	if w.session > 0 {
		simrt.Hit("restart-on-the-same-ring")
	}
	if w.oldPsize > 0 {
		simrt.Hit("start-after-packet-size-change")
		if w0-r0 >= w.psize {
			simrt.Hit("start-after-packet-size-change-with-stale-packets")
		}
		if w0/w.psize*w.psize%w.oldPsize != 0 {
			simrt.Hit("start-after-packet-size-change-old-stride-off-boundary")
		}
	}
	return err
}

// take checks the packets a call handed over against the ring's content, in order, and
// advances the model.
func (p *c18bProducer) take(what string, pk []*packets.Packet, fate uint8) {
	w := p.w
	now := time.Now()
	whole := w.wpos / w.psize // packets completely in the ring (or already consumed)
	for j, q := range pk {
		k := w.next
		if diff := w.samePacket(q, k); diff != "" {
			sig, text := "ring:packet-garbled", "it equals no packet written recently"
			if m := w.whichPacket(q, k); m >= 0 {
				switch {
				case m < k:
					sig, text = "ring:packet-repeated", fmt.Sprintf("it is packet %d, which was handed over (or discarded) before", m)
				default:
					sig, text = "ring:packet-skipped", fmt.Sprintf("it is packet %d: %d packet(s) were skipped", m, m-k)
				}
			}
			w.fail("C18b.fifo", sig, "%s: packet %d of %d handed over should be ring packet %d (stream offset %d, ring offset %d), but: %s; %s. Ring of %d, packet size %d, %d bytes written in total",
				what, j, len(pk), k, k*w.psize, k*w.psize%w.size, diff, text, w.size, w.psize, w.wpos)
		}
		if k >= whole {
			w.fail("C18b.fifo", "ring:packet-before-it-was-written", "%s handed over ring packet %d, of which only %d of %d bytes have been written", what, k, w.wpos-k*w.psize, w.psize)
		}
		g, i := w.groupOf(k)
		g.setFate(i, fate, now)
		switch fate {
		case c18bSampled:
			if g.base < 0 {
				g.base = i
			}
			g.lastSampled = i
			w.nSampled++
		case c18bDelivered:
			g.lastDeliv = i
			w.nDelivered++
			w.sessDeliv++
			w.lastDelivAt = now
		}
		w.next++
	}
	if r := w.descR(); r != w.next*w.psize {
		w.fail("C18b.read-pointer", "ring:read-pointer-off", "after %s handed over %d packets the read pointer is %d, want %d (= %d packets of %d bytes consumed)", what, len(pk), r, w.next*w.psize, w.next, w.psize)
	}
}

func (p *c18bProducer) samplePackets(d time.Duration) ([]*packets.Packet, error) {
	w := p.w
	pk, err := p.dev.samplePackets(d)
	w.env.Op("samplePackets -> %d packets, err=%v (next ring packet was %d)", len(pk), err, w.next)
	if err != nil {
		w.fail("C18b.whole-packets", "ring:packet-decode-error", "samplePackets failed after %d packets: %v (ring of %d, packet size %d, read pointer %d, write pointer %d)", len(pk), err, w.size, w.psize, w.descR(), w.wpos)
	}
	p.take("samplePackets", pk, c18bSampled)
	return pk, err
}

func (p *c18bProducer) discardStale() error {
	w := p.w
	r0, w0 := w.descR(), w.descW()
	err := p.dev.discardStale()
	r1 := w.descR()
	w.env.Op("discardStale(): write pointer %d, read pointer %d -> %d, err=%v", w0, r0, r1, err)
	state := fmt.Sprintf("discardStale() with write pointer %d, read pointer %d (packet size %d): afterwards the read pointer is %d", w0, r0, w.psize, r1)
	if err != nil {
		w.fail("C18b.discard", "ring:discard-error", "%s, error %v", state, err)
	}
	if r1 < r0 || r1 > w0 {
		w.fail("C18b.discard", "ring:discard-out-of-range", "%s, outside [old read pointer, write pointer]", state)
	}
	if r1%w.psize != 0 {
		w.fail("C18b.start-aligned", "ring:discard-off-packet-boundary", "%s, which is not a packet boundary", state)
	}
	if w0-r1 >= w.psize {
		w.fail("C18b.start-stale", "ring:stale-packets-kept", "%s: %d whole stale packets stay in the ring", state, (w0-r1)/w.psize)
	}
	if w0%w.psize != 0 {
		simrt.Hit("discard-with-partial-packet-in-ring")
	}
	for k := w.next; k < r1/w.psize; k++ {
		g, i := w.groupOf(k)
		g.setFate(i, c18bDiscarded, time.Time{})
		w.nDiscarded++
		w.startRunGap++
	}
	w.next = r1 / w.psize
	return err
}

func (p *c18bProducer) ReadAllPackets() ([]*packets.Packet, error) {
	w := p.w
	if w.faulted && w.rStallOn && w.running && !w.stop && w.nRStalls < 3 && simrt.Chance(1, 14) {
		w.nRStalls++
		d := time.Duration(60+simrt.DrawFault(840)) * time.Millisecond
		steps := int(d / w.delta)
		if steps > 2500 {
			steps = 2500
		}
		if steps < 1 {
			steps = 1
		}
		w.env.Op("reader stalled for %d scheduler steps (about %v)", steps, time.Duration(steps)*w.delta)
		simrt.Stall("abacoReader", steps)
		simrt.Gosched()
	}
	r0 := w.descR()
	q := w.wpos - r0
	avail := q / w.psize
	pk, err := p.dev.ReadAllPackets()
	w.nReads++
	if c18bDebug {
		fmt.Printf("DBG %v ReadAllPackets: read pointer %d, %d bytes buffered (%d whole packets) -> %d packets, err=%v\n", time.Now().Format("05.000000"), r0, q, avail, len(pk), err)
	}
	geom := fmt.Sprintf("ring of %d, packet size %d, read pointer %d (ring offset %d), %d bytes buffered = %d whole packets and %d bytes", w.size, w.psize, r0, r0%w.size, q, avail, q%w.psize)
	if err != nil {
		w.fail("C18b.whole-packets", "ring:packet-decode-error", "ReadAllPackets failed after %d packets: %v (%s)", len(pk), err, geom)
	}
	// probes
	if avail > 0 {
		off := r0 % w.size
		if off+avail*w.psize > w.size {
			simrt.Hit("wrap-during-producer-read")
			if pg := os.Getpagesize(); w.size%pg != 0 {
				simrt.Hit("wrap-during-producer-read-ring-not-page-multiple")
				if off+avail*w.psize-w.size <= pg-w.size%pg {
					simrt.Hit("wrapped-producer-read-continuation-shorter-than-page-slack")
				}
			}
			if (w.size-off)%w.psize != 0 {
				simrt.Hit("packet-split-across-wrap-read")
			}
		} else if off+avail*w.psize == w.size {
			simrt.Hit("producer-read-ends-at-wrap")
		}
		if q%w.psize != 0 {
			simrt.Hit("partial-packet-behind-whole-ones")
		}
	} else if q > 0 {
		simrt.Hit("only-a-partial-packet-buffered")
	}
	if q >= w.size-1 {
		simrt.Hit("read-from-exactly-full-ring")
	}
	if avail*w.psize > 1<<24 {
		simrt.Hit("producer-read-of-more-than-16MiB")
		if w.psize&(w.psize-1) != 0 {
			simrt.Hit("producer-read-of-more-than-16MiB-packet-size-not-a-power-of-two")
		}
		if r0%w.size+avail*w.psize > w.size {
			simrt.Hit("producer-read-of-more-than-16MiB-wraps")
		}
	}
	if avail >= 2 {
		simrt.Hit("read-returns-several-packets")
	}
	if avail > w.maxPerRead {
		w.maxPerRead = avail
	}
	fate := c18bDelivered
	p.take("ReadAllPackets", pk, fate)
	if len(pk) != avail {
		sig := "ring:read-short"
		if len(pk) > avail {
			sig = "ring:read-more-than-written"
		}
		w.fail("C18b.read-all", sig, "ReadAllPackets handed over %d packets, the ring held %d whole packets (%s)", len(pk), avail, geom)
	}
	return pk, err
}

func (p *c18bProducer) stop() error { return p.dev.stop() }

// ---------------------------------------------------------------------------------
// starting the source and playing the core loop's part

func (w *c18bWorld) startSource() {
	// per-session state of the model
	for _, g := range w.groups {
		g.base, g.lastSampled, g.lastDeliv = -1, -1, -1
	}
	w.next, w.running, w.sessDeliv, w.lastDelivAt = -1, false, 0, time.Time{}
	w.nFlush, w.flushedRun = 0, false
	card := w.dev.ringnum
	as := w.as
	if as == nil {
		PubRecordsChan = make(chan []*DataRecord, 16)
		PubSummariesChan = make(chan []*DataRecord, 16)
		clientMessageChan = make(chan ClientUpdate, 16)
		resetViper(w.env.Dir)
		simrt.MapShuffle = true
		var err error
		as, err = NewAbacoSource()
		if err != nil {
			w.fail("harness.start", "harness:new-source", "NewAbacoSource: %v", err)
		}
		as.arings[card] = w.dev
		as.Nrings++
	}
	if err := as.Configure(&AbacoSourceConfig{ActiveCards: []int{card}}); err != nil {
		w.fail("harness.start", "harness:configure", "Configure: %v", err)
	}
	if len(as.producers) != 1 || as.producers[0] != PacketProducer(w.dev) {
		w.fail("harness.start", "harness:configure", "Configure(ActiveCards=[the ring]) did not make the ring the only producer")
	}
	as.producers[0] = &c18bProducer{w: w, dev: w.dev}
	w.as = as
	if err := as.SetStateStarting(); err != nil {
		w.fail("harness.start", "harness:state", "SetStateStarting: %v", err)
	}
	if err := as.Sample(); err != nil {
		w.fail("C18b.start", "ring:sample-failed", "Sample() over a ring that DEED keeps filling with well-formed packets: %v", err)
	}
	if as.nchan != w.nchan || len(as.groups) != len(w.groups) {
		w.fail("C18b.start", "ring:sample-layout", "Sample found %d channels in %d groups, DEED sends %d in %d", as.nchan, len(as.groups), w.nchan, len(w.groups))
	}
	if err := as.PrepareChannels(); err != nil {
		w.fail("harness.start", "harness:prepare", "PrepareChannels: %v", err)
	}
	if err := as.PrepareRun(4, 16); err != nil {
		w.fail("harness.start", "harness:prepare", "PrepareRun: %v", err)
	}
	if w.prepDelay > 0 {
		time.Sleep(w.prepDelay) // PrepareRun takes its time on a real machine (many channels)
	}
	as.RunDoneActivate()
	w.running = true
	c18bInStartRun = true
	err := as.StartRun()
	c18bInStartRun = false
	if err != nil {
		w.fail("harness.start", "harness:startrun", "StartRun: %v", err)
	}
}

// pump takes blocks from getNextBlock() like CoreLoop does; onIdle is called every 100 ms
// of simulated time and returns true when the run should be ended (the harness then does
// what Stop() does). It returns true if the block channel closed before that.
func (w *c18bWorld) pump(onBlock func(b *dataBlock), onIdle func() bool) (selfEnded bool) {
	as := w.as
	tick := time.NewTicker(100 * time.Millisecond)
	defer tick.Stop()
	aborted := false
	nb := as.getNextBlock()
	for {
		select {
		case blk, ok := <-nb:
			if !ok {
				w.finish()
				return !aborted
			}
			if blk.err != nil {
				w.finish()
				w.fail("harness.pump", "harness:error-block", "the source delivered an error block: %v", blk.err)
			}
			onBlock(blk)
			nb = as.getNextBlock()
		case <-tick.C:
			if !aborted && onIdle() {
				closeIfOpen(as.abortSelf)
				aborted = true
			}
		}
	}
}

func (w *c18bWorld) finish() {
	as := w.as
	as.RunDoneDeactivate()
	as.numberWrittenTicker.Stop()
	as.writingState.externalTriggerTicker.Stop()
	as.writingState.dataDropTicker.Stop()
}
