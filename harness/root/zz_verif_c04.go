//go:build verif

package dastard

// C04 — Lancero ingest: frame alignment, channel order, err/fb pairing, external triggers.
//
// World (DESIGN §3.4): a real LanceroSource built the way the repository's own test builds
// one without hardware, with lanceroSimCard as its only device and a per-run
// cringeGlobals.json. The harness plays the core loop's part: it performs the steps of
// Start() (SetStateStarting, Sample -> real sampleCard, PrepareChannels, PrepareRun,
// RunDoneActivate, StartRun -> real reader goroutine) and then takes raw blocks from the
// real getNextBlock()/distributeData, so every block's per-channel rawData, firstFrameIndex,
// signed, droppedFrames and externalTriggerRowcounts are observable. A client task sends
// real ConfigureMixFraction requests at tape-chosen times.
//
// The source's device table holds one or several cards (card numbers as the driver might
// enumerate them: {0}, {0,1}, {1}, {2,5}, ...), of which exactly one, drawn per run, is named in
// ActiveCards (the reader refuses more than one active device by design). The cards that are
// not active keep whatever their last run left behind (or nothing, if they never ran) and have
// a card of another geometry behind them; the oracle is the same whichever card is active.
//
// Oracle (property C04): see c04World.checkBlock. Rules:
//   C04.shape            all segments of a block share length, frame index and time; signed
//                        on error channels, unsigned on feedback channels
//   C04.order            error stream of channel 2(c*rows+r) = the error halves of the words
//                        (r,c) of consecutive frames, each once, from the first emitted frame on
//   C04.feedback         feedback stream = previous delivered feedback half with the two flag
//                        bits cleared (+ mix*int16(error of this sample), saturated), the first
//                        sample of the run unconstrained; rounding of a non-integer result may
//                        go either way, saturation and pairing are exact
//   C04.mix-window       a mix request takes effect at a block boundary inside its window
//   C04.ext-trigger      concatenated externalTriggerRowcounts = frame*rows+row of exactly the
//                        rising edges of the flag, frame = the number dastard gave that sample
//   C04.frame-numbers    first(k+1) >= first(k) + len(k)
//   C04.driver-contract  (in the card) bytes released <= bytes delivered and not yet released
//   faulted runs only:
//   C04.realign          after a loss every output sample is still the word of its own
//                        row/column, in frame order, none repeated, frames missing only around
//                        an injected loss
//   C04.loss-reported    a loss that is not a whole number of frames is followed by a block
//                        with droppedFrames > 0

import (
	"encoding/json"
	"fmt"
	"math"
	"os"
	"path/filepath"
	"strings"
	"time"

	"verif/simrt"
)

func init() {
	simrt.Register(&simrt.Check{Name: "C04", Property: "C04", Body: c04Body, Classify: c04Classify, MaxSteps: 60000,
		Real: []string{"LanceroSource.Configure (cringeGlobals.json), Sample/sampleCard, PrepareChannels, PrepareRun, StartRun", "launchLanceroReader goroutine (FindFrameBits check, demultiplexing, ReleaseBytes)", "getNextBlock goroutine, mix requests, distributeData (external-trigger scan, MixRetardFb, segment stamping)", "lancero.FindFrameBits"},
		Stub: []string{"Lancero card + driver (lanceroSimCard implementing lancero.Lanceroer)", "core loop (the harness takes the blocks from getNextBlock itself)", "RPC transport of the mix requests"}})
}

func c04Classify(site string) string {
	switch {
	case strings.HasPrefix(site, "lancero_source.go"):
		return "lancero"
	case strings.HasPrefix(site, "harness:"):
		return site
	}
	return classify(site)
}

type c04MixState struct {
	old     float64 // the value in force before cur (diagnosis of late changes)
	changed int     // block index from which cur is in force
	cur     float64 // fraction/Nsamp in force
	pending bool
	next    float64
	k0      int // blocks received when the request was issued
	k1      int // blocks received when the reply arrived (valid if replied)
	replied bool
}

type c04World struct {
	env   *simrt.Env
	truth *lanceroSimTruth
	card  *lanceroSimCard
	ls    *LanceroSource
	table *c04CardTable

	runIndex             int // which run of the source object this is (0-based)
	active               int // number of the card that is active in this run
	rows, cols, W, nchan int
	nsamp                int
	fpt                  int
	lsync                int
	nBlocks              int
	clientBusy           bool // a mix request is in flight
	framePeriod          time.Duration
	horizon              int // frames for which ground truth (trigger plan) exists

	blocks  int // blocks received and checked
	samples int // output samples per channel so far
	done    bool

	lastFrame []int // per word index: truth frame of the last delivered sample (-1: none yet)
	prevFB    []int // per word index: truth feedback half (flags included) of the last delivered sample (-1: none)
	mix       []c04MixState

	trigLevel     bool
	trigUnchecked bool
	wantTrig      []int64
	wantTrigBlock []int // block in which each expected edge lies
	gotTrig       []int64
	trigAtEdge    bool // level at the last row of the previous block

	haveBlock bool
	lastFirst FrameIndex
	lastLen   int

	dropBlocks   []int // indices of blocks with droppedFrames > 0
	firstEmitted int
	mixRequests  int
	nTrigEdges   int
}

// chanOf is the property's channel numbering: column-major, error then feedback.
func (w *c04World) chanOf(idx int) int {
	r, c := idx/w.cols, idx%w.cols
	return 2 * (c*w.rows + r)
}

// c04CardTable is the harness's record of the source's device table: the card numbers and,
// per card, the number of rows of the last run in which it was active (0: never active).
type c04CardTable struct {
	cards    []int
	lastRows map[int]int
	idle     map[int]*lanceroSimCard // the card behind a device that has not been active yet
	ran      map[int]*lanceroSimCard // the (stopped) card of a device's last completed run
	ranUse   map[int][3]int          // its starts / reads / releases when that run had stopped
}

// noteUse counts, as a probe, the cards that were started, read or released while they were not
// the active card (no rule: the property speaks of the active card's data only).
func (ct *c04CardTable) noteUse(active int) {
	for _, n := range ct.cards {
		if n == active {
			continue
		}
		if c := ct.idle[n]; c != nil && (c.starts > 0 || c.nReads > 0 || c.nReleases > 0) {
			simrt.Hit("inactive-card-was-used")
		}
		if c := ct.ran[n]; c != nil && ct.ranUse[n] != [3]int{c.starts, c.nReads, c.nReleases} {
			simrt.Hit("inactive-card-was-used")
		}
	}
}

// c04CardTables: what EnumerateLanceroDevices may find. Entry 0 is the single card 0 of the
// earlier versions of this world (a minimised tape ends up there).
var c04CardTables = [][]int{{0}, {0, 1}, {1}, {2, 5}, {0, 3}, {1, 2}, {0, 1, 2}, {3}}

func c04Body(env *simrt.Env) {
	// One LanceroSource object lives through 1-3 runs: run, Stop, Configure again (same or another
	// geometry, NSAMP, line period, active card), Start again. Every run has its own card and
	// ground truth and is checked with the full oracle.
	nRuns := 1 + simrt.Draw(3)
	table := &c04CardTable{cards: c04CardTables[simrt.Draw(len(c04CardTables))], lastRows: map[int]int{}, idle: map[int]*lanceroSimCard{}, ran: map[int]*lanceroSimCard{}, ranUse: map[int][3]int{}}
	resetViper(env.Dir)
	startSinks(nil, func() int { return 0 })

	// what NewLanceroSource does, with simulated cards as the devices found
	ls := new(LanceroSource)
	ls.name = "Lancero"
	ls.nsamp = 1
	ls.channelsPerPixel = 2
	ls.devices = make(map[int]*LanceroDevice)
	for _, n := range table.cards {
		// a card that is open but idle, with a geometry and contents of its own: data taken from it by
		// mistake cannot pass for the active card's
		rows, cols := 2+(5*n+3)%11, 1+(n+2)%4
		t := lanceroSimNewTruth(rows, cols, (n+1)%4)
		t.trig = make([]bool, 64*rows)
		idle := lanceroSimNewCard(env, t, time.Duration(rows)*2560*time.Nanosecond)
		table.idle[n] = idle
		ls.devices[n] = &LanceroDevice{devnum: n, card: idle}
		ls.ncards++
	}
	env.Op("device table of the source: cards %v", table.cards)
	if len(table.cards) > 1 {
		simrt.Hit("several-cards-in-device-table")
	}
	if table.cards[0] != 0 {
		simrt.Hit("no-card-0-in-device-table")
	}

	var prev *c04World
	var samples []interface{}
	for k := 0; k < nRuns; k++ {
		w := c04NewWorld(env, ls, table, k, nRuns, prev)
		w.run(k == nRuns-1)
		samples = append(samples, w.sample())
		prev = w
	}
	table.noteUse(prev.active)
	if nRuns == 1 {
		env.Sample(map[string]interface{}{"cards": table.cards, "run": samples[0]})
	} else {
		env.Sample(map[string]interface{}{"cards": table.cards, "runs_on_one_source_object": samples})
	}
}

// c04Geometry draws the array of run k. Run 0: any. Later runs: the same again; another
// columns x rows with the same product (the channel count stays, the order table must not);
// any other; the same with another NSAMP / line period only.
func c04Geometry(k int, prev *c04World) (rows, cols, how int) {
	if k == 0 || prev == nil {
		return 2 + simrt.Draw(11), 1 + simrt.Draw(4), 0
	}
	how = 1 + simrt.Draw(4)
	switch how {
	case 1: // same product, other shape
		var alt [][2]int
		for c := 1; c <= 4; c++ {
			if prev.W%c == 0 {
				if r := prev.W / c; r >= 2 && r <= 12 && c != prev.cols {
					alt = append(alt, [2]int{r, c})
				}
			}
		}
		if len(alt) > 0 {
			g := alt[simrt.Draw(len(alt))]
			return g[0], g[1], how
		}
		return 2 + simrt.Draw(11), 1 + simrt.Draw(4), 3
	case 2, 4: // unchanged geometry (4: only NSAMP / line period are drawn again)
		return prev.rows, prev.cols, how
	}
	return 2 + simrt.Draw(11), 1 + simrt.Draw(4), how
}

func c04NewWorld(env *simrt.Env, ls *LanceroSource, table *c04CardTable, k, nRuns int, prev *c04World) *c04World {
	// the active card of this run: any card of the table; in a later run mostly another one
	active := table.cards[0]
	if n := len(table.cards); n > 1 {
		if k == 0 || simrt.Draw(4) == 3 {
			active = table.cards[simrt.Draw(n)]
		} else { // another card than in the run before
			i := 0
			for table.cards[i] != prev.active {
				i++
			}
			active = table.cards[(i+1+simrt.Draw(n-1))%n]
		}
	}
	rows, cols, how := c04Geometry(k, prev)
	fptMenu := []int{3, 2, 4, 5, 8, 13, 30}
	fpt := fptMenu[simrt.Draw(len(fptMenu))]
	nsampMenu := []int{1, 2, 4, 3, 16}
	nsamp := nsampMenu[simrt.Draw(len(nsampMenu))]
	if how == 2 {
		fpt, nsamp = prev.fpt, prev.nsamp
	}
	style := simrt.Draw(4)
	w := &c04World{env: env, ls: ls, table: table, active: active, runIndex: k, rows: rows, cols: cols, W: rows * cols, nchan: 2 * rows * cols, nsamp: nsamp, fpt: fpt}
	// the line period (in 8 ns clocks) that gives about fpt frames per 50 ms reader tick
	w.lsync = int(math.Round(6250000 / float64(fpt*rows)))
	w.framePeriod = time.Duration(w.lsync*rows*8) * time.Nanosecond
	w.truth = lanceroSimNewTruth(rows, cols, style)
	w.horizon = 60000 / w.W
	if w.horizon > 3000 {
		w.horizon = 3000
	}
	w.truth.trig = make([]bool, w.horizon*rows)
	w.card = lanceroSimNewCard(env, w.truth, w.framePeriod)
	w.card.blocksSeen = func() int { return w.blocks }
	waits := []time.Duration{10 * time.Millisecond, 3 * time.Millisecond, 25 * time.Millisecond}
	w.card.waitStep = waits[simrt.Draw(len(waits))]
	w.card.waitFrames = 4 + simrt.Draw(6)
	if nRuns == 1 {
		w.nBlocks = 4 + simrt.Draw(30)
	} else {
		w.nBlocks = 3 + simrt.Draw(12)
	}
	nBlocks := w.nBlocks
	w.card.onCaptureRun = func(first int) { w.planTriggers(first+2, nBlocks*fpt+4*fpt) }
	if env.Faulted() {
		w.card.allowFaults = true
		w.card.gapsLeft = 1
		w.card.gapWhole = simrt.DrawFault(4) == 3
	}
	what := []string{"", "same channel count, other shape", "unchanged", "other geometry", "unchanged geometry, other NSAMP / line period"}[how]
	if k > 0 {
		simrt.Hit("restart-" + []string{"", "same-product-other-shape", "unchanged", "other-geometry", "other-nsamp-lsync"}[how])
		if prev.rows != rows {
			simrt.Hit("restart-with-other-row-count")
		}
		if prev.active != active {
			simrt.Hit("restart-with-other-active-card")
		}
		what = " (restart of the same source object: " + what + ")"
	}
	if active == 0 {
		simrt.Hit("active-card-0")
	} else {
		simrt.Hit("active-card-not-0")
		if len(table.cards) > 1 {
			simrt.Hit("active-card-not-0-of-several")
		}
		// what the harness knows of card 0 (it never looks into the source for this)
		switch r0, have := table.lastRows[0]; {
		case table.cards[0] != 0:
			simrt.Hit("active-card-not-0:no-card-0")
		case !have:
			simrt.Hit("active-card-not-0:card-0-never-active")
		case r0 == rows:
			simrt.Hit("active-card-not-0:card-0-last-ran-with-same-rows")
		case r0 < rows:
			simrt.Hit("active-card-not-0:card-0-last-ran-with-fewer-rows")
		default:
			simrt.Hit("active-card-not-0:card-0-last-ran-with-more-rows")
		}
	}
	env.Op("run %d of %d%s: active card %d of %v, geometry %d columns x %d rows, about %d frames per reader tick (lsync %d), NSAMP %d, content style %d, %d blocks", k+1, nRuns, what, active, table.cards, cols, rows, fpt, w.lsync, nsamp, style, nBlocks)
	return w
}

// run performs one Configure / Start / blocks (/ Stop) cycle on the shared source object.
func (w *c04World) run(last bool) {
	env, ls := w.env, w.ls
	rows, cols, fpt := w.rows, w.cols, w.fpt
	// per-run cringeGlobals.json
	cg := map[string]int{"SETT": 10, "seqln": rows, "lsync": w.lsync, "testpattern": 0, "propagationdelay": 0, "NSAMP": w.nsamp, "carddelay": 0, "XPT": 0}
	cgBytes, _ := json.Marshal(cg)
	cgPath := filepath.Join(env.Dir, "cringeGlobals.json")
	if err := os.WriteFile(cgPath, cgBytes, 0644); err != nil {
		simrt.Fail("harness.setup", "harness:cringe-globals", "%v", err)
	}
	cringeGlobalsPath = cgPath
	// the active card of this run gets the run's card; the other devices keep what they have (the
	// stopped card of their last run, or the idle card they were opened with)
	w.table.noteUse(-1)
	ls.devices[w.active].card = w.card
	delete(w.table.idle, w.active)
	delete(w.table.ran, w.active)
	w.table.lastRows[w.active] = rows

	config := LanceroSourceConfig{FiberMask: 0xffff, CardDelay: []int{1}, ActiveCards: []int{w.active}, FirstRow: 1}
	if err := ls.Configure(&config); err != nil {
		simrt.Fail("harness.setup", "harness:configure", "run %d: Configure with ActiveCards %v of %v: %v", w.runIndex+1, config.ActiveCards, w.table.cards, err)
	}

	// the steps of Start()
	if err := ls.SetStateStarting(); err != nil {
		simrt.Fail("harness.setup", "harness:start", "run %d: SetStateStarting: %v", w.runIndex+1, err)
	}
	if err := ls.Sample(); err != nil {
		simrt.Fail("harness.setup", "harness:sample", "run %d: Sample on a card that delivers well-formed frames: %v", w.runIndex+1, err)
	}
	if got := ls.devices[w.active].ncols; got != cols || ls.nchan != w.nchan {
		simrt.Fail("C04.geometry", "lancero:geometry-misdetected", "run %d: sampling a %d-column x %d-row card (card %d) found %d columns, %d channels", w.runIndex+1, cols, rows, w.active, got, ls.nchan)
	}
	if err := ls.PrepareChannels(); err != nil {
		simrt.Fail("harness.setup", "harness:prepare-channels", "%v", err)
	}
	if err := ls.PrepareRun(4, 16); err != nil {
		simrt.Fail("harness.setup", "harness:prepare-run", "%v", err)
	}
	ls.RunDoneActivate()
	if err := ls.StartRun(); err != nil {
		simrt.Fail("harness.setup", "harness:start-run", "run %d: StartRun on a card that delivers well-formed frames: %v", w.runIndex+1, err)
	}
	w.card.running = true

	w.lastFrame = make([]int, w.W)
	w.prevFB = make([]int, w.W)
	for i := range w.lastFrame {
		w.lastFrame[i], w.prevFB[i] = -1, -1
	}
	w.mix = make([]c04MixState, w.W)

	if nreq := simrt.Draw(5); nreq > 0 {
		simrt.GoHarness("mix-client", func() { w.mixClient(nreq) })
	}

	// the core loop's part
	takeBlock := func() bool {
		if env.Faulted() && simrt.Chance(1, 12) {
			steps := 5 + simrt.DrawFault(60)
			simrt.Stall("lancero", steps)
			env.Op("fault: reader and block assembly stalled for %d steps", steps)
		}
		ch := ls.getNextBlock()
		blk, ok := <-ch
		if !ok {
			return false
		}
		if blk.err != nil {
			simrt.Fail("C04.stream-ends", "lancero:error-block", "error block after %d blocks although the card keeps delivering: %v", w.blocks, blk.err)
		}
		w.checkBlock(blk)
		w.blocks++
		return true
	}
	exhausted := func() bool { return int(w.card.pos/int64(w.truth.frameSize)) > w.horizon-6*fpt-8 }
	for w.blocks < w.nBlocks && !exhausted() {
		if !takeBlock() {
			simrt.Fail("C04.stream-ends", "lancero:block-channel-closed", "the block channel was closed after %d blocks although the card keeps delivering", w.blocks)
		}
		switch simrt.Draw(8) { // the core loop's processing time
		case 6:
			time.Sleep(60 * time.Millisecond)
		case 7:
			time.Sleep(170 * time.Millisecond)
		}
	}
	w.done = true
	if !last {
		// a request of the client that is still in flight is served first (it needs the block assembly goroutine)
		for w.clientBusy && !exhausted() {
			if !takeBlock() {
				simrt.Fail("C04.stream-ends", "lancero:block-channel-closed", "the block channel was closed after %d blocks although nobody stopped the source", w.blocks)
			}
		}
		// Stop, as a client calls it; this task goes on doing what the core loop does: take blocks
		// until the channel is closed, then declare the run done.
		stopped := make(chan error, 1)
		simrt.GoHarness("stop-client", func() { stopped <- ls.Stop() })
		env.Op("run %d: Stop after %d blocks", w.runIndex+1, w.blocks)
		for takeBlock() {
			simrt.Hit("block-while-stopping")
			if exhausted() {
				simrt.Fail("C04.stop", "lancero:blocks-keep-coming-after-stop", "run %d: the source still delivers blocks %d frames after Stop was called", w.runIndex+1, 6*fpt)
			}
		}
		ls.RunDoneDeactivate()
		if err := <-stopped; err != nil {
			simrt.Fail("C04.stop", "lancero:stop-failed", "run %d: Stop on the running source: %v", w.runIndex+1, err)
		}
		env.Op("run %d: stopped, %d blocks in all", w.runIndex+1, w.blocks)
		w.table.ran[w.active], w.table.ranUse[w.active] = w.card, [3]int{w.card.starts, w.card.nReads, w.card.nReleases}
	}
	w.finish()
}

func (w *c04World) sample() interface{} {
	return map[string]interface{}{"active_card": w.active, "columns": w.cols, "rows": w.rows, "frames_per_tick": w.fpt, "nsamp": w.nsamp, "blocks": w.blocks, "samples_per_channel": w.samples,
		"first_emitted_frame": w.firstEmitted, "driver_reads": w.card.nReads, "largest_read_bytes": w.card.maxChunk, "mix_requests": w.mixRequests,
		"trigger_edges": w.nTrigEdges, "gaps": len(w.card.gaps), "blocks_reporting_loss": len(w.dropBlocks)}
}

// planTriggers draws the external-trigger level for the frames of the run (called when
// the card starts capturing for the run: the level is low before frame `first`).
func (w *c04World) planTriggers(first, span int) {
	rows := w.rows
	np := simrt.Draw(7)
	set := func(g, dur int) {
		for i := g; i < g+dur && i < len(w.truth.trig); i++ {
			if i >= first*rows {
				w.truth.trig[i] = true
			}
		}
	}
	for p := 0; p < np; p++ {
		n := first + simrt.Draw(span)
		switch kind := simrt.Draw(7); kind {
		case 0: // any row, short
			set(n*rows+simrt.Draw(rows), 1+simrt.Draw(rows))
		case 1: // rises in row 0
			set(n*rows, 1+simrt.Draw(2*rows))
		case 2: // rises in the last row
			set(n*rows+rows-1, 1+simrt.Draw(2*rows))
		case 3: // edges in consecutive frames
			r := simrt.Draw(rows)
			d := 1 + simrt.Draw(rows-1)
			set(n*rows+r, d)
			set((n+1)*rows+r, d)
			if simrt.Draw(2) == 1 {
				set((n+2)*rows+r, d)
			}
		case 4: // held high for about a block or longer
			set(n*rows+simrt.Draw(rows), rows*(w.fpt/2+simrt.Draw(3*w.fpt)))
		case 5: // a single row, low again in the next
			set(n*rows+simrt.Draw(rows), 1)
		default: // high for exactly one frame
			set(n*rows+simrt.Draw(rows), rows)
		}
	}
	w.env.Op("external trigger: %d pulses planned from frame %d on", np, first)
}

// mixClient issues ConfigureMixFraction requests one after the other.
func (w *c04World) mixClient(nreq int) {
	menu := []float64{0, 1, -1, 0.5, 0.25, 2.5, -3.7, 0.013, 100, -40, 1e-9}
	for i := 0; i < nreq && !w.done; i++ {
		time.Sleep(time.Duration(5+simrt.Draw(160)) * time.Millisecond)
		if w.done {
			return
		}
		mfo := &MixFractionObject{}
		var idxs []int
		switch simrt.Draw(3) {
		case 0: // every feedback channel, one value
			f := menu[simrt.Draw(len(menu))]
			for idx := 0; idx < w.W; idx++ {
				idxs = append(idxs, idx)
				mfo.MixFractions = append(mfo.MixFractions, f)
			}
		case 1: // one channel
			idxs = append(idxs, simrt.Draw(w.W))
			mfo.MixFractions = append(mfo.MixFractions, menu[simrt.Draw(len(menu))])
		default: // a few channels, different values
			for idx := 0; idx < w.W; idx++ {
				if simrt.Draw(3) == 0 {
					idxs = append(idxs, idx)
					mfo.MixFractions = append(mfo.MixFractions, menu[simrt.Draw(len(menu))])
				}
			}
		}
		if len(idxs) == 0 {
			continue
		}
		for _, idx := range idxs {
			mfo.ChannelIndices = append(mfo.ChannelIndices, w.chanOf(idx)+1)
		}
		k0 := w.blocks
		for j, idx := range idxs {
			m := &w.mix[idx]
			if m.pending && m.replied {
				// answered and no block checked since: every later block is assembled after the change
				m.old, m.cur, m.changed, m.pending = m.cur, m.next, w.blocks, false
			}
			if m.pending { // cannot happen: requests are sequential
				simrt.Fail("harness.mix", "harness:mix-overlap", "overlapping mix requests")
			}
			m.pending, m.next, m.k0, m.replied = true, mfo.MixFractions[j]/float64(w.nsamp), k0, false
		}
		w.mixRequests++
		w.env.Op("mix request #%d after %d blocks: channels %v fractions %v", i+1, k0, mfo.ChannelIndices, mfo.MixFractions)
		w.clientBusy = true
		_, err := w.ls.ConfigureMixFraction(mfo)
		w.clientBusy = false
		if err != nil {
			simrt.Fail("C04.mix-request", "lancero:mix-request-refused", "ConfigureMixFraction(%v, %v) on feedback channels: %v", mfo.ChannelIndices, mfo.MixFractions, err)
		}
		k1 := w.blocks
		for _, idx := range idxs {
			m := &w.mix[idx]
			if m.pending {
				m.k1, m.replied = k1, true
			}
		}
		w.env.Op("mix reply #%d after %d blocks", i+1, k1)
	}
}

// c04MixOK says whether out is an admissible value of prev + a*err, saturated.
func c04MixOK(out RawType, prev uint16, e uint16, a float64) (ok bool, x float64) {
	base := float64(prev &^ 3)
	if a == 0 {
		return float64(out) == base, base
	}
	x = base + a*float64(int16(e))
	var lo, hi float64
	if xi := math.Round(x); math.Abs(x-xi) < 1e-6 {
		lo, hi = xi, xi
	} else {
		lo, hi = math.Floor(x), math.Ceil(x)
	}
	clamp := func(v float64) float64 {
		if v < 0 {
			return 0
		}
		if v > 65535 {
			return 65535
		}
		return v
	}
	lo, hi = clamp(lo), clamp(hi)
	return float64(out) >= lo && float64(out) <= hi, x
}

// gapCovering reports whether the missing frames [from, to] are around an injected loss.
func (w *c04World) gapCovering(from, to int) bool {
	for _, g := range w.card.gaps {
		if g.firstFrame <= to && g.lastFrame >= from {
			return true
		}
	}
	return false
}

func (w *c04World) checkBlock(blk *dataBlock) {
	t := w.truth
	b := w.blocks
	faulted := w.env.Faulted()
	if len(blk.segments) != w.nchan {
		simrt.Fail("C04.shape", "lancero:wrong-number-of-segments", "block %d has %d segments, the array has %d channels", b, len(blk.segments), w.nchan)
	}
	s0 := &blk.segments[0]
	L := len(s0.rawData)
	first := s0.firstFrameIndex
	for i := range blk.segments {
		s := &blk.segments[i]
		if len(s.rawData) != L || s.firstFrameIndex != first || !s.firstTime.Equal(s0.firstTime) {
			simrt.Fail("C04.shape", "lancero:segments-disagree", "block %d: segment %d has length %d, first frame %d, time %v; segment 0 has %d, %d, %v", b, i, len(s.rawData), s.firstFrameIndex, s.firstTime, L, first, s0.firstTime)
		}
		if s.signed != (i%2 == 0) {
			simrt.Fail("C04.shape", "lancero:signedness-wrong", "block %d: segment %d (an %s channel) has signed=%v", b, i, map[bool]string{true: "error", false: "feedback"}[i%2 == 0], s.signed)
		}
	}
	if L == 0 {
		simrt.Fail("C04.shape", "lancero:empty-block", "block %d has no samples", b)
	}
	dropped := s0.droppedFrames
	w.env.Op("block %d: %d samples, first frame %d, dropped %d, ext triggers %v", b, L, first, dropped, blk.externalTriggerRowcounts)
	if w.haveBlock && first < w.lastFirst+FrameIndex(w.lastLen) {
		simrt.Fail("C04.frame-numbers", "lancero:frame-numbers-go-backwards", "block %d starts at frame number %d, but block %d started at %d and had %d samples (so frame numbers up to %d were already given out); droppedFrames of this block %d, of the loss-reporting blocks so far %v",
			b, first, b-1, w.lastFirst, w.lastLen, w.lastFirst+FrameIndex(w.lastLen)-1, dropped, w.dropBlocks)
	}
	w.haveBlock, w.lastFirst, w.lastLen = true, first, L
	if dropped > 0 {
		w.dropBlocks = append(w.dropBlocks, b)
		simrt.Hit("loss-reported")
		if !faulted {
			simrt.Hit("loss-reported-without-loss")
		}
	}

	// --- error channels: order, alignment
	realigned := false
	frames := make([][]int, w.W) // truth frame of every sample, per word index
	for idx := 0; idx < w.W; idx++ {
		ch := w.chanOf(idx)
		data := blk.segments[ch].rawData
		fr := make([]int, L)
		last := w.lastFrame[idx]
		for j := 0; j < L; j++ {
			v := uint16(data[j])
			if last >= 0 && v == t.E(last+1, idx) {
				last++
				fr[j] = last
				continue
			}
			k := t.whichE(v)
			n, widx := k/w.W, k%w.W
			where := fmt.Sprintf("block %d sample %d of channel %d (error, row %d column %d)", b, j, ch, idx/w.cols, idx%w.cols)
			if last < 0 {
				// first output sample of the run: identifies the first emitted frame
				if widx != idx {
					simrt.Fail("C04.order", "lancero:word-in-wrong-channel", "%s = 0x%04x is the error word of %s", where, v, t.describe(k))
				}
				if idx == 0 {
					w.firstEmitted = n
				} else if n != w.firstEmitted {
					simrt.Fail("C04.order", "lancero:channels-start-at-different-frames", "%s belongs to frame %d, channel 0 started with frame %d", where, n, w.firstEmitted)
				}
				last = n
				fr[j] = n
				continue
			}
			want := last + 1
			if !faulted || len(w.card.gaps) == 0 {
				simrt.Fail("C04.order", "lancero:error-stream-wrong", "%s = 0x%04x, want 0x%04x = the error word of frame %d of this row/column; the value delivered is the error word of %s (%+d words away)", where, v, t.E(want, idx), want, t.describe(k), k-(want*w.W+idx))
			}
			if widx != idx {
				simrt.Fail("C04.realign", "lancero:word-in-wrong-channel-after-loss", "%s = 0x%04x is the error word of %s: after the loss of %s the stream is not aligned to frames", where, v, t.describe(k), w.gapText())
			}
			if n <= last {
				simrt.Fail("C04.realign", "lancero:frame-repeated-after-loss", "%s is the word of frame %d, the previous sample was frame %d (%s)", where, n, last, w.gapText())
			}
			if !w.gapCovering(want, n-1) {
				simrt.Fail("C04.realign", "lancero:frames-missing-away-from-loss", "%s is the word of frame %d, the previous sample was frame %d: frames %d..%d are missing, the injected loss is %s", where, n, last, want, n-1, w.gapText())
			}
			realigned = true
			last = n
			fr[j] = n
		}
		w.lastFrame[idx] = last
		frames[idx] = fr
	}
	if realigned {
		simrt.Hit("realigned-after-loss")
	}
	// all channels carry the same frame in the same sample
	for j := 0; j < L; j++ {
		lo, hi := frames[0][j], frames[0][j]
		for idx := 1; idx < w.W; idx++ {
			if f := frames[idx][j]; f < lo {
				lo = f
			} else if f > hi {
				hi = f
			}
		}
		if lo != hi {
			// only possible where a loss of whole frames joined the head of one frame to the tail of another
			if !(faulted && w.card.gapWhole && w.gapCovering(lo, hi)) {
				simrt.Fail("C04.realign", "lancero:channels-out-of-step", "block %d sample %d mixes words of frames %d and %d in one sample (%s)", b, j, lo, hi, w.gapText())
			}
			simrt.Hit("sample-joined-across-whole-frame-loss")
		}
	}

	// --- feedback channels: retard, flag bits, mix
	var satHi, satLo, rounded, mixed bool
	defer func() {
		for name, hit := range map[string]bool{"saturation-at-65535": satHi, "saturation-at-0": satLo, "mix-result-needs-rounding": rounded, "block-with-mix-in-force": mixed} {
			if hit {
				simrt.Hit(name)
			}
		}
	}()
	for idx := 0; idx < w.W; idx++ {
		ch := w.chanOf(idx) + 1
		data := blk.segments[ch].rawData
		m := &w.mix[idx]
		if m.pending && m.replied && b >= m.k1 {
			m.old, m.cur, m.changed, m.pending = m.cur, m.next, b, false // the reply was seen before this block was assembled
			simrt.Hit("mix-changed-mid-run")
		}
		try := func(a float64, report bool) bool {
			prev := w.prevFB[idx]
			okAll := true
			for j := 0; j < L; j++ {
				n := frames[idx][j]
				if prev >= 0 {
					e := t.E(n, idx)
					ok, x := c04MixOK(data[j], uint16(prev), e, a)
					if !ok {
						okAll = false
						if report {
							w.failFeedback(b, j, ch, idx, n, data[j], uint16(prev), e, a, x, m)
						}
						return false
					}
					if report && a != 0 {
						if x >= 65535 {
							satHi = true
						} else if x < 0 {
							satLo = true
						} else if math.Abs(x-math.Round(x)) > 1e-6 {
							rounded = true
						}
					}
				}
				prev = int(t.FB(n, idx))
			}
			return okAll
		}
		if m.pending && m.next != m.cur {
			okOld, okNew := try(m.cur, false), try(m.next, false)
			switch {
			case okNew && !okOld:
				m.old, m.cur, m.changed, m.pending = m.cur, m.next, b, false
				simrt.Hit("mix-changed-mid-run")
				simrt.Hit("mix-changed-inside-window")
			case !okNew && !okOld:
				try(m.cur, true)
			}
		}
		if !m.pending && m.old != m.cur && !try(m.cur, false) && try(m.old, false) {
			simrt.Fail("C04.mix-window", "lancero:mix-change-not-at-its-block-boundary", "block %d, channel %d (feedback, row %d column %d): the mix %g has been in force since block %d (request issued after %d blocks, answered after %d), but this block was assembled with the earlier value %g",
				b, ch, idx/w.cols, idx%w.cols, m.cur, m.changed, m.k0, m.k1, m.old)
		}
		try(m.cur, true)
		if m.cur != 0 {
			mixed = true
		}
		// remember the last delivered feedback word
		w.prevFB[idx] = int(t.FB(frames[idx][L-1], idx))
	}

	// --- external triggers
	if !w.trigUnchecked {
		if w.blocks > 0 && w.trigAtEdge && t.flag(frames[0][0], 0) {
			simrt.Hit("ext-trigger-high-across-block-edge")
		}
		for j := 0; j < L; j++ {
			for r := 0; r < w.rows; r++ {
				n := frames[r*w.cols][j]
				for c := 1; c < w.cols; c++ {
					if frames[r*w.cols+c][j] != n && t.flag(frames[r*w.cols+c][j], r) != t.flag(n, r) {
						w.trigUnchecked = true // the columns of this row come from different frames and disagree
					}
				}
				level := t.flag(n, r)
				if level && !w.trigLevel {
					w.wantTrig = append(w.wantTrig, (int64(first)+int64(j))*int64(w.rows)+int64(r))
					w.wantTrigBlock = append(w.wantTrigBlock, b)
					w.nTrigEdges++
					simrt.Hit("ext-trigger-edge")
					if r == 0 {
						simrt.Hit("ext-trigger-edge-row-0")
					}
					if r == w.rows-1 {
						simrt.Hit("ext-trigger-edge-last-row")
					}
					if w.cols > 1 {
						simrt.Hit("ext-trigger-edge-cols>1")
					}
					if w.active != 0 {
						simrt.Hit("ext-trigger-edge-active-card-not-0")
					}
					if j == 0 && r == 0 {
						simrt.Hit("ext-trigger-edge-first-row-of-block")
					}
				}
				w.trigLevel = level
			}
		}
		w.trigAtEdge = w.trigLevel
		w.gotTrig = append(w.gotTrig, blk.externalTriggerRowcounts...)
	}
	if !w.trigUnchecked {
		colsClass := w.trigClass()
		for i := 0; i < len(w.gotTrig) && i < len(w.wantTrig); i++ {
			if w.gotTrig[i] != w.wantTrig[i] {
				sig := "lancero:ext-trigger-count-wrong:" + colsClass
				for _, db := range w.dropBlocks {
					if db == w.wantTrigBlock[i] {
						// the edge lies in a block that reports a loss: the count and the block's frame numbers disagree
						sig = "lancero:ext-trigger-count-disagrees-with-frame-numbers-of-loss-block"
						if w.active != 0 {
							sig += ":active-card-not-0"
						}
					}
				}
				simrt.Fail("C04.ext-trigger", sig, "external trigger #%d is reported as count %d = frame %d row %d; the flag rose in frame %d row %d (count %d) [card %d of %v, %d columns x %d rows; by block %d reported %v, rising edges %v]",
					i, w.gotTrig[i], w.gotTrig[i]/int64(w.rows), w.gotTrig[i]%int64(w.rows), w.wantTrig[i]/int64(w.rows), w.wantTrig[i]%int64(w.rows), w.wantTrig[i], w.active, w.table.cards, w.cols, w.rows, b, w.gotTrig, w.wantTrig)
			}
		}
		if len(w.gotTrig) > len(w.wantTrig) {
			i := len(w.wantTrig)
			simrt.Fail("C04.ext-trigger", "lancero:ext-trigger-invented:"+colsClass, "external trigger #%d is reported as count %d = frame %d row %d, but the flag has had only %d rising edges so far [card %d of %v, %d columns x %d rows; by block %d reported %v, rising edges %v]",
				i, w.gotTrig[i], w.gotTrig[i]/int64(w.rows), w.gotTrig[i]%int64(w.rows), len(w.wantTrig), w.active, w.table.cards, w.cols, w.rows, b, w.gotTrig, w.wantTrig)
		}
	}
	w.samples += L
}

func (w *c04World) failFeedback(b, j, ch, idx, n int, out RawType, prev, e uint16, a, x float64, m *c04MixState) {
	t := w.truth
	where := fmt.Sprintf("block %d sample %d of channel %d (feedback, row %d column %d, frame %d)", b, j, ch, idx/w.cols, idx%w.cols, n)
	mixText := fmt.Sprintf("mix %g", a)
	if m.pending {
		mixText = fmt.Sprintf("mix %g (a request for %g issued after %d blocks is pending; neither value fits)", m.cur, m.next, m.k0)
	}
	sig := "lancero:feedback-stream-wrong"
	detail := ""
	switch {
	case a == 0 && out == RawType(prev):
		sig, detail = "lancero:flag-bits-not-cleared", "the flag bits of the feedback word were not cleared"
	case a == 0 && uint16(out)&^3 == t.F(n, idx):
		sig, detail = "lancero:feedback-not-delayed", "this is the feedback word of the same frame: the one-sample delay is missing"
	case a == 0:
		k := t.whichF(uint16(out))
		detail = fmt.Sprintf("the value delivered has the identifying bits of word %d mod 16384 (the wanted word is number %d)", k, ((n-1)*w.W+idx)&0x3fff)
	}
	simrt.Fail("C04.feedback", sig, "%s = %d, want (0x%04x &^ 3) + %g * %d = %.4f saturated to 0..65535, with %s, previous delivered feedback word 0x%04x, error word of this sample 0x%04x. %s",
		where, out, prev, a, int16(e), x, mixText, prev, e, detail)
}

// trigClass is the part of an external-trigger signature that names the situation: one or
// several columns, and whether the active card is card 0.
func (w *c04World) trigClass() string {
	c := "ncols=1"
	if w.cols > 1 {
		c = "ncols>1"
	}
	if w.active != 0 {
		c += ":active-card-not-0"
	}
	return c
}

func (w *c04World) gapText() string {
	if len(w.card.gaps) == 0 {
		return "no loss injected"
	}
	g := w.card.gaps[len(w.card.gaps)-1]
	return fmt.Sprintf("%d bytes at frame %d word %d (frames %d..%d touched), injected after %d blocks", g.nbytes, g.firstFrame, int(g.at%int64(w.truth.frameSize))/4, g.firstFrame, g.lastFrame, g.seenAfter)
}

// finish: end-of-run rules.
func (w *c04World) finish() {
	if !w.trigUnchecked && len(w.gotTrig) != len(w.wantTrig) {
		colsClass := w.trigClass()
		i := len(w.gotTrig)
		simrt.Fail("C04.ext-trigger", "lancero:ext-trigger-missed:"+colsClass, "the flag rose in frame %d row %d (count %d) but no external trigger was reported for it [card %d of %v, %d columns x %d rows; reported %v, rising edges %v]",
			w.wantTrig[i]/int64(w.rows), w.wantTrig[i]%int64(w.rows), w.wantTrig[i], w.active, w.table.cards, w.cols, w.rows, w.gotTrig, w.wantTrig)
	}
	if w.env.Faulted() {
		for _, g := range w.card.gaps {
			if g.whole {
				continue
			}
			// has data from beyond the loss been delivered (in at least two blocks' worth)?
			past := w.lastFrame[0] > g.lastFrame+2*w.fpt
			if !past {
				continue
			}
			reported := false
			for _, db := range w.dropBlocks {
				if db >= g.seenAfter {
					reported = true
				}
			}
			if !reported {
				simrt.Fail("C04.loss-reported", "lancero:loss-not-reported", "%d bytes (not a whole number of %d-byte frames) were lost at frame %d after %d blocks; %d blocks later and %d frames beyond the loss no block has reported droppedFrames > 0",
					g.nbytes, w.truth.frameSize, g.firstFrame, g.seenAfter, w.blocks-g.seenAfter, w.lastFrame[0]-g.lastFrame)
			}
		}
	}
}
