//verif:requires viperMutex
//go:build verif

package dastard

// Optional harness file: uses the package-level mutex that serialises viper (introduced by a fix).
// bin/vcheck overlays it only when the repository defines the symbol.

import "sync"

func init() {
	c16ProcessStateResets = append(c16ProcessStateResets, func() { viperMutex = sync.Mutex{} })
	c11HoldConfigSave = func(hold bool) {
		if hold {
			viperMutex.Lock()
		} else {
			viperMutex.Unlock()
		}
	}
}
