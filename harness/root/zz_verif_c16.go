//go:build verif

package dastard

// C16 status / persistence world (DESIGN §3.7, §5 "C16").
//
// The process under test ("a run of dastard") is: HOME pointed at a sandbox directory, the
// real start-up code of cmd/dastard (setupViper → makeFileExist, viper.ReadInConfig; handed
// in by the harness of package main as a function value), then the real RunClientUpdater
// loop as a simulated task (socket Bind skipped, SendMessage captured by the simrt shim),
// fed through the real clientMessageChan. viper writes through a counting afero file
// system (zz_verif_c16fs.go), saveState's own os.Remove/os.Rename are interposed by the
// instrumenter: together they make every file-system call of a save an operation boundary
// of the run's simrt.FaultFS plan.
//
// The "next run" is the same start-up code on the same directory in a fresh viper
// (viper.Reset), followed by the UnmarshalKey sequence of RunRPCServer (transcribed in
// c16RestoreAll: RunRPCServer itself listens on a TCP port and cannot run in the bubble)
// and the real PrepareRun of a source (which restores the trigger state).
//
// Checks (registered by harness/cmd/dastard/zz_verif_c16main.go, which owns setupViper):
//   C16a histories: oracle 1 (SENDALL replays exactly the latest message of every topic
//        published in this run), oracle 2 (after a save the next start-up yields the latest
//        source configurations, record lengths, trigger settings, base path; transient
//        topics absent), and the bounded-delay rule (a change is on disk a few seconds
//        after the last change, well before the one-minute ticker).
//        In faulted runs a process may have one failing file-system operation in one of its
//        saves (followed by a later change), and/or a fault window at the end of its life:
//        a change, the next one to three save attempts fail in one operation each, the
//        faults stop, no saved topic changes any more, and c16CatchUp later the process
//        exits: what it leaves must still read back as the latest values.
//   C16b crash points: for five save histories every operation boundary of the save(s) is
//        enumerated inside one run; oracle 3 (the file start-up reads exists, parses and
//        is the complete old or the complete new version).
//
// Oracles use: the property statement; the documented topic list of the server; the
// harness's own list of transient topics (status that carries no configuration); JSON of
// the fed objects produced by encoding/json for *comparison of restored values only*.

import (
	"encoding/json"
	"fmt"
	"math"
	"net/http"
	"os"
	"path/filepath"
	"reflect"
	"sort"
	"strings"
	"syscall"
	"time"

	"github.com/spf13/viper"
	"github.com/usnistgov/dastard/lancero"

	"verif/simrt"
)

// C16Real / C16Stub are copied into the evidence.
var C16Real = []string{"RunClientUpdater loop (publish, remember-if-changed, save scheduling)", "saveState (tmp/bak/rename steps)",
	"cmd/dastard setupViper + makeFileExist (start-up of this run and of the next run)", "viper (Set, WriteConfigAs, ReadInConfig, UnmarshalKey), yaml.v3, mapstructure",
	"AnySource.PrepareRun (trigger-state restore)", "clientMessageChan", "zmq4 PUB socket creation", "the OS file system (per-run sandbox directory)"}
var C16Stub = []string{"ZMQ transport (Bind skipped, SendMessage captured)", "RunRPCServer (its UnmarshalKey restore sequence is transcribed key by key into the harness; the RPC listener is not started)",
	"status producers (the harness feeds ClientUpdate values of the server's own types)", "process kill (the updater task is aborted before file-system operation k; completed operations persist)"}

// C16Classify names the updater task for stall faults.
func C16Classify(site string) string {
	if strings.HasPrefix(site, "zz_verif_c16") {
		return "updater"
	}
	return classify(site)
}

// ---------------------------------------------------------------------------------
// topics

// Topics whose value the next start-up reads back (property statement).
var c16RestoredTopics = []string{"TRIANGLE", "SIMPULSE", "LANCERO", "ABACO", "ROACH", "STATUS", "WRITING", "TRIGGER"}

// Other topics that carry configuration.
var c16OtherSaved = []string{"TESMAPFILE", "GROUPTRIGGER", "TRIGCOUPLING", "MIX", "STATELABEL"}

// Topics for which the harness makes no claim either way (they carry an observation, not
// configuration, but are not obviously transient either).
var c16Unclaimed = []string{"DATADROP", "RAWDATABLOCK"}

// Transient status: no configuration to preserve (harness's own reading of the server's
// topics: liveness, rates, counters, names and maps that are recomputed at every start).
var c16Transient = []string{"ALIVE", "TRIGGERRATE", "NUMBERWRITTEN", "CHANNELNAMES", "TESMAP", "EXTERNALTRIGGER"}

func c16In(list []string, s string) bool {
	for _, x := range list {
		if x == s {
			return true
		}
	}
	return false
}

func c16Persistent(tag string) bool {
	return c16In(c16RestoredTopics, tag) || c16In(c16OtherSaved, tag)
}

type c16Item struct {
	tag   string
	state interface{}
	// rejected: the update was published by a Configure… request that the server refused
	// (it publishes, and therefore saves, the arguments all the same)
	rejected bool
}

func (it c16Item) String() string {
	b, err := json.Marshal(it.state)
	s := string(b)
	if err != nil {
		s = "<" + err.Error() + ">"
	}
	if len(s) > 160 {
		s = s[:160] + "…"
	}
	return it.tag + " " + s
}

// ---------------------------------------------------------------------------------
// value generators (0 = simplest)

func c16Bool() bool { return simrt.Draw(2) == 1 }

func c16Int() int {
	menu := []int{0, 1, 2, 3, 8, 100, -1, 4096, 65535, 65536, math.MaxInt32, math.MinInt32, 1 << 53, math.MaxInt64, math.MinInt64}
	k := simrt.Draw(len(menu) + 2)
	if k < len(menu) {
		return menu[k]
	}
	if k == len(menu) {
		return simrt.Draw(1000)
	}
	return -simrt.Draw(1 << 30)
}

func c16SmallInt(n int) int { return simrt.Draw(n) }

func c16Float() float64 {
	menu := []float64{0, 1, 1000, 0.1, 1e6, 1.0 / 3, -2.5, 1e-9, 5e-324, math.MaxFloat64, 1e21, 123456789.125, 1e15, 4294967296, -1e-300, 0.30000000000000004}
	k := simrt.Draw(len(menu) + 1)
	if k < len(menu) {
		return menu[k]
	}
	return float64(simrt.Draw(1<<30)) / 1024.0
}

func c16Str() string {
	menu := []string{"", "/tmp/data", "a", "~", "null", "true", "123", "1e3", "0x1F", " leading", "trailing ", "multi\nline", "tab\there",
		"quote\"'both", "colon: x", "# hash", "ünïcödé 日本語", "- dash", "{brace}", "[x]", "%p", "@at", "`tick", "!tag", "&anchor", "*alias", "| pipe", "> fold",
		"back\\slash", "/home/pcuser/data with spaces/", "no", "2001-01-01", "1:30", "key: value\n- x", "\"", "'", "..", ". .", "nul\x00byte", "nel\u0085x", "ls\u2028x", "\ufeffbom", "del\x7f", "cr\rx", "crlf\r\nx", "esc\x1bx", "emoji \U0001F600", "bell\a", "trailing newline\n", "\t", " ", "\r", " \n"}
	// not generated: strings that begin with a line feed ("\n", "\n x"): yaml.v3 does not
	// read back what it wrote for them (library behaviour, see notes/C16.md)
	k := simrt.Draw(len(menu) + 1)
	if k < len(menu) {
		return menu[k]
	}
	return strings.Repeat("long/", 10+simrt.Draw(60))
}

func c16Ints(max int) []int {
	n := simrt.Draw(max + 2)
	if n == max+1 {
		return nil
	}
	out := make([]int, n)
	for i := range out {
		out[i] = c16Int()
	}
	return out
}

func c16SmallInts(max, lim int) []int {
	n := simrt.Draw(max + 1)
	out := []int{}
	for i := 0; i < n; i++ {
		out = append(out, simrt.Draw(lim))
	}
	return out
}

func c16Floats(max int) []float64 {
	n := simrt.Draw(max + 2)
	if n == max+1 {
		return nil
	}
	out := make([]float64, n)
	for i := range out {
		out[i] = c16Float()
	}
	return out
}

func c16Strs(max int) []string {
	n := simrt.Draw(max + 2)
	if n == max+1 {
		return nil
	}
	out := make([]string, n)
	for i := range out {
		out[i] = c16Str()
	}
	return out
}

func c16Duration() time.Duration {
	menu := []time.Duration{0, time.Millisecond, 250 * time.Millisecond, time.Second, 1, 10 * time.Microsecond, time.Hour + time.Minute + time.Second + 1,
		-time.Second, math.MaxInt64, 1500 * time.Microsecond, 123456789}
	k := simrt.Draw(len(menu) + 1)
	if k < len(menu) {
		return menu[k]
	}
	return time.Duration(simrt.Draw(1 << 30))
}

func c16Unwrap() AbacoUnwrapOptions {
	u := AbacoUnwrapOptions{RescaleRaw: c16Bool(), Unwrap: c16Bool(), Bias: c16Bool(), ResetAfter: c16Int(), PulseSign: c16Int(), InvertChan: c16Ints(4)}
	switch simrt.Draw(4) {
	case 1: // unwrapping off, everything else left at zero: legal, and indistinguishable from "not set"
		u = AbacoUnwrapOptions{RescaleRaw: c16Bool()}
	case 2:
		u.ResetAfter = 0
		u.Unwrap = false
	}
	if u.Unwrap && !u.RescaleRaw && simrt.Draw(4) != 3 {
		u.RescaleRaw = true // the combination the server refuses stays rare
	}
	return u
}

func c16TriggerState() TriggerState {
	var ts TriggerState
	ts.AutoTrigger = c16Bool()
	ts.AutoDelay = c16Duration()
	ts.AutoVetoRange = RawType(c16Int())
	ts.LevelTrigger = c16Bool()
	ts.LevelRising = c16Bool()
	ts.LevelLevel = RawType(c16Int())
	ts.EdgeTrigger = c16Bool()
	ts.EdgeRising = c16Bool()
	ts.EdgeFalling = c16Bool()
	ts.EdgeLevel = int32(c16Int())
	ts.EdgeMulti = c16Bool()
	ts.EdgeMultiNoise = c16Bool()
	ts.EdgeMultiMakeShortRecords = c16Bool()
	ts.EdgeMultiMakeContaminatedRecords = c16Bool()
	ts.EdgeMultiDisableZeroThreshold = c16Bool()
	ts.EdgeMultiLevel = int32(c16Int())
	ts.EdgeMultiVerifyNMonotone = c16Int()
	if c16Bool() {
		// the unexported edge-multi state is not serialised by either encoder; non-zero
		// values only show that they do not disturb anything
		ts.EMTState = EMTState{mode: EMTMode(simrt.Draw(3)), threshold: int32(c16Int()), nmonotone: 3, npre: 100, nsamp: 400, enableZeroThreshold: c16Bool()}
	}
	return ts
}

// c16Trigger makes a trigger message as ComputeFullTriggerState does: the channels of a
// source partitioned into groups that share a state.
func c16Trigger() []FullTriggerState {
	nchan := 1 + simrt.Draw(6)
	ngroups := 1 + simrt.Draw(3)
	if ngroups > nchan {
		ngroups = nchan
	}
	fts := make([]FullTriggerState, ngroups)
	for g := range fts {
		fts[g].TriggerState = c16TriggerState()
		fts[g].ChannelIndices = []int{}
	}
	for c := 0; c < nchan; c++ {
		g := c % ngroups
		if c >= ngroups {
			g = simrt.Draw(ngroups)
		}
		fts[g].ChannelIndices = append(fts[g].ChannelIndices, c)
	}
	return fts
}

// c16Value draws a value of the type the server publishes under the topic.
func c16Value(tag string) interface{} {
	switch tag {
	case "TRIANGLE":
		// what TriangleSource.Configure accepts (at least one channel, Min <= Max, one ramp
		// lasting at most four seconds); refused values are not generated because the next
		// start-up panics on them by design
		nch := []int{1, 2, 3, 8, 100, 4096, 65536, math.MaxInt32, 1 << 53}
		rates := []float64{1000, 10000, 1e6, 123456.789, 250000, 1e5 / 3, 0.5, 50}
		for try := 0; try < 4; try++ {
			c := &TriangleSourceConfig{Nchan: nch[simrt.Draw(len(nch))], SampleRate: rates[simrt.Draw(len(rates))], Min: RawType(c16Int()), Max: RawType(c16Int())}
			if c.Min > c.Max {
				c.Min, c.Max = c.Max, c.Min
			}
			cp := *c
			if NewTriangleSource().Configure(&cp) == nil {
				return c
			}
		}
		return &TriangleSourceConfig{Nchan: nch[simrt.Draw(len(nch))], SampleRate: 10000, Min: 0, Max: RawType(simrt.Draw(100))}
	case "SIMPULSE":
		nch := []int{1, 2, 3, 8, 100, 4096, 65536, math.MaxInt32, 1 << 53}
		rates := []float64{1000, 10000, 1e6, 123456.789, 250000, 1e5 / 3, 0.5, 50}
		nsamp := []int{0, 1, 6, 100, 1000, 2000}
		for try := 0; try < 4; try++ {
			c := &SimPulseSourceConfig{Nchan: nch[simrt.Draw(len(nch))], SampleRate: rates[simrt.Draw(len(rates))], Pedestal: c16Float(), Amplitudes: c16Floats(4), Nsamp: nsamp[simrt.Draw(len(nsamp))]}
			cp := *c
			cp.Amplitudes = append([]float64(nil), c.Amplitudes...)
			if NewSimPulseSource().Configure(&cp) == nil {
				return c
			}
		}
		return &SimPulseSourceConfig{Nchan: 1 + simrt.Draw(8), SampleRate: 10000, Pedestal: 1000, Amplitudes: []float64{5000}, Nsamp: 100}
	case "LANCERO":
		// accepted when ~/.cringe/cringeGlobals.json is readable and valid and no card is
		// asked for (there is no card); the server overwrites DastardOutput either way
		act := []int{}
		if simrt.Draw(6) == 5 {
			act = c16Ints(3)
		}
		return &LanceroSourceConfig{FiberMask: uint32(c16Int()), CardDelay: c16Ints(3), ActiveCards: act, ShouldAutoRestart: c16Bool(),
			FirstRow: c16Int(), ChanSepCards: c16Int(), ChanSepColumns: c16Int(),
			DastardOutput: LanceroDastardOutputJSON{Nsamp: c16Int(), ClockMHz: c16Int(), AvailableCards: c16Ints(3), Lsync: c16Int(), Settle: c16Int(),
				SequenceLength: c16Int(), PropagationDelay: c16Int(), BAD16CardDelay: c16Int()}}
	case "ABACO":
		// accepted: valid unwrap options, no ring-buffer card (there is none), UDP sources
		// given as numeric host:port (resolved without any I/O; nothing is bound before Start)
		hp := []string{"127.0.0.1:4000", "0.0.0.0:5000", ":6000", "[::1]:4001", "10.1.2.3:65535", "127.0.0.1:4000"}
		var hosts []string
		for i, n := 0, simrt.Draw(4); i < n; i++ {
			hosts = append(hosts, hp[simrt.Draw(len(hp))])
		}
		act := []int{}
		if simrt.Draw(6) == 5 {
			act = c16Ints(3)
		}
		return &AbacoSourceConfig{ActiveCards: act, AvailableCards: c16Ints(3), HostPortUDP: hosts, AbacoUnwrapOptions: c16Unwrap()}
	case "ROACH":
		// accepted: valid unwrap options and no device (a device is a bound UDP socket)
		var rates []float64
		if simrt.Draw(6) == 5 {
			rates = c16Floats(2)
		}
		return &RoachSourceConfig{HostPort: []string{}, Rates: rates, AbacoUnwrapOptions: c16Unwrap()}
	case "STATUS":
		// record lengths the server can hold (ConfigurePulseLengths: npre >= 3, nsamp > npre)
		npre := 3 + c16SmallInt(5)
		switch simrt.Draw(4) {
		case 1:
			npre = 3 + simrt.Draw(100000)
		case 2:
			npre = math.MaxInt32
		}
		nsamp := npre + 1 + c16SmallInt(4)
		switch simrt.Draw(4) {
		case 1:
			nsamp = npre + 1 + simrt.Draw(1000000)
		case 2:
			nsamp = math.MaxInt64 / 2
		}
		st := ServerStatus{Running: c16Bool(), SourceName: c16Str(), Nchannels: c16Int(), Nsamples: nsamp, Npresamp: npre, SamplePeriod: c16Duration(),
			ChannelsWithProjectors: c16Ints(3)}
		for i, n := 0, simrt.Draw(3); i < n; i++ {
			st.ChanGroups = append(st.ChanGroups, GroupIndex{Firstchan: c16Int(), Nchan: c16Int()})
		}
		return st
	case "WRITING":
		return &WritingState{Active: c16Bool(), Paused: c16Bool(), BasePath: c16Str(), FilenamePattern: c16Str(), WriteLJH22: c16Bool(), WriteOFF: c16Bool(),
			WriteLJH3: c16Bool(), ExperimentStateFilename: c16Str(), ExperimentStateLabel: c16Str(), ExperimentStateLabelUnixNano: int64(c16Int()),
			ExternalTriggerFilename: c16Str(), DataDropFilename: c16Str()}
	case "TRIGGER":
		return c16Trigger()
	case "TESMAPFILE":
		return c16Str()
	case "GROUPTRIGGER":
		g := GroupTriggerState{Connections: map[int][]int{}}
		for i, n := 0, simrt.Draw(4); i < n; i++ {
			g.Connections[simrt.Draw(8)] = c16SmallInts(3, 8)
		}
		return g
	case "TRIGCOUPLING":
		return CouplingStatus(1 + simrt.Draw(3))
	case "MIX":
		return c16Floats(5)
	case "STATELABEL":
		return c16Str()
	case "DATADROP":
		return struct{ TotalObserved int }{TotalObserved: c16Int()}
	case "RAWDATABLOCK":
		return c16Str()
	case "ALIVE":
		return Heartbeat{Running: c16Bool(), Time: c16Float(), HWactualMB: c16Float(), DataMB: c16Float()}
	case "TRIGGERRATE":
		return TriggerRateMessage{HiTime: time.Now().Add(time.Duration(simrt.Draw(100)) * time.Second), Duration: c16Duration(), CountsSeen: c16Ints(5)}
	case "NUMBERWRITTEN":
		return struct{ NumberWritten []int }{NumberWritten: c16Ints(5)}
	case "CHANNELNAMES":
		return c16Strs(5)
	case "TESMAP":
		if simrt.Draw(2) == 0 {
			return "no map loaded"
		}
		m := &Map{Spacing: c16Int(), Filename: c16Str(), Pixels: []Pixel{}}
		for i, n := 0, simrt.Draw(4); i < n; i++ {
			m.Pixels = append(m.Pixels, Pixel{X: c16Int(), Y: c16Int(), Name: c16Str()})
		}
		return m
	case "EXTERNALTRIGGER":
		return struct{ NumberObservedInLastSecond int }{NumberObservedInLastSecond: c16Int()}
	}
	panic("c16Value: unknown topic " + tag)
}

func c16AllTopics() []string {
	var all []string
	all = append(all, c16RestoredTopics...)
	all = append(all, c16OtherSaved...)
	all = append(all, c16Unclaimed...)
	all = append(all, c16Transient...)
	return all
}

// c16DrawTopic picks a topic; the restored ones have more weight.
func c16DrawTopic() string {
	all := c16AllTopics()
	k := simrt.Draw(len(all) + len(c16RestoredTopics))
	if k >= len(all) {
		return c16RestoredTopics[k-len(all)]
	}
	return all[k]
}

// ---------------------------------------------------------------------------------
// canonical comparison of exported fields

func c16Norm(v interface{}) interface{} {
	switch x := v.(type) {
	case map[string]interface{}:
		if len(x) == 0 {
			return nil
		}
		out := map[string]interface{}{}
		for k, e := range x {
			out[k] = c16Norm(e)
		}
		return out
	case []interface{}:
		if len(x) == 0 {
			return nil
		}
		out := make([]interface{}, len(x))
		for i, e := range x {
			out[i] = c16Norm(e)
		}
		return out
	case json.Number:
		if x == "-0" {
			return json.Number("0")
		}
		return x
	}
	return v
}

// c16Canon renders the exported fields of v as canonical JSON (nil ≡ empty slice/map,
// -0 ≡ 0): two values with the same rendering are the same configuration.
func c16Canon(v interface{}) string {
	b, err := json.Marshal(v)
	if err != nil {
		return "<unmarshalable: " + err.Error() + ">"
	}
	dec := json.NewDecoder(strings.NewReader(string(b)))
	dec.UseNumber()
	var g interface{}
	if err := dec.Decode(&g); err != nil {
		return "<undecodable: " + err.Error() + ">"
	}
	out, _ := json.Marshal(c16Norm(g))
	return string(out)
}

// ---------------------------------------------------------------------------------
// the next run: start-up + restore

type c16Restored struct {
	spc     SimPulseSourceConfig
	tsc     TriangleSourceConfig
	lsc     LanceroSourceConfig
	asc     AbacoSourceConfig
	rsc     RoachSourceConfig
	status  ServerStatus
	ws      WritingState
	mapFile string
	errs    map[string]error
	// fts is what UnmarshalKey("trigger") yields, perChan what the real PrepareRun installs
	fts      []FullTriggerState
	perChan  []TriggerState
	settings map[string]interface{} // viper.AllSettings() without the time stamp
}

// c16RestoreAll is the UnmarshalKey sequence of RunRPCServer (rpc_server.go, "Load stored
// settings"): same keys, same target types, same pre-set defaults, same order. The
// Configure* calls that RunRPCServer makes with the results, and its fix-ups of invalid
// channel counts, are not part of reading the file back and are left out; the fix-ups of
// the record lengths are kept because their result is what PrepareRun is given.
func c16RestoreAll(nchan int) *c16Restored {
	r := &c16Restored{errs: map[string]error{}}
	r.spc.SampleRate = 1000.0
	r.errs["simpulse"] = viper.UnmarshalKey("simpulse", &r.spc)
	r.tsc.SampleRate = 1000.0
	r.errs["triangle"] = viper.UnmarshalKey("triangle", &r.tsc)
	r.errs["lancero"] = viper.UnmarshalKey("lancero", &r.lsc)
	r.asc.AbacoUnwrapOptions.Unwrap = true
	r.asc.AbacoUnwrapOptions.ResetAfter = 20000
	r.errs["abaco"] = viper.UnmarshalKey("abaco", &r.asc)
	r.errs["roach"] = viper.UnmarshalKey("roach", &r.rsc)
	r.errs["status"] = viper.UnmarshalKey("status", &r.status)
	status := &r.status
	if status.Npresamp <= 0 {
		status.Npresamp = 400
	}
	if status.Nsamples <= status.Npresamp {
		status.Nsamples = 2 * status.Npresamp
	}
	if status.SamplePeriod <= 0 {
		status.SamplePeriod = 10 * time.Microsecond
	}
	r.errs["writing"] = viper.UnmarshalKey("writing", &r.ws)
	r.errs["tesmapfile"] = viper.UnmarshalKey("tesmapfile", &r.mapFile)

	// data_source.go PrepareRun: "Load last trigger state from config file"
	r.errs["trigger"] = viper.UnmarshalKey("trigger", &r.fts)
	if nchan > 0 {
		ts := NewTriangleSource()
		if err := ts.Configure(&TriangleSourceConfig{Nchan: nchan, SampleRate: 10000, Min: 0, Max: 10}); err != nil {
			simrt.Fail("harness.restore", "harness:triangle-configure", "%v", err)
		}
		ts.Sample()
		ts.PrepareChannels()
		npre, nsamp := 100, 400 // the record lengths are not the subject of this call
		if err := ts.PrepareRun(npre, nsamp); err != nil {
			simrt.Fail("harness.restore", "harness:prepare-run", "%v", err)
		}
		ts.numberWrittenTicker.Stop()
		ts.writingState.externalTriggerTicker.Stop()
		ts.writingState.dataDropTicker.Stop()
		for _, dsp := range ts.processors {
			r.perChan = append(r.perChan, dsp.TriggerState)
		}
	}
	r.settings = viper.AllSettings()
	delete(r.settings, "currenttime")
	return r
}

// ---------------------------------------------------------------------------------
// world

type c16Pub struct {
	tag, body string
	step      int
}

type c16SaveObs struct {
	nPubAtBegin int
	at          time.Time
	byTimer     bool
}

type c16World struct {
	env      *simrt.Env
	startup  func() error
	seq      int     // directory counter
	gen      *c16Gen // the live process, if any
	hsc      *SourceControl
	soft     bool
	softMiss string
	// lateSig, when set, is the signature of a C16.saved-latest mismatch (the directory is
	// judged after a fault window that was followed by no change of a saved topic)
	lateSig string
	// persist is the cumulative model: latest value of every configuration topic over
	// all processes that saved into the directory under consideration.
	nUnchanged, nTickerSaves, nTimerSaves int
	// ENVIRONMENT of the run (drawn once, the same for every process of the run, nominal runs
	// included): the directory for temporary files ($TMPDIR of the processes) is a file system
	// of its own (a tmpfs /tmp, TMPDIR=/dev/shm), so a rename or hard link between it and the
	// home directory tree fails with EXDEV. tmpDir is the temp directory of the process that
	// runs now (one per home directory, next to it), nExdev counts the operations refused.
	tmpOtherFS bool
	tmpDir     string
	tmpSaved   string
	nExdev     int
	envCheck   bool
	// ENVIRONMENT, continued: the cards of the simulated computer (drawn once per run; the same
	// for every process of the run, as on one machine): numbers of the Lancero cards
	// (/dev/lancero_user<N> …) and of the Abaco ring buffers (/dev/shm/xdma<N>_c2h_0_…). Every
	// SourceControl of the run gets them as its device tables right after NewSourceControl:
	// the one RunRPCServer builds (through verifWrap_NewSourceControl, which the instrumenter
	// puts in the place of the call) and the harness's request object.
	lanCards   []int
	abacoRings []int
	nDevHook   int // SourceControls of the program that were given the tables
}

// c16Gen is one process ("run of dastard").
type c16Gen struct {
	w       *c16World
	home    string
	abort   chan struct{}
	aborted bool
	exited  bool
	base    map[string]interface{} // model of the directory's content when the process started
	baseRej map[string]bool        // topics of base whose latest value the server had refused
	fed     []c16Item              // regular items handed to the channel, in order
	nPub    int                    // regular publications captured = regular items consumed
	pubs    []c16Pub
	replay  []c16Pub
	inRep   bool
	// rpc: the process also runs the real RunRPCServer (start-up announcements, heartbeat);
	// while starting (before the harness feeds anything) every publication is the server's own
	rpc       bool
	starting  bool
	nForeign  int
	nAll      int
	announced map[string]string // what the server's start-up published, by topic
	hsc       *SourceControl    // the harness's request object: source configurations are fed through the real Configure… methods
	// one failing file-system operation (faulted configuration)
	plan      *simrt.FaultFS
	faultSeen bool
	// every plan installed for this process (the early one and those of a fault window), and
	// how many fired ones the harness has already attributed to a kept file
	plans     []*simrt.FaultFS
	firedSeen int
	// fault window (late phase of a faulted run): while it is open, every save attempt of the
	// process has one failing file-system operation (position and error drawn beforehand)
	winOpen     bool
	winKs       []int
	winErr      error
	winAttempts int
	// set when the process went through a fault window in which a save attempt failed and
	// published no change of a saved topic afterwards
	lateWhat  string
	lastBytes []byte            // configuration file at the last look
	lastPub   map[string]string // most recent publication per status topic of this process
	anomaly   string
	fs        *c16FS
	saves     []c16SaveObs
	seen      int // saves already looked at by the harness
	snaps     []c16Snap
	// change-timer book-keeping (probes only)
	armedAt time.Time
	startAt time.Time
}

type c16Snap struct {
	bytes []byte
	nPub  int
	what  string
	// after a save with a failed operation: the file before, and the saves since then
	old  []byte
	cand []int
}

func (w *c16World) newDir(name string) string {
	w.seq++
	d := filepath.Join(w.env.Dir, fmt.Sprintf("%02d-%s", w.seq, name))
	c16RawMkdirAll(d)
	return d
}

// setHome gives the process that starts next its environment variables: HOME, and TMPDIR =
// a directory of its own next to the home directory (the machine's temp directory; it goes
// with the home directory, so a directory restored for another crash point of C16b comes
// with an empty one).
func (w *c16World) setHome(home string) {
	c16Setenv("HOME", home)
	w.tmpDir = home + ".tmpdir"
	c16RawMkdirAll(w.tmpDir)
	c16Setenv("TMPDIR", w.tmpDir)
}

// c16Under tells whether path lies in the directory tree dir.
func c16Under(path, dir string) bool {
	if a, err := filepath.Abs(path); err == nil {
		path = a
	}
	path = filepath.Clean(path)
	return path == dir || strings.HasPrefix(path, dir+string(filepath.Separator))
}

// crossDevice is the run's map of file systems for simrt's rename and link shims: the temp
// directory of the running process is one file system, everything else (the home directory
// tree with ~/.dastard) another.
func (w *c16World) crossDevice(oldpath, newpath string) bool {
	if !w.tmpOtherFS || w.tmpDir == "" {
		return false
	}
	if c16Under(oldpath, w.tmpDir) == c16Under(newpath, w.tmpDir) {
		return false
	}
	w.nExdev++
	if !w.envCheck {
		// not reached by a program that keeps its files in one directory
		simrt.Hit("process-under-test-is-refused-a-rename-or-link-with-EXDEV")
	}
	return true
}

// envNote is appended to violation texts when the environment matters for reading them.
func (w *c16World) envNote() string {
	return w.tmpNote() + w.devNote()
}

// devNote tells which cards the computer of this run has (empty when it has none).
func (w *c16World) devNote() string {
	if len(w.lanCards)+len(w.abacoRings) == 0 {
		return ""
	}
	return fmt.Sprintf("\n[environment of this run: the computer has Lancero cards %v and Abaco ring buffers %v (device tables of every SourceControl of the run)]", w.lanCards, w.abacoRings)
}

// c16NewSourceControlHook, when set, is called with every SourceControl the PROGRAM builds
// (NewSourceControl called from non-harness code, i.e. RunRPCServer), before the program
// uses it. Set by c16Setup, cleared by cleanup.
var c16NewSourceControlHook func(*SourceControl)

// verifWrap_NewSourceControl stands in for NewSourceControl at the call sites of the program
// (instrumenter rule "call-wrap"): the real constructor, then the run's hook. NewLanceroSource
// and NewAbacoSource have just looked for cards in the real /dev and /dev/shm of the build
// machine and found none; the hook enters the cards of the simulated computer.
func verifWrap_NewSourceControl() *SourceControl {
	sc := NewSourceControl()
	if c16NewSourceControlHook != nil {
		c16NewSourceControlHook(sc)
	}
	return sc
}

// giveDevices enters the cards of the run's computer into the device tables of sc, as
// NewLanceroSource / NewAbacoSource do for the devices they find (a Lancero card without
// hardware behind it; a ring that is never opened: Configure only looks the numbers up).
func (w *c16World) giveDevices(sc *SourceControl) {
	for _, n := range w.lanCards {
		card, err := lancero.NewNoHardware(1, 4, 1000)
		if err != nil {
			simrt.Fail("harness.env", "harness:no-lancero-card", "lancero.NewNoHardware: %v", err)
		}
		sc.lancero.devices[n] = &LanceroDevice{card: card, devnum: n}
		sc.lancero.ncards++
	}
	for _, n := range w.abacoRings {
		sc.abaco.arings[n] = &AbacoRing{ringnum: n}
		sc.abaco.Nrings++
	}
}

// c16DrawCards draws a subset of 0..max-1 (increasing).
func c16DrawCards(max int) []int {
	var out []int
	for n := 0; n < max; n++ {
		if simrt.Draw(3) == 0 {
			out = append(out, n)
		}
	}
	return out
}

func (w *c16World) tmpNote() string {
	if !w.tmpOtherFS {
		return ""
	}
	return fmt.Sprintf("\n[environment of this run: the temp directory of the process ($TMPDIR) is a file system of its own; %d rename/link operation(s) between it and the home directory were refused with EXDEV]", w.nExdev)
}

func c16Dot(home string) string  { return filepath.Join(home, ".dastard") }
func c16Main(home string) string { return filepath.Join(home, ".dastard", "config.yaml") }

// startProcess runs the real start-up on home and launches the updater task.
func (w *c16World) startProcess(home string, base map[string]interface{}) *c16Gen {
	g := &c16Gen{w: w, home: home, abort: make(chan struct{}), lastPub: map[string]string{}, base: base}
	w.setHome(home)
	viper.Reset()
	if err := w.startup(); err != nil {
		simrt.Fail("C16.startup", "startup-fails", "start-up (setupViper) of the process under test failed on %s %v: %v", c16Dot(home), c16RawList(c16Dot(home)), err)
	}
	g.fs = c16NewFS()
	g.fs.st.onOp = func(op, path string) {
		if op == "openfile" || op == "create" {
			now := time.Now()
			so := c16SaveObs{nPubAtBegin: g.nPub, at: now}
			// the change timer fires two seconds after the last processed change
			if !g.armedAt.IsZero() {
				d := now.Sub(g.armedAt)
				so.byTimer = d >= 2*time.Second && d < 2*time.Second+300*time.Millisecond
			}
			g.armedAt = time.Time{}
			g.saves = append(g.saves, so)
			if g.winOpen {
				// a save attempt begins inside the fault window: one of its operations fails
				pl := simrt.NewFaultFS("")
				pl.FailMatch = "config."
				pl.FailAt = g.winKs[g.winAttempts%len(g.winKs)]
				pl.FailErr = g.winErr
				g.plans = append(g.plans, pl)
				simrt.SetFS(pl)
				g.winAttempts++
			}
		}
	}
	viper.SetFs(g.fs)
	clientMessageChan = make(chan ClientUpdate, 10)
	simrt.ZmqCapture = func(parts []interface{}) { g.capture(parts) }
	w.gen = g
	g.startAt = time.Now()
	abort := g.abort
	go func() {
		defer func() { g.exited = true }()
		RunClientUpdater(Ports.Status, abort)
	}()
	return g
}

// startServer makes the process a complete dastard: after setupViper and the updater, the
// real RunRPCServer (as main calls it, non-blocking variant) restores every key from
// viper, configures its sources with what it read, announces the restored state on
// clientMessageChan and starts its heartbeat; its listener never accepts (simrt.NetListen).
// Returns when the announcements have been published.
func (g *c16Gen) startServer() {
	g.rpc = true
	g.starting = true
	http.DefaultServeMux = http.NewServeMux() // RunRPCServer registers its handlers there, once per real process
	nHook := g.w.nDevHook
	RunRPCServer(Ports.RPC, false)
	if g.w.nDevHook == nHook && len(g.w.lanCards)+len(g.w.abacoRings) > 0 {
		// The build has no call-site wrapper (instrumenter without the "call-wrap" rule): the
		// server's sources cannot be given cards, so this run's computer has none after all.
		simrt.Hit("env:device-hook-not-in-force(instrumenter-without-call-wrap)")
		g.w.env.Op("environment: RunRPCServer's SourceControl is out of reach in this build; the computer has no cards after all")
		g.w.lanCards, g.w.abacoRings = nil, nil
	}
	if len(g.w.lanCards) > 0 {
		simrt.Hit("env:computer-has-lancero-cards")
	}
	if len(g.w.abacoRings) > 0 {
		simrt.Hit("env:computer-has-abaco-ring-buffers")
	}
	start := time.Now()
	for {
		n := g.nAll
		time.Sleep(20 * time.Millisecond)
		if len(clientMessageChan) == 0 && g.nAll == n && n > 0 {
			break
		}
		if time.Since(start) > 20*time.Second {
			simrt.Fail("C16.startup", "startup-announcements-not-published", "%d messages of the server's start-up were published within 20 s, %d are still queued", g.nAll, len(clientMessageChan))
		}
	}
	g.checkAnomaly()
	g.announced = map[string]string{}
	for k, v := range g.lastPub {
		g.announced[k] = v
	}
	g.starting = false
	if b, err := c16RawRead(c16Main(g.home)); err == nil {
		g.lastBytes = b
	}
	if g.w.hsc == nil {
		g.w.hsc = NewSourceControl()
		g.w.giveDevices(g.w.hsc)
	}
	g.hsc = g.w.hsc
	g.hsc.clientUpdates = clientMessageChan
}

// ioFault plans one failing operation on the configuration files of this process.
func (g *c16Gen) ioFault() {
	errs := []error{syscall.EIO, syscall.ENOSPC, syscall.EACCES}
	g.plan = simrt.NewFaultFS("")
	g.plan.FailMatch = "config."
	g.plan.FailAt = simrt.DrawFault(30)
	g.plan.FailErr = errs[simrt.DrawFault(len(errs))]
	g.plans = append(g.plans, g.plan)
	simrt.SetFS(g.plan)
	g.w.env.Op("process plan: file-system operation number %d on the configuration files fails with %v", g.plan.FailAt, g.plan.FailErr)
}

func c16Bytes(p interface{}) [][]byte {
	switch x := p.(type) {
	case [][]byte:
		return x
	case []byte:
		return [][]byte{x}
	case string:
		return [][]byte{[]byte(x)}
	}
	return [][]byte{[]byte(fmt.Sprint(p))}
}

// capture runs inside the updater task, at SendMessage.
func (g *c16Gen) capture(parts []interface{}) {
	var frames [][]byte
	for _, p := range parts {
		frames = append(frames, c16Bytes(p)...)
	}
	if len(frames) != 2 {
		g.anomaly = fmt.Sprintf("a publication with %d parts instead of 2 (tag, message)", len(frames))
		return
	}
	p := c16Pub{tag: string(frames[0]), body: string(frames[1]), step: simrt.Steps()}
	g.nAll++
	if g.inRep {
		g.replay = append(g.replay, p)
		return
	}
	g.notePub(p)
}

// notePub accounts for a publication that is not part of a SENDALL replay.
func (g *c16Gen) notePub(p c16Pub) {
	if g.starting || g.rpc && p.tag == "ALIVE" {
		// the server's own announcement or heartbeat
		g.nForeign++
		if p.tag != "NEWDASTARD" {
			if prev, had := g.lastPub[p.tag]; (!had || prev != p.body) && c16Persistent(p.tag) {
				g.armedAt = time.Now()
			}
			g.lastPub[p.tag] = p.body
		}
		return
	}
	g.pubs = append(g.pubs, p)
	idx := g.nPub
	g.nPub++
	if idx >= len(g.fed) {
		g.anomaly = fmt.Sprintf("publication %q without an update that could have caused it", p.tag)
		return
	}
	it := g.fed[idx]
	if it.tag != p.tag {
		g.anomaly = fmt.Sprintf("publication number %d has topic %q, update number %d had topic %q", idx, p.tag, idx, it.tag)
		return
	}
	if it.tag == "NEWDASTARD" {
		return
	}
	prev, had := g.lastPub[it.tag]
	if had && prev == p.body {
		simrt.Hit("update-with-unchanged-value")
	} else if c16Persistent(it.tag) || c16In(c16Unclaimed, it.tag) {
		g.armedAt = time.Now()
	}
	g.lastPub[it.tag] = p.body
}

func (g *c16Gen) checkAnomaly() {
	if g.anomaly != "" {
		simrt.Fail("C16.publish", "publication-stream", "%s", g.anomaly)
	}
}

// feed hands one update to the updater through the real channel.
func (g *c16Gen) feed(it c16Item) {
	if g.exited {
		return
	}
	g.fed = append(g.fed, it)
	idx := len(g.fed) - 1
	if g.hsc != nil {
		// source configurations go through the server's real request methods: they
		// normalise the arguments, try to configure the source, and publish the arguments
		// whether or not the source accepted them
		var ok bool
		var err error
		done := true
		switch a := it.state.(type) {
		case *TriangleSourceConfig:
			err = g.hsc.ConfigureTriangleSource(a, &ok)
		case *SimPulseSourceConfig:
			err = g.hsc.ConfigureSimPulseSource(a, &ok)
		case *LanceroSourceConfig:
			err = g.hsc.ConfigureLanceroSource(a, &ok)
		case *AbacoSourceConfig:
			err = g.hsc.ConfigureAbacoSource(a, &ok)
		case *RoachSourceConfig:
			err = g.hsc.ConfigureRoachSource(a, &ok)
		default:
			done = false
		}
		if done {
			g.fed[idx].rejected = err != nil
			if err != nil {
				simrt.Hit("source-configuration-refused-but-published")
			}
			return
		}
	}
	clientMessageChan <- ClientUpdate{tag: it.tag, state: it.state}
}

// quiesce waits until every update fed so far has been published (= consumed).
func (g *c16Gen) quiesce() {
	start := time.Now()
	for g.nPub < len(g.fed) && !g.exited {
		time.Sleep(5 * time.Millisecond)
		if time.Since(start) > 20*time.Second {
			simrt.Fail("C16.publish", "update-not-published", "%d updates were handed to the updater, %d publications appeared within 20 s (queue length %d)", len(g.fed), g.nPub, len(clientMessageChan))
		}
	}
	g.checkAnomaly()
}

// topics returns the status topics published so far by this process.
func (g *c16Gen) topics() []string {
	var out []string
	for t := range g.lastPub {
		out = append(out, t)
	}
	sort.Strings(out)
	return out
}

// sendAll is oracle 1.
func (g *c16Gen) sendAll() {
	g.quiesce()
	if g.exited {
		return
	}
	g.replay = nil
	g.inRep = true
	clientMessageChan <- ClientUpdate{tag: "SENDALL", state: 0}
	// The replay is published in one piece (one scheduler step of the updater). In a process
	// with a server, heartbeats (ALIVE, alone in their step) may be published before or
	// after it; such a process has announced at least six topics, so the replay is the first
	// step with two or more publications.
	minGroup := len(g.topics())
	if g.rpc && minGroup > 2 {
		minGroup = 2
	}
	replayAt := func() (int, int) { return replayAt0(g.replay, minGroup, g.rpc) }
	start := time.Now()
	for time.Since(start) < 5*time.Second {
		if from, _ := replayAt(); from >= 0 && len(clientMessageChan) == 0 {
			break
		}
		if minGroup == 0 && len(clientMessageChan) == 0 && time.Since(start) > 100*time.Millisecond {
			break
		}
		time.Sleep(5 * time.Millisecond)
	}
	g.inRep = false
	win := g.replay
	g.replay = nil
	from, to := replayAt0(win, minGroup, g.rpc)
	if from < 0 {
		// no step looks like a complete replay: judge the largest one
		from, to = len(win), len(win)
		for i := 0; i < len(win); {
			j := i
			for j < len(win) && win[j].step == win[i].step {
				j++
			}
			if j-i > to-from && !(g.rpc && j-i == 1 && win[i].tag == "ALIVE") {
				from, to = i, j
			}
			i = j
		}
	}
	for _, p := range win[:from] {
		g.notePub(p) // heartbeats published before the replay
	}
	want := g.topics()
	rep := win[from:to]
	g.checkAnomaly()
	simrt.Hit("sendall")
	got := map[string][]string{}
	for _, p := range rep {
		got[p.tag] = append(got[p.tag], p.body)
	}
	if len(rep) == 0 && len(want) > 0 {
		simrt.Fail("C16.sendall", "sendall-unanswered", "SENDALL was not answered within 5 s (%d topics published in this run; %d updates handed over, %d published; queue length %d)", len(want), len(g.fed), g.nPub, len(clientMessageChan))
	}
	for _, t := range want {
		bodies := got[t]
		if len(bodies) == 0 {
			simrt.Fail("C16.sendall", "sendall-topic-missing", "after SENDALL no message for topic %s (published earlier in this run, last as %s); replay had %d messages for %d topics published", t, c16Short(g.lastPub[t]), len(rep), len(want))
		}
		if len(bodies) > 1 {
			simrt.Fail("C16.sendall", "sendall-topic-twice", "after SENDALL %d messages for topic %s", len(bodies), t)
		}
		if bodies[0] != g.lastPub[t] {
			simrt.Fail("C16.sendall", "sendall-not-latest", "after SENDALL topic %s was replayed as %s, its most recent publication was %s", t, c16Short(bodies[0]), c16Short(g.lastPub[t]))
		}
	}
	for t := range got {
		if !c16In(want, t) {
			simrt.Fail("C16.sendall", "sendall-extra-topic", "after SENDALL a message with topic %q, which is not a status topic published in this run (published: %v)", t, want)
		}
	}
	for _, p := range win[to:] {
		g.notePub(p) // heartbeats published after the replay
	}
	g.checkAnomaly()
	if len(want) >= 8 {
		simrt.Hit("sendall-8-or-more-topics")
	}
}

// replayAt0 finds the replay among the publications of a SENDALL window: the first
// scheduler step with at least minGroup publications (see sendAll).
func replayAt0(win []c16Pub, minGroup int, rpc bool) (int, int) {
	for i := 0; i < len(win); {
		j := i
		for j < len(win) && win[j].step == win[i].step {
			j++
		}
		if j-i >= minGroup && (!rpc || j-i >= 2 || win[i].tag != "ALIVE") {
			return i, j
		}
		i = j
	}
	return -1, -1
}

func c16Short(s string) string {
	if len(s) > 200 {
		return s[:200] + "…"
	}
	return s
}

// look notes saves that completed since the last look and keeps the file of the latest.
func (g *c16Gen) look(what string) {
	if len(g.saves) == g.seen {
		return
	}
	for _, so := range g.saves[g.seen:] {
		if so.byTimer {
			simrt.Hit("save-by-change-timer")
			g.w.nTimerSaves++
		} else {
			simrt.Hit("save-by-ticker-or-first-timer")
			g.w.nTickerSaves++
		}
	}
	var cand []int
	for _, so := range g.saves[g.seen:] {
		cand = append(cand, so.nPubAtBegin)
	}
	g.seen = len(g.saves)
	last := g.saves[len(g.saves)-1]
	b, err := c16RawRead(c16Main(g.home))
	if err != nil {
		simrt.Fail("C16.save-content", "config-missing-after-save", "after a save %s cannot be read: %v (directory: %v)", c16Main(g.home), err, c16RawList(c16Dot(g.home)))
	}
	sn := c16Snap{bytes: b, nPub: last.nPubAtBegin, what: what}
	if fired := g.fired(); len(fired) > g.firedSeen {
		// one (or, in a fault window, several) of these saves had a failing operation: the file
		// is the one from before or the complete result of one of these saves
		g.faultSeen = true
		sn.old = g.lastBytes
		sn.cand = cand
		for _, pl := range fired[g.firedSeen:] {
			sn.what += fmt.Sprintf(" (operation %d, %q, failed)", pl.FailAt, c16FailedOp(pl))
		}
		g.firedSeen = len(fired)
		simrt.Hit("save-with-failed-operation-observed")
	}
	g.lastBytes = b
	g.snaps = append(g.snaps, sn)
}

// fired lists the plans of this process whose failure has happened, in order of installation.
func (g *c16Gen) fired() []*simrt.FaultFS {
	var out []*simrt.FaultFS
	for _, pl := range g.plans {
		if pl.Fired {
			out = append(out, pl)
		}
	}
	return out
}

// c16FailedOp names the operation the plan made fail.
func c16FailedOp(plan *simrt.FaultFS) string {
	n := 0
	for _, l := range plan.Log {
		if strings.Contains(l, plan.FailMatch) {
			if n == plan.FailAt {
				f := strings.Fields(l)
				for i := 1; i < len(f); i++ {
					f[i] = filepath.Base(f[i])
				}
				return strings.Join(f, " ")
			}
			n++
		}
	}
	return "?"
}

// cleanup is deferred by the check bodies: however a run ends, the live updater is told
// to return (its deferred socket Close then runs when the runtime tears the task down),
// so that finished runs do not accumulate ZMQ sockets in the worker process.
func (w *c16World) cleanup() {
	if g := w.gen; g != nil && !g.exited && !g.aborted {
		g.aborted = true
		close(g.abort)
	}
	simrt.SetFS(nil)
	simrt.SetCrossDevice(nil)
	c16NewSourceControlHook = nil
	c16Setenv("TMPDIR", w.tmpSaved)
}

// stop ends the process in an orderly way (the abort channel, as main does on exit).
func (g *c16Gen) stop() {
	if !g.exited {
		g.aborted = true
		close(g.abort)
		start := time.Now()
		for !g.exited {
			time.Sleep(5 * time.Millisecond)
			if time.Since(start) > 20*time.Second {
				simrt.Fail("harness.stop", "harness:updater-does-not-stop", "RunClientUpdater did not return within 20 s of closing its abort channel")
			}
		}
	}
	simrt.SetFS(nil)
	simrt.ZmqCapture = nil
	g.w.gen = nil
}

// modelAt is the directory's model after the first n regular updates of this process.
func (g *c16Gen) modelAt(n int) map[string]interface{} {
	m := map[string]interface{}{}
	for k, v := range g.base {
		m[k] = v
	}
	for _, it := range g.fed[:n] {
		if it.tag != "NEWDASTARD" {
			m[it.tag] = it.state
		}
	}
	return m
}

// rejAt tells which topics' latest value (after the first n updates) the server had refused.
func (g *c16Gen) rejAt(n int) map[string]bool {
	m := map[string]bool{}
	for k, v := range g.baseRej {
		m[k] = v
	}
	for _, it := range g.fed[:n] {
		if it.tag != "NEWDASTARD" {
			m[it.tag] = it.rejected
		}
	}
	return m
}

// ---------------------------------------------------------------------------------
// oracle 2

// evalDir runs the next start-up on a home directory and the restore sequence.
func (w *c16World) evalDir(home string, nchan int) (*c16Restored, error) {
	w.setHome(home)
	viper.Reset()
	if err := w.startup(); err != nil {
		return nil, err
	}
	return c16RestoreAll(nchan), nil
}

// evalBytes does the same for a saved copy of the configuration file.
func (w *c16World) evalBytes(b []byte, nchan int) (*c16Restored, error) {
	home := w.newDir("snap")
	if err := c16RawWrite(c16Main(home), b); err != nil {
		simrt.Fail("harness.fs", "harness:write", "%v", err)
	}
	return w.evalDir(home, nchan)
}

func c16TriggerChans(model map[string]interface{}) int {
	fts, ok := model["TRIGGER"].([]FullTriggerState)
	if !ok {
		return 0
	}
	n := 0
	for _, f := range fts {
		for _, c := range f.ChannelIndices {
			if c+1 > n {
				n = c + 1
			}
		}
	}
	return n
}

// checkRestored compares what the next start-up yields with the model.
// fail reports a mismatch: a violation, or (soft mode: one of several admissible versions is
// being tried) a note of the first mismatch.
func (w *c16World) fail(rule, sig, format string, args ...interface{}) {
	if w.soft {
		if w.softMiss == "" {
			w.softMiss = sig + ": " + fmt.Sprintf(format, args...)
		}
		return
	}
	simrt.Fail(rule, sig, "%s%s", fmt.Sprintf(format, args...), w.envNote())
}

func (w *c16World) latestSig() string {
	if w.lateSig != "" {
		return w.lateSig
	}
	return "latest-change-not-on-disk"
}

func (w *c16World) checkRestored(r *c16Restored, model map[string]interface{}, rule, what string) {
	cmp := func(topic string, got, want interface{}) {
		g, x := c16Canon(got), c16Canon(want)
		if g != x {
			sig := "restored-" + strings.ToLower(topic) + "-differs"
			if rule == "C16.saved-latest" {
				// the files written by this process's saves were right when they were written
				// (checked before): what is on disk now is older than the latest change
				sig = w.latestSig()
			}
			w.fail(rule, sig, "%s: the next start-up yields %s = %s, the latest value published was %s (UnmarshalKey error: %v)",
				what, topic, c16Short(g), c16Short(x), r.errs[strings.ToLower(topic)])
		}
		simrt.Hit("restored:" + topic)
	}
	if v, ok := model["TRIANGLE"]; ok {
		cmp("TRIANGLE", r.tsc, v)
	}
	if v, ok := model["SIMPULSE"]; ok {
		cmp("SIMPULSE", r.spc, v)
	}
	if v, ok := model["LANCERO"]; ok {
		cmp("LANCERO", r.lsc, v)
	}
	if v, ok := model["ABACO"]; ok {
		cmp("ABACO", r.asc, v)
	}
	if v, ok := model["ROACH"]; ok {
		cmp("ROACH", r.rsc, v)
	}
	if v, ok := model["STATUS"]; ok {
		st := v.(ServerStatus)
		cmp("STATUS", [2]int{r.status.Npresamp, r.status.Nsamples}, [2]int{st.Npresamp, st.Nsamples})
	}
	if v, ok := model["WRITING"]; ok {
		cmp("WRITING", r.ws.BasePath, v.(*WritingState).BasePath)
	}
	if v, ok := model["TRIGGER"]; ok {
		fts := v.([]FullTriggerState)
		cmp("TRIGGER", r.fts, fts)
		// what PrepareRun installs per channel: the state of the channel's group, with the
		// documented exception that edge-multi triggering is switched off (issue #271)
		for _, f := range fts {
			want := f.TriggerState
			want.EdgeMulti = false
			for _, c := range f.ChannelIndices {
				if c >= len(r.perChan) {
					w.fail("harness.restore", "harness:perchan", "channel %d of %d", c, len(r.perChan))
					continue
				}
				got := r.perChan[c]
				if c16Canon(got) != c16Canon(want) {
					sig := "restored-trigger-differs"
					if rule == "C16.saved-latest" {
						sig = w.latestSig()
					}
					w.fail(rule, sig, "%s: PrepareRun gives channel %d the trigger state %s, the latest published one was %s", what, c, c16Canon(got), c16Canon(want))
				}
			}
		}
		simrt.Hit("restored:TRIGGER-per-channel")
	}
	if v, ok := model["TESMAPFILE"]; ok {
		cmp("TESMAPFILE", r.mapFile, v)
	}
	// other configuration topics: reading them the way the restored ones are read gives the
	// latest value (a topic whose latest value is empty may be absent: viper does not keep
	// empty maps)
	if v, ok := model["STATELABEL"]; ok {
		cmp("STATELABEL", viper.GetString("statelabel"), v)
	}
	if v, ok := model["TRIGCOUPLING"]; ok {
		cmp("TRIGCOUPLING", viper.GetInt("trigcoupling"), v)
	}
	if v, ok := model["MIX"]; ok {
		var mix []float64
		err := viper.UnmarshalKey("mix", &mix)
		r.errs["mix"] = err
		cmp("MIX", mix, v)
	}
	if v, ok := model["GROUPTRIGGER"]; ok {
		var gts GroupTriggerState
		err := viper.UnmarshalKey("grouptrigger", &gts)
		r.errs["grouptrigger"] = err
		cmp("GROUPTRIGGER", gts, v)
	}
	// transient topics never reach the file
	for _, t := range c16Transient {
		if viper.IsSet(strings.ToLower(t)) {
			w.fail(rule, "transient-topic-saved", "%s: the configuration file contains the transient topic %s: %v", what, t, viper.Get(strings.ToLower(t)))
		}
	}
	if viper.IsSet("newdastard") || viper.IsSet("sendall") {
		w.fail(rule, "transient-topic-saved", "%s: the configuration file contains a command (NEWDASTARD/SENDALL)", what)
	}
}

// checkHome is oracle 2 on a directory.
func (w *c16World) checkHome(home string, model map[string]interface{}, rule, what string) *c16Restored {
	if !c16RawExists(c16Main(home)) {
		simrt.Fail(rule, "config-file-missing", "%s: %s does not exist (directory: %v)", what, c16Main(home), c16RawList(c16Dot(home)))
	}
	r, err := w.evalDir(home, c16TriggerChans(model))
	if err != nil {
		b, _ := c16RawRead(c16Main(home))
		simrt.Fail(rule, "config-file-unparseable", "%s: the next start-up fails: %v\nfile content:\n%s", what, err, c16Short(string(b)))
	}
	w.checkRestored(r, model, rule, what)
	return r
}

func (w *c16World) checkBytes(b []byte, model map[string]interface{}, rule, what string) {
	home := w.newDir("snap")
	if err := c16RawWrite(c16Main(home), b); err != nil {
		simrt.Fail("harness.fs", "harness:write", "%v", err)
	}
	w.checkHome(home, model, rule, what)
}

// ---------------------------------------------------------------------------------
// C16a

// c16ProcessStateResets are filled by optional harness files (see //verif:requires).
var c16ProcessStateResets []func()

func c16Setup(env *simrt.Env, startup func() error) *c16World {
	if startup == nil {
		simrt.Fail("harness.setup", "harness:no-startup", "no start-up function")
	}
	PubRecordsChan = make(chan []*DataRecord, 16)
	PubSummariesChan = make(chan []*DataRecord, 16)
	// package-level state of the program must not travel from one simulated run to the next
	// in the same worker process: a run that ended with the lock held (that is a finding of
	// that run) would otherwise decide the next one
	for _, reset := range c16ProcessStateResets {
		reset()
	}
	w := &c16World{env: env, startup: startup, tmpSaved: c16Getenv("TMPDIR")}
	// the environment: where the temp directory lives
	if simrt.Draw(2) == 1 {
		w.tmpOtherFS = true
		simrt.SetCrossDevice(w.crossDevice)
		simrt.Hit("env:tmpdir-is-another-file-system")
		env.Op("environment: $TMPDIR is a file system of its own (rename/link between it and the home directory fails with EXDEV)")
		w.checkEnvModel()
	} else {
		simrt.SetCrossDevice(nil)
		simrt.Hit("env:tmpdir-on-the-file-system-of-home")
		env.Op("environment: $TMPDIR and the home directory are on one file system")
	}
	// the environment: which cards the computer has
	if simrt.Draw(2) == 1 {
		w.lanCards = c16DrawCards(8)
		w.abacoRings = c16DrawCards(maxAbacoRings)
		if len(w.lanCards)+len(w.abacoRings) == 0 {
			w.lanCards = []int{simrt.Draw(8)}
		}
	}
	if len(w.lanCards)+len(w.abacoRings) > 0 {
		env.Op("environment: the computer has Lancero cards %v and Abaco ring buffers %v", w.lanCards, w.abacoRings)
	} else {
		simrt.Hit("env:computer-without-cards")
		env.Op("environment: the computer has no Lancero card and no Abaco ring buffer")
	}
	c16NewSourceControlHook = func(sc *SourceControl) {
		w.nDevHook++
		w.giveDevices(sc)
	}
	return w
}

// checkEnvModel makes sure the environment is in force before the program runs in it: an
// interposed rename and an interposed hard link from the temp directory into a home
// directory are refused with EXDEV (as *os.LinkError) and leave the files alone, and a
// rename inside the home directory works.
func (w *c16World) checkEnvModel() {
	home := w.newDir("envcheck")
	w.setHome(home)
	w.envCheck = true
	defer func() { w.envCheck = false }()
	src, dst, dst2 := filepath.Join(w.tmpDir, "probe.tmp"), filepath.Join(home, "probe"), filepath.Join(home, "probe2")
	if err := c16RawWrite(src, []byte("x")); err != nil {
		simrt.Fail("harness.fs", "harness:write", "%v", err)
	}
	bad := func(err error) bool {
		le, ok := err.(*os.LinkError)
		return !ok || le.Err != syscall.EXDEV
	}
	if err := simrt.OsRename(src, dst); bad(err) || c16RawExists(dst) || !c16RawExists(src) {
		simrt.Fail("harness.env", "harness:cross-device-model-not-in-force", "rename %s -> %s returned %v", src, dst, err)
	}
	if err := simrt.OsLink(src, dst); bad(err) || c16RawExists(dst) {
		simrt.Fail("harness.env", "harness:cross-device-model-not-in-force", "link %s -> %s returned %v", src, dst, err)
	}
	c16RawWrite(dst, []byte("y"))
	if err := simrt.OsRename(dst, dst2); err != nil || !c16RawExists(dst2) {
		simrt.Fail("harness.env", "harness:cross-device-model-not-in-force", "rename %s -> %s inside the home directory returned %v", dst, dst2, err)
	}
	w.nExdev = 0
	simrt.Hit("env:cross-device-rename-and-link-refused-with-EXDEV")
}

// c16SaveWait is how long the harness waits for a change to be saved. The updater saves
// "every time it's changed, but after a delay" of two seconds (comment in
// client_updater.go); ten seconds leave room for that delay to be retuned, and are far
// below the one-minute period of the unconditional save.
const c16SaveWait = 10 * time.Second

var c16Sleeps = []time.Duration{0, time.Millisecond, 100 * time.Millisecond, 2100 * time.Millisecond, 1900 * time.Millisecond, time.Second, 5 * time.Second,
	20 * time.Second, 45 * time.Second, 61 * time.Second}

// c16CanonJSON is c16Canon for a published message.
func c16CanonJSON(body string) string {
	dec := json.NewDecoder(strings.NewReader(body))
	dec.UseNumber()
	var g interface{}
	if err := dec.Decode(&g); err != nil {
		return "<undecodable: " + err.Error() + ">"
	}
	out, _ := json.Marshal(c16Norm(g))
	return string(out)
}

// checkAnnounced judges the real start-up (setupViper + RunRPCServer) of a process that
// started on a directory left by earlier processes: what it announces to clients as its
// source configurations, record lengths and base path is what the earlier processes saved
// last. Source configurations that the server had refused when they were set (and saved
// anyway) are not claimed; everything else in the model is a value a run held.
func (w *c16World) checkAnnounced(g *c16Gen, model map[string]interface{}, rej map[string]bool, what string) {
	differs := func(topic, got, want string) {
		simrt.Fail("C16.restore", "startup-"+strings.ToLower(topic)+"-differs", "%s: the start-up announces %s = %s, the value saved last by the previous run was %s\n(configuration file read by this start-up: %s)%s",
			what, topic, c16Short(got), c16Short(want), c16Short(string(g.lastBytes)), w.devNote())
	}
	for _, t := range []string{"SIMPULSE", "TRIANGLE", "LANCERO", "ABACO", "ROACH"} {
		v, ok := model[t]
		if !ok {
			continue
		}
		body, ann := g.announced[t]
		want := c16Canon(v)
		if rej[t] {
			if ann && c16CanonJSON(body) == want {
				simrt.Hit("startup-announces-refused-value-unchanged")
			}
			continue
		}
		if !ann {
			simrt.Fail("C16.restore", "startup-"+strings.ToLower(t)+"-not-announced", "%s: the start-up does not announce topic %s, saved last as %s (announced: %v)", what, t, c16Short(want), c16Keys(g.announced))
		}
		if got := c16CanonJSON(body); got != want {
			differs(t, got, want)
		}
		simrt.Hit("startup-announces:" + t)
		if (t == "LANCERO" && len(w.lanCards) > 0) || (t == "ABACO" && len(w.abacoRings) > 0) {
			simrt.Hit("startup-restores-saved-configuration-on-a-computer-with-cards:" + t)
		}
	}
	if v, ok := model["STATUS"]; ok {
		st := v.(ServerStatus)
		body, ann := g.announced["STATUS"]
		var got ServerStatus
		if !ann || json.Unmarshal([]byte(body), &got) != nil {
			simrt.Fail("C16.restore", "startup-status-not-announced", "%s: the start-up does not announce a readable STATUS (%q)", what, c16Short(body))
		}
		if got.Npresamp != st.Npresamp || got.Nsamples != st.Nsamples {
			differs("STATUS", fmt.Sprintf("record lengths [%d %d]", got.Npresamp, got.Nsamples), fmt.Sprintf("[%d %d]", st.Npresamp, st.Nsamples))
		}
		simrt.Hit("startup-announces:STATUS")
	}
	if v, ok := model["WRITING"]; ok {
		body, ann := g.announced["WRITING"]
		var got WritingState
		if !ann || json.Unmarshal([]byte(body), &got) != nil {
			simrt.Fail("C16.restore", "startup-writing-not-announced", "%s: the start-up does not announce a readable WRITING (%q)", what, c16Short(body))
		}
		if want := v.(*WritingState).BasePath; got.BasePath != want {
			differs("WRITING", fmt.Sprintf("base path %q", got.BasePath), fmt.Sprintf("%q", want))
		}
		simrt.Hit("startup-announces:WRITING")
	}
}

func c16Keys(m map[string]string) []string {
	var out []string
	for k := range m {
		out = append(out, k)
	}
	sort.Strings(out)
	return out
}

// checkAfterFailedSave: the file seen after a save in which one file-system operation
// failed is the complete file from before or the complete result of one of the saves since.
func (w *c16World) checkAfterFailedSave(g *c16Gen, sn c16Snap) {
	what := "file after the save " + sn.what
	var oldSettings map[string]interface{}
	if rOld, err := w.evalBytes(sn.old, 0); err == nil {
		oldSettings = rOld.settings
	}
	home := w.newDir("snap")
	if err := c16RawWrite(c16Main(home), sn.bytes); err != nil {
		simrt.Fail("harness.fs", "harness:write", "%v", err)
	}
	r, err := w.evalDir(home, 0)
	if err != nil {
		simrt.Fail("C16.io-failure", "failed-save-leaves-unparseable-file", "%s: the next start-up fails: %v\n%s", what, err, c16Short(string(sn.bytes)))
	}
	if oldSettings != nil && c16SameSettings(r.settings, oldSettings) {
		simrt.Hit("failed-save-leaves-old-version")
		return
	}
	miss := ""
	for i := len(sn.cand) - 1; i >= 0; i-- {
		model := g.modelAt(sn.cand[i])
		r, err := w.evalDir(home, c16TriggerChans(model))
		if err != nil {
			simrt.Fail("harness.c16a", "harness:re-eval", "%v", err)
		}
		w.soft, w.softMiss = true, ""
		w.checkRestored(r, model, "C16.io-failure", what)
		w.soft = false
		if w.softMiss == "" {
			simrt.Hit("failed-save-leaves-new-version")
			return
		}
		if miss == "" {
			miss = w.softMiss
		}
	}
	simrt.Fail("C16.io-failure", "failed-save-leaves-neither-old-nor-new", "%s: the file (%d bytes) is neither the file from before (%d bytes) nor the complete result of a save since (%s):\n%s",
		what, len(sn.bytes), len(sn.old), miss, c16Short(string(sn.bytes)))
}

// setupCringe gives the run its ~/.cringe/cringeGlobals.json (read by the Lancero source's
// Configure): absent, valid, or with a sample count the source refuses.
func (w *c16World) setupCringe() {
	cringeGlobalsPath = filepath.Join(w.env.Dir, "cringe", "cringeGlobals.json")
	k := simrt.Draw(4)
	if k == 1 {
		w.env.Op("no cringeGlobals.json")
		return
	}
	nsamp := 1 + simrt.Draw(16)
	if k == 3 {
		nsamp = 17 + simrt.Draw(3)
	}
	txt := fmt.Sprintf(`{"SETT": %d, "seqln": %d, "lsync": %d, "testpattern": 0, "propagationdelay": %d, "NSAMP": %d, "carddelay": %d, "XPT": 0}`,
		simrt.Draw(64), 1+simrt.Draw(64), 20+simrt.Draw(200), simrt.Draw(16), nsamp, simrt.Draw(16))
	w.env.Op("cringeGlobals.json = %s", txt)
	c16RawWrite(cringeGlobalsPath, []byte(txt))
}

// c16CatchUp is how long after the end of a fault window the harness lets the process live
// before it judges the directory. The property gives no number; what it demands is that the
// file saved for the next run has the latest values, so a save that failed has to be made up
// for once saving is possible again. The updater's own promise is a save "this often" (one
// minute, comment in client_updater.go); two such periods and a margin are allowed here. It
// is simulated time. (A ready updater waits at most 2500 scheduler steps of at most 2 ms of
// simulated CPU each for its turn: 5 s, far inside the margin.)
const c16CatchUp = 125 * time.Second

// c16WindowMax bounds how long a fault window is held open while the harness waits for the
// number of save attempts it wants the window to cover.
const c16WindowMax = 150 * time.Second

// faultWindow is the late phase of a faulted process: a change of a saved topic, a fault
// window that covers the next one to three save attempts (each attempt has one failing
// file-system operation), then the end of the faults and NO further change of a saved topic
// while the process lives on for c16CatchUp. Nothing is demanded while the window is open
// (files seen meanwhile are judged old-or-new like after any failed save); what the process
// leaves behind at exit is judged by the caller (C16.saved-latest: the next start-up reads
// back the latest values).
func (g *c16Gen) faultWindow(gi int, prev map[string]interface{}) {
	env := g.w.env
	g.quiesce()
	g.look(fmt.Sprintf("process %d, before the fault window", gi))
	want := []int{1, 1, 1, 2, 2, 3}[simrt.DrawFault(6)]
	errs := []error{syscall.EIO, syscall.ENOSPC, syscall.EACCES}
	g.winErr = errs[simrt.DrawFault(len(errs))]
	g.winKs = nil
	for i := 0; i < want; i++ {
		g.winKs = append(g.winKs, simrt.DrawFault(9))
	}
	g.winAttempts = 0
	fired0 := len(g.fired())
	g.winOpen = true
	simrt.Hit("fault-window")
	env.Op("fault window opens: each of the next %d save attempt(s) has one failing operation (positions %v, %v)", want, g.winKs, g.winErr)
	// changes of saved topics: a certain one, sometimes others before it
	for i, m := 0, simrt.Draw(3); i < m; i++ {
		tag := c16DrawTopic()
		if tag == "ALIVE" {
			tag = "TRIGGERRATE"
		}
		st := c16Value(tag)
		prev[tag] = st
		it := c16Item{tag: tag, state: st}
		env.Op("update %s", it)
		g.feed(it)
	}
	it := c16Item{tag: "STATELABEL", state: fmt.Sprintf("inside the fault window, process %d", gi)}
	prev[it.tag] = it.state
	env.Op("update %s", it)
	g.feed(it)
	g.quiesce()
	t0 := time.Now()
	for g.winAttempts < want && !g.exited && time.Since(t0) < c16WindowMax {
		time.Sleep(time.Second)
	}
	time.Sleep(time.Second) // the attempt that began last is over
	g.winOpen = false
	pl := simrt.NewFaultFS("") // no fault from here on
	g.plans = append(g.plans, pl)
	simrt.SetFS(pl)
	nFailed := len(g.fired()) - fired0
	env.Op("fault window closes after %v: %d save attempt(s) began in it, %d operation(s) failed; no change of a saved topic from here on", time.Since(t0), g.winAttempts, nFailed)
	savesAtClose := len(g.saves)
	g.look(fmt.Sprintf("process %d, in the fault window", gi))
	if g.winAttempts < want {
		simrt.Hit("fault-window-ends-before-the-attempts-wanted")
	}
	// probe only: is the disk behind when the faults stop? (the label is plain text in the file)
	if b, err := c16RawRead(c16Main(g.home)); err == nil && !strings.Contains(string(b), it.state.(string)) {
		simrt.Hit("disk-behind-when-fault-window-closes")
	}
	if nFailed > 0 {
		simrt.Fault("ioerr-window-during-save")
		simrt.Hit(fmt.Sprintf("fault-window:%d-failed-attempts", nFailed))
	}
	if g.winAttempts >= 2 {
		simrt.Hit("fault-window-covers-change-save-and-regular-save")
	}
	// the process lives on; clients and transient status keep it busy, but nothing that is
	// saved changes: unchanged values of saved topics, transient topics, SENDALL
	time.Sleep(c16CatchUp / 3)
	for i, m := 0, simrt.Draw(4); i < m; i++ {
		var it c16Item
		switch simrt.Draw(3) {
		case 0:
			it = c16Item{tag: "STATELABEL", state: prev["STATELABEL"]} // the same value again
		case 1:
			it = c16Item{tag: "TRIGGERRATE", state: c16Value("TRIGGERRATE")}
		default:
			it = c16Item{tag: "NUMBERWRITTEN", state: c16Value("NUMBERWRITTEN")}
		}
		env.Op("update %s", it)
		g.feed(it)
	}
	g.quiesce()
	time.Sleep(c16CatchUp - c16CatchUp/3)
	g.look(fmt.Sprintf("process %d, after the fault window", gi))
	if len(g.saves) > savesAtClose {
		simrt.Hit("save-after-fault-window-without-a-change")
	}
	env.Op("SENDALL (%v after the fault window)", c16CatchUp)
	g.sendAll()
	if nFailed > 0 {
		simrt.Hit("failed-save-then-no-further-change")
		g.lateWhat = fmt.Sprintf("which went through a fault window (%d save attempt(s), %d failed operation(s), the last one %q), published no change of a saved topic after it and exited %v after its end",
			g.winAttempts, nFailed, c16FailedOp(g.fired()[len(g.fired())-1]), c16CatchUp)
	}
}

// C16aBody is one run of the histories check.
func C16aBody(env *simrt.Env, startup func() error) {
	w := c16Setup(env, startup)
	defer w.cleanup()
	w.setupCringe()
	home := w.newDir("home")
	if simrt.Draw(3) == 1 {
		c16RawMkdirAll(c16Dot(home)) // the directory exists, the file does not
	}
	model := map[string]interface{}{}
	rej := map[string]bool{}
	ngen := 1 + simrt.Draw(2)
	sample := map[string]interface{}{}
	totalUpdates, totalSendall := 0, 0
	// processes 0 … ngen-1 receive updates; process ngen is the plain next run of the last one
	for gi := 0; gi <= ngen; gi++ {
		env.Op("process %d starts on %s (setupViper, RunClientUpdater, RunRPCServer)", gi, filepath.Base(home))
		g := w.startProcess(home, model)
		g.baseRej = rej
		g.startServer()
		if gi > 0 {
			w.checkAnnounced(g, model, rej, fmt.Sprintf("process %d, started on the directory left by process %d", gi, gi-1))
		}
		n := 5 + simrt.Draw(56)
		if gi > 0 {
			n = 1 + simrt.Draw(20)
		}
		if gi == ngen {
			n = 0
		}
		if env.Faulted() && n > 0 && simrt.Chance(1, 2) {
			g.ioFault()
		}
		prev := map[string]interface{}{}
		for i := 0; i < n; i++ {
			if env.Faulted() && simrt.Chance(1, 12) {
				steps := 5 + simrt.DrawFault(300)
				env.Op("stall the updater for %d steps", steps)
				simrt.Stall("updater", steps)
			}
			switch k := simrt.Draw(12); {
			case k <= 6:
				tag := c16DrawTopic()
				if tag == "ALIVE" {
					tag = "TRIGGERRATE" // the server's own heartbeat publishes ALIVE
				}
				var st interface{}
				if p, ok := prev[tag]; ok && simrt.Draw(4) == 1 {
					st = p // the same value again
				} else {
					st = c16Value(tag)
				}
				prev[tag] = st
				it := c16Item{tag: tag, state: st}
				env.Op("update %s", it)
				g.feed(it)
				totalUpdates++
			case k == 7 || k == 8:
				d := c16Sleeps[simrt.Draw(len(c16Sleeps))]
				env.Op("sleep %v", d)
				time.Sleep(d)
				g.look(fmt.Sprintf("process %d, after update %d", gi, len(g.fed)))
			case k == 9 || k == 10:
				env.Op("SENDALL")
				g.sendAll()
				totalSendall++
			default:
				it := c16Item{tag: "NEWDASTARD", state: "new Dastard is running"}
				env.Op("update %s", it)
				g.feed(it)
			}
		}
		env.Op("SENDALL (end of process %d)", gi)
		g.sendAll()
		totalSendall++
		// The process lives on for a while after the last change, then exits.
		tail := []time.Duration{c16SaveWait, c16SaveWait + 5*time.Second, c16SaveWait, 61 * time.Second}
		d := tail[simrt.Draw(len(tail))]
		env.Op("sleep %v", d)
		time.Sleep(d)
		g.look(fmt.Sprintf("process %d, final", gi))
		simrt.Unstall()
		if g.plan != nil && g.plan.Fired {
			// The failure is over. What it kept from the disk gets there with the next save,
			// which the next change brings; and clients are still served.
			simrt.Fault("ioerr-during-save")
			it := c16Item{tag: "STATELABEL", state: fmt.Sprintf("after the failed operation, process %d", gi)}
			env.Op("the planned operation (%s) has failed; update %s, sleep %v, SENDALL", c16FailedOp(g.plan), it, c16SaveWait)
			g.feed(it)
			time.Sleep(c16SaveWait)
			g.look(fmt.Sprintf("process %d, after the failed operation", gi))
			g.sendAll()
			totalSendall++
		}
		if env.Faulted() && n > 0 && simrt.Chance(1, 2) {
			g.faultWindow(gi, prev)
			totalSendall++
		}
		env.Op("process %d exits", gi)
		g.quiesce()
		g.stop()
		if g.nPub != len(g.fed) {
			simrt.Fail("C16.publish", "update-not-published", "%d updates, %d publications", len(g.fed), g.nPub)
		}
		// oracle 2 on the files kept after saves (the last four, and the one after a failed operation)
		for i, sn := range g.snaps {
			if sn.old != nil {
				w.checkAfterFailedSave(g, sn)
			} else if i >= len(g.snaps)-4 {
				w.checkBytes(sn.bytes, g.modelAt(sn.nPub), "C16.save-content", "file written by the save "+sn.what)
			}
		}
		if len(g.saves) == 0 {
			simrt.Fail("C16.saved-latest", "no-save", "process %d lived %v and never saved its configuration", gi, time.Since(g.startAt))
		}
		model = g.modelAt(len(g.fed))
		rej = g.rejAt(len(g.fed))
		// the bounded-delay rule: the directory the process leaves behind has everything
		leftBy := fmt.Sprintf("directory left by process %d, which exited %v after its last update", gi, c16SaveWait)
		if g.lateWhat != "" {
			leftBy = fmt.Sprintf("directory left by process %d, %s", gi, g.lateWhat)
			w.lateSig = "no-catch-up-after-failed-save"
		}
		w.checkHome(home, model, "C16.saved-latest", leftBy)
		w.lateSig = ""
		sample[fmt.Sprintf("process%d", gi)] = map[string]interface{}{"updates": len(g.fed), "saves": len(g.saves), "topics": len(g.lastPub), "announced": len(g.announced)}
	}
	if w.nTickerSaves > 0 && w.nTimerSaves > 0 {
		simrt.Hit("both-save-triggers-in-one-run")
	}
	sample["updates"] = totalUpdates
	sample["sendall"] = totalSendall
	env.Sample(sample)
}

// ---------------------------------------------------------------------------------
// C16b

type c16Step struct {
	kind  string // "feed", "sleep", "waitsave" (until the next save, at most d), "open" (window opens: crash plan installed), "mark" (keep the file: a complete version), "until" (sleep until d after process start)
	items []c16Item
	d     time.Duration
}

type c16History struct {
	name   string
	pre    func(home string) map[string]interface{} // builds the directory the process starts on, returns its model
	script []c16Step
	saves  int // saves expected inside the window
}

func c16Burst(n int, label string) []c16Item {
	var out []c16Item
	for i := 0; i < n; i++ {
		tag := c16DrawTopic()
		out = append(out, c16Item{tag: tag, state: c16Value(tag)})
	}
	// one certain change of a configuration topic
	out = append(out, c16Item{tag: "STATELABEL", state: label})
	return out
}

// runScript runs one process over the script. crashAt < 0: dry run. Returns the process,
// the plan, and the files kept at marks.
func (w *c16World) runScript(home string, base map[string]interface{}, script []c16Step, crashAt int) (*c16Gen, *simrt.FaultFS, [][]byte) {
	g := w.startProcess(home, base)
	var plan *simrt.FaultFS
	var marks [][]byte
	for _, st := range script {
		if g.exited {
			break
		}
		switch st.kind {
		case "feed":
			for _, it := range st.items {
				g.feed(it)
			}
			g.quiesce()
		case "sleep":
			time.Sleep(st.d)
		case "waitsave":
			// until the next save has happened (or the process is dead), at most st.d
			n0, t0 := len(g.saves), time.Now()
			for len(g.saves) == n0 && !g.exited && time.Since(t0) < st.d {
				time.Sleep(250 * time.Millisecond)
			}
		case "until":
			if d := st.d - time.Since(g.startAt); d > 0 {
				time.Sleep(d)
			}
		case "open":
			if crashAt < 0 {
				b, err := c16RawRead(c16Main(home))
				if err != nil {
					simrt.Fail("harness.c16b", "harness:no-config-at-window-open", "%v", err)
				}
				marks = append(marks, b)
			}
			plan = simrt.NewFaultFS("")
			plan.CrashAt = crashAt
			simrt.SetFS(plan)
		case "mark":
			if crashAt < 0 {
				b, err := c16RawRead(c16Main(home))
				if err != nil {
					simrt.Fail("C16.save-content", "config-missing-after-save", "after a completed save %s cannot be read: %v", c16Main(home), err)
				}
				marks = append(marks, b)
			}
		}
	}
	simrt.SetFS(nil)
	return g, plan, marks
}

func c16SameSettings(a, b map[string]interface{}) bool { return reflect.DeepEqual(a, b) }

// C16bBody is one run of the crash-point check: five histories, every operation boundary
// of their saves.
func C16bBody(env *simrt.Env, startup func() error) {
	w := c16Setup(env, startup)
	defer w.cleanup()

	// a complete earlier life of the directory: a process that saves `saves` times
	earlier := func(home string, saves int, base map[string]interface{}) map[string]interface{} {
		g := w.startProcess(home, base)
		for i := 0; i < saves; i++ {
			for _, it := range c16Burst(1+simrt.Draw(4), fmt.Sprintf("earlier-%d", i)) {
				g.feed(it)
			}
			g.quiesce()
			time.Sleep(c16SaveWait)
		}
		g.stop()
		if len(g.saves) < saves {
			simrt.Fail("C16.saved-latest", "latest-change-not-on-disk", "a process published %d changes of configuration topics, each followed by %v without updates, and saved its configuration only %d times", saves, c16SaveWait, len(g.saves))
		}
		if len(g.saves) > saves {
			simrt.Fail("harness.c16b", "harness:earlier-saves", "earlier process saved %d times, expected %d", len(g.saves), saves)
		}
		m := g.modelAt(len(g.fed))
		w.checkHome(home, m, "C16.save-content", "directory left by an earlier process")
		return m
	}
	one := func(label string) []c16Step {
		return []c16Step{{kind: "feed", items: c16Burst(1+simrt.Draw(6), label)}, {kind: "open"}, {kind: "sleep", d: c16SaveWait}}
	}

	var hists []c16History
	hists = append(hists, c16History{name: "main-and-bak", saves: 1, script: one("second-life"),
		pre: func(home string) map[string]interface{} { return earlier(home, 2, map[string]interface{}{}) }})
	hists = append(hists, c16History{name: "first-save-ever", saves: 1, script: one("first"),
		pre: func(home string) map[string]interface{} {
			if simrt.Draw(2) == 1 {
				c16RawMkdirAll(c16Dot(home))
			}
			return map[string]interface{}{}
		}})
	hists = append(hists, c16History{name: "stale-tmp", saves: 1, script: one("after-stale-tmp"),
		pre: func(home string) map[string]interface{} {
			m := earlier(home, 1+simrt.Draw(2), map[string]interface{}{})
			tmp := filepath.Join(c16Dot(home), "config.tmp.yaml")
			switch simrt.Draw(3) {
			case 0: // left by a process killed in the middle of writing it
				b, _ := c16RawRead(c16Main(home))
				c16RawWrite(tmp, append([]byte("___9: stale\n"), b[:len(b)/2]...))
			case 1:
				c16RawWrite(tmp, []byte("statelabel: stale-complete-file\nwriting:\n    basepath: /stale\n"))
			default:
				c16RawWrite(tmp, []byte{})
			}
			return m
		}})
	two := []c16Step{{kind: "feed", items: c16Burst(1+simrt.Draw(4), "two-a")}, {kind: "open"}, {kind: "waitsave", d: c16SaveWait}, {kind: "mark"},
		{kind: "feed", items: c16Burst(1+simrt.Draw(4), "two-b")}, {kind: "waitsave", d: c16SaveWait}, {kind: "sleep", d: time.Second}}
	hists = append(hists, c16History{name: "two-saves-in-succession", saves: 2, script: two,
		pre: func(home string) map[string]interface{} {
			if simrt.Draw(2) == 1 {
				return earlier(home, 1, map[string]interface{}{})
			}
			return map[string]interface{}{}
		}})
	// the one-minute ticker and the change timer fire within a fraction of a second
	tick := []c16Step{{kind: "feed", items: c16Burst(1+simrt.Draw(3), "tick-a")}, {kind: "sleep", d: c16SaveWait},
		{kind: "until", d: 58400 * time.Millisecond}, {kind: "feed", items: c16Burst(1+simrt.Draw(3), "tick-b")}, {kind: "open"}, {kind: "sleep", d: c16SaveWait}}
	hists = append(hists, c16History{name: "ticker-and-change-timer", saves: 2, script: tick,
		pre: func(home string) map[string]interface{} { return earlier(home, 1, map[string]interface{}{}) }})

	type cover struct {
		Ops     int    `json:"fs_operations"`
		Covered int    `json:"crash_points_covered"`
		Log     string `json:"operations"`
	}
	coverage := map[string]cover{}
	total := 0
	for _, h := range hists {
		// the directory before the process under test
		pre := w.newDir(h.name + "-pre")
		base := h.pre(pre)
		// ---- dry run: count the operations, keep the complete versions
		dry := w.newDir(h.name + "-dry")
		c16RawCopyDir(c16Dot(pre), c16Dot(dry))
		g, plan, marks := w.runScript(dry, base, h.script, -1)
		g.stop()
		n := plan.Ops
		log := append([]string(nil), plan.Log...)
		var short []string
		for _, l := range log {
			f := strings.Fields(l)
			for i := 1; i < len(f); i++ {
				f[i] = filepath.Base(f[i])
			}
			short = append(short, strings.Join(f, " "))
		}
		if c16SavesSince(g, plan) < h.saves {
			simrt.Fail("C16.saved-latest", "latest-change-not-on-disk", "history %s: %d changes of configuration topics, each followed by %v without updates, but only %d save(s) (operations %v)", h.name, h.saves, c16SaveWait, c16SavesSince(g, plan), short)
		}
		if c16SavesSince(g, plan) != h.saves {
			simrt.Fail("harness.c16b", "harness:window-saves", "history %s: %d saves inside the window, expected %d (operations %v)", h.name, c16SavesSince(g, plan), h.saves, short)
		}
		env.Op("history %s: %d file-system operations in %d save(s): %v", h.name, n, h.saves, short)
		// complete versions: before, at marks, after
		final, err := c16RawRead(c16Main(dry))
		if err != nil {
			simrt.Fail("C16.save-content", "config-missing-after-save", "history %s: after the completed save(s) %s cannot be read: %v (directory %v)", h.name, c16Main(dry), err, c16RawList(c16Dot(dry)))
		}
		finalModel := g.modelAt(len(g.fed))
		rFinal := w.checkHome(dry, finalModel, "C16.save-content", "history "+h.name+": directory after the completed save(s)")
		var versions []map[string]interface{} // versions[j] = content before save j; versions[saves] = after the last
		for _, m := range marks {             // marks[0]: the file when the window opened
			r, err := w.evalBytes(m, 0)
			if err != nil {
				simrt.Fail("C16.save-content", "config-file-unparseable", "history %s: the file left by the first save does not parse: %v", h.name, err)
			}
			versions = append(versions, r.settings)
		}
		for len(versions) < h.saves {
			versions = append(versions, rFinal.settings) // saves without a change in between write the same content
		}
		versions = append(versions, rFinal.settings)
		_ = final
		// operation index → save number
		saveOf := make([]int, n)
		cur := -1
		for i, l := range log {
			if strings.HasPrefix(l, "openfile ") || strings.HasPrefix(l, "create ") {
				cur++
			}
			if i < n {
				if cur < 0 {
					saveOf[i] = 0
				} else {
					saveOf[i] = cur
				}
			}
		}
		// ---- every crash point
		covered := 0
		for k := 0; k < n; k++ {
			home := w.newDir(fmt.Sprintf("%s-k%d", h.name, k))
			c16RawCopyDir(c16Dot(pre), c16Dot(home))
			gk, pk, _ := w.runScript(home, base, h.script, k)
			if !gk.exited || pk == nil || !pk.Fired {
				simrt.Fail("harness.c16b", "harness:crash-did-not-fire", "history %s: crash point %d of %d was not reached", h.name, k, n)
			}
			for i := 0; i < k && i < len(pk.Log); i++ {
				if pk.Log[i] != strings.Replace(log[i], dry, home, -1) {
					simrt.Fail("harness.c16b", "harness:operations-differ", "history %s, crash point %d: operation %d is %q, was %q in the dry run", h.name, k, i, pk.Log[i], log[i])
				}
			}
			gk.stop()
			covered++
			simrt.Fault("kill-at-fs-operation")
			j := saveOf[k]
			opName := short[k]
			if strings.HasPrefix(opName, "write ") && k > 0 && strings.HasPrefix(short[k-1], "write ") || strings.HasPrefix(opName, "sync ") {
				simrt.Hit("crash-mid-write")
			}
			if strings.HasPrefix(opName, "rename ") && k > 0 && strings.HasPrefix(short[k-1], "rename ") {
				simrt.Hit("crash-between-the-two-renames")
			}
			if lastOfSave := k == n-1 || saveOf[k+1] != j; lastOfSave && k > 0 && (strings.HasPrefix(short[k-1], "rename ") || strings.HasPrefix(short[k-1], "link ")) {
				simrt.Hit("crash-between-backup-step-and-final-step")
			}
			if j > 0 {
				simrt.Hit("crash-in-second-save")
			}
			where := fmt.Sprintf("history %s, save = %v\nkill before operation %d of %d (%s) of save %d", h.name, short, k, n, opName, j+1)
			dir := c16RawList(c16Dot(home))
			if !c16RawExists(c16Main(home)) {
				// what the next start-up then does
				r, err := w.evalDir(home, 0)
				after := ""
				if err == nil {
					after = fmt.Sprintf("; the next start-up creates config.yaml (%v) and reads %d settings from it", c16RawList(c16Dot(home)), len(r.settings)-1)
				}
				simrt.Fail("C16.crash-safe", "crash:config-file-missing", "%s: directory then holds %v; no configuration file is left%s", where, dir, after)
			}
			r, err := w.evalDir(home, 0)
			if err != nil {
				b, _ := c16RawRead(c16Main(home))
				simrt.Fail("C16.crash-safe", "crash:config-file-unparseable", "%s: directory then holds %v; the next start-up fails: %v\n%s", where, dir, err, c16Short(string(b)))
			}
			old, new := versions[j], versions[j+1]
			switch {
			case c16SameSettings(r.settings, old):
				simrt.Hit("crash-leaves-old-version")
			case c16SameSettings(r.settings, new):
				simrt.Hit("crash-leaves-new-version")
			default:
				b, _ := c16RawRead(c16Main(home))
				sig := "crash:config-neither-old-nor-new"
				if len(b) == 0 {
					sig = "crash:config-file-empty"
				}
				simrt.Fail("C16.crash-safe", sig, "%s: directory then holds %v; the file the next start-up reads (%d bytes, %d settings) is neither the complete old version (%d settings) nor the complete new one (%d settings):\n%s",
					where, dir, len(b), len(r.settings), len(old), len(new), c16Short(string(b)))
			}
		}
		// crash point n (kill right after the last operation) is the dry run itself: its
		// directory was checked against the model above
		covered++
		simrt.Hit("kill-after-last-operation-leaves-new-version")
		coverage[h.name] = cover{Ops: n, Covered: covered, Log: strings.Join(short, "; ")}
		total += covered
		simrt.Hit("history:" + h.name)
	}
	simrt.Hit("all-crash-points-of-all-histories-covered")
	env.Sample(map[string]interface{}{"histories": coverage, "crash_points": total})
}

// c16SavesSince counts the saves that began after the plan was installed.
func c16SavesSince(g *c16Gen, plan *simrt.FaultFS) int {
	n := 0
	for _, l := range plan.Log {
		if strings.HasPrefix(l, "openfile ") || strings.HasPrefix(l, "create ") {
			n++
		}
	}
	return n
}

func (w *c16World) copyHome(src, name string) string {
	dst := w.newDir(name)
	if err := c16RawCopyDir(c16Dot(src), c16Dot(dst)); err != nil {
		simrt.Fail("harness.fs", "harness:copy", "%v", err)
	}
	return dst
}

var _ = os.Getpid
