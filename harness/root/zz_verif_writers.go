//go:build verif

package dastard

// Writer worlds (DESIGN §3.5 b): real ljh.Writer, ljh.Writer3, off.Writer on real files.
//   C05a — through DataPublisher (lazy creation, header once, three formats), operation
//          histories of publish / flush / pause / unpause / stop; exact-content oracle.
//   C07b — the writers driven through their public API while the asynchronous writer
//          goroutine is stalled long enough to fill the queue; record-atomicity oracle.

import (
	"fmt"
	"math"
	"os"
	"path/filepath"
	"strconv"
	"strings"
	"time"

	"github.com/usnistgov/dastard/ljh"
	"github.com/usnistgov/dastard/off"
	"gonum.org/v1/gonum/mat"

	"verif/simrt"
)

func init() {
	simrt.Register(&simrt.Check{Name: "C05a", Property: "C05", Body: c05aBody, Classify: classify, MaxSteps: 1500000,
		Real: []string{"DataPublisher (SetLJH22/SetLJH3/SetOFF, PublishData, SetPause, Flush, Remove*)", "in a third of the runs: DataStreamProcessor.processSegment / processSecondaries (auto trigger, secondary records, AnalyzeData, TrimStream) as the caller of PublishData, with its fail-stop on a publish error", "ljh.Writer, ljh.Writer3, off.Writer", "asyncbufio.Writer with its writer goroutine and 3 s flush ticker (fake clock)", "OS file system (sandbox directory)"},
		Stub: []string{"two thirds of the runs: records are harness-made (no trigger pipeline)", "one third: blocks of a harness-made sample stream, secondary trigger frames chosen by the harness (no broker); a process death is a recovered panic of the caller"}})
	simrt.Register(&simrt.Check{Name: "C07c", Property: "C07", Body: c07cBody, Classify: classify, MaxSteps: 1500000,
		Real: []string{"DataPublisher.Flush / SetPause over all three writers of a channel", "in a third of the runs: DataStreamProcessor.processSegment / processSecondaries as the caller of PublishData, with its fail-stop on a publish error", "ljh.Writer, ljh.Writer3, off.Writer", "asyncbufio.Writer with its writer goroutine and flush ticker (fake clock)", "OS file system (sandbox directory)"},
		Stub: []string{"two thirds of the runs: records are harness-made (no trigger pipeline)", "one third: blocks of a harness-made sample stream, secondary trigger frames chosen by the harness; a process death is a recovered panic of the caller", "disk slowness = the scheduler starving the writer goroutine"}})
	simrt.Register(&simrt.Check{Name: "C07b", Property: "C07", Body: c07bBody, Classify: classify, MaxSteps: 1500000,
		Real: []string{"ljh.Writer, ljh.Writer3, off.Writer public API", "asyncbufio.Writer (queue capacity 1000, flush ticker)", "OS file system (sandbox directory)"},
		Stub: []string{"disk slowness = the scheduler starving the writer goroutine"}})
}

type wantRec struct {
	frame  int64
	time   time.Time
	pre    int
	data   []RawType
	coefs  []float64
	ptMean float64
	ptDelt float64
	resid  float64
}

func genRecord(nsamp, npre, nbases int, seq int) (*DataRecord, wantRec) {
	data := make([]RawType, nsamp)
	switch simrt.Draw(4) {
	case 0:
		for i := range data {
			data[i] = RawType(seq*7 + i)
		}
	case 1:
		for i := range data {
			data[i] = RawType(simrt.Draw(65536))
		}
	case 2:
		v := []RawType{0, 65535, 32767, 32768}[simrt.Draw(4)]
		for i := range data {
			data[i] = v
		}
	default:
		for i := range data {
			data[i] = RawType(1000 + seq + i*3)
		}
	}
	frames := []int64{0, 1, 12345678, 1 << 40, (1 << 62) / 64}
	frame := frames[simrt.Draw(len(frames))] + int64(seq)
	years := []int{1970, 1999, 2024, 2100, 2200}
	tm := time.Date(years[simrt.Draw(len(years))], time.Month(1+simrt.Draw(12)), 1+simrt.Draw(28), simrt.Draw(24), simrt.Draw(60), simrt.Draw(60), simrt.Draw(1000000)*1000+simrt.Draw(1000), time.UTC)
	rec := &DataRecord{data: data, trigFrame: FrameIndex(frame), trigTime: tm, presamples: npre}
	rec.pretrigMean = float64(simrt.Draw(70000)) - 1000.5
	rec.pretrigDelta = float64(simrt.Draw(2000))/8 - 100
	rec.residualStdDev = float64(simrt.Draw(100000)) / 16
	for b := 0; b < nbases; b++ {
		rec.modelCoefs = append(rec.modelCoefs, float64(simrt.Draw(1<<20))/64-8000+float64(b))
	}
	w := wantRec{frame: frame, time: tm, pre: npre, data: data, coefs: rec.modelCoefs, ptMean: rec.pretrigMean, ptDelt: rec.pretrigDelta, resid: rec.residualStdDev}
	return rec, w
}

type chanParams struct {
	index, number int
	name          string
	nsamp, npre   int
	timebase      float64
	rows, cols    int
	row, col      int
	nchans        int
	subdiv, suboff int
	nbases        int
	proj, basis   *mat.Dense
	// source, when not empty, is the name of the data source that the OFF header must state
	source string
}

func genChanParams() chanParams {
	p := chanParams{}
	p.nsamp = []int{4, 16, 100, 500}[simrt.Draw(4)]
	p.npre = 1 + simrt.Draw(p.nsamp-1)
	p.index = simrt.Draw(300)
	p.number = 1 + simrt.Draw(5000)
	p.name = fmt.Sprintf("chan%d", p.number)
	p.timebase = []float64{1e-5, 6.4e-6, 1.0 / 155555.0, 0.001}[simrt.Draw(4)]
	p.rows = 1 + simrt.Draw(40)
	p.cols = 1 + simrt.Draw(8)
	p.row = simrt.Draw(p.rows)
	p.col = simrt.Draw(p.cols)
	p.nchans = p.rows * p.cols
	p.subdiv = []int{1, p.rows, 64}[simrt.Draw(3)]
	p.suboff = simrt.Draw(p.subdiv)
	p.nbases = 1 + simrt.Draw(6)
	pd := make([]float64, p.nbases*p.nsamp)
	bd := make([]float64, p.nbases*p.nsamp)
	for i := range pd {
		pd[i] = float64(i)*0.25 - 3
		bd[i] = 1000 - float64(i)*0.5
	}
	p.proj = mat.NewDense(p.nbases, p.nsamp, pd)
	p.basis = mat.NewDense(p.nsamp, p.nbases, bd)
	return p
}

func c05aBody(env *simrt.Env) { publisherBody(env, false) }

// c07cBody is the publisher world with C07's completeness oracle: when DataPublisher.Flush or
// SetPause(true) (which flushes) returns, every output file of the channel holds every record
// accepted so far.
func c07cBody(env *simrt.Env) { publisherBody(env, true) }

func publisherBody(env *simrt.Env, flushOracle bool) {
	// A third of the histories reach PublishData through its real callers, a DataStreamProcessor's
	// processSegment / processSecondaries, with batches large enough to overflow a stalled writer's
	// queue (zz_verif_writers_dsp.go); the others call PublishData directly, as before.
	if simrt.Draw(3) == 0 {
		dspPublisherBody(env, flushOracle)
		return
	}
	p := genChanParams()
	dp := &DataPublisher{}
	// One DataPublisher serves every writing session of its channel: a history has one or more file
	// lives (Set*, records, flushes, pauses, Remove*), each with new file names and a freshly drawn
	// subset of formats. Every oracle is applied per file life.
	nlives := 1 + simrt.Draw(3)
	seq := 0
	total := 0
	var flushCounts []int // record counts at which earlier file lives were flushed
	var lastSample map[string]interface{}
	for life := 0; life < nlives; life++ {
		n, sample := publisherLife(env, flushOracle, dp, p, life, &seq, &flushCounts)
		total += n
		lastSample = sample
	}
	if nlives > 1 {
		simrt.Hit("several-file-lives")
	}
	lastSample["file_lives"] = nlives
	lastSample["records_in_files"] = total
	env.Sample(lastSample)
}

// publisherLife is one file life on the publisher dp; it returns the number of records its files must hold.
func publisherLife(env *simrt.Env, flushOracle bool, dp *DataPublisher, p chanParams, life int, seqp *int, flushCounts *[]int) (int, map[string]interface{}) {
	useLJH22, useLJH3, useOFF := false, false, false
	switch simrt.Draw(5) {
	case 0:
		useLJH22 = true
	case 1:
		useLJH3 = true
	case 2:
		useOFF = true
	case 3:
		useLJH22, useOFF = true, true
	default:
		useLJH22, useLJH3, useOFF = true, true, true
	}
	prefix := "x_"
	if life > 0 {
		prefix = fmt.Sprintf("x%d_", life)
	}
	f22 := filepath.Join(env.Dir, prefix+p.name+".ljh")
	f3 := filepath.Join(env.Dir, prefix+p.name+".ljh3")
	foff := filepath.Join(env.Dir, prefix+p.name+".off")
	start := time.Date(2024, 2, 3, 4, 5, 6, 0, time.UTC)
	if useLJH22 {
		dp.SetLJH22(p.index, p.npre, p.nsamp, 1, p.timebase, start, p.rows, p.cols, p.nchans, p.subdiv, p.row, p.col, p.suboff,
			f22, "Scripted", p.name, p.number, Pixel{X: 3, Y: 4, Name: "px"})
	}
	if useLJH3 {
		dp.SetLJH3(p.index, p.timebase, p.rows, p.cols, p.subdiv, p.suboff, f3)
	}
	if useOFF {
		dp.SetOFF(p.index, p.npre, p.nsamp, 1, p.timebase, start, p.rows, p.cols, p.nchans, p.subdiv, p.row, p.col, p.suboff,
			foff, "Scripted", p.name, p.number, p.proj, p.basis, "model", Pixel{X: 3, Y: 4, Name: "px"})
	}
	env.Op("file life %d: publisher ljh22=%v ljh3=%v off=%v nsamp=%d npre=%d nbases=%d subdiv=%d suboff=%d", life, useLJH22, useLJH3, useOFF, p.nsamp, p.npre, p.nbases, p.subdiv, p.suboff)

	var want []wantRec // records accepted while unpaused
	// LJH2.2 has fixed-size records: a record of another length (the variable-length edge-multi mode
	// makes them) is not accepted by that format, the other two take it
	var want22 []wantRec
	oddLengths := simrt.Draw(3) == 0
	// flushed checks C07's completeness clause through the publisher (only in the C07c check)
	flushed := func(what string) {
		if life > 0 {
			for _, c := range *flushCounts {
				if c == len(want) && c > 0 {
					simrt.Hit("flush-at-a-record-count-an-earlier-file-was-flushed-at")
					break
				}
			}
		}
		if !flushOracle {
			return
		}
		files := []struct {
			on    bool
			kind  int
			path  string
			rsize int
		}{{useLJH22, 0, f22, 16 + 2*p.nsamp}, {useLJH3, 1, f3, 24 + 2*p.nsamp}, {useOFF, 2, foff, 36 + 4*p.nbases}}
		for _, f := range files {
			if !f.on {
				continue
			}
			b, err := os.ReadFile(f.path)
			if err != nil {
				if len(want) == 0 {
					continue // created lazily with the first record
				}
				nwant := len(want)
				if f.kind == 0 {
					nwant = len(want22)
				}
				_ = nwant
				simrt.Fail("C07.flush-complete", "publisher:flush-incomplete", "%s returned, %d records were accepted, but %s does not exist", what, len(want), filepath.Base(f.path))
			}
			n := countWholeRecords(f.kind, b, p)
			nwant := len(want)
			if f.kind == 0 {
				nwant = len(want22)
			}
			if n != nwant {
				simrt.Fail("C07.flush-complete", "publisher:flush-incomplete", "%s returned, %d records were accepted for this channel, but %s holds %d whole records (%d bytes): data accepted before the flush are not in the file", what, nwant, filepath.Base(f.path), n, len(b))
			}
		}
		if useLJH22 && useOFF || useLJH22 && useLJH3 {
			simrt.Hit("flush-with-several-outputs")
		}
	}
	noteFlush := func() { *flushCounts = append(*flushCounts, len(want)) }
	paused := false
	nops := 3 + simrt.Draw(25)
	if life > 0 || simrt.Draw(4) == 0 {
		nops = 2 + simrt.Draw(6) // short lives: several of them fit in one history
	}
	published := 0
	pending := 0
	for i := 0; i < nops; i++ {
		switch k := simrt.Draw(10); {
		case k < 5:
			n := 1 + simrt.Draw(20)
			if simrt.Draw(2) == 0 {
				n = 1 + n%3 // small batches: a slowly triggering channel
			}
			// this world stays below the writers' queue capacity whatever the schedule
			// (overflow is C07's subject): flush before the queue could fill
			if pending+8*n+4 > 900 {
				dp.Flush()
				pending = 0
				env.Op("flush (keeps the queue below capacity)")
				flushed("Flush")
				noteFlush()
			}
			if !paused {
				pending += 8*n + 4
			}
			var batch []*DataRecord
			for j := 0; j < n; j++ {
				ns, np := p.nsamp, p.npre
				if oddLengths && simrt.Draw(6) == 0 {
					if ns = 1 + simrt.Draw(p.nsamp+2); ns != p.nsamp {
						simrt.Hit("record-of-other-length")
					}
					if np >= ns {
						np = ns - 1
					}
				}
				r, w := genRecord(ns, np, p.nbases, *seqp)
				*seqp++
				batch = append(batch, r)
				if !paused {
					want = append(want, w)
					if ns == p.nsamp {
						want22 = append(want22, w)
					}
				}
			}
			if err := dp.PublishData(batch); err != nil {
				simrt.Fail("C05.publish", "files:publish-error", "PublishData returned %v", err)
			}
			published += n
			env.Op("publish %d records (paused=%v)", n, paused)
		case k < 6:
			dp.Flush()
			pending = 0
			env.Op("flush")
			flushed("Flush")
			noteFlush()
			if published == 0 {
				simrt.Hit("flush-before-first-record")
			}
		case k < 7:
			dp.SetPause(true)
			paused = true
			env.Op("pause")
			flushed("SetPause(true)")
			noteFlush()
		case k < 8:
			dp.SetPause(false)
			paused = false
			env.Op("unpause")
		default:
			d := []time.Duration{time.Millisecond, 100 * time.Millisecond, 3500 * time.Millisecond}[simrt.Draw(3)]
			time.Sleep(d)
			if d > 3*time.Second {
				simrt.Hit("ticker-flush-interval-passed")
			}
			env.Op("sleep %v", d)
		}
		if env.Faulted() && simrt.Chance(1, 6) {
			st := 5 + simrt.DrawFault(200) // stays far below the queue capacity
			simrt.Stall("writeLoop", st)
			env.Op("stall writer goroutines for %d steps", st)
		}
	}
	if paused {
		simrt.Hit("stop-while-paused")
	}
	simrt.Within(30*time.Second, "C05.stop-returns", "files:stop-hangs", func() {
		dp.RemoveLJH22()
		dp.RemoveOFF()
		dp.RemoveLJH3()
	})
	env.Op("stop (%d records expected in the files)", len(want))
	if len(want) == 0 {
		simrt.Hit("no-record-while-active")
	}
	if useLJH22 {
		checkLJH22File(f22, p, want22, "Scripted")
	}
	if useLJH3 {
		checkLJH3File(f3, p, want, false)
	}
	if useOFF {
		checkOFFFile(foff, p, want)
	}
	return len(want), map[string]interface{}{"formats": fmt.Sprintf("ljh22=%v ljh3=%v off=%v", useLJH22, useLJH3, useOFF), "nsamp": p.nsamp, "npre": p.npre, "nbases": p.nbases, "ops": nops}
}

func readOrAbsent(path string, want int, what string) ([]byte, bool) {
	b, err := os.ReadFile(path)
	if err != nil {
		if want == 0 && os.IsNotExist(err) {
			return nil, false // files are created lazily: nothing accepted, no file
		}
		simrt.Fail("C05.file-exists", "files:missing:"+what, "%s file %s cannot be read although %d records were accepted: %v", what, filepath.Base(path), want, err)
	}
	return b, true
}

func approxRel(a, b, tol float64) bool {
	if a == b {
		return true
	}
	return math.Abs(a-b) <= tol*math.Max(math.Abs(a), math.Abs(b))
}

func checkLJH22File(path string, p chanParams, want []wantRec, source string) {
	b, ok := readOrAbsent(path, len(want), "LJH2.2")
	if !ok {
		return
	}
	f, err := decodeLJH22(b)
	if err != nil {
		simrt.Fail("C05.ljh22-parse", "files:ljh22-unparsable", "LJH2.2 file does not parse: %v", err)
	}
	hint := func(key string, wantv int) {
		got, err := f.intKey(key)
		if err != nil || got != wantv {
			simrt.Fail("C05.ljh22-header", "files:ljh22-header:"+key, "LJH2.2 header %q is %q, the channel's true value is %d (%v)", key, f.header[key], wantv, err)
		}
	}
	hint("Presamples", p.npre)
	hint("Total Samples", p.nsamp)
	hint("Number of rows", p.rows)
	hint("Number of columns", p.cols)
	hint("Row number", p.row)
	hint("Column number", p.col)
	hint("Number of channels", p.nchans)
	hint("Channel", p.number)
	hint("ChannelIndex (in dastard)", p.index)
	hint("Subframe divisions", p.subdiv)
	hint("Subframe offset", p.suboff)
	hint("Number of samples per point", 1)
	// doc/LJH.md: "Row number (from 0-31 inclusive): 12" next to "Number of rows: 32": the stated range is
	// that of the channel's own array
	for _, rg := range []struct {
		key string
		n   int
	}{{"Row number", p.rows}, {"Column number", p.cols}} {
		if got, want := f.ranges[rg.key], fmt.Sprintf("0-%d inclusive", rg.n-1); got != want {
			simrt.Fail("C05.ljh22-header", "files:ljh22-header:"+rg.key+" range", "LJH2.2 header line %q states the range %q, the channel's array has the range %q", rg.key, got, want)
		}
	}
	if source != "" && f.header["Data source"] != source {
		simrt.Fail("C05.ljh22-header", "files:ljh22-header:Data source", "LJH2.2 header data source %q, true %q", f.header["Data source"], source)
	}
	if f.header["Channel name"] != p.name {
		simrt.Fail("C05.ljh22-header", "files:ljh22-header:Channel name", "LJH2.2 header channel name %q, true %q", f.header["Channel name"], p.name)
	}
	tb, err := strconv.ParseFloat(strings.TrimSpace(f.header["Timebase"]), 64)
	if err != nil || !approxRel(tb, p.timebase, 1e-6) {
		simrt.Fail("C05.ljh22-header", "files:ljh22-header:Timebase", "LJH2.2 header timebase %q, true %g", f.header["Timebase"], p.timebase)
	}
	if f.trail != 0 || len(b) != f.hdrLen+len(want)*(16+2*p.nsamp) {
		simrt.Fail("C05.ljh22-length", "files:ljh22-length", "LJH2.2 file has %d bytes = header %d + %d whole records + %d trailing bytes; %d records were accepted", len(b), f.hdrLen, len(f.recs), f.trail, len(want))
	}
	for i, w := range want {
		r := f.recs[i]
		if r.subframe != w.frame*int64(p.subdiv)+int64(p.suboff) || r.micros != w.time.UnixNano()/1000 {
			simrt.Fail("C05.ljh22-record", "files:ljh22-record-stamp", "LJH2.2 record %d: subframe count %d, µs %d; accepted record had frame %d (×%d+%d) and time %d µs", i, r.subframe, r.micros, w.frame, p.subdiv, p.suboff, w.time.UnixNano()/1000)
		}
		for k := range w.data {
			if r.data[k] != uint16(w.data[k]) {
				simrt.Fail("C05.ljh22-record", "files:ljh22-record-samples", "LJH2.2 record %d sample %d is %d, accepted record had %d", i, k, r.data[k], w.data[k])
			}
		}
	}
}

func checkLJH3File(path string, p chanParams, want []wantRec, checkRowCol bool) {
	b, ok := readOrAbsent(path, len(want), "LJH3")
	if !ok {
		return
	}
	f, err := decodeLJH3(b)
	if err != nil {
		simrt.Fail("C05.ljh3-parse", "files:ljh3-unparsable", "LJH3 file does not parse: %v", err)
	}
	h := f.hdr
	if h.Frameperiod != p.timebase || h.TDM.NumberOfRows != p.rows || h.TDM.NumberOfColumns != p.cols || h.TDM.SubframeDivisions != p.subdiv || h.TDM.SubframeOffset != p.suboff {
		simrt.Fail("C05.ljh3-header", "files:ljh3-header", "LJH3 header %+v does not state the true parameters (timebase %g rows %d cols %d subdiv %d suboff %d)", h, p.timebase, p.rows, p.cols, p.subdiv, p.suboff)
	}
	if checkRowCol && (h.TDM.Row != p.row || h.TDM.Column != p.col) {
		simrt.Fail("C05.ljh3-header", "files:ljh3-header-row-col", "LJH3 header says row %d column %d, the channel is at row %d column %d", h.TDM.Row, h.TDM.Column, p.row, p.col)
	}
	size := f.hdrLen
	for _, w := range want {
		size += 24 + 2*len(w.data)
	}
	if f.trail != 0 || len(f.recs) != len(want) || len(b) != size {
		simrt.Fail("C05.ljh3-length", "files:ljh3-length", "LJH3 file has %d bytes, %d whole records, %d trailing bytes; %d records were accepted (expected size %d)", len(b), len(f.recs), f.trail, len(want), size)
	}
	for i, w := range want {
		r := f.recs[i]
		if r.frame != w.frame || r.micros != w.time.UnixNano()/1000 || int(r.firstRising) != w.pre+1 {
			simrt.Fail("C05.ljh3-record", "files:ljh3-record-stamp", "LJH3 record %d: frame %d µs %d first-rising %d; accepted record had frame %d, %d µs, %d presamples", i, r.frame, r.micros, r.firstRising, w.frame, w.time.UnixNano()/1000, w.pre)
		}
		for k := range w.data {
			if r.data[k] != uint16(w.data[k]) {
				simrt.Fail("C05.ljh3-record", "files:ljh3-record-samples", "LJH3 record %d sample %d is %d, accepted record had %d", i, k, r.data[k], w.data[k])
			}
		}
	}
}

func checkOFFFile(path string, p chanParams, want []wantRec) {
	b, ok := readOrAbsent(path, len(want), "OFF")
	if !ok {
		return
	}
	f, err := decodeOFF(b)
	if err != nil {
		simrt.Fail("C05.off-parse", "files:off-unparsable", "OFF file does not parse: %v", err)
	}
	num := func(path ...string) float64 {
		var cur interface{} = f.hdr
		for _, k := range path {
			m, ok := cur.(map[string]interface{})
			if !ok {
				return math.NaN()
			}
			cur = m[k]
		}
		v, _ := cur.(float64)
		return v
	}
	chk := func(got float64, wantv float64, what string) {
		if got != wantv {
			simrt.Fail("C05.off-header", "files:off-header:"+what, "OFF header %s is %v, the channel's true value is %v", what, got, wantv)
		}
	}
	chk(num("ChannelIndex"), float64(p.index), "ChannelIndex")
	chk(num("ChannelNumberMatchingName"), float64(p.number), "ChannelNumberMatchingName")
	chk(num("MaxPresamples"), float64(p.npre), "MaxPresamples")
	chk(num("MaxSamples"), float64(p.nsamp), "MaxSamples")
	chk(num("FramePeriodSeconds"), p.timebase, "FramePeriodSeconds")
	chk(num("NumberOfBases"), float64(p.nbases), "NumberOfBases")
	chk(num("ReadoutInfo", "NumberOfRows"), float64(p.rows), "NumberOfRows")
	chk(num("ReadoutInfo", "NumberOfColumns"), float64(p.cols), "NumberOfColumns")
	chk(num("ReadoutInfo", "NumberOfChans"), float64(p.nchans), "NumberOfChans")
	chk(num("ReadoutInfo", "SubframeDivisions"), float64(p.subdiv), "SubframeDivisions")
	chk(num("ReadoutInfo", "ColumnNum"), float64(p.col), "ColumnNum")
	chk(num("ReadoutInfo", "RowNum"), float64(p.row), "RowNum")
	chk(num("ReadoutInfo", "SubframeOffset"), float64(p.suboff), "SubframeOffset")
	if s, _ := f.hdr["ChannelName"].(string); s != p.name {
		simrt.Fail("C05.off-header", "files:off-header:ChannelName", "OFF header channel name %q, true %q", s, p.name)
	}
	if p.source != "" {
		ci, _ := f.hdr["CreationInfo"].(map[string]interface{})
		if s, _ := ci["SourceName"].(string); s != p.source {
			simrt.Fail("C05.off-header", "files:off-header:SourceName", "OFF header source name %q, true %q", s, p.source)
		}
	}
	pr := p.proj.RawMatrix().Data
	bs := p.basis.RawMatrix().Data
	if len(f.projectors) != len(pr) || len(f.basis) != len(bs) {
		simrt.Fail("C05.off-matrices", "files:off-matrix-shape", "OFF matrices have %d and %d values, true %d and %d", len(f.projectors), len(f.basis), len(pr), len(bs))
	}
	for i := range pr {
		if math.Float64bits(pr[i]) != math.Float64bits(f.projectors[i]) {
			simrt.Fail("C05.off-matrices", "files:off-projectors", "OFF projector value %d is %v, true %v", i, f.projectors[i], pr[i])
		}
	}
	for i := range bs {
		if math.Float64bits(bs[i]) != math.Float64bits(f.basis[i]) {
			simrt.Fail("C05.off-matrices", "files:off-basis", "OFF basis value %d is %v, true %v", i, f.basis[i], bs[i])
		}
	}
	if f.trail != 0 || len(f.recs) != len(want) || len(b) != f.hdrLen+len(want)*(36+4*p.nbases) {
		simrt.Fail("C05.off-length", "files:off-length", "OFF file has %d bytes = header %d + %d whole records + %d trailing bytes; %d records were accepted", len(b), f.hdrLen, len(f.recs), f.trail, len(want))
	}
	for i, w := range want {
		r := f.recs[i]
		if int(r.samples) != len(w.data) || int(r.presamples) != w.pre || r.frame != w.frame || r.nanos != w.time.UnixNano() {
			simrt.Fail("C05.off-record", "files:off-record-stamp", "OFF record %d: samples %d pre %d frame %d ns %d; accepted record had %d, %d, %d, %d", i, r.samples, r.presamples, r.frame, r.nanos, len(w.data), w.pre, w.frame, w.time.UnixNano())
		}
		if r.ptMean != float32(w.ptMean) || r.ptDelta != float32(w.ptDelt) || r.resid != float32(w.resid) {
			simrt.Fail("C05.off-record", "files:off-record-analysis", "OFF record %d: pretrigger mean %v delta %v residual %v; accepted record had %v %v %v", i, r.ptMean, r.ptDelta, r.resid, w.ptMean, w.ptDelt, w.resid)
		}
		for k := range w.coefs {
			if r.coefs[k] != float32(w.coefs[k]) {
				simrt.Fail("C05.off-record", "files:off-record-coefs", "OFF record %d coefficient %d is %v, accepted record had %v", i, k, r.coefs[k], w.coefs[k])
			}
		}
	}
}

// ---------------------------------------------------------------------------------
// C07b

func c07bBody(env *simrt.Env) {
	p := genChanParams()
	if p.nsamp > 100 {
		p.nsamp, p.npre = 16, 5
		p = func() chanParams { q := p; pd := make([]float64, q.nbases*q.nsamp); q.proj = mat.NewDense(q.nbases, q.nsamp, pd); q.basis = mat.NewDense(q.nsamp, q.nbases, make([]float64, q.nbases*q.nsamp)); return q }()
	}
	kind := simrt.Draw(3)
	path := filepath.Join(env.Dir, "w."+[]string{"ljh", "ljh3", "off"}[kind])
	var w22 *ljh.Writer
	var w3 *ljh.Writer3
	var woff *off.Writer
	switch kind {
	case 0:
		w22 = &ljh.Writer{ChannelIndex: p.index, Presamples: p.npre, Samples: p.nsamp, FramesPerSample: 1, Timebase: p.timebase, NumberOfRows: p.rows, NumberOfColumns: p.cols,
			NumberOfChans: p.nchans, SubframeDivisions: p.subdiv, SubframeOffset: p.suboff, FileName: path, ChanName: p.name, ChannelNumberMatchingName: p.number, RowNum: p.row, ColumnNum: p.col, SourceName: "Scripted"}
		if err := w22.CreateFile(); err != nil {
			simrt.Fail("harness.create", "harness:create", "%v", err)
		}
		w22.WriteHeader(time.Now())
	case 1:
		w3 = &ljh.Writer3{ChannelIndex: p.index, Timebase: p.timebase, NumberOfRows: p.rows, NumberOfColumns: p.cols, SubframeDivisions: p.subdiv, SubframeOffset: p.suboff, FileName: path}
		if err := w3.CreateFile(); err != nil {
			simrt.Fail("harness.create", "harness:create", "%v", err)
		}
		w3.WriteHeader()
	default:
		woff = off.NewWriter(path, p.index, p.name, p.number, p.npre, p.nsamp, p.timebase, p.proj, p.basis, "model", "v", "hash", "Scripted",
			off.TimeDivisionMultiplexingInfo{NumberOfRows: p.rows, NumberOfColumns: p.cols, NumberOfChans: p.nchans, SubframeDivisions: p.subdiv, ColumnNum: p.col, RowNum: p.row, SubframeOffset: p.suboff}, off.PixelInfo{})
		if err := woff.CreateFile(); err != nil {
			simrt.Fail("harness.create", "harness:create", "%v", err)
		}
		woff.WriteHeader()
	}
	env.Op("writer kind=%s nsamp=%d nbases=%d", []string{"LJH2.2", "LJH3", "OFF"}[kind], p.nsamp, p.nbases)
	var want []wantRec
	seq := 0
	rejected := 0
	writeOne := func() {
		r, w := genRecord(p.nsamp, p.npre, p.nbases, seq)
		seq++
		var err error
		switch kind {
		case 0:
			err = w22.WriteRecord(int64(r.trigFrame), r.trigTime.UnixNano()/1000, rawTypeToUint16(r.data))
			// the LJH2.2 writer stores frame*div+offset: undo nothing, the decoder compares that
		case 1:
			err = w3.WriteRecord(int32(r.presamples+1), int64(r.trigFrame), r.trigTime.UnixNano()/1000, rawTypeToUint16(r.data))
		default:
			cf := make([]float32, len(r.modelCoefs))
			for i, v := range r.modelCoefs {
				cf[i] = float32(v)
			}
			err = woff.WriteRecord(int32(len(r.data)), int32(r.presamples), int64(r.trigFrame), r.trigTime.UnixNano(), float32(r.pretrigMean), float32(r.pretrigDelta), float32(r.residualStdDev), cf)
		}
		if err == nil {
			want = append(want, w)
		} else {
			rejected++
			simrt.Hit("record-rejected")
		}
	}
	flush := func() {
		before := len(want)
		simrt.Within(60*time.Second, "C07.flush-returns", "writers:flush-hangs", func() {
			switch kind {
			case 0:
				w22.Flush()
			case 1:
				w3.Flush()
			default:
				woff.Flush()
			}
		})
		// everything accepted before the flush call must be in the file now
		b, err := os.ReadFile(path)
		if err != nil {
			simrt.Fail("C07.flush-complete", "writers:file-unreadable", "%v", err)
		}
		n := countWholeRecords(kind, b, p)
		if n < before {
			simrt.Fail("C07.flush-complete", "writers:flush-incomplete", "after Flush returned the file holds %d whole records, %d were accepted before the call", n, before)
		}
	}
	nops := 2 + simrt.Draw(12)
	for i := 0; i < nops; i++ {
		switch k := simrt.Draw(10); {
		case k < 6:
			n := 1 + simrt.Draw(30)
			if env.Faulted() && simrt.Chance(1, 3) {
				n = 250 + simrt.Draw(200) // enough to fill a 1000-deep queue of 3..8 parts per record while stalled
			}
			for j := 0; j < n; j++ {
				writeOne()
			}
			env.Op("write %d records (accepted so far %d, rejected %d)", n, len(want), rejected)
		case k < 8:
			flush()
			env.Op("flush")
		default:
			d := []time.Duration{time.Millisecond, 3100 * time.Millisecond}[simrt.Draw(2)]
			time.Sleep(d)
			env.Op("sleep %v", d)
		}
		if env.Faulted() && simrt.Chance(1, 2) {
			st := 50 + simrt.DrawFault(6000)
			simrt.Stall("writeLoop", st)
			env.Op("stall the writer goroutine for %d steps", st)
		}
	}
	simrt.Within(60*time.Second, "C07.close-returns", "writers:close-hangs", func() {
		switch kind {
		case 0:
			w22.Close()
		case 1:
			w3.Close()
		default:
			woff.Close()
		}
	})
	env.Op("close: %d accepted, %d rejected", len(want), rejected)
	// the file is header + exactly the accepted records, whole and in order
	defer func() {
		if r := recover(); r != nil {
			panic(r)
		}
	}()
	c07bCheckFile(kind, path, p, want)
	env.Sample(map[string]interface{}{"format": []string{"LJH2.2", "LJH3", "OFF"}[kind], "accepted": len(want), "rejected": rejected, "ops": nops})
}

func countWholeRecords(kind int, b []byte, p chanParams) int {
	switch kind {
	case 0:
		if f, err := decodeLJH22(b); err == nil {
			return len(f.recs)
		}
	case 1:
		if f, err := decodeLJH3(b); err == nil {
			return len(f.recs)
		}
	default:
		if f, err := decodeOFF(b); err == nil {
			return len(f.recs)
		}
	}
	return -1
}

// c07bCheckFile re-labels C05's content checks as C07 violations: a torn or missing
// record under stalls is a violation of record atomicity / completeness at close.
func c07bCheckFile(kind int, path string, p chanParams, want []wantRec) {
	b, err := os.ReadFile(path)
	if err != nil {
		simrt.Fail("C07.close-complete", "writers:file-unreadable", "%v", err)
	}
	var n, trail, hdr, rsize int
	switch kind {
	case 0:
		f, err := decodeLJH22(b)
		if err != nil {
			simrt.Fail("C07.whole-records", "writers:unparsable", "LJH2.2 file does not parse after close: %v", err)
		}
		n, trail, hdr, rsize = len(f.recs), f.trail, f.hdrLen, 16+2*p.nsamp
		for i := 0; i < n && i < len(want); i++ {
			w := want[i]
			if f.recs[i].subframe != w.frame*int64(p.subdiv)+int64(p.suboff) || f.recs[i].micros != w.time.UnixNano()/1000 || !sameU16(f.recs[i].data, w.data) {
				simrt.Fail("C07.whole-records", "writers:record-content", "LJH2.2 record %d in the file is not the %d-th accepted record (torn, shifted or reordered): file has subframe %d µs %d, accepted frame %d µs %d", i, i, f.recs[i].subframe, f.recs[i].micros, w.frame, w.time.UnixNano()/1000)
			}
		}
	case 1:
		f, err := decodeLJH3(b)
		if err != nil {
			simrt.Fail("C07.whole-records", "writers:unparsable", "LJH3 file does not parse after close: %v", err)
		}
		n, trail, hdr, rsize = len(f.recs), f.trail, f.hdrLen, 24+2*p.nsamp
		for i := 0; i < n && i < len(want); i++ {
			w := want[i]
			if f.recs[i].frame != w.frame || f.recs[i].micros != w.time.UnixNano()/1000 || !sameU16(f.recs[i].data, w.data) {
				simrt.Fail("C07.whole-records", "writers:record-content", "LJH3 record %d in the file is not the %d-th accepted record (torn, shifted or reordered)", i, i)
			}
		}
	default:
		f, err := decodeOFF(b)
		if err != nil {
			simrt.Fail("C07.whole-records", "writers:unparsable", "OFF file does not parse after close: %v", err)
		}
		n, trail, hdr, rsize = len(f.recs), f.trail, f.hdrLen, 36+4*p.nbases
		for i := 0; i < n && i < len(want); i++ {
			w := want[i]
			r := f.recs[i]
			ok := r.frame == w.frame && r.nanos == w.time.UnixNano() && int(r.samples) == len(w.data) && r.ptMean == float32(w.ptMean)
			for k := range w.coefs {
				ok = ok && r.coefs[k] == float32(w.coefs[k])
			}
			if !ok {
				simrt.Fail("C07.whole-records", "writers:record-content", "OFF record %d in the file is not the %d-th accepted record (torn, shifted or reordered)", i, i)
			}
		}
	}
	if trail != 0 || len(b) != hdr+len(want)*rsize || n != len(want) {
		simrt.Fail("C07.whole-records", "writers:partial-or-missing-record", "after close the file has %d bytes = header %d + %d whole records + %d trailing bytes, but %d records were accepted (record size %d)", len(b), hdr, n, trail, len(want), rsize)
	}
}

func sameU16(a []uint16, b []RawType) bool {
	if len(a) != len(b) {
		return false
	}
	for i := range a {
		if a[i] != uint16(b[i]) {
			return false
		}
	}
	return true
}
