//go:build verif

//verif:noinstrument

package dastard

// Independent decoders for the three output formats, written from doc/LJH.md (LJH 2.2),
// the LJH3 layout (JSON header, then int32 length, int32 first-rising-sample, int64
// frame, int64 µs, samples) and the OFF layout (JSON header + newline, projectors and
// basis as float64, then 36-byte + 4·nbases records). They never call the code under test.

import (
	"bytes"
	"encoding/binary"
	"encoding/json"
	"fmt"
	"math"
	"strconv"
	"strings"
)

type ljh22File struct {
	header map[string]string
	// ranges: for keys written as "Row number (from 0-31 inclusive): 12" the text between "(from " and ")"
	ranges map[string]string
	hdrLen int
	recs   []ljh22Rec
	trail  int // bytes after the last whole record
}

type ljh22Rec struct {
	subframe int64
	micros   int64
	data     []uint16
}

func decodeLJH22(b []byte) (*ljh22File, error) {
	marker := []byte("#End of Header")
	i := bytes.Index(b, marker)
	if i < 0 {
		return nil, fmt.Errorf("no '#End of Header' line")
	}
	j := i + len(marker)
	// accept LF, CR or CRLF
	if j < len(b) && b[j] == '\r' {
		j++
	}
	if j < len(b) && b[j] == '\n' {
		j++
	}
	f := &ljh22File{header: map[string]string{}, ranges: map[string]string{}, hdrLen: j}
	if !bytes.HasPrefix(b, []byte("#LJH Memorial File Format")) {
		return nil, fmt.Errorf("file does not start with '#LJH Memorial File Format'")
	}
	for _, line := range strings.Split(string(b[:i]), "\n") {
		line = strings.TrimRight(line, "\r")
		if strings.HasPrefix(line, "#") || line == "" {
			continue
		}
		k := strings.Index(line, ": ")
		if k < 0 {
			continue
		}
		key := line[:k]
		// keys like "Row number (from 0-31 inclusive)" are normalised
		if p := strings.Index(key, " (from"); p >= 0 {
			f.ranges[key[:p]] = strings.TrimSuffix(strings.TrimPrefix(key[p:], " (from "), ")")
			key = key[:p]
		}
		if _, dup := f.header[key]; dup {
			return nil, fmt.Errorf("header key %q appears twice", key)
		}
		f.header[key] = line[k+2:]
	}
	L, err := strconv.Atoi(f.header["Total Samples"])
	if err != nil || L < 0 {
		return nil, fmt.Errorf("bad Total Samples %q", f.header["Total Samples"])
	}
	if ws := f.header["Digitized Word Size In Bytes"]; ws != "2" {
		if ws2 := f.header["Digitized Word Size in Bytes"]; ws2 != "2" {
			return nil, fmt.Errorf("word size is %q/%q, want 2", ws, ws2)
		}
	}
	body := b[j:]
	rl := 16 + 2*L
	for len(body) >= rl {
		r := ljh22Rec{subframe: int64(binary.LittleEndian.Uint64(body[0:8])), micros: int64(binary.LittleEndian.Uint64(body[8:16]))}
		r.data = make([]uint16, L)
		for k := 0; k < L; k++ {
			r.data[k] = binary.LittleEndian.Uint16(body[16+2*k:])
		}
		f.recs = append(f.recs, r)
		body = body[rl:]
	}
	f.trail = len(body)
	return f, nil
}

func (f *ljh22File) intKey(k string) (int, error) {
	v, ok := f.header[k]
	if !ok {
		return 0, fmt.Errorf("header key %q missing", k)
	}
	return strconv.Atoi(strings.TrimSpace(v))
}

type ljh3Header struct {
	Frameperiod   float64 `json:"frameperiod"`
	Format        string  `json:"File Format"`
	FormatVersion string  `json:"File Format Version"`
	TDM           struct {
		NumberOfRows      int
		NumberOfColumns   int
		SubframeDivisions int
		Row               int
		Column            int
		SubframeOffset    int
	} `json:"TDM"`
}

type ljh3Rec struct {
	firstRising int32
	frame       int64
	micros      int64
	data        []uint16
}

type ljh3File struct {
	hdr    ljh3Header
	hdrLen int
	recs   []ljh3Rec
	trail  int
}

// jsonHeaderEnd returns the offset just after the top-level JSON object and the newline
// that follows it.
func jsonHeaderEnd(b []byte) (int, error) {
	dec := json.NewDecoder(bytes.NewReader(b))
	var raw json.RawMessage
	if err := dec.Decode(&raw); err != nil {
		return 0, fmt.Errorf("JSON header does not parse: %v", err)
	}
	end := int(dec.InputOffset())
	if end >= len(b) || b[end] != '\n' {
		return 0, fmt.Errorf("JSON header is not followed by a newline")
	}
	return end + 1, nil
}

func decodeLJH3(b []byte) (*ljh3File, error) {
	end, err := jsonHeaderEnd(b)
	if err != nil {
		return nil, err
	}
	f := &ljh3File{hdrLen: end}
	if err := json.Unmarshal(b[:end], &f.hdr); err != nil {
		return nil, err
	}
	body := b[end:]
	for len(body) >= 24 {
		n := int(int32(binary.LittleEndian.Uint32(body[0:4])))
		if n < 0 || len(body) < 24+2*n {
			break
		}
		r := ljh3Rec{firstRising: int32(binary.LittleEndian.Uint32(body[4:8])), frame: int64(binary.LittleEndian.Uint64(body[8:16])), micros: int64(binary.LittleEndian.Uint64(body[16:24]))}
		r.data = make([]uint16, n)
		for k := 0; k < n; k++ {
			r.data[k] = binary.LittleEndian.Uint16(body[24+2*k:])
		}
		f.recs = append(f.recs, r)
		body = body[24+2*n:]
	}
	f.trail = len(body)
	return f, nil
}

type offRec struct {
	samples, presamples int32
	frame, nanos        int64
	ptMean, ptDelta     float32
	resid               float32
	coefs               []float32
}

type offFile struct {
	hdr        map[string]interface{}
	hdrLen     int
	nbases     int
	projectors []float64
	basis      []float64
	recs       []offRec
	trail      int
}

func decodeOFF(b []byte) (*offFile, error) {
	end, err := jsonHeaderEnd(b)
	if err != nil {
		return nil, err
	}
	f := &offFile{hdr: map[string]interface{}{}}
	if err := json.Unmarshal(b[:end], &f.hdr); err != nil {
		return nil, err
	}
	nb, ok := f.hdr["NumberOfBases"].(float64)
	if !ok {
		return nil, fmt.Errorf("NumberOfBases missing")
	}
	f.nbases = int(nb)
	mi, ok := f.hdr["ModelInfo"].(map[string]interface{})
	if !ok {
		return nil, fmt.Errorf("ModelInfo missing")
	}
	dims := func(name string) (int, int, error) {
		m, ok := mi[name].(map[string]interface{})
		if !ok {
			return 0, 0, fmt.Errorf("ModelInfo.%s missing", name)
		}
		r, ok1 := m["Rows"].(float64)
		c, ok2 := m["Cols"].(float64)
		if !ok1 || !ok2 {
			return 0, 0, fmt.Errorf("ModelInfo.%s has no Rows/Cols", name)
		}
		return int(r), int(c), nil
	}
	pr, pc, err := dims("Projectors")
	if err != nil {
		return nil, err
	}
	br, bc, err := dims("Basis")
	if err != nil {
		return nil, err
	}
	body := b[end:]
	need := 8 * (pr*pc + br*bc)
	if len(body) < need {
		return nil, fmt.Errorf("file too short for the projector and basis matrices (%d < %d)", len(body), need)
	}
	rd := func(n int) []float64 {
		out := make([]float64, n)
		for i := range out {
			out[i] = math.Float64frombits(binary.LittleEndian.Uint64(body[8*i:]))
		}
		body = body[8*n:]
		return out
	}
	f.projectors = rd(pr * pc)
	f.basis = rd(br * bc)
	f.hdrLen = end + need
	// record layout (off.go's layout comment): recordSamples int32, recordPreSamples int32,
	// framecount int64, timestamp int64 (ns), pretriggerMean float32, pretriggerDelta float32,
	// residualStdDev float32, then NumberOfBases float32 coefficients: 36 + 4*nbases bytes.
	rl := 36 + 4*f.nbases
	for len(body) >= rl {
		r := offRec{samples: int32(binary.LittleEndian.Uint32(body[0:4])), presamples: int32(binary.LittleEndian.Uint32(body[4:8])),
			frame: int64(binary.LittleEndian.Uint64(body[8:16])), nanos: int64(binary.LittleEndian.Uint64(body[16:24])),
			ptMean: math.Float32frombits(binary.LittleEndian.Uint32(body[24:28])), ptDelta: math.Float32frombits(binary.LittleEndian.Uint32(body[28:32])),
			resid: math.Float32frombits(binary.LittleEndian.Uint32(body[32:36]))}
		r.coefs = make([]float32, f.nbases)
		for k := range r.coefs {
			r.coefs[k] = math.Float32frombits(binary.LittleEndian.Uint32(body[36+4*k:]))
		}
		f.recs = append(f.recs, r)
		body = body[rl:]
	}
	f.trail = len(body)
	return f, nil
}
