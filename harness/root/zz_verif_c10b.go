//go:build verif

package dastard

// C10b: source life cycle of the Abaco and Lancero sources on simulated devices.
// Complements C10 (Triangle / SimPulse / Erroring / scripted): Start racing Stop from several
// client tasks, data silence and read time-outs, failed Start after the source had opened its
// hardware, restart after every kind of ending. See notes/C10b.md.

import (
	"encoding/json"
	"fmt"
	"os"
	"path/filepath"
	"strings"
	"time"

	"verif/simrt"
)

func init() {
	simrt.Register(&simrt.Check{Name: "C10b", Property: "C10", Body: c10bBody, Classify: classify, MaxSteps: 90000, Judge: c10bJudge,
		Real: []string{"SourceControl.ConfigureAbacoSource / ConfigureLanceroSource / Start / Stop / handlePossibleStoppedSource (RPC methods, called by 1-4 client tasks)",
			"Start / CoreLoop / AnySource.Stop / RunDone wait group / state switch",
			"AbacoSource: Configure, Sample (producer start + sampling goroutines), PrepareChannels, StartRun, readerMainLoop with its 5 s time-out, getNextBlock + closeDevices, distributeData",
			"LanceroSource: Configure, Sample / sampleCard, StartRun, reader goroutine, getNextBlock goroutine, stop()", "packets package (every simulated packet is encoded and decoded)", "lancero.FindFrameBits"},
		Stub: []string{"UDP receivers (c10bProducer on c10bPort: a port stays bound until the receiver that bound it is stopped)", "Lancero card (c10bCard, real-card start/stop semantics)",
			"status, record and heartbeat publishers (sinks)", "net/rpc transport (methods called directly from several client tasks; the server runs one goroutine per connection)"}})
}

// documented fail-stop watchdogs of the sources (DESIGN §2.5) and the deliberate panics next to them
const (
	c10bPanicAbacoNoData   = "timeout, no data from Abaco"
	c10bPanicLanceroNoData = "timeout, no data from lancero"
	c10bPanicLanceroRead   = "too long since last succesful read"
	c10bPanicBuffersFull   = "internal buffersChan full"
	c10bPanicReadFailed    = "PacketProducer.ReadAllPackets failed"
	c10bPanicStopStarting  = "Called Stop on a Starting source"
)

// c10bJudge classifies crashes: a fail-stop watchdog that an injected silence of more than the
// reader's time-out explains, or the reader's deliberate panic on an injected read error, is
// counted as a probe and is not a violation; everything else is.
func c10bJudge(res *simrt.Result) *simrt.Violation {
	if res.Crash != nil {
		v := res.Crash.Value
		long := res.Faults["silence-long"] > 0
		switch {
		case (strings.Contains(v, c10bPanicAbacoNoData) || strings.Contains(v, c10bPanicLanceroNoData) || strings.Contains(v, c10bPanicLanceroRead)) && long:
			res.Probes["fail-stop:no-data-watchdog-after-injected-silence"]++
			return nil
		case strings.Contains(v, c10bPanicReadFailed) && res.Faults["producer-read-error"] > 0:
			res.Probes["fail-stop:reader-panics-on-injected-read-error"]++
			return nil
		case strings.Contains(v, "simrt: too many tasks"):
			return nil // a limit of the runtime, not a verdict
		case strings.Contains(v, c10bPanicStopStarting):
			return &simrt.Violation{Rule: "C10.stop-returns", Sig: "lifecycle:stop-on-starting-source-panics", Detail: v + "\n" + c10bTrim(res.Crash.Stack)}
		case strings.Contains(v, c10bPanicAbacoNoData) || strings.Contains(v, c10bPanicLanceroNoData) || strings.Contains(v, c10bPanicLanceroRead) || strings.Contains(v, c10bPanicBuffersFull):
			return &simrt.Violation{Rule: "C10.no-wedge", Sig: "lifecycle:fail-stop-watchdog-without-injected-cause", Detail: v + "\n" + c10bTrim(res.Crash.Stack)}
		}
		frame := res.Crash.Frame
		if frame == "" {
			frame = v
			if i := strings.IndexByte(frame, '\n'); i >= 0 {
				frame = frame[:i]
			}
			if len(frame) > 120 {
				frame = frame[:120]
			}
		}
		return &simrt.Violation{Rule: "no-panic", Sig: "panic:" + frame, Detail: v + "\n" + c10bTrim(res.Crash.Stack)}
	}
	if res.Deadlock {
		return &simrt.Violation{Rule: "C10.no-deadlock", Sig: "deadlock", Detail: "every task blocked for ever"}
	}
	return nil
}

func c10bTrim(stack string) string {
	st := strings.Split(stack, "\n")
	if len(st) > 40 {
		st = st[:40]
	}
	return strings.Join(st, "\n")
}

const (
	c10bAbaco   = 0
	c10bLancero = 1
)

type c10bWorld struct {
	env   *simrt.Env
	sc    *SourceControl
	sk    *sinks
	hw    *c10bHW
	kind  int
	name  string // name for SourceControl.Start
	ds    DataSource
	any   *AnySource
	delta time.Duration

	// Abaco
	ports  []*c10bPort
	gen    int
	unwrap AbacoUnwrapOptions
	// Lancero
	cards    []*c10bCard // the cards of the host; one of them is active in a run
	card     *c10bCard   // the card of the last successful Configure
	nextCard int         // the card the next Configure activates (-1: drawn)
	ls       *LanceroSource

	blockEvery  time.Duration // time between blocks while the hardware is sending
	inProcess   int           // core loop is inside ProcessSegments (region monitor)
	procWaiters []chan struct{}

	active     bool // the harness knows the source to be running
	staleFlag  bool // the source ended by itself and no Stop has been issued since
	starts     int
	failed     int
	sawSilence bool

	stopFaultsSeen int // hardware stop faults that had fired when the last Start succeeded
}

// ---------------------------------------------------------------------------------
// world

func c10bNewWorld(env *simrt.Env) *c10bWorld {
	w := &c10bWorld{env: env}
	t1 := time.Now()
	simrt.Gosched()
	w.delta = time.Since(t1)
	if w.delta <= 0 {
		w.delta = time.Microsecond
	}
	minBlock := 400 * w.delta // a block must not take longer to process than it takes to arrive
	w.kind = simrt.Draw(2)
	if minBlock > 100*time.Millisecond {
		w.kind = c10bAbaco // the Lancero reader cannot be slowed down below a block per 100 ms
	}
	resetViper(env.Dir)
	w.sk = startSinks(nil, func() int { return 0 })
	w.sc = newSourceControl(4, 16)
	w.sk.drainHeartbeats(w.sc.heartbeats)
	w.hw = &c10bHW{env: env, epoch: time.Now()}
	simrt.SetMonitor(func(ev simrt.RegionEvent) {
		if ev.Region == "process" {
			if ev.Enter {
				w.inProcess++
				for _, ch := range w.procWaiters {
					close(ch)
				}
				w.procWaiters = nil
			} else {
				w.inProcess--
			}
		}
	})
	if w.kind == c10bAbaco {
		w.setupAbaco(minBlock)
	} else {
		w.setupLancero(minBlock)
	}
	return w
}

func (w *c10bWorld) setupAbaco(minBlock time.Duration) {
	w.name, w.ds, w.any = "ABACOSOURCE", w.sc.abaco, &w.sc.abaco.AnySource
	period := []time.Duration{20, 10, 25, 40}[simrt.Draw(4)] * time.Millisecond
	slow := false
	if period < minBlock {
		slow = true
		period = (minBlock + 9*time.Millisecond) / (10 * time.Millisecond) * (10 * time.Millisecond)
		if period > 600*time.Millisecond {
			period = 600 * time.Millisecond // two packets per group must arrive within the 2 s of sampling
		}
	}
	fpp := []int{4, 2, 8}[simrt.Draw(3)]
	nports := 1 + simrt.Draw(2)
	first := simrt.Draw(3)
	for i := 0; i < nports; i++ {
		pt := &c10bPort{hw: w.hw, id: i, fpp: fpp, period: period, tsStep: uint64(period / (10 * time.Nanosecond))}
		ng := 1
		if !slow && simrt.Draw(3) == 2 {
			ng = 2
		}
		for j := 0; j < ng; j++ {
			g := &c10bGroup{firstChan: first, nchan: 1 + simrt.Draw(2), wide: simrt.Draw(3) == 2, seq0: 1 + uint32(simrt.Draw(1<<20))}
			if slow {
				g.nchan = 1
			}
			first += g.nchan + simrt.Draw(2)
			pt.groups = append(pt.groups, g)
		}
		w.ports = append(w.ports, pt)
	}
	if simrt.Draw(2) == 1 {
		w.unwrap = AbacoUnwrapOptions{RescaleRaw: true, Unwrap: true, ResetAfter: 20000, PulseSign: 1}
	}
	w.blockEvery = period
	if w.blockEvery < 50*time.Millisecond {
		w.blockEvery = 50 * time.Millisecond
	}
	desc := fmt.Sprintf("Abaco world: %d UDP ports, %d frames/packet, packet period %v, cpu %v/step", nports, fpp, period, w.delta)
	for _, pt := range w.ports {
		for _, g := range pt.groups {
			desc += fmt.Sprintf("; port %d: channels %d..%d wide=%v", pt.id, g.firstChan, g.firstChan+g.nchan-1, g.wide)
		}
	}
	w.env.Op("%s", desc)
}

func (w *c10bWorld) setupLancero(minBlock time.Duration) {
	rows := 2 + simrt.Draw(2)
	cols := 1 + simrt.Draw(2)
	framePeriod := []time.Duration{4, 2, 5, 10}[simrt.Draw(4)] * time.Millisecond
	w.blockEvery = 50 * time.Millisecond
	if minBlock > 50*time.Millisecond {
		framePeriod = 30 * time.Millisecond // a read needs three frames: a block every other tick
		rows, cols = 2, 1
		w.blockEvery = 100 * time.Millisecond
	}
	lsync := int(framePeriod / (time.Duration(rows) * 8 * time.Nanosecond))
	cg := map[string]int{"SETT": 10, "seqln": rows, "lsync": lsync, "testpattern": 0, "propagationdelay": 0, "NSAMP": 1 + simrt.Draw(4), "carddelay": 0, "XPT": 0}
	b, _ := json.Marshal(cg)
	cgPath := filepath.Join(w.env.Dir, "cringeGlobals.json")
	if err := os.WriteFile(cgPath, b, 0644); err != nil {
		simrt.Fail("harness.setup", "harness:cringe-globals", "%v", err)
	}
	cringeGlobalsPath = cgPath
	// One card, or two of which one is active in a run (the reader refuses to run two at a time:
	// "Handling multiple devices not yet implemented"). The second card may have another number
	// of columns; the number of rows comes from cringeGlobals.json and is common.
	ncards := 1
	if simrt.Draw(3) == 2 {
		ncards = 2
	}
	// what NewLanceroSource does with the cards it finds
	ls := new(LanceroSource)
	ls.name = "Lancero"
	ls.nsamp = 1
	ls.channelsPerPixel = 2
	ls.devices = map[int]*LanceroDevice{}
	desc := ""
	for i := 0; i < ncards; i++ {
		c := cols
		if i > 0 && minBlock <= 50*time.Millisecond {
			c = 1 + simrt.Draw(2)
		}
		lc := &c10bCard{hw: w.hw, id: i, rows: rows, cols: c, framePeriod: framePeriod, isOpen: true}
		lc.phase = func() string { return c10bStateName(w.any.sourceState) }
		w.cards = append(w.cards, lc)
		ls.devices[i] = &LanceroDevice{devnum: i, card: lc}
		ls.ncards++
		desc += fmt.Sprintf("; card %d: %d columns", i, c)
	}
	w.card, w.nextCard = w.cards[0], -1
	ls.heartbeats = w.sc.heartbeats
	w.sc.lancero = ls
	w.ls = ls
	w.name, w.ds, w.any = "LANCEROSOURCE", ls, &ls.AnySource
	w.env.Op("Lancero world: %d cards, %d rows, frame period %v, cpu %v/step%s", ncards, rows, framePeriod, w.delta, desc)
}

// configure is what a client does before Start: the source's Configure request. For the Abaco
// source the harness then stands in for the part of Configure that makes one receiver object per
// host:port entry (the receivers are not bound before Start); like Configure itself it does so
// under the state lock and only while the source is Inactive.
func (w *c10bWorld) configure() error {
	var ok bool
	if w.kind == c10bLancero {
		c := w.nextCard
		if c < 0 {
			c = 0
			if len(w.cards) > 1 {
				c = simrt.Draw(len(w.cards))
			}
		}
		err := w.sc.ConfigureLanceroSource(&LanceroSourceConfig{FiberMask: 0xffff, CardDelay: []int{1}, ActiveCards: []int{c}, FirstRow: 1}, &ok)
		if err == nil {
			w.card = w.cards[c]
		}
		return err
	}
	as := w.sc.abaco
	if err := w.sc.ConfigureAbacoSource(&AbacoSourceConfig{AbacoUnwrapOptions: w.unwrap}, &ok); err != nil {
		return err
	}
	as.sourceStateLock.Lock()
	defer as.sourceStateLock.Unlock()
	if as.sourceState != Inactive {
		return fmt.Errorf("cannot Configure an AbacoSource if it's not Inactive")
	}
	w.gen++
	as.producers = as.producers[:0]
	for _, pt := range w.ports {
		as.producers = append(as.producers, &c10bProducer{port: pt, gen: w.gen})
	}
	return nil
}

func (w *c10bWorld) devicesBusy() []string {
	var out []string
	for _, pt := range w.ports {
		if pt.boundBy != nil {
			out = append(out, fmt.Sprintf("UDP port %d still bound by receiver #%d", pt.id, pt.boundBy.gen))
		}
	}
	for _, lc := range w.cards {
		// a component that a faulted stop request did not reach is the card's business until the
		// next request; everything else the source has started it must have stopped
		adap, coll := lc.adap && !lc.adapStuck, lc.coll && !lc.collStuck
		if adap || coll {
			out = append(out, fmt.Sprintf("Lancero card %d: adapter running=%v collector running=%v", lc.id, adap, coll))
		}
	}
	return out
}

// stopFaults counts the hardware stop faults that have fired so far.
func (w *c10bWorld) stopFaults() int {
	n := 0
	for _, lc := range w.cards {
		n += lc.nStopFaults
	}
	for _, pt := range w.ports {
		n += pt.nStopErrs
	}
	return n
}

// armStopFault (faulted configuration, one time in den): a device reports an error on the
// shutdown path. Lancero: the n-th StopCollector and/or StopAdapter request to the configured
// card from now on (n = 1 is the source's stop() if it runs; 2 and 3 reach the stop requests of
// the next sampling and of the next run), with the component stopped nevertheless or not.
// Abaco: the next stop() of the receiver of one port (the port is released). See
// zz_verif_c10bdev.go. The fault is over after that one request.
func (w *c10bWorld) armStopFault(den int) {
	if !w.env.Faulted() || simrt.DrawFault(den) != 0 {
		return
	}
	if w.kind == c10bAbaco {
		pt := w.ports[simrt.DrawFault(len(w.ports))]
		pt.stopErr = true
		w.env.Op("fault armed: the next stop of the receiver on port %d reports an error", pt.id)
		return
	}
	lc := w.card
	if lc.stopFaultArmed() {
		return
	}
	nth := []int{1, 1, 1, 1, 2, 3}[simrt.DrawFault(6)]
	which := simrt.DrawFault(3)
	obeyed := simrt.DrawFault(3) != 0
	collIn, adapIn := 0, 0
	if which != 1 {
		collIn = nth
	}
	if which != 0 {
		adapIn = nth
	}
	lc.armStopFault(collIn, adapIn, obeyed)
	w.env.Op("fault armed on card %d: StopCollector #%d / StopAdapter #%d from now reports an error (0: none); the component stops nevertheless: %v", lc.id, collIn, adapIn, obeyed)
}

// ---------------------------------------------------------------------------------
// client calls

func (w *c10bWorld) rpcStart() error {
	name := w.name
	var ok bool
	var err error
	simrt.Within(20*time.Second, "C10.start-returns", "lifecycle:start-hangs", func() { err = w.sc.Start(&name, &ok) })
	return err
}

func (w *c10bWorld) rpcStop() error {
	var dummy string
	var ok bool
	var err error
	simrt.Within(20*time.Second, "C10.stop-returns", "lifecycle:stop-hangs", func() { err = w.sc.Stop(&dummy, &ok) })
	return err
}

// slowClient (faulted configuration): the calling client task is not scheduled for a while from
// its next scheduling point on — inside the RPC method it is about to call (at most 1 s).
func (w *c10bWorld) slowClient(who string) {
	steps := 50 + simrt.DrawFault(2500)
	if max := int(time.Second / w.delta); steps > max {
		steps = max
	}
	w.env.Op("fault: the client task calling %s is held up for %d scheduler steps (about %v) at its next scheduling point", who, steps, time.Duration(steps)*w.delta)
	simrt.Stall("harness:c10b-slow-client", steps)
}

// spawn starts a client task; the slow one gets a class of its own for the stall fault.
func c10bSpawn(slow bool, fn func()) {
	if slow {
		simrt.GoHarness("c10b-slow-client", fn)
		return
	}
	go fn()
}

// pollUntil looks at cond every so often, for at most d. (Harness code runs one task at a time,
// so it may read the system's fields directly.)
func (w *c10bWorld) pollUntil(d, every time.Duration, cond func() bool) bool {
	deadline := time.Now().Add(d)
	for !cond() {
		if time.Now().After(deadline) {
			return false
		}
		time.Sleep(every)
	}
	return true
}

// waitBlockStart returns when the core loop enters ProcessSegments (region monitor), or after d.
func (w *c10bWorld) waitBlockStart(d time.Duration) bool {
	ch := make(chan struct{})
	w.procWaiters = append(w.procWaiters, ch)
	got := false
	select {
	case <-ch:
		got = true
	case <-time.After(d):
	}
	return got
}

// pause lets a client task start late: a coarse delay on the clock, then a few scheduler steps.
func c10bPause(coarse time.Duration, steps int) {
	if coarse > 0 {
		time.Sleep(coarse)
	}
	for i := 0; i < steps; i++ {
		simrt.Gosched()
	}
}

// expectBlocks: the processed-block counter moves within 2 s (plus one block period).
func (w *c10bWorld) expectBlocks(what string) {
	before := w.any.readCounter
	deadline := time.Now().Add(2*time.Second + w.blockEvery)
	for w.any.readCounter == before {
		if time.Now().After(deadline) {
			simrt.Fail("C10.delivers-blocks", "lifecycle:no-blocks:"+what, "%s: no block was processed within 2 s (%s, state %v, tasks %v)", what, w.name, w.ds.GetState(), simrt.AliveTaskInfo())
		}
		time.Sleep(5 * time.Millisecond)
	}
}

// startOK: configure + Start on an inactive source with the hardware sending must succeed.
func (w *c10bWorld) startOK(what string) {
	if w.staleFlag {
		// the source ended by itself; a client presses Stop before starting again
		w.rpcStop()
		w.staleFlag = false
	}
	if err := w.configure(); err != nil {
		simrt.Fail("C10.restartable", "lifecycle:configure-failed:"+what, "%s: configuring the inactive %s source failed: %v", what, w.name, err)
	}
	if w.kind == c10bLancero {
		w.armStopFault(10) // reaches the stop requests that end the sampling of the card
	}
	err := w.rpcStart()
	w.env.Op("%s: configure + Start -> %v", what, err)
	if err != nil {
		simrt.Fail("C10.restartable", "lifecycle:start-failed:"+what, "%s: Start #%d on the inactive %s source failed: %v (devices: %v)", what, w.starts+1, w.name, err, w.devicesBusy())
	}
	w.starts++
	if w.starts > 1 {
		simrt.Hit("restart")
	}
	w.active = true
	if st := w.ds.GetState(); st != Active {
		simrt.Fail("C10.active-after-start", "lifecycle:not-active-after-start", "%s: after a successful Start the source is in state %v", what, st)
	}
	w.expectBlocks(what)
	if n := w.stopFaults(); n > w.stopFaultsSeen {
		// a device had reported an error on the shutdown path since the last successful Start
		w.stopFaultsSeen = n
		simrt.Hit("restart-after-hardware-stop-error")
	}
}

func (w *c10bWorld) checkStopped(what string) {
	time.Sleep(200 * time.Millisecond) // goroutines that were told to stop get their turn
	if st := w.ds.GetState(); st != Inactive {
		simrt.Fail("C10.inactive-after-stop", "lifecycle:not-inactive-after-stop", "%s: all Stop calls returned but the source is in state %v", what, st)
	}
	if alive := sourceTasksAlive(); len(alive) > 0 {
		simrt.Fail("C10.workers-exit", "lifecycle:workers-alive:"+c10bSiteClass(alive[0]), "%s: worker goroutines still alive after all Stop calls returned: %v", what, simrt.AliveTaskInfo())
	}
	if busy := w.devicesBusy(); len(busy) > 0 {
		simrt.Fail("C10.workers-exit", "lifecycle:devices-not-released", "%s: all Stop calls returned but %v", what, busy)
	}
	if ws := w.ds.ComputeWritingState(); ws.Active {
		simrt.Fail("C10.writing-stopped", "lifecycle:writing-still-active", "%s: the source is stopped but writing is still reported active", what)
	}
	w.active = false
	w.staleFlag = false
}

func c10bStateName(st SourceState) string {
	switch st {
	case Inactive:
		return "inactive"
	case Starting:
		return "starting"
	case Active:
		return "active"
	case Stopping:
		return "stopping"
	}
	return fmt.Sprintf("state-%d", int(st))
}

// c10bSiteClass drops the line number from a spawn site (signatures stay stable when lines move).
func c10bSiteClass(site string) string {
	if i := strings.IndexByte(site, ':'); i >= 0 {
		return site[:i]
	}
	return site
}

// stopK: k concurrent Stop callers released at drawn moments; all must return.
func (w *c10bWorld) stopK(what string, allowDirect bool) {
	k := 1 + simrt.Draw(3)
	done := make(chan int, k)
	wasProcessing := false
	slow := -1
	if w.env.Faulted() && simrt.DrawFault(4) == 0 {
		slow = simrt.DrawFault(k)
	}
	faultsBefore := w.stopFaults()
	if w.active {
		w.armStopFault(3)
	}
	for i := 0; i < k; i++ {
		i := i
		direct := allowDirect && simrt.Draw(4) == 3
		coarse := time.Duration(simrt.Draw(4)) * 7 * time.Millisecond
		steps := simrt.Draw(25)
		onBlock := simrt.Draw(3) == 2
		c10bSpawn(i == slow, func() {
			c10bPause(coarse, steps)
			if onBlock && !w.hw.silent {
				w.waitBlockStart(2 * w.blockEvery) // arrive while the core loop is busy with a block
			}
			if w.inProcess > 0 {
				wasProcessing = true
			}
			if i == slow {
				w.slowClient("Stop")
			}
			if direct {
				simrt.Within(20*time.Second, "C10.stop-returns", "lifecycle:stop-hangs", func() { w.ds.Stop() })
			} else {
				w.rpcStop()
			}
			done <- i
		})
	}
	for i := 0; i < k; i++ {
		<-done
	}
	if k > 1 {
		simrt.Hit("concurrent-stops")
	}
	if wasProcessing {
		simrt.Hit("stop-while-block-in-process")
	}
	if w.stopFaults() > faultsBefore {
		simrt.Hit("stop-with-hardware-stop-error")
	}
	w.env.Op("%s: %d concurrent Stop calls returned", what, k)
	w.sc.handlePossibleStoppedSource() // (what the next request of any client does first)
	w.checkStopped(what)
}

// settle: every call of a racing episode has returned; the source must be in a stable state.
func (w *c10bWorld) settle(what string) {
	time.Sleep(300 * time.Millisecond)
	st := w.ds.GetState()
	switch st {
	case Active:
		w.active = true
		simrt.Hit("race-ends-active")
		w.sc.handlePossibleStoppedSource()
		if !w.sc.isSourceActive {
			// the server does not know its source runs: no client could stop it any more
			simrt.Fail("C10.stop-returns", "lifecycle:running-source-unknown-to-server", "%s: the source is Active but the server believes no source is active; Stop requests would be refused for ever", what)
		}
		w.expectBlocks(what)
	case Inactive:
		w.active = false
		simrt.Hit("race-ends-inactive")
		w.sc.handlePossibleStoppedSource()
		if alive := sourceTasksAlive(); len(alive) > 0 {
			simrt.Fail("C10.workers-exit", "lifecycle:workers-alive:"+c10bSiteClass(alive[0]), "%s: every call returned and the source is Inactive, but worker goroutines are alive: %v", what, simrt.AliveTaskInfo())
		}
		if busy := w.devicesBusy(); len(busy) > 0 {
			simrt.Fail("C10.workers-exit", "lifecycle:devices-not-released", "%s: every call returned and the source is Inactive, but %v", what, busy)
		}
	default:
		simrt.Fail("C10.inactive-after-stop", "lifecycle:stuck-in-transition", "%s: every Start and Stop call has returned but the source is in state %v", what, st)
	}
}

// ---------------------------------------------------------------------------------
// episodes

// stopDuringStart: one client configures and starts while 1-2 others press Stop.
func (w *c10bWorld) stopDuringStart() {
	if w.staleFlag {
		w.rpcStop()
		w.staleFlag = false
	}
	nstop := 1 + simrt.Draw(2)
	done := make(chan string, nstop+1)
	slow := -1
	if w.env.Faulted() && simrt.DrawFault(3) == 0 {
		slow = simrt.DrawFault(nstop + 1)
	}
	d0 := time.Duration(simrt.Draw(3)) * 10 * time.Millisecond
	c10bSpawn(slow == nstop, func() {
		c10bPause(d0, 0)
		cerr := w.configure()
		if slow == nstop {
			w.slowClient("Start")
		}
		err := w.rpcStart()
		done <- fmt.Sprintf("configure -> %v, Start -> %v", cerr, err)
	})
	for i := 0; i < nstop; i++ {
		i := i
		coarse := time.Duration(simrt.Draw(16)) * 10 * time.Millisecond
		steps := simrt.Draw(30)
		c10bSpawn(i == slow, func() {
			c10bPause(coarse, steps)
			st := w.ds.GetState()
			if st == Starting {
				simrt.Hit("stop-issued-during-start")
			}
			if i == slow {
				w.slowClient("Stop")
			}
			err := w.rpcStop()
			done <- fmt.Sprintf("Stop (issued in state %v) -> %v", st, err)
		})
	}
	for i := 0; i < nstop+1; i++ {
		w.env.Op("stop-during-start: %s", <-done)
	}
	w.settle("Stop during Start")
	if w.active {
		w.starts++
	}
}

// startDuringStop: the source runs; 1-3 clients press Stop and another one configures and starts.
func (w *c10bWorld) startDuringStop() {
	nstop := 1 + simrt.Draw(3)
	done := make(chan string, nstop+1)
	slow := -1
	if w.env.Faulted() && simrt.DrawFault(3) == 0 {
		slow = simrt.DrawFault(nstop + 1) // nstop: the starting client
	}
	faultsBefore := w.stopFaults()
	w.armStopFault(4)
	for i := 0; i < nstop; i++ {
		i := i
		coarse := time.Duration(simrt.Draw(3)) * 7 * time.Millisecond
		steps := simrt.Draw(25)
		c10bSpawn(i == slow, func() {
			c10bPause(coarse, steps)
			if i == slow {
				w.slowClient("Stop")
			}
			err := w.rpcStop()
			done <- fmt.Sprintf("Stop -> %v", err)
		})
	}
	coarse := time.Duration(simrt.Draw(5)) * 5 * time.Millisecond
	steps := simrt.Draw(60)
	insist := simrt.Draw(2) == 0
	syncOn := simrt.Draw(3) // 0: by the clock; 1: when the source is Stopping; 2: the moment it is Inactive
	abort := w.any.abortSelf
	c10bSpawn(slow == nstop, func() {
		switch syncOn {
		case 0:
			c10bPause(coarse, steps)
		case 1:
			// woken by the very close(abortSelf) of the first Stop's state switch
			select {
			case <-abort:
			case <-time.After(300 * time.Millisecond):
			}
		default:
			// woken together with the first Stop caller when the core loop deactivates the source
			w.any.runDone.Wait()
			simrt.Hit("start-issued-the-moment-the-source-is-inactive")
		}
		st := w.ds.GetState()
		if st == Stopping {
			simrt.Hit("start-issued-during-stop")
		}
		cerr := w.configure()
		if cerr != nil && !insist {
			done <- fmt.Sprintf("configure (issued in state %v) -> %v, no Start", st, cerr)
			return
		}
		if slow == nstop {
			w.slowClient("Start")
		}
		err := w.rpcStart()
		if err == nil {
			simrt.Hit("start-racing-stop-succeeded")
		}
		done <- fmt.Sprintf("configure (issued in state %v) -> %v, Start -> %v", st, cerr, err)
	})
	for i := 0; i < nstop+1; i++ {
		w.env.Op("start-during-stop: %s", <-done)
	}
	if w.stopFaults() > faultsBefore {
		simrt.Hit("start-during-stop-with-hardware-stop-error")
	}
	w.settle("Start during Stop")
	if w.active {
		w.starts++
	}
}

// concurrentStarts: two clients configure and start the inactive source at about the same time.
func (w *c10bWorld) concurrentStarts() {
	if w.staleFlag {
		w.rpcStop()
		w.staleFlag = false
	}
	done := make(chan string, 2)
	firstDone := false
	slow := -1
	if w.env.Faulted() && simrt.DrawFault(3) == 0 {
		slow = simrt.DrawFault(2)
	}
	for i := 0; i < 2; i++ {
		i := i
		coarse := time.Duration(simrt.Draw(12)) * 10 * time.Millisecond
		steps := simrt.Draw(40)
		late := i == 1 && simrt.Draw(2) == 1 // the second client arrives when the first Start is nearly through
		c10bSpawn(i == slow, func() {
			if late {
				// (Active is set inside Start, before the source's StartRun and before the server notes success)
				w.pollUntil(3*time.Second, time.Millisecond, func() bool { return firstDone || w.any.sourceState == Active })
				c10bPause(0, steps/8)
			} else {
				c10bPause(coarse, steps)
			}
			st := w.ds.GetState()
			if st == Starting {
				simrt.Hit("start-issued-during-start")
			}
			cerr := w.configure()
			if i == slow {
				w.slowClient("Start")
			}
			err := w.rpcStart()
			if i == 0 {
				firstDone = true
			}
			done <- fmt.Sprintf("client %d: configure (issued in state %v) -> %v, Start -> %v", i, st, cerr, err)
		})
	}
	nok := 0
	for i := 0; i < 2; i++ {
		r := <-done
		if strings.HasSuffix(r, "Start -> <nil>") {
			nok++
		}
		w.env.Op("concurrent-starts: %s", r)
	}
	if nok > 1 {
		simrt.Fail("C10.start-only-when-inactive", "lifecycle:two-concurrent-starts-both-succeeded", "two concurrent Start calls on the same source both reported success")
	}
	w.settle("two concurrent Starts")
	if nok == 1 && !w.active {
		simrt.Fail("C10.active-after-start", "lifecycle:not-active-after-start", "two concurrent Starts: one Start reported success, no Stop was issued, but the source is %v", w.ds.GetState())
	}
	if w.active {
		w.starts++
	}
}

// startWhileStopping: while a Stop is waiting for the run to end (state Stopping) the source is
// asked to start (DataSource level, as C10 does for a running source): "a data source can be
// started only when inactive". The call may legitimately succeed if the run has ended by the
// time it takes the state lock; otherwise it must be refused. Either way everything must
// settle in a consistent state.
func (w *c10bWorld) startWhileStopping() {
	abort := w.any.abortSelf
	done := make(chan string, 2)
	w.armStopFault(4)
	go func() {
		err := w.rpcStop()
		done <- fmt.Sprintf("Stop -> %v", err)
	}()
	go func() {
		select {
		case <-abort:
		case <-time.After(300 * time.Millisecond):
		}
		c10bPause(0, simrt.Draw(6))
		st := w.any.sourceState
		if st == Stopping {
			simrt.Hit("start-while-stopping")
		}
		var err error
		simrt.Within(20*time.Second, "C10.start-returns", "lifecycle:start-hangs", func() { err = Start(w.ds, w.sc.queuedRequests, 4, 16) })
		done <- fmt.Sprintf("Start of the source itself (issued in state %v) -> %v", st, err)
	}()
	for i := 0; i < 2; i++ {
		w.env.Op("start-while-stopping: %s", <-done)
	}
	time.Sleep(300 * time.Millisecond)
	if w.ds.GetState() == Active {
		// the run had ended before the Start took the state lock: a new run, started behind the server's back
		simrt.Hit("start-while-stopping-found-it-inactive")
		simrt.Within(20*time.Second, "C10.stop-returns", "lifecycle:stop-hangs", func() { w.ds.Stop() })
	}
	w.sc.handlePossibleStoppedSource()
	w.checkStopped("Start while Stopping")
}

// startWhileActive: Start on a running source is refused and changes nothing.
func (w *c10bWorld) startWhileActive() {
	simrt.Hit("start-while-active")
	err := w.rpcStart()
	if err == nil {
		simrt.Fail("C10.start-only-when-inactive", "lifecycle:start-on-active-accepted", "SourceControl.Start succeeded although the %s source is running", w.name)
	}
	err = Start(w.ds, w.sc.queuedRequests, 4, 16)
	w.env.Op("Start on the running source -> %v", err)
	if err == nil {
		simrt.Fail("C10.start-only-when-inactive", "lifecycle:start-on-active-accepted", "Start succeeded on a source in state Active")
	}
	if st := w.ds.GetState(); st != Active {
		simrt.Fail("C10.start-only-when-inactive", "lifecycle:rejected-start-changed-state", "a rejected Start changed the state from Active to %v", st)
	}
	w.expectBlocks("after a rejected Start")
}

// failedStart (faulted configuration): Start cannot succeed; it must fail, leave the source
// Inactive, and configure + Start must succeed once the hardware sends.
func (w *c10bWorld) failedStart() {
	if w.staleFlag {
		w.rpcStop()
		w.staleFlag = false
	}
	what := "hardware silent at Start"
	flavour := simrt.DrawFault(3)
	switch {
	case flavour == 1 && w.kind == c10bAbaco:
		what = "a UDP port cannot be bound at Start"
		w.ports[simrt.DrawFault(len(w.ports))].startErr = fmt.Errorf("listen udp: bind: address already in use (another program, simulated)")
	case flavour == 1 && w.kind == c10bLancero:
		// (the card keeps collecting after the failed StartRun, see notes/C10b.md: the retry uses the same card)
		what = "card falls silent between sampling and run"
		w.nextCard = 0
		if len(w.cards) > 1 {
			w.nextCard = simrt.DrawFault(len(w.cards))
		}
		lc := w.cards[w.nextCard]
		lc.silentAtAdapStart = lc.nAdapStarts + 2
	default:
		w.hw.setSilent(true)
		simrt.Fault("silent-at-start")
		w.env.Op("fault: the hardware is not sending")
	}
	if err := w.configure(); err != nil {
		simrt.Fail("C10.restartable", "lifecycle:configure-failed:before a failing Start", "configuring the inactive %s source failed: %v", w.name, err)
	}
	faultsBefore := w.stopFaults()
	w.armStopFault(4) // reaches the stop requests with which the failing Start gives its devices back
	err := w.rpcStart()
	w.env.Op("%s: Start -> %v", what, err)
	simrt.Hit("failed-start")
	if w.stopFaults() > faultsBefore {
		simrt.Hit("failed-start-with-hardware-stop-error")
	}
	w.failed++
	if err == nil {
		simrt.Fail("C10.failed-start", "lifecycle:failed-start-succeeded", "%s: Start succeeded", what)
	}
	time.Sleep(50 * time.Millisecond)
	if st := w.ds.GetState(); st != Inactive {
		simrt.Fail("C10.failed-start", "lifecycle:failed-start-not-inactive", "%s: after the failed Start the source is in state %v", what, st)
	}
	if busy := w.devicesBusy(); len(busy) > 0 {
		simrt.Hit("failed-start-leaves-devices-open")
	}
	if simrt.Draw(2) == 1 {
		err := w.rpcStop() // a client that does not know better
		w.env.Op("Stop after the failed Start -> %v", err)
	}
	w.hw.setSilent(false)
	for _, lc := range w.cards {
		lc.silentAtAdapStart = 0
	}
	time.Sleep(3*w.blockEvery + time.Duration(simrt.Draw(4))*50*time.Millisecond)
	w.env.Op("the hardware is sending")
	w.startOK("Start after a failed Start (" + what + ")")
	w.nextCard = -1
	simrt.Hit("start-after-failed-start")
}

// silence (faulted configuration, source running): the hardware stops sending for a while.
func (w *c10bWorld) silence() {
	w.sawSilence = true
	f := simrt.DrawFault(12)
	if w.kind == c10bLancero {
		// the Lancero source has no graceful way out of a long silence: keep that case rare
		f = []int{0, 0, 0, 0, 0, 3, 3, 3, 3, 3, 3, 6}[f]
	}
	switch {
	case f < 3: // shorter than any time-out: the source survives
		d := time.Duration(300+simrt.DrawFault(3200)) * time.Millisecond
		w.hw.setSilent(true)
		simrt.Fault("silence-short")
		w.env.Op("fault: the hardware is silent for %v", d)
		time.Sleep(d)
		w.hw.setSilent(false)
		if st := w.ds.GetState(); st != Active {
			simrt.Fail("C10.active-after-start", "lifecycle:ended-during-short-silence", "the source is in state %v after a silence of %v, shorter than its time-out", st, d)
		}
		w.expectBlocks("after a short silence")
		simrt.Hit("survived-short-silence")
	case f < 6: // Stop while nothing arrives
		d := time.Duration(100+simrt.DrawFault(3000)) * time.Millisecond
		w.hw.setSilent(true)
		simrt.Fault("silence-short")
		w.env.Op("fault: the hardware is silent; Stop after %v", d)
		time.Sleep(d)
		w.stopK("Stop during a silence", true)
		simrt.Hit("stop-during-silence")
		w.hw.setSilent(false)
		time.Sleep(3 * w.blockEvery)
	case f < 11 || w.kind == c10bLancero: // longer than the reader's time-out
		w.hw.setSilent(true)
		simrt.Fault("silence-long")
		if w.kind == c10bLancero {
			// the Lancero reader has no way out but its fail-stop panic: the run ends there
			w.env.Op("fault: the card is silent for good")
			time.Sleep(12 * time.Second)
			simrt.Fail("C10.self-termination", "lifecycle:silent-card-tolerated", "the Lancero source is in state %v after 12 s without data (neither blocks nor fail-stop)", w.ds.GetState())
		}
		if simrt.DrawFault(2) == 0 {
			w.env.Op("fault: the hardware is silent until the source gives up")
			faultsBefore := w.stopFaults()
			w.armStopFault(2) // the run ends by itself and a receiver reports an error when it is closed
			defer func() {
				if w.stopFaults() > faultsBefore {
					simrt.Hit("self-termination-with-hardware-stop-error")
				}
			}()
			deadline := time.Now().Add(8 * time.Second)
			for w.ds.Running() {
				if time.Now().After(deadline) {
					simrt.Fail("C10.self-termination", "lifecycle:read-timeout-ignored", "the Abaco source is still running after 8 s without data")
				}
				time.Sleep(20 * time.Millisecond)
			}
			simrt.Hit("self-termination-on-timeout")
			w.staleFlag = true
			if simrt.Draw(2) == 0 {
				w.hw.setSilent(false)
			}
			w.stopK("Stop after the read time-out", false)
		} else {
			d := 5*time.Second - time.Duration(simrt.DrawFault(14))*20*time.Millisecond
			w.env.Op("fault: the hardware is silent; Stop callers arrive %v later, around the read time-out", d)
			w.armStopFault(3)
			time.Sleep(d)
			if !w.ds.Running() {
				simrt.Hit("stop-just-after-timeout")
			} else {
				simrt.Hit("stop-just-before-timeout")
			}
			w.stopK("Stop racing the read time-out", false)
		}
		w.hw.setSilent(false)
		time.Sleep(3 * w.blockEvery)
		w.startOK("restart after a read time-out")
		simrt.Hit("restart-after-timeout")
	default: // the receiver reports an error: the reader's deliberate panic ends the program
		pt := w.ports[simrt.DrawFault(len(w.ports))]
		pt.readErrNow = true
		time.Sleep(500 * time.Millisecond)
		simrt.Fail("C10.self-termination", "lifecycle:read-error-ignored", "the Abaco source is in state %v 0.5 s after a receiver returned an error (neither ended nor fail-stop)", w.ds.GetState())
	}
}

// ---------------------------------------------------------------------------------

func c10bBody(env *simrt.Env) {
	w := c10bNewWorld(env)
	neps := 3 + simrt.Draw(5)
	for i := 0; i < neps; i++ {
		if !w.active {
			switch op := simrt.Draw(8); {
			case op < 2:
				w.stopDuringStart()
			case op < 3:
				w.concurrentStarts()
			case op < 5 && env.Faulted() && w.failed < 2:
				w.failedStart()
			case op < 6 && i > 0:
				// Stop on an inactive source returns (with an error) and changes nothing
				err := w.rpcStop()
				env.Op("Stop on the inactive source -> %v", err)
				if st := w.ds.GetState(); st != Inactive {
					simrt.Fail("C10.inactive-after-stop", "lifecycle:stop-on-inactive-changed-state", "Stop on an inactive source left it in state %v", st)
				}
				simrt.Hit("stop-while-inactive")
			default:
				w.startOK("Start")
			}
			continue
		}
		switch op := simrt.Draw(12); {
		case op < 2:
			time.Sleep(time.Duration(1+simrt.Draw(6)) * w.blockEvery)
		case op < 3:
			w.startWhileActive()
		case op < 6:
			time.Sleep(time.Duration(simrt.Draw(4)) * w.blockEvery / 2)
			w.stopK("Stop", true)
		case op < 8:
			time.Sleep(time.Duration(simrt.Draw(4)) * w.blockEvery / 2)
			w.startDuringStop()
		case op < 9:
			w.startWhileStopping()
		default:
			if env.Faulted() {
				w.silence()
			} else {
				time.Sleep(time.Duration(1+simrt.Draw(3)) * w.blockEvery)
			}
		}
	}
	if w.active {
		w.stopK("final Stop", true)
	}
	// the same source is configured, started and stopped once more
	w.startOK("final restart")
	w.stopK("Stop of the final restart", false)
	kind := "Abaco"
	if w.kind == c10bLancero {
		kind = "Lancero"
	}
	env.Sample(map[string]interface{}{"source": kind, "episodes": neps, "starts": w.starts, "failed_starts": w.failed, "block_every_ms": int(w.blockEvery / time.Millisecond)})
}
