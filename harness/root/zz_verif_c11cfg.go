//go:build verif

package dastard

// C11, source configuration requests. The configuration of a source is a request like any other
// (ConfigureTriangleSource, ConfigureSimPulseSource, ConfigureLanceroSource, ConfigureAbacoSource,
// ConfigureRoachSource), and some of its options are read by the server long afterwards, when it
// handles other requests:
//
//   LanceroSourceConfig.ShouldAutoRestart   read by the RPC layer each time it finds out that a run has
//                                           ended (handlePossibleStoppedSource: every queued request,
//                                           Stop, every status broadcast)
//   a refused ConfigureLanceroSource        remembered (configError) and reported by the next Start
//   FirstRow / ChanSepColumns / ChanSepCards channel numbering of the next run (PrepareChannels may
//                                           refuse the Start; START with a TES map reads the numbers)
//   Nchan / Min / Max / Amplitudes / Nsamp  channel count and block length of the next run
//   AbacoUnwrapOptions, card lists          validity decided at configuration time
//
// The world therefore draws these options over their legal ranges whenever it configures its main
// source (at set-up, before a restart, and as a request of the mix), and sends configuration requests
// at any moment: while the source runs (refused), between runs (applied to the next run), with invalid
// contents (refused), to sources that are not this world's main source. The oracle does not change:
// every request returns within the bound, a request without a running source is answered with an
// error, later requests are served and the inactive, configured main source can be started again.
// For the configuration requests themselves only this is demanded: a legal configuration of an
// inactive source is accepted (without it the world could not go on).

import (
	"fmt"
	"time"

	"verif/simrt"
)

// c11Plan is what the world has to know about a configuration of its main source.
type c11Plan struct {
	nchan     int
	blkLen    int
	blockTime time.Duration
	auto      bool // ShouldAutoRestart
	desc      string
	do        func() error
}

// mainIdle: the world's main source is not running (no source runs, or the one that runs is the
// self-ending built-in source started by a request).
func (c *c11World) mainIdle() bool {
	return c.state() == c11Down || c.any != c.main
}

// drawMainPlan draws a legal configuration of the main source for n channels (the Lancero source's
// channel count is given by its card).
func (c *c11World) drawMainPlan(n int) *c11Plan {
	var ok bool
	p := &c11Plan{nchan: n, blkLen: c.blkLen, blockTime: c.blockTime}
	switch c.kind {
	case 0:
		// the scripted source stands for a hardware source; its configuration is harness state. The one
		// option the server reads later is the auto-restart wish (set as LanceroSource.Configure sets it).
		p.auto = simrt.Draw(3) == 2
		p.desc = fmt.Sprintf("scripted source: %d channels, ShouldAutoRestart=%v", n, p.auto)
		p.do = func() error {
			c.w.ss.nchan = n
			c.w.ss.shouldAutoRestart = p.auto
			return nil
		}
	case 1:
		cfg := &TriangleSourceConfig{Nchan: n, SampleRate: c.rate}
		lo := []int{100, 0, 5000, 65535 - c.triHalf}[simrt.Draw(4)]
		cfg.Min, cfg.Max = RawType(lo), RawType(lo+c.triHalf)
		p.blkLen = 2 * c.triHalf
		if flat := roundint(c.rate/10) + 1; simrt.Draw(5) == 4 && time.Duration(float64(flat)/c.rate*float64(time.Second)) >= c.minBlock {
			// a constant level: Min == Max is legal, a buffer then holds a tenth of a second
			cfg.Max = cfg.Min
			p.blkLen = flat
		}
		p.blockTime = time.Duration(float64(p.blkLen) / c.rate * float64(time.Second))
		p.desc = fmt.Sprintf("ConfigureTriangleSource{Nchan:%d Min:%d Max:%d}", n, cfg.Min, cfg.Max)
		p.do = func() error { return c.sc.ConfigureTriangleSource(cfg, &ok) }
	case 2:
		cfg := &SimPulseSourceConfig{Nchan: n, SampleRate: c.rate, Nsamp: c.spNsamp}
		cfg.Pedestal = []float64{1000, 0, 3000}[simrt.Draw(3)]
		cfg.Amplitudes = [][]float64{{6000}, {6000}, {1000, 10000}, {8000, 0, 2000}}[simrt.Draw(4)]
		p.blkLen = len(cfg.Amplitudes) * cfg.Nsamp
		p.blockTime = c.blockTime0 * time.Duration(len(cfg.Amplitudes))
		p.desc = fmt.Sprintf("ConfigureSimPulseSource{Nchan:%d Pedestal:%v Amplitudes:%v Nsamp:%d}", n, cfg.Pedestal, cfg.Amplitudes, cfg.Nsamp)
		p.do = func() error { return c.sc.ConfigureSimPulseSource(cfg, &ok) }
	default:
		cfg := c.drawLanceroConfig()
		p.nchan, p.auto = c.nchanMain, cfg.ShouldAutoRestart
		p.desc = c11LanceroDesc(cfg)
		p.do = func() error { return c.sc.ConfigureLanceroSource(cfg, &ok) }
	}
	return p
}

// applyPlan: the configuration was accepted while the main source was idle; the next run has it.
func (c *c11World) applyPlan(p *c11Plan) {
	c.nchanMain, c.cfgAuto, c.cfgUnsure = p.nchan, p.auto, false
	c.blkLen, c.blockTime = p.blkLen, p.blockTime
	if p.auto {
		simrt.Hit("source-configured-with-auto-restart")
	}
}

// configureMain configures the idle main source (harness step: at set-up, before a restart, and
// whenever the last configuration request may have left the source unconfigured).
func (c *c11World) configureMain(n int) error {
	p := c.drawMainPlan(n)
	c.env.Op("configure: %s", p.desc)
	if err := p.do(); err != nil {
		return err
	}
	c.applyPlan(p)
	return nil
}

// ensureConfigured: before the harness itself starts the main source, a configuration that a request of
// the mix has spoilt (a refused ConfigureLanceroSource is remembered and makes Start fail) is repaired.
func (c *c11World) ensureConfigured() {
	if !c.cfgUnsure {
		return
	}
	if err := c.configureMain(c.nchanMain); err != nil {
		simrt.Fail("C11.reply-kind", "reply:error-for-valid:configure-"+c.name, "a legal configuration of the inactive %s source was refused: %v", c.name, err)
	}
}

// reqConfigure: a source configuration request at whatever moment the client has reached.
func (c *c11World) reqConfigure() *c11Req {
	switch t := simrt.Draw(10); {
	case t <= 4 && c.kind != 0:
		return c.reqConfigureMain()
	case t <= 6 && c.kind != 0:
		return c.reqConfigureMainInvalid()
	case t == 7:
		return c.reqConfigureAbaco()
	case t == 8:
		return c.reqConfigureRoach()
	}
	return c.reqConfigureOther()
}

func (c *c11World) cfgKind() string {
	return map[int]string{1: "ConfigureTriangleSource", 2: "ConfigureSimPulseSource", 3: "ConfigureLanceroSource"}[c.kind]
}

// reqConfigureMain: a legal configuration of the main source. Accepted when the source is idle (it then
// describes the next run); a running source refuses it.
func (c *c11World) reqConfigureMain() *c11Req {
	n := c.nchanMain
	if c.kind != 3 && simrt.Draw(2) == 1 {
		n = 1 + simrt.Draw(4)
	}
	p := c.drawMainPlan(n)
	idle := c.mainIdle()
	r := &c11Req{kind: c.cfgKind(), desc: p.desc, do: p.do, config: true, mustSucceed: idle}
	if idle {
		r.onOK = func() {
			c.applyPlan(p)
			simrt.Hit("main-source-reconfigured-by-request")
		}
		r.onErr = func() { c.cfgUnsure = true }
	} else {
		simrt.Hit("configuration-request-while-source-runs")
		// (a refused Lancero configuration is remembered by the server and reported by the next Start)
		r.onErr = func() { c.cfgUnsure = c.cfgUnsure || c.kind == 3 }
		r.onOK = func() { c.cfgUnsure = true }
	}
	return r
}

// reqConfigureMainInvalid: configurations that the documented checks refuse. Nothing is demanded of the
// reply; what matters is that the server goes on serving and that the main source can be started again
// after a legal configuration.
func (c *c11World) reqConfigureMainInvalid() *c11Req {
	var ok bool
	r := &c11Req{kind: c.cfgKind() + "-invalid", config: true}
	switch c.kind {
	case 1:
		cfg := &TriangleSourceConfig{Nchan: c.nchanMain, SampleRate: c.rate, Min: 100, Max: RawType(100 + c.triHalf)}
		switch simrt.Draw(3) {
		case 0:
			cfg.Nchan = []int{0, -1, -1 << 40}[simrt.Draw(3)]
		case 1:
			cfg.Min, cfg.Max = cfg.Max, cfg.Min
		default:
			cfg.Nchan, cfg.Min, cfg.Max = 0, 7, 3
		}
		r.desc = fmt.Sprintf("{Nchan:%d Min:%d Max:%d}", cfg.Nchan, cfg.Min, cfg.Max)
		r.do = func() error { return c.sc.ConfigureTriangleSource(cfg, &ok) }
		r.expect, r.expectIdle = c11Err, c11Err
	case 2:
		cfg := &SimPulseSourceConfig{Nchan: []int{0, -1, -1 << 40}[simrt.Draw(3)], SampleRate: c.rate, Pedestal: 1000, Amplitudes: []float64{6000}, Nsamp: c.spNsamp}
		r.desc = fmt.Sprintf("{Nchan:%d}", cfg.Nchan)
		r.do = func() error { return c.sc.ConfigureSimPulseSource(cfg, &ok) }
		r.expect, r.expectIdle = c11Err, c11Err
	default:
		cfg := c.drawLanceroConfig()
		what := ""
		switch simrt.Draw(6) {
		case 5:
			cfg.ActiveCards, what = []int{}, "no card at all"
		case 0:
			cfg.ActiveCards, what = []int{0, 0}, "the same card twice"
			r.expectIdle = c11Err
		case 1:
			cfg.ActiveCards, what = []int{1 + simrt.Draw(3)}, "a card that does not exist"
			r.expectIdle = c11Err
		case 2:
			cfg.ActiveCards, what = []int{-1}, "a negative card number"
			r.expectIdle = c11Err
		case 3:
			// accepted by the configuration request, refused by the Start that follows
			cfg.ChanSepColumns, what = []int{-1, -1000, c.lanRows - 1}[simrt.Draw(3)], "a column separation that the next Start refuses"
			if cfg.ChanSepColumns == 0 {
				cfg.ChanSepColumns = -2
			}
		default:
			cfg.ChanSepCards, what = []int{-1, -1 << 40, 1}[simrt.Draw(3)], "a card separation that the next Start refuses"
		}
		r.desc = c11LanceroDesc(cfg) + ": " + what
		r.do = func() error { return c.sc.ConfigureLanceroSource(cfg, &ok) }
		r.onOK = func() { c.cfgUnsure = true }
		r.onErr = func() { c.cfgUnsure = true }
	}
	return r
}

// reqConfigureOther: the configuration of a built-in source that is not this world's main source (it is
// never started here): the server must take it whatever else is going on.
func (c *c11World) reqConfigureOther() *c11Req {
	var ok bool
	r := &c11Req{kind: "ConfigureTriangleSource", config: true, mustSucceed: true}
	n := 1 + simrt.Draw(8)
	switch {
	case c.kind != 1 && (c.kind == 2 || simrt.Draw(2) == 0):
		cfg := &TriangleSourceConfig{Nchan: n, SampleRate: []float64{1000, 10000, 250000}[simrt.Draw(3)], Min: RawType(10 * simrt.Draw(4)), Max: RawType(100 + 400*simrt.Draw(3))}
		r.desc = fmt.Sprintf("(not the main source) {Nchan:%d SampleRate:%v Min:%d Max:%d}", cfg.Nchan, cfg.SampleRate, cfg.Min, cfg.Max)
		r.do = func() error { return c.sc.ConfigureTriangleSource(cfg, &ok) }
	default:
		cfg := &SimPulseSourceConfig{Nchan: n, SampleRate: []float64{1000, 10000, 250000}[simrt.Draw(3)], Pedestal: 100 * float64(simrt.Draw(20)),
			Amplitudes: [][]float64{{5000}, {1000, 2000}, {1, 2, 3, 4}}[simrt.Draw(3)], Nsamp: []int{50, 200, 1000}[simrt.Draw(3)]}
		r.kind = "ConfigureSimPulseSource"
		r.desc = fmt.Sprintf("(not the main source) {Nchan:%d SampleRate:%v Pedestal:%v Amplitudes:%v Nsamp:%d}", cfg.Nchan, cfg.SampleRate, cfg.Pedestal, cfg.Amplitudes, cfg.Nsamp)
		r.do = func() error { return c.sc.ConfigureSimPulseSource(cfg, &ok) }
	}
	return r
}

func c11DrawUnwrap() (AbacoUnwrapOptions, bool) {
	u := AbacoUnwrapOptions{RescaleRaw: simrt.Draw(3) != 0, Bias: simrt.Draw(2) == 1, ResetAfter: []int{0, 1, 20000, 1 << 30}[simrt.Draw(4)],
		PulseSign: []int{1, -1, 0}[simrt.Draw(3)], InvertChan: [][]int{nil, {0}, {3, 1, 3}, {-1, 1 << 40}}[simrt.Draw(4)]}
	u.Unwrap = simrt.Draw(2) == 1
	return u, !(u.Unwrap && !u.RescaleRaw)
}

// reqConfigureAbaco: no Abaco device exists in this world (no ring buffer, and no UDP port is opened), so
// the only legal card list is the empty one; the unwrap options go over their documented ranges.
func (c *c11World) reqConfigureAbaco() *c11Req {
	var ok bool
	u, legal := c11DrawUnwrap()
	cfg := &AbacoSourceConfig{AbacoUnwrapOptions: u}
	r := &c11Req{kind: "ConfigureAbacoSource", config: true, mustSucceed: legal}
	if !legal {
		r.kind, r.expect, r.expectIdle = "ConfigureAbacoSource-invalid", c11Err, c11Err
	}
	if simrt.Draw(4) == 3 {
		cfg.ActiveCards = [][]int{{0}, {2, 2, 1}, {-1}}[simrt.Draw(3)] // no such device
		r.kind, r.mustSucceed, r.expect, r.expectIdle = "ConfigureAbacoSource-invalid", false, c11Err, c11Err
	}
	r.desc = fmt.Sprintf("{ActiveCards:%v RescaleRaw:%v Unwrap:%v Bias:%v ResetAfter:%d PulseSign:%d InvertChan:%v}", cfg.ActiveCards, u.RescaleRaw, u.Unwrap, u.Bias, u.ResetAfter, u.PulseSign, u.InvertChan)
	r.do = func() error { return c.sc.ConfigureAbacoSource(cfg, &ok) }
	return r
}

func (c *c11World) reqConfigureRoach() *c11Req {
	var ok bool
	u, legal := c11DrawUnwrap()
	cfg := &RoachSourceConfig{AbacoUnwrapOptions: u}
	r := &c11Req{kind: "ConfigureRoachSource", config: true, mustSucceed: legal}
	if !legal {
		r.kind, r.expect, r.expectIdle = "ConfigureRoachSource-invalid", c11Err, c11Err
	}
	if simrt.Draw(4) == 3 {
		cfg.Rates = []float64{40000} // one rate, no address
		r.kind, r.mustSucceed, r.expect, r.expectIdle = "ConfigureRoachSource-invalid", false, c11Err, c11Err
	}
	r.desc = fmt.Sprintf("{HostPort:%v Rates:%v RescaleRaw:%v Unwrap:%v}", cfg.HostPort, cfg.Rates, u.RescaleRaw, u.Unwrap)
	r.do = func() error { return c.sc.ConfigureRoachSource(cfg, &ok) }
	return r
}
