//go:build verif

package dastard

// C17b, Lancero part: the real LanceroSource of the SourceControl object on the simulated card
// of the C04 world (lanceroSimCard: byte-exact ring, tape-chosen read sizes, losses in faulted
// runs), configured through ConfigureLanceroSource and started through Start("LANCEROSOURCE").
//
// c17bCard wraps the card only to switch its "run phase" read-size regime on and off without the
// harness writing a field that the reader goroutine reads: the client task stores an atomic
// flag, the goroutine that calls AvailableBuffer copies it into the card.

import (
	"encoding/json"
	"math"
	"os"
	"path/filepath"
	"sync/atomic"
	"time"

	"verif/simrt"
)

type c17bCard struct {
	*lanceroSimCard
	armed atomic.Bool // the client has seen Start return: reads are cut the way a live driver cuts them
}

func (c *c17bCard) StartAdapter(waitSeconds, verbosity int) error {
	c.lanceroSimCard.running = false
	return c.lanceroSimCard.StartAdapter(waitSeconds, verbosity)
}

func (c *c17bCard) AvailableBuffer() ([]byte, time.Time, error) {
	if c.armed.Load() {
		c.lanceroSimCard.running = true
	}
	return c.lanceroSimCard.AvailableBuffer()
}

type c17bLancero struct {
	card        *c17bCard
	rows, cols  int
	nchan       int
	fpt         int
	nsamp       int
	framePeriod time.Duration
}

// c17bNewLancero draws the array geometry, writes the run's cringeGlobals.json and puts the
// simulated card into the server's LanceroSource as device 0 (what NewLanceroSource does when it
// finds a card). Called by the client task before anything of the source runs.
func c17bNewLancero(env *simrt.Env, sc *SourceControl) *c17bLancero {
	l := &c17bLancero{}
	l.cols = 1 + simrt.Draw(3)
	l.rows = 2 + simrt.Draw(5)
	l.nchan = 2 * l.rows * l.cols
	l.fpt = []int{5, 3, 8, 13}[simrt.Draw(4)]
	l.nsamp = 1 + simrt.Draw(4)
	lsync := int(math.Round(6250000 / float64(l.fpt*l.rows)))
	l.framePeriod = time.Duration(lsync*l.rows*8) * time.Nanosecond
	truth := lanceroSimNewTruth(l.rows, l.cols, simrt.Draw(4))
	// external-trigger level per row for the first 8000 frames: pulses of 1..2*rows rows
	truth.trig = make([]bool, 8000*l.rows)
	for g := 10 * l.rows; g < len(truth.trig); {
		g += 1 + simrt.Draw(40*l.rows)
		for d := 1 + simrt.Draw(2*l.rows); d > 0 && g < len(truth.trig); d-- {
			truth.trig[g] = true
			g++
		}
	}
	// the card logs through its own Env: its methods run on dastard's goroutines
	inner := lanceroSimNewCard(&simrt.Env{Conf: env.Conf, Dir: env.Dir}, truth, l.framePeriod)
	inner.blocksSeen = func() int { return 1 }
	inner.waitStep = []time.Duration{10 * time.Millisecond, 3 * time.Millisecond, 25 * time.Millisecond}[simrt.Draw(3)]
	inner.waitFrames = 4 + simrt.Draw(6)
	if env.Faulted() && simrt.DrawFault(2) == 1 {
		inner.allowFaults = true
		inner.gapsLeft = 1 + simrt.DrawFault(2)
		inner.gapWhole = simrt.DrawFault(4) == 3
	}
	l.card = &c17bCard{lanceroSimCard: inner}

	cg := map[string]int{"SETT": 10, "seqln": l.rows, "lsync": lsync, "testpattern": 0, "propagationdelay": 0, "NSAMP": l.nsamp, "carddelay": 0, "XPT": 0}
	b, _ := json.Marshal(cg)
	cgPath := filepath.Join(env.Dir, "cringeGlobals.json")
	if err := os.WriteFile(cgPath, b, 0644); err != nil {
		simrt.Fail("harness.setup", "harness:cringe-globals", "%v", err)
	}
	cringeGlobalsPath = cgPath

	ls := sc.lancero
	ls.devices[0] = &LanceroDevice{devnum: 0, card: l.card}
	ls.ncards = 1
	return l
}
