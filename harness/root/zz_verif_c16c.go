//go:build verif

package dastard

// C16c: "a client that asks for all status receives, for every status topic ever published in
// this run, exactly the most recent message of that topic" — asked through the real RPC method
// SourceControl.SendAllStatus of a live server (running source, control requests producing status
// traffic) with the real RunClientUpdater publishing (ZMQ socket unbound, messages captured).
// Several clients may ask in quick succession: each request is answered by a complete replay.
// (C16a/b drive the updater through its input channel and cover persistence; this check covers the
// request path that C16a cannot reach because RunRPCServer's SourceControl is a local variable.)

import (
	"fmt"
	"path/filepath"
	"sort"
	"time"

	"verif/simrt"
)

func init() {
	simrt.Register(&simrt.Check{Name: "C16c", Property: "C16", Body: c16cBody, Classify: classify,
		Real: []string{"SourceControl.SendAllStatus and the control requests that produce status traffic", "RunClientUpdater loop (publish, remember, replay on SENDALL)", "Start / CoreLoop / processors of a Triangle or SimPulse source"},
		Stub: []string{"ZMQ status socket (messages captured at SendMessage, Bind skipped)", "record and summary publishers (channel sinks)", "net/rpc transport (methods called directly)"}})
}

// c16cFairSteps is the scheduler's fairness bound (simrt: a task ready for 2500 steps runs next), with margin.
const c16cFairSteps = 3000

type c16cMsg struct {
	tag  string
	body string
	seq  int
}

func c16cBody(env *simrt.Env) {
	// record/summary sinks; the status channel belongs to the real updater
	PubRecordsChan = make(chan []*DataRecord, 500)
	PubSummariesChan = make(chan []*DataRecord, 500)
	clientMessageChan = make(chan ClientUpdate, 10)
	rc, sm := PubRecordsChan, PubSummariesChan
	go func() {
		for {
			_, ok := <-rc
			if !ok {
				return
			}
		}
	}()
	go func() {
		for {
			_, ok := <-sm
			if !ok {
				return
			}
		}
	}()
	resetViper(env.Dir)

	var pubs []c16cMsg
	simrt.ZmqCapture = func(parts []interface{}) {
		// publish() sends one [][]byte{tag, message}
		for _, p := range parts {
			if bb, ok := p.([][]byte); ok && len(bb) == 2 {
				pubs = append(pubs, c16cMsg{tag: string(bb[0]), body: string(bb[1]), seq: len(pubs)})
			}
		}
	}
	abort := make(chan struct{})
	go RunClientUpdater(0, abort)
	time.Sleep(300 * time.Millisecond) // the updater sleeps 250 ms before it serves its channel

	nchan := 1 + simrt.Draw(3)
	sc := newSourceControl(4, 16)
	// heartbeats are consumed by the server's own loop in production
	hb := sc.heartbeats
	go func() {
		for {
			_, ok := <-hb
			if !ok {
				return
			}
		}
	}()
	var ok bool
	name := "TRIANGLESOURCE"
	if simrt.Draw(2) == 0 {
		if err := sc.ConfigureTriangleSource(&TriangleSourceConfig{Nchan: nchan, SampleRate: 10000, Min: 100, Max: 400}, &ok); err != nil {
			simrt.Fail("harness.configure", "harness:configure", "%v", err)
		}
	} else {
		name = "SIMPULSESOURCE"
		if err := sc.ConfigureSimPulseSource(&SimPulseSourceConfig{Nchan: nchan, SampleRate: 10000, Pedestal: 1000, Amplitudes: []float64{5000}, Nsamp: 200}, &ok); err != nil {
			simrt.Fail("harness.configure", "harness:configure", "%v", err)
		}
	}
	if err := sc.Start(&name, &ok); err != nil {
		simrt.Fail("harness.start", "harness:start", "%v", err)
	}
	env.Op("status world source=%s nchan=%d", name, nchan)
	all := make([]int, nchan)
	for i := range all {
		all[i] = i
	}

	// settle waits until the updater has taken everything sent so far and published it
	settle := func() {
		for i := 0; len(clientMessageChan) > 0 && i < 100000; i++ {
			time.Sleep(50 * time.Microsecond)
		}
		time.Sleep(2 * time.Millisecond)
	}
	// latest computes, from the publications so far, the most recent body per topic
	latest := func(upTo int) map[string]string {
		m := map[string]string{}
		for _, p := range pubs[:upTo] {
			m[p.tag] = p.body
		}
		return m
	}
	askAll := func(who string) {
		settle()
		before := len(pubs)
		want := latest(before)
		var dummy string
		var ok2 bool
		simrt.Within(20*time.Second, "C16.sendall", "sendall-request-hangs", func() {
			if err := sc.SendAllStatus(&dummy, &ok2); err != nil {
				simrt.Fail("C16.sendall", "sendall-request-refused", "SendAllStatus (%s) returned %v", who, err)
			}
		})
		// the replay follows within a bounded time: one message per topic published so far
		// Bounded in both clocks of the simulation: 5 s of simulated time, and enough scheduler steps for the
		// updater to have had the few turns it needs (the replay loop has no scheduling point of its own) (a ready task waits at most c16cFairSteps steps for a turn;
		// with a large virtual CPU cost per step, 5 s can pass in fewer steps than that).
		deadline := time.Now().Add(5 * time.Second)
		stepDeadline := simrt.Steps() + c16cFairSteps*4
		for {
			settle()
			// A replay of topic t is a publication of t, after the request, whose body is the latest body of
			// t published before it (sources keep publishing fresh messages on some topics meanwhile: the
			// replay then carries the newer body, and a fresh message alone is not an answer).
			got := map[string]int{}
			cur := map[string]string{}
			for t, b := range want {
				cur[t] = b
			}
			for _, p := range pubs[before:] {
				if prev, isTopic := cur[p.tag]; isTopic && p.body == prev {
					got[p.tag]++
				}
				if _, isTopic := want[p.tag]; isTopic {
					cur[p.tag] = p.body
				}
			}
			if len(got) == len(want) {
				break
			}
			if time.Now().After(deadline) && simrt.Steps() > stepDeadline {
				var missing []string
				for t := range want {
					if got[t] == 0 {
						missing = append(missing, t)
					}
				}
				sort.Strings(missing)
				simrt.Fail("C16.sendall", "sendall-unanswered", "%s asked for all status (%d topics published so far) but %d s later the latest message of %d topic(s) has not been replayed: %v (publications since the request: %d: %v; queue %d; tasks %v; steps %d)", who, len(want), 5, len(missing), missing, len(pubs)-before, func() []string { var t []string; for _, p := range pubs { t = append(t, p.tag+"="+p.body[:min(len(p.body), 60)]) }; return t }(), len(clientMessageChan), simrt.AliveTaskInfo(), simrt.Steps())
			}
			time.Sleep(20 * time.Millisecond)
		}
		env.Op("%s: SendAllStatus -> replay of %d topics", who, len(want))
		simrt.Hit("sendall-answered")
	}

	nops := 4 + simrt.Draw(10)
	lastAsk := time.Time{}
	for i := 0; i < nops; i++ {
		switch simrt.Draw(7) {
		case 0:
			ts := TriggerState{AutoTrigger: simrt.Draw(2) == 0, AutoDelay: time.Duration(1+simrt.Draw(10)) * time.Millisecond, EdgeTrigger: simrt.Draw(2) == 0, EdgeRising: true, EdgeLevel: int32(100 + simrt.Draw(400))}
			err := sc.ConfigureTriggers(&FullTriggerState{ChannelIndices: all[:1+simrt.Draw(nchan)], TriggerState: ts}, &ok)
			env.Op("ConfigureTriggers -> %v", err)
		case 1:
			a, b := simrt.Draw(nchan), simrt.Draw(nchan)
			err := sc.AddGroupTriggerCoupling(GroupTriggerState{Connections: map[int][]int{a: {b}}}, &ok)
			env.Op("AddGroupTriggerCoupling %d->%d -> %v", a, b, err)
		case 2:
			req := []string{"START", "PAUSE", "UNPAUSE", "STOP"}[simrt.Draw(4)]
			err := sc.WriteControl(&WriteControlConfig{Request: req, Path: filepath.Join(env.Dir, "data"), WriteLJH22: true}, &ok)
			env.Op("WriteControl %s -> %v", req, err)
		case 3:
			time.Sleep(time.Duration(1+simrt.Draw(2500)) * time.Millisecond)
		default:
			who := fmt.Sprintf("client %d", 1+simrt.Draw(3))
			// clients ask independently: sometimes immediately after one another
			gap := []time.Duration{0, time.Millisecond, 30 * time.Millisecond, 400 * time.Millisecond, 1500 * time.Millisecond}[simrt.Draw(5)]
			if !lastAsk.IsZero() && time.Since(lastAsk) > gap {
				gap = 0
			}
			time.Sleep(gap)
			if !lastAsk.IsZero() && time.Since(lastAsk) < time.Second {
				simrt.Hit("two-requests-within-a-second")
			}
			askAll(who)
			lastAsk = time.Now()
		}
	}
	askAll("last client")
	var d string
	sc.Stop(&d, &ok)
	settle()
	close(abort)
	time.Sleep(time.Millisecond)
	env.Sample(map[string]interface{}{"source": name, "requests": nops, "publications": len(pubs), "topics": len(latest(len(pubs)))})
}
