//go:build verif

package dastard

// C17b: a running acquisition is free of data races — the hardware sources. Same union world
// as C17 (zz_verif_c17.go) under the race detector, but the source is the real AbacoSource fed by
// simulated packet producers (zz_verif_c17babaco.go) or the real LanceroSource on a simulated
// card (zz_verif_c17blancero.go), configured, started and stopped through the real SourceControl
// RPC methods: real Sample / PrepareRun / StartRun, reader goroutine, block-assembly goroutine,
// CoreLoop, processors, triggers (auto + edge), group coupling, LJH/OFF writers, raw-data archive
// requests that complete, Stop/Start cycles, the real RunClientUpdater and the heartbeat loop.
//
// There is no oracle code: the runtime turns race reports whose two accesses were both made by
// code of the module under test into violations "race:<funcA> <-> <funcB>". What this file has
// to supply is path coverage (probes below).
//
// The harness does not look at dastard's memory from its own tasks. The exceptions are the seams
// where the simulated hardware is plugged in while no source goroutine exists (the producers of
// the AbacoSource after ConfigureAbacoSource; the card of the LanceroSource before the first
// configuration), and the heartbeat loop, whose body is copied from RunRPCServer where it is an
// inline closure. What the harness learns, it learns from channels, from the file system (raw
// block and external-trigger files) and from the problem log.

import (
	"encoding/base64"
	"fmt"
	"log"
	"os"
	"path/filepath"
	"strings"
	"sync/atomic"
	"time"

	"gonum.org/v1/gonum/mat"

	"verif/simrt"
)

func init() {
	simrt.Register(&simrt.Check{Name: "C17b", Property: "C17", Body: c17bBody, Classify: classify,
		Judge: c17Judge, MaxSteps: 400000,
		Real: []string{"SourceControl RPC methods incl. ConfigureAbacoSource / ConfigureLanceroSource / ConfigureMixFraction / Start / Stop", "AbacoSource: Configure, Sample, PrepareChannels, StartRun, readerMainLoop (fill, trim, demux, unwrap), getNextBlock, distributeData, external-trigger packets, closeDevices", "LanceroSource: Configure (cringeGlobals.json), sampleCard, StartRun, reader goroutine, getNextBlock goroutine with mix requests, distributeData (external-trigger scan, mix), stop", "packets package (every packet passes through ReadPacket)", "Start / CoreLoop / ProcessSegments fan-out and fan-in", "per-channel processors, triggers, TriggerBroker", "DataPublisher + LJH2.2/LJH3/OFF writers + asyncbufio writer goroutines", "WriteControl and the side files (external-trigger file, data-drop file)", "raw-data block archive (StoreRawDataBlock + its writer goroutine)", "RunClientUpdater loop incl. saveState"},
		Stub: []string{"UDP receivers / ring buffers (simulated PacketProducers on a simulated network)", "Lancero card + driver (lanceroSimCard implementing lancero.Lanceroer)", "record and summary publishers (channel sinks)", "ZMQ status socket (messages captured at SendMessage, Bind skipped)", "heartbeat goroutine: body copied from RunRPCServer where it is an inline closure", "net/rpc transport (methods called directly by one client task)"}})
}

// c17bProblemWriter receives what dastard writes to its problem log: the only place where the
// Abaco reader says that it has filled in for lost packets and the Lancero assembler that frames
// were dropped.
//
// Probes are counted in atomic counters, each written by one goroutine only, and turned into
// simrt.Hit / simrt.Fault calls by the client task when the run is over: counting through the
// runtime (a mutex) from dastard's goroutines would add happens-before edges between them.
type c17bProblemWriter struct{ w *c17bWorld }

func (pw c17bProblemWriter) Write(p []byte) (int, error) {
	s := string(p)
	switch {
	case strings.Contains(s, "missing packets"):
		pw.w.nFilled.Add(1) // (reader goroutine)
	case strings.Contains(s, "lancero frames"):
		pw.w.nDrops.Add(1) // (block-assembly goroutine)
	}
	return len(p), nil
}

type c17bWorld struct {
	nMsgs    atomic.Int32 // status thread
	nRecs    atomic.Int32 // record sink
	nFilled  atomic.Int32
	nDrops   atomic.Int32
	nAsmRead atomic.Int32 // heartbeat loop: a block was assembled while a producer was being read
	rawDone  map[string]bool
}

func c17bHits(name string, n int32) {
	for ; n > 0; n-- {
		simrt.Hit(name)
	}
}

func c17bFaults(name string, n int32) {
	for ; n > 0; n-- {
		simrt.Fault(name)
	}
}

// sinks drains the record and summary channels, counting records.
func (w *c17bWorld) sinks() {
	PubRecordsChan = make(chan []*DataRecord, 500)
	PubSummariesChan = make(chan []*DataRecord, 500)
	clientMessageChan = make(chan ClientUpdate, 10)
	rc, sm := PubRecordsChan, PubSummariesChan
	go func() {
		for {
			r, ok := <-rc
			if !ok {
				return
			}
			w.nRecs.Add(int32(len(r)))
		}
	}()
	go func() {
		for {
			_, ok := <-sm
			if !ok {
				return
			}
		}
	}()
}

// checkRaw counts the raw-data block requests whose file has reached its final name.
func (w *c17bWorld) checkRaw(names []string) {
	for _, fn := range names {
		if !w.rawDone[fn] {
			if _, err := os.Stat(fn); err == nil {
				w.rawDone[fn] = true
			}
		}
	}
}

func c17bBody(env *simrt.Env) {
	w := &c17bWorld{rawDone: map[string]bool{}}
	w.sinks()
	resetViper(env.Dir)
	ProblemLogger = log.New(c17bProblemWriter{w}, "", 0)
	simrt.ZmqCapture = func(parts []interface{}) { w.nMsgs.Add(1) }
	abortUpdater := make(chan struct{})
	go RunClientUpdater(0, abortUpdater)

	nsamp := []int{16, 32, 64}[simrt.Draw(3)]
	npre := 4 + simrt.Draw(nsamp/2)
	sc := newSourceControl(npre, nsamp)

	kind := simrt.Draw(2)
	var net *c17bNet
	var lan *c17bLancero
	var opts AbacoUnwrapOptions
	nchan := 0
	rate := 0.0
	srcName := ""
	if kind == 0 {
		srcName = "ABACOSOURCE"
		opts.RescaleRaw = simrt.Draw(2) == 1
		if opts.RescaleRaw {
			opts.Unwrap = simrt.Draw(3) > 0
			opts.Bias = simrt.Draw(2) == 1
			opts.ResetAfter = 50 + 100*simrt.Draw(5)
			opts.PulseSign = 1
		}
		net = c17bNewNet(env, nsamp, opts.RescaleRaw)
		if simrt.Draw(3) == 0 {
			opts.InvertChan = []int{net.groups[0].firstChan}
		}
		nchan, rate = net.nchan(), net.sampleRate()
		env.Op("%s; unwrap options %+v", net.describe(), opts)
	} else {
		srcName = "LANCEROSOURCE"
		lan = c17bNewLancero(env, sc)
		nchan, rate = lan.nchan, float64(time.Second)/float64(lan.framePeriod)
		env.Op("lancero card: %d columns x %d rows, about %d frames per reader tick (frame period %v), NSAMP %d, losses allowed %v", lan.cols, lan.rows, lan.fpt, lan.framePeriod, lan.nsamp, lan.card.allowFaults)
	}

	// the heartbeat goroutine of RunRPCServer (an inline closure there; body copied)
	go func() {
		broadcastTicker := time.NewTicker(2 * time.Second)
		terminalTicker := time.NewTicker(250 * time.Millisecond)
		defer broadcastTicker.Stop()
		defer terminalTicker.Stop()
		for {
			select {
			case <-broadcastTicker.C:
				sc.broadcastHeartbeat()
			case <-terminalTicker.C:
				sc.terminalHeartbeat()
			case h := <-sc.heartbeats:
				sc.totalData.HWactualMB += h.HWactualMB
				sc.totalData.DataMB += h.DataMB
				sc.totalData.Time += h.Time
				sc.totalData.Running = h.Running
				// a heartbeat is sent from inside distributeData: a block is being assembled now
				if net != nil && h.Running && net.inRead.Load() > 0 {
					w.nAsmRead.Add(1)
				}
			}
		}
	}()

	var ok bool
	startSource := func() error {
		name := srcName
		if kind == 0 {
			o := opts
			o.InvertChan = append([]int(nil), opts.InvertChan...)
			if err := sc.ConfigureAbacoSource(&AbacoSourceConfig{AbacoUnwrapOptions: o}, &ok); err != nil {
				return err
			}
			// the seam: Configure has just emptied the producer list; no source goroutine exists now
			for _, p := range net.prods {
				sc.abaco.producers = append(sc.abaco.producers, p)
			}
			net.begin()
			return sc.Start(&name, &ok)
		}
		lan.card.armed.Store(false)
		if err := sc.ConfigureLanceroSource(&LanceroSourceConfig{FiberMask: 0xffff, CardDelay: []int{1}, ActiveCards: []int{0}, FirstRow: 1}, &ok); err != nil {
			return err
		}
		if err := sc.Start(&name, &ok); err != nil {
			return err
		}
		lan.card.armed.Store(true)
		return nil
	}
	if err := startSource(); err != nil {
		simrt.Fail("harness.start", "harness:start", "Start failed: %v", err)
	}
	env.Op("race world source=%s nchan=%d nsamp=%d npre=%d", srcName, nchan, nsamp, npre)

	all := make([]int, nchan)
	for i := range all {
		all[i] = i
	}
	basePath := filepath.Join(env.Dir, "data")
	writing := false
	running := true
	nbases := 2
	projectors := func(c int) error {
		pd := make([]float64, nbases*nsamp)
		bd := make([]float64, nbases*nsamp)
		for i := range pd {
			pd[i] = float64((i*7+c)%13) * 0.125
			bd[i] = float64((i*3+c)%11) - 5
		}
		pb, _ := mat.NewDense(nbases, nsamp, pd).MarshalBinary()
		bb, _ := mat.NewDense(nsamp, nbases, bd).MarshalBinary()
		return sc.ConfigureProjectorsBasis(&ProjectorsBasisObject{ChannelIndex: c, ProjectorsBase64: base64.StdEncoding.EncodeToString(pb),
			BasisBase64: base64.StdEncoding.EncodeToString(bb), ModelDescription: "verif"}, &ok)
	}
	autoDelay := time.Duration(float64(2*nsamp) / rate * float64(time.Second))
	triggersOn := func() {
		sc.ConfigureTriggers(&FullTriggerState{ChannelIndices: append([]int(nil), all...), TriggerState: TriggerState{AutoTrigger: true,
			AutoDelay: autoDelay, EdgeTrigger: true, EdgeRising: true, EdgeLevel: 500}}, &ok)
	}
	// records must flow: auto + edge triggers from the start
	triggersOn()

	// Nothing is formatted, logged or counted between a request and the pause that follows it: fmt's
	// buffer pool and the runtime's probe mutex are synchronisation objects, and a client that used
	// them right after a request would order its own accesses (made inside the RPC method) before
	// the next thing a dastard goroutine prints or counts — hiding races between the RPC thread and
	// the data path from the detector. Requests are described before they are sent, results are
	// logged after the pause.
	var rawNames []string
	mixServed, restarts := 0, 0
	nops := 6 + simrt.Draw(14)
	// the simulated time of a run is bounded: every reader tick costs scheduler steps
	deadline := time.Now().Add(9 * time.Second)
	for i := 0; i < nops && time.Now().Before(deadline); i++ {
		var err error
		what := ""
		minPause := time.Duration(0)
		if env.Faulted() && simrt.Chance(1, 3) {
			cls := []string{"writeLoop", "coreLoop"}[simrt.Draw(2)]
			simrt.Stall(cls, 20+simrt.Draw(200))
		}
		switch op := simrt.Draw(20); op {
		case 0:
			ts := TriggerState{AutoTrigger: simrt.Draw(2) == 0, AutoDelay: autoDelay / time.Duration(1+simrt.Draw(3)),
				EdgeTrigger: simrt.Draw(2) == 0, EdgeRising: true, EdgeLevel: int32(200 + 300*simrt.Draw(3)),
				LevelTrigger: simrt.Draw(3) == 0, LevelRising: true, LevelLevel: RawType(2000)}
			err = sc.ConfigureTriggers(&FullTriggerState{ChannelIndices: append([]int(nil), all[:1+simrt.Draw(nchan)]...), TriggerState: ts}, &ok)
			what = "ConfigureTriggers"
		case 1:
			if !writing {
				err = sc.ConfigurePulseLengths(SizeObject{Nsamp: nsamp, Npre: 3 + simrt.Draw(nsamp-4)}, &ok)
				what = "ConfigurePulseLengths"
			}
		case 2:
			if !writing {
				err = projectors(simrt.Draw(nchan))
				what = "ConfigureProjectorsBasis"
			}
		case 3, 4:
			if !writing {
				err = sc.WriteControl(&WriteControlConfig{Request: "START", Path: basePath, WriteLJH22: simrt.Draw(3) > 0, WriteOFF: simrt.Draw(2) == 0, WriteLJH3: simrt.Draw(2) == 0}, &ok)
				writing = err == nil
				what = "WriteControl START"
			} else {
				req := []string{"PAUSE", "UNPAUSE", "UNPAUSE label1", "STOP"}[simrt.Draw(4)]
				err = sc.WriteControl(&WriteControlConfig{Request: req}, &ok)
				if req == "STOP" && err == nil {
					writing = false
				}
				what = "WriteControl " + req
			}
		case 5:
			err = sc.SetExperimentStateLabel(&StateLabelConfig{Label: fmt.Sprintf("state%d", simrt.Draw(3)), WaitForError: true}, &ok)
			what = "SetExperimentStateLabel"
		case 6:
			s := fmt.Sprintf("comment %d", i)
			err = sc.WriteComment(&s, &ok)
			what = "WriteComment"
			if writing && simrt.Draw(2) == 0 {
				var zero int
				var text string
				err = sc.ReadComment(&zero, &text)
				what = "WriteComment + ReadComment"
				// (ReadComment runs on the RPC thread, not in the core loop: let the core loop handle a block or
				// two before this client synchronises with it again through its next request)
				minPause = 120 * time.Millisecond
			}
		case 7:
			a, b := simrt.Draw(nchan), simrt.Draw(nchan)
			err = sc.AddGroupTriggerCoupling(GroupTriggerState{Connections: map[int][]int{a: {b}}}, &ok)
			what = "AddGroupTriggerCoupling"
		case 8:
			a, b := simrt.Draw(nchan), simrt.Draw(nchan)
			err = sc.DeleteGroupTriggerCoupling(&GroupTriggerState{Connections: map[int][]int{a: {b}}}, &ok)
			what = "DeleteGroupTriggerCoupling"
		case 9:
			var d bool
			err = sc.StopTriggerCoupling(&d, &ok)
			what = "StopTriggerCoupling"
		case 10, 11:
			var fn string
			n := (1 + simrt.Draw(6)) * nsamp
			what = fmt.Sprintf("StoreRawDataBlock(%d)", n)
			err = sc.StoreRawDataBlock(n, &fn)
			if err == nil {
				rawNames = append(rawNames, fn)
			}
		case 12:
			var d string
			err = sc.SendAllStatus(&d, &ok)
			what = "SendAllStatus"
		case 13:
			if running && simrt.Draw(2) == 0 {
				var d string
				errStop := sc.Stop(&d, &ok)
				running, writing = false, false
				time.Sleep(time.Duration(1+simrt.Draw(30)) * time.Millisecond)
				env.Op("Stop -> %v", errStop)
				err = startSource()
				running = err == nil
				what = "Start"
				if running {
					restarts++
					if simrt.Draw(2) == 0 {
						triggersOn() // (otherwise the triggers are those of the saved configuration, if it was saved)
					}
				}
			}
		case 14, 15, 16:
			// mix requests: the one request kind that is served by the block-assembly goroutine
			mfo := &MixFractionObject{}
			if kind == 1 {
				for k := 1 + simrt.Draw(3); k > 0; k-- {
					mfo.ChannelIndices = append(mfo.ChannelIndices, 1+2*simrt.Draw(nchan/2))
					mfo.MixFractions = append(mfo.MixFractions, []float64{0.5, 0, 1, -1, 2.5, 100}[simrt.Draw(6)])
				}
			} else {
				if op != 14 {
					break // (an Abaco source refuses mix requests: one in three is enough)
				}
				mfo.ChannelIndices, mfo.MixFractions = []int{0}, []float64{0.5}
			}
			what = fmt.Sprintf("ConfigureMixFraction(%v, %v)", mfo.ChannelIndices, mfo.MixFractions)
			err = sc.ConfigureMixFraction(mfo, &ok)
			if err == nil {
				mixServed++
			}
		case 17:
			if kind == 1 {
				on := simrt.Draw(2) == 0
				if simrt.Draw(2) == 0 {
					what = fmt.Sprintf("CoupleErrToFB(%v)", on)
					err = sc.CoupleErrToFB(&on, &ok)
				} else {
					what = fmt.Sprintf("CoupleFBToErr(%v)", on)
					err = sc.CoupleFBToErr(&on, &ok)
				}
			}
		default:
			time.Sleep(time.Duration(1+simrt.Draw(400)) * time.Millisecond)
			what = "sleep"
		}
		// let data flow between requests (and let flush / heartbeat / save timers fire sometimes)
		d := []time.Duration{2 * time.Millisecond, 20 * time.Millisecond, 300 * time.Millisecond, 1500 * time.Millisecond}[simrt.Draw(4)]
		if d < minPause {
			d = minPause
		}
		time.Sleep(d)
		if what != "" && what != "sleep" {
			es := ""
			if err != nil {
				es = strings.SplitN(err.Error(), "\n", 2)[0]
			}
			env.Op("%s -> %q", what, es)
		}
		w.checkRaw(rawNames)
	}
	if running && len(rawNames) > 0 {
		time.Sleep(300 * time.Millisecond) // the last raw block request can still complete
	}
	if writing {
		sc.WriteControl(&WriteControlConfig{Request: "STOP"}, &ok)
	}
	if running {
		var d string
		sc.Stop(&d, &ok)
	}
	time.Sleep(3 * time.Second) // the updater's change timer fires: configuration saved
	close(abortUpdater)
	time.Sleep(10 * time.Millisecond)
	w.checkRaw(rawNames)
	// the probes and fault counts of the run
	c17bHits("raw-block-requested", int32(len(rawNames)))
	c17bHits("raw-block-completed", int32(len(w.rawDone)))
	c17bHits("restart", int32(restarts))
	c17bHits("lancero-mix-request-served", int32(mixServed))
	c17bHits("abaco-block-assembled-while-reader-distributes", w.nAsmRead.Load())
	c17bHits("abaco-loss-filled", w.nFilled.Load())
	c17bHits("lancero-drop-reported", w.nDrops.Load())
	if net != nil {
		c17bFaults("abaco-packet-loss", net.nLost.Load())
		c17bFaults("abaco-slow-read", net.nSlow.Load())
		c17bFaults("abaco-lag-episode", net.nLags.Load())
		c17bHits("abaco-external-trigger-sent", net.nEtrigs.Load())
	}
	if w.nMsgs.Load() > 0 {
		simrt.Hit("status-published")
	}
	if w.nRecs.Load() > 0 {
		simrt.Hit("records-published")
	}
	// external-trigger files written by this run (header line, then 8 bytes per trigger)
	etFiles, _ := filepath.Glob(filepath.Join(basePath, "*", "*", "*external_trigger*"))
	for _, f := range etFiles {
		if st, err := os.Stat(f); err == nil && st.Size() > 0 {
			simrt.Hit("external-trigger-written:" + strings.ToLower(strings.TrimSuffix(srcName, "SOURCE")))
		}
	}
	sample := map[string]interface{}{"source": srcName, "channels": nchan, "requests": nops, "raw_blocks_requested": len(rawNames), "raw_blocks_completed": len(w.rawDone),
		"status_messages": w.nMsgs.Load(), "records": w.nRecs.Load(), "restarts": restarts, "mix_requests_served": mixServed, "external_trigger_files": len(etFiles)}
	if net != nil {
		sample["packets_lost"], sample["producer_reads"], sample["external_triggers_sent"] = net.nLost.Load(), net.nReads.Load(), net.nEtrigs.Load()
	}
	if lan != nil {
		sample["card_reads"], sample["losses_injected"] = lan.card.nReads, len(lan.card.gaps)
	}
	// how many tasks the run has made (the runtime's task table is finite)
	idc := make(chan int)
	go func() { idc <- simrt.CurrentTaskID() }()
	ntasks := <-idc
	sample["tasks"] = ntasks
	env.Sample(sample)
}
