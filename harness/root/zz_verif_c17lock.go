//verif:requires requestLock
//go:build verif

package dastard

// Optional harness file: the tree under test serialises the requests to SourceControl with the
// mutex SourceControl.requestLock (introduced by a fix). The C17 world's stand-in for
// SourceControl.Start (startScripted in zz_verif_c17.go) then holds it like the real method does.
// bin/vcheck overlays this file only when the repository defines the symbol.

func init() {
	c17LockRequests = func(sc *SourceControl) { sc.requestLock.Lock() }
	c17UnlockRequests = func(sc *SourceControl) { sc.requestLock.Unlock() }
}
