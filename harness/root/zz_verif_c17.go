//go:build verif

package dastard

// C17: a running acquisition is free of data races. Union world under the race detector:
// a source (scripted, Triangle or SimPulse; Abaco and Lancero with their simulated devices
// live in zz_verif_c17b*.go), triggers firing, group coupling, LJH/OFF writing with
// flush ticks, the real status updater, the heartbeat loop, raw-data block archive requests
// that complete during the run and clients issuing the control-request mix.
//
// Clients. A client is one task that has one request outstanding at a time, like one connection
// of the RPC server (RunRPCServer serves the requests of a connection one after the other and the
// connections concurrently). Half of the runs have one client (the property's own workload), the
// others two or three. Besides the requests that are executed inside the data-handling loop
// (everything that goes through runLaterIfActive) the clients issue the requests that are served
// on the RPC thread itself, next to the running loop: ReadComment, SendAllStatus,
// ConfigurePulseLengths (its checks), ConfigureMixFraction, ConfigureTriangleSource /
// ConfigureSimPulseSource, MapServer.Load / Unload, the early refusals of WriteComment /
// StoreRawDataBlock / SetExperimentStateLabel, Multiply, Stop and Start.
//
// Runs that end by themselves. The scripted source's hardware task can fail: it delivers an error
// block, or its data channel is closed, at a moment chosen by the tape (on its own after a drawn
// number of blocks, or when client 0 - acting as the experimenter who pulls the cable, not as a
// client of dastard - tells it to). CoreLoop then ends on its own initiative and its deferred
// clean-up stops the file writing, while no request is in flight: nothing orders the client's
// next request after the end of the run. The failure arrives while files are written, while
// writing is paused and while nothing is written; the requests that follow it come from the
// RPC-thread menu first. ErroringSource (the repository's own source that fails at once) is
// started now and then between two runs.
//
// The harness never looks at dastard's memory from its own tasks in this world: everything it
// learns arrives over channels and in the replies to its requests. (A report in which harness code
// itself touches shared memory is classified "harness-made" by the runtime and never counted.)
// The one seam is the start of the scripted source, which SourceControl.Start cannot name: the
// harness repeats the body of SourceControl.Start for it (client 0 only).

import (
	"encoding/base64"
	"fmt"
	"os"
	"path/filepath"
	"sort"
	"strconv"
	"strings"
	"sync/atomic"
	"time"

	"gonum.org/v1/gonum/mat"

	"verif/simrt"
)

func init() {
	simrt.Register(&simrt.Check{Name: "C17", Property: "C17", Body: c17Body, Classify: classify,
		Judge: c17Judge, MaxSteps: 400000,
		Real: []string{"SourceControl RPC methods (requests executed in the data-handling loop and requests served on the RPC thread)", "MapServer.Load / Unload", "Start / CoreLoop incl. its deferred clean-up when the source ends by itself / ProcessSegments fan-out and fan-in", "per-channel processors, triggers, TriggerBroker", "DataPublisher + LJH2.2/LJH3/OFF writers + asyncbufio writer goroutines", "WriteControl and the three side files", "raw-data block archive (StoreRawDataBlock + its writer goroutine)", "RunClientUpdater loop incl. saveState", "TriangleSource / SimPulseSource producers", "ErroringSource"},
		Stub: []string{"scripted source (harness blocks; its hardware task can fail with an error block or a closed data channel)", "start of the scripted source (body of SourceControl.Start repeated by the harness, client 0 only)", "record and summary publishers (channel sinks)", "ZMQ status socket (messages captured at SendMessage, Bind skipped)", "heartbeat goroutine: body copied from RunRPCServer where it is an inline closure", "net/rpc transport (methods called directly; one task per client connection, one request at a time each)"}})
}

// c17Judge: this check is about races only. A panic or wedge in this world is another
// property's violation (C10/C11) and is not reported under C17.
func c17Judge(res *simrt.Result) *simrt.Violation { return nil }

// c17Sinks drains the record and summary channels without keeping anything.
func c17Sinks() {
	PubRecordsChan = make(chan []*DataRecord, 500)
	PubSummariesChan = make(chan []*DataRecord, 500)
	clientMessageChan = make(chan ClientUpdate, 10)
	rc, sm := PubRecordsChan, PubSummariesChan
	go func() {
		for {
			_, ok := <-rc
			if !ok {
				return
			}
		}
	}()
	go func() {
		for {
			_, ok := <-sm
			if !ok {
				return
			}
		}
	}()
}

// c17World is what the client tasks of one run share. They share no variable that a request's
// outcome is written to: each client keeps its own beliefs (c17Client), so that the harness adds
// no ordering between the RPC threads it plays.
type c17World struct {
	env      *simrt.Env
	sc       *SourceControl
	kind     int // 0 scripted, 1 Triangle, 2 SimPulse
	nchan    int
	nsamp    int
	npre     int
	rate     float64
	srcName  string
	nclients int
	basePath string
	mapPath  string
	all      []int
	triCfg   TriangleSourceConfig
	simCfg   SimPulseSourceConfig

	// The scripted source's hardware. feedStop is touched by client 0 and the body only.
	feedStop chan struct{}
	// failNow: client 0 -> hardware task, "fail at your next block" (1 error block, 2 closed channel).
	// One writer; the hardware task only ever reads it, so nothing flows back to the client.
	failNow atomic.Int32
	// counted by the hardware tasks (one alive at a time), read by the body when the run is over
	nAutoEnds   atomic.Int32
	nAskedEnds  atomic.Int32
	nErrBlocks  atomic.Int32
	nClosedChan atomic.Int32
}

// c17LockRequests / c17UnlockRequests take and release the lock that the RPC methods of the tree under test hold while they serve a
// request, if that tree has one (zz_verif_c17lock.go, overlaid when the repository defines
// SourceControl.requestLock); otherwise nothing. startScripted takes it like SourceControl.Start would.
var c17LockRequests, c17UnlockRequests = func(sc *SourceControl) {}, func(sc *SourceControl) {}

// startScripted does for the scripted source what SourceControl.Start does for the built-in ones
// (the switch there only knows the built-in names): same checks, same order. In runs with the
// scripted source only client 0 sends Stop and Start, so this body never runs next to another
// client's Stop or Start (the other clients' other requests do run next to it, as they run next to
// a real Start).
func (w *c17World) startScripted() error {
	sc := w.sc
	c17LockRequests(sc)
	defer c17UnlockRequests(sc)
	if sc.isSourceActive {
		return fmt.Errorf("already have active source, do not start")
	}
	w.stopScriptedHardware() // the hardware task of the previous run, if it still waits with a block
	nchan, nsamp, rate := w.nchan, w.nsamp, w.rate
	ss := NewScriptedSource(nchan, rate)
	ss.heartbeats = sc.heartbeats
	sc.ActiveSource = DataSource(ss)
	sc.status.SourceName = "Scripted"
	sc.status.Running = true
	if err := Start(sc.ActiveSource, sc.queuedRequests, sc.status.Npresamp, sc.status.Nsamples); err != nil {
		sc.status.Running = false
		sc.isSourceActive = false
		return err
	}
	sc.isSourceActive = true
	sc.status.SamplePeriod = sc.ActiveSource.SamplePeriod()
	sc.status.Nchannels = sc.ActiveSource.Nchan()
	sc.status.ChanGroups = sc.ActiveSource.ChanGroups()
	sc.broadcastStatus()
	sc.broadcastTriggerState()
	sc.broadcastGroupTriggerState()
	sc.broadcastChannelNames()
	// hardware task: paced blocks with pulses, external triggers and drops; it can fail
	feed := ss.feed
	stop := make(chan struct{})
	w.feedStop = stop
	period := time.Duration(roundint(1e9 / rate))
	failAfter := 0 // blocks; 0 = this hardware does not fail on its own
	if simrt.Draw(4) == 0 {
		failAfter = 10 + simrt.Draw(600)
	}
	w.failNow.Store(0)
	go func() {
		sent, nblocks := 0, 0
		t0 := time.Now()
		ext := int64(10)
		for {
			mode := int(w.failNow.Load())
			if mode != 0 {
				w.nAskedEnds.Add(1)
			} else if failAfter > 0 && nblocks >= failAfter {
				mode = 1 + simrt.Draw(2)
				w.nAutoEnds.Add(1)
			}
			if mode != 0 {
				// the end of this run is the hardware's doing: an error block, or the data channel closes
				var b *dataBlock
				if mode == 1 {
					b = &dataBlock{err: fmt.Errorf("simulated hardware failure")}
					w.nErrBlocks.Add(1)
				} else {
					w.nClosedChan.Add(1)
				}
				select {
				case feed <- b:
				case <-stop:
				}
				return
			}
			n := nsamp/2 + simrt.Draw(3*nsamp)
			b := new(dataBlock)
			b.segments = make([]DataSegment, nchan)
			for c := 0; c < nchan; c++ {
				data := make([]RawType, n)
				for i := range data {
					v := 1000 + (sent+i)%7
					if ph := (sent + i + 13*c) % (3 * nsamp); ph < 6 {
						v += 3000 - 400*ph
					}
					data[i] = RawType(v)
				}
				b.segments[c] = DataSegment{rawData: data, framesPerSample: 1, framePeriod: period,
					firstFrameIndex: FrameIndex(sent), firstTime: t0.Add(time.Duration(sent) * period)}
				if simrt.Draw(6) == 0 {
					b.segments[c].droppedFrames = 1 + simrt.Draw(3)
				}
			}
			if simrt.Draw(3) == 0 {
				for k := 0; k < 1+simrt.Draw(3); k++ {
					ext += 1 + int64(simrt.Draw(40))
					b.externalTriggerRowcounts = append(b.externalTriggerRowcounts, ext)
				}
			}
			b.nSamp = n
			select {
			case feed <- b:
			case <-stop:
				return
			}
			sent += n
			nblocks++
			time.Sleep(time.Duration(n) * period)
		}
	}()
	return nil
}

// stopScriptedHardware ends the hardware task of a scripted run that has ended (client 0 and the
// body only).
func (w *c17World) stopScriptedHardware() {
	if w.feedStop != nil {
		close(w.feedStop)
		w.feedStop = nil
	}
}

// startSource configures and starts the run's source through the requests a client has for it.
func (w *c17World) startSource() error {
	var ok bool
	name := w.srcName
	switch w.kind {
	case 1:
		cfg := w.triCfg
		if err := w.sc.ConfigureTriangleSource(&cfg, &ok); err != nil {
			return err
		}
		return w.sc.Start(&name, &ok)
	case 2:
		cfg := w.simCfg
		cfg.Amplitudes = append([]float64(nil), w.simCfg.Amplitudes...)
		if err := w.sc.ConfigureSimPulseSource(&cfg, &ok); err != nil {
			return err
		}
		return w.sc.Start(&name, &ok)
	}
	return w.startScripted()
}

// c17Client is one client connection: its requests are sequential. What it believes about the
// server comes from the replies to its own requests only.
type c17Client struct {
	w       *c17World
	id      int
	nops    int
	running bool // a source runs, as far as this client can know
	writing bool
	paused  bool
	// sinceFail counts the requests this client has sent since it made the hardware fail (-1: it has
	// not, or the run after that failure has begun); failWas describes the writing state at that moment.
	sinceFail int
	failWas   string
	failSoon  bool // the next thing client 0 does is to make the hardware fail
	stats     map[string]int
	entries   []c17LogEntry // runs with several clients: the log, formatted by the body at the end
	t0        time.Time
	ok        bool
}

func (c *c17Client) hit(name string) { c.stats[name]++ }

// c17LogEntry is one line of a client's log, kept unformatted while the run lasts: with several
// clients nothing is formatted before all of them have finished (fmt's buffer pool is a
// synchronisation object that, under the race detector, keeps or drops what is put into it at
// random: a client formatting a line while another client is inside a request would order the two
// RPC threads in some processes and not in others, and races would not replay).
type c17LogEntry struct {
	at        time.Duration
	id        int
	pre, what string
	err       error
	bare      bool // no reply to show
}

func (e c17LogEntry) String() string {
	s := fmt.Sprintf("c%d +%.6fs %s%s", e.id, e.at.Seconds(), e.pre, e.what)
	if e.bare {
		return s
	}
	return s + fmt.Sprintf(" -> %q", c17ErrText(e.err))
}

func (c *c17Client) log(pre, what string, err error, bare bool) {
	e := c17LogEntry{at: time.Since(c.t0), id: c.id, pre: pre, what: what, err: err, bare: bare}
	if c.w.nclients == 1 {
		c.w.env.Op("%s", e.String())
		return
	}
	c.entries = append(c.entries, e)
}

// learn updates the client's beliefs from a reply.
func (c *c17Client) learn(err error) {
	if err == nil {
		return
	}
	switch {
	case strings.Contains(err.Error(), "no source is active"):
		c.running, c.writing, c.paused = false, false, false
	case strings.Contains(err.Error(), "already have active source"):
		c.running = true // (another client has started one)
	}
}

func (c *c17Client) projectors(ch int) error {
	nbases, nsamp := 2, c.w.nsamp
	pd := make([]float64, nbases*nsamp)
	bd := make([]float64, nbases*nsamp)
	for i := range pd {
		pd[i] = float64((i*7+ch)%13) * 0.125
		bd[i] = float64((i*3+ch)%11) - 5
	}
	pb, _ := mat.NewDense(nbases, nsamp, pd).MarshalBinary()
	bb, _ := mat.NewDense(nsamp, nbases, bd).MarshalBinary()
	return c.w.sc.ConfigureProjectorsBasis(&ProjectorsBasisObject{ChannelIndex: ch, ProjectorsBase64: base64.StdEncoding.EncodeToString(pb),
		BasisBase64: base64.StdEncoding.EncodeToString(bb), ModelDescription: "verif"}, &c.ok)
}

// c17SideNames: the requests that are served on the RPC thread, not by the data-handling loop.
var c17SideNames = []string{"ReadComment", "SendAllStatus", "ConfigurePulseLengths", "ConfigureMixFraction", "ConfigureSource", "MapServer.Load", "MapServer.Unload", "WriteComment(empty)", "StoreRawDataBlock(0)", "SetExperimentStateLabel(empty)", "Multiply", "SetExperimentStateLabel(no wait)"}

// side sends one request of the RPC-thread menu. ReadComment and SendAllStatus, the two that real
// clients send all the time, have three times the weight of the others.
func (c *c17Client) side() (what string, err error) {
	w, sc := c.w, c.w.sc
	k := simrt.Draw(len(c17SideNames) + 4)
	switch {
	case k >= len(c17SideNames)+2:
		k = 1
	case k >= len(c17SideNames):
		k = 0
	}
	what = c17SideNames[k]
	switch k {
	case 0:
		var zero int
		var text string
		err = sc.ReadComment(&zero, &text)
	case 1:
		var d string
		err = sc.SendAllStatus(&d, &c.ok)
	case 2:
		// the same lengths (answered from the server's status record), or another pretrigger length
		// (refused on the RPC thread while files are written, otherwise handed to the loop)
		npre := w.npre
		if simrt.Draw(2) == 0 {
			npre = 3 + simrt.Draw(w.nsamp-4)
		}
		err = sc.ConfigurePulseLengths(SizeObject{Nsamp: w.nsamp, Npre: npre}, &c.ok)
	case 3:
		err = sc.ConfigureMixFraction(&MixFractionObject{ChannelIndices: []int{0}, MixFractions: []float64{0.5}}, &c.ok)
	case 4:
		// the configuration the source already has: refused while that source runs
		if w.kind == 2 || (w.kind == 0 && simrt.Draw(2) == 0) {
			cfg := w.simCfg
			cfg.Amplitudes = append([]float64(nil), w.simCfg.Amplitudes...)
			err = sc.ConfigureSimPulseSource(&cfg, &c.ok)
		} else {
			cfg := w.triCfg
			err = sc.ConfigureTriangleSource(&cfg, &c.ok)
		}
	case 5:
		p := w.mapPath
		err = sc.mapServer.Load(&p, &c.ok)
	case 6:
		zero := 0
		err = sc.mapServer.Unload(&zero, &c.ok)
	case 7:
		empty := ""
		err = sc.WriteComment(&empty, &c.ok)
	case 8:
		var fn string
		err = sc.StoreRawDataBlock(0, &fn)
	case 9:
		err = sc.SetExperimentStateLabel(&StateLabelConfig{Label: "", WaitForError: true}, &c.ok)
	case 10:
		var prod int
		err = sc.Multiply(&FactorArgs{A: 6, B: 7}, &prod)
	case 11:
		// WaitForError false, the default of the request: the reply comes at once and dastard hands the
		// label to the loop from a goroutine of its own, next to this client's following requests. (That
		// goroutine panics by design when the request is refused, so the client sends it only while, as
		// far as it knows, files are being written.)
		if !(c.running && c.writing) {
			what = c17SideNames[9]
			err = sc.SetExperimentStateLabel(&StateLabelConfig{Label: "", WaitForError: true}, &c.ok)
			break
		}
		lbl := []string{"stateA", "stateB", "stateC"}[simrt.Draw(3)]
		err = sc.SetExperimentStateLabel(&StateLabelConfig{Label: lbl}, &c.ok)
	}
	c.hit("rpc-thread-request:" + what)
	if !c.running {
		c.hit("rpc-thread-request-while-no-source-runs:" + what)
	}
	return what, err
}

// restart: Stop (if the client believes that a source runs), sometimes an ErroringSource episode,
// then Start. Requests of the RPC-thread menu are sent between the steps.
func (c *c17Client) restart() (what string, err error) {
	w, sc := c.w, c.w.sc
	var d string
	between := func(where string) {
		for n := simrt.Draw(3); n > 0; n-- {
			time.Sleep([]time.Duration{0, 200 * time.Microsecond, 3 * time.Millisecond, 25 * time.Millisecond}[simrt.Draw(4)])
			s, e := c.side()
			c.hit("rpc-thread-request-" + where + ":" + s)
			time.Sleep(time.Millisecond)
			c.log("  ("+where+") ", s, e, false)
			c.learn(e)
		}
	}
	if c.running || simrt.Draw(4) == 0 {
		errStop := sc.Stop(&d, &c.ok)
		if w.kind == 0 {
			w.stopScriptedHardware()
		}
		if c.sinceFail >= 0 {
			c.hit("stop-request-after-self-end")
		}
		c.running, c.writing, c.paused = false, false, false
		time.Sleep(time.Duration(1+simrt.Draw(30)) * time.Millisecond)
		c.log("", "Stop", errStop, false)
		between("after-stop")
	}
	if simrt.Draw(5) == 0 {
		// the repository's source that fails with its first block: its run ends by itself at once
		name := "ERRORINGSOURCE"
		errE := sc.Start(&name, &c.ok)
		if errE == nil {
			c.hit("erroring-source-started")
			// (No WriteControl START here: it would have to arrive before the loop has seen the error block,
			// and then writeControlStart indexes the row/column table that an ErroringSource never makes -
			// a panic, C11's topic. See notes/C17-selfend.md.)
		}
		time.Sleep(time.Duration(simrt.Draw(20)) * time.Millisecond)
		c.log("", "Start ERRORINGSOURCE", errE, false)
		between("after-erroring-source")
		errStop := sc.Stop(&d, &c.ok)
		time.Sleep(time.Duration(1+simrt.Draw(10)) * time.Millisecond)
		c.log("", "Stop", errStop, false)
	}
	err = w.startSource()
	what = "Start"
	if err == nil {
		c.running = true
		c.hit("restart")
		if c.sinceFail >= 0 {
			c.hit("restart-after-self-end")
		}
		c.sinceFail = -1
		time.Sleep([]time.Duration{0, 500 * time.Microsecond, 5 * time.Millisecond}[simrt.Draw(3)])
		between("after-start")
	}
	return what, err
}

func c17ErrText(err error) string {
	if err == nil {
		return ""
	}
	return strings.SplitN(err.Error(), "\n", 2)[0]
}

// failHardware: client 0 in its other role, the experimenter at the cryostat: the hardware fails
// now (at the hardware task's next block). Then the client goes on sending requests; it has no
// way to know that the run has ended until a reply says so.
func (c *c17Client) failHardware() string {
	mode := 1 + simrt.Draw(2)
	c.failWas = "nothing-written"
	if c.writing {
		c.failWas = "files-written"
		if c.paused {
			c.failWas = "writing-paused"
		}
	}
	c.w.failNow.Store(int32(mode))
	c.sinceFail = 0
	c.hit("self-end-asked:" + c.failWas)
	return "(hardware fails: " + []string{"", "error block", "data channel closed"}[mode] + "; " + c.failWas + ")"
}

func (c *c17Client) run() {
	w, sc := c.w, c.w.sc
	nchan, nsamp := w.nchan, w.nsamp
	all := w.all
	// Nothing is formatted, logged or counted through the runtime between a request and the pause that
	// follows it: fmt's buffer pool and the runtime's probe mutex are synchronisation objects, and a
	// client that used them right after a request would order the accesses it made inside the RPC
	// method before the next thing a dastard goroutine prints - hiding races between the RPC thread and
	// the data path from the detector. Requests are described before they are sent, results are logged
	// after the pause.
	// (the simulated time of a session is bounded: with the scripted source every block costs scheduler steps)
	deadline := c.t0.Add(15 * time.Second)
	for i := 0; i < c.nops && time.Now().Before(deadline); i++ {
		var err error
		what := ""
		if c.id == 0 && w.env.Faulted() && simrt.Chance(1, 3) {
			cls := []string{"writeLoop", "coreLoop"}[simrt.Draw(2)]
			simrt.Stall(cls, 20+simrt.Draw(200))
		}
		op := simrt.Draw(24)
		forcePause := false
		switch {
		case c.sinceFail >= 0 && c.sinceFail < 3 && simrt.Draw(4) > 0:
			// the first requests after the failure come from the RPC-thread menu most of the time
			op = 14
		case c.id > 0 && simrt.Draw(2) == 0:
			// the other connections are monitoring clients more than controlling ones
			op = 14
		case !c.running && simrt.Draw(2) == 0:
			op = 13
		case c.id == 0 && w.kind == 0 && c.running && c.sinceFail < 0 && c.writing && !c.paused && !c.failSoon && simrt.Draw(5) == 0:
			// (so that the hardware also fails while writing is paused)
			op, forcePause = 3, true
		case c.id == 0 && w.kind == 0 && c.running && c.sinceFail < 0 && c.writing && (c.failSoon || simrt.Draw(4) == 0):
			// the scripted hardware fails while files are written, or right after writing was paused
			op = 18
		case w.kind == 0 && c.running && !c.writing && simrt.Draw(5) == 0:
			op = 3
		}
		c.failSoon = false
		switch op {
		case 0:
			ts := TriggerState{AutoTrigger: simrt.Draw(2) == 0, AutoDelay: time.Duration(1+simrt.Draw(10)) * time.Millisecond,
				EdgeTrigger: simrt.Draw(2) == 0, EdgeRising: true, EdgeLevel: int32(200 + 300*simrt.Draw(3)),
				LevelTrigger: simrt.Draw(3) == 0, LevelRising: true, LevelLevel: RawType(2000)}
			what = "ConfigureTriggers"
			err = sc.ConfigureTriggers(&FullTriggerState{ChannelIndices: append([]int(nil), all[:1+simrt.Draw(nchan)]...), TriggerState: ts}, &c.ok)
		case 1:
			if !c.writing {
				what = "ConfigurePulseLengths"
				err = sc.ConfigurePulseLengths(SizeObject{Nsamp: nsamp, Npre: 3 + simrt.Draw(nsamp-4)}, &c.ok)
			}
		case 2:
			if !c.writing {
				what = "ConfigureProjectorsBasis"
				err = c.projectors(simrt.Draw(nchan))
			}
		case 3, 4:
			if !c.writing {
				what = "WriteControl START"
				err = sc.WriteControl(&WriteControlConfig{Request: "START", Path: w.basePath, WriteLJH22: simrt.Draw(3) > 0, WriteOFF: simrt.Draw(2) == 0, WriteLJH3: simrt.Draw(2) == 0}, &c.ok)
				c.writing = err == nil
				c.paused = false
			} else {
				req := []string{"PAUSE", "UNPAUSE", "UNPAUSE label1", "STOP"}[simrt.Draw(4)]
				if forcePause {
					req = "PAUSE"
				}
				what = "WriteControl " + req
				err = sc.WriteControl(&WriteControlConfig{Request: req}, &c.ok)
				if err == nil {
					switch req {
					case "STOP":
						c.writing, c.paused = false, false
					case "PAUSE":
						c.paused = true
						c.failSoon = forcePause || simrt.Draw(2) == 0
					default:
						c.paused = false
					}
				}
			}
		case 5:
			lbl := "state" + strconv.Itoa(simrt.Draw(3))
			what = "SetExperimentStateLabel"
			err = sc.SetExperimentStateLabel(&StateLabelConfig{Label: lbl, WaitForError: true}, &c.ok)
		case 6:
			s := "comment " + strconv.Itoa(i)
			what = "WriteComment"
			err = sc.WriteComment(&s, &c.ok)
		case 7:
			a, b := simrt.Draw(nchan), simrt.Draw(nchan)
			what = "AddGroupTriggerCoupling"
			err = sc.AddGroupTriggerCoupling(GroupTriggerState{Connections: map[int][]int{a: {b}}}, &c.ok)
		case 8:
			a, b := simrt.Draw(nchan), simrt.Draw(nchan)
			what = "DeleteGroupTriggerCoupling"
			err = sc.DeleteGroupTriggerCoupling(&GroupTriggerState{Connections: map[int][]int{a: {b}}}, &c.ok)
		case 9:
			var d bool
			what = "StopTriggerCoupling"
			err = sc.StopTriggerCoupling(&d, &c.ok)
		case 10, 11:
			var fn string
			n := (1 + simrt.Draw(6)) * nsamp
			what = "StoreRawDataBlock(" + strconv.Itoa(n) + ")"
			err = sc.StoreRawDataBlock(n, &fn)
			if err == nil {
				c.hit("raw-block-requested")
			}
		case 12:
			// edge-multi triggering on some channels (fixed-length record modes): its search state is
			// rewritten by the per-channel goroutines on every block
			ts := TriggerState{EdgeMulti: true, EdgeRising: true, AutoDelay: 250 * time.Millisecond}
			ts.EdgeMultiLevel = int32(200 + 300*simrt.Draw(3))
			ts.EdgeMultiVerifyNMonotone = 1 + simrt.Draw(3)
			ts.EdgeMultiMakeContaminatedRecords = simrt.Draw(2) == 0
			ts.EdgeMultiDisableZeroThreshold = simrt.Draw(2) == 0
			what = "ConfigureTriggers(edge-multi)"
			err = sc.ConfigureTriggers(&FullTriggerState{ChannelIndices: append([]int(nil), all[:1+simrt.Draw(nchan)]...), TriggerState: ts}, &c.ok)
			if err == nil {
				c.hit("edge-multi-enabled")
			}
		case 13:
			if c.id > 0 && w.kind == 0 {
				// (the scripted source is started by the harness: client 0 alone stops and starts it)
				what, err = c.side()
			} else if !c.running || simrt.Draw(3) == 0 {
				what, err = c.restart()
			}
		case 14, 15, 16, 17:
			what, err = c.side()
			if c.sinceFail >= 0 {
				c.hit("rpc-thread-request-after-self-end:" + what)
				if c.sinceFail == 0 {
					c.hit("first-request-after-self-end(" + c.failWas + "):" + what)
				}
			}
		case 18, 19:
			// (weight 2 of 24 while nothing is written, more while files are written or writing is paused)
			if c.id == 0 && w.kind == 0 && c.running && c.sinceFail < 0 && (c.writing || simrt.Draw(3) == 0) {
				what = c.failHardware()
				c.log("", what, nil, true)
				what = ""
				// the next request follows closely: before, while or after the loop winds up
				time.Sleep([]time.Duration{0, 300 * time.Microsecond, 2 * time.Millisecond, 8 * time.Millisecond, 25 * time.Millisecond, 60 * time.Millisecond, 150 * time.Millisecond}[simrt.Draw(7)])
				continue
			}
			fallthrough
		default:
			time.Sleep(time.Duration(1+simrt.Draw(400)) * time.Millisecond)
			what = "sleep"
		}
		// let data flow between requests (and let flush / heartbeat / save timers fire sometimes)
		d := []time.Duration{2 * time.Millisecond, 20 * time.Millisecond, 300 * time.Millisecond, 2500 * time.Millisecond}[simrt.Draw(4)]
		if c.sinceFail >= 0 && c.sinceFail < 3 {
			d = []time.Duration{200 * time.Microsecond, 2 * time.Millisecond, 10 * time.Millisecond, 40 * time.Millisecond}[simrt.Draw(4)]
		}
		time.Sleep(d)
		if what != "" && what != "sleep" {
			c.log("", what, err, false)
			if c.sinceFail >= 0 {
				c.sinceFail++ // (a request has been sent since the failure)
			}
		}
		c.learn(err)
	}
}

func c17Body(env *simrt.Env) {
	c17Sinks()
	resetViper(env.Dir)
	nMsgs := 0
	simrt.ZmqCapture = func(parts []interface{}) { nMsgs++ }
	abortUpdater := make(chan struct{})
	go RunClientUpdater(0, abortUpdater)

	w := &c17World{env: env}
	w.nchan = 2 + simrt.Draw(3)
	w.nsamp = []int{16, 32, 64}[simrt.Draw(3)]
	w.npre = 4 + simrt.Draw(w.nsamp/2)
	w.rate = 10000.0
	nchan, nsamp, npre, rate := w.nchan, w.nsamp, w.npre, w.rate
	sc := newSourceControl(npre, nsamp)
	w.sc = sc
	w.basePath = filepath.Join(env.Dir, "data")

	// the heartbeat goroutine of RunRPCServer (an inline closure there; body copied)
	go func() {
		broadcastTicker := time.NewTicker(2 * time.Second)
		terminalTicker := time.NewTicker(250 * time.Millisecond)
		defer broadcastTicker.Stop()
		defer terminalTicker.Stop()
		for {
			select {
			case <-broadcastTicker.C:
				sc.broadcastHeartbeat()
			case <-terminalTicker.C:
				sc.terminalHeartbeat()
			case h := <-sc.heartbeats:
				sc.totalData.HWactualMB += h.HWactualMB
				sc.totalData.DataMB += h.DataMB
				sc.totalData.Time += h.Time
				sc.totalData.Running = h.Running
			}
		}
	}()

	w.kind = []int{0, 0, 1, 2}[simrt.Draw(4)]
	w.srcName = []string{"scripted", "TRIANGLESOURCE", "SIMPULSESOURCE"}[w.kind]
	w.triCfg = TriangleSourceConfig{Nchan: nchan, SampleRate: rate, Min: 100, Max: RawType(400 + 100*simrt.Draw(3))}
	w.simCfg = SimPulseSourceConfig{Nchan: nchan, SampleRate: rate, Pedestal: 1000, Amplitudes: []float64{5000, 8000}, Nsamp: 3 * nsamp}
	// a TES map with one pixel per channel, for the map server's Load request
	w.mapPath = filepath.Join(env.Dir, "map.cfg")
	var mapText strings.Builder
	mapText.WriteString("spacing: 520\n")
	for i := 1; i <= nchan; i++ {
		fmt.Fprintf(&mapText, "%8d %8d %8d c%dr%d\n", i, 290*(i%7), -520*(i/7), i/7, i%7)
	}
	if err := os.WriteFile(w.mapPath, []byte(mapText.String()), 0644); err != nil {
		simrt.Fail("harness.map", "harness:map-file", "%v", err)
	}
	nclients := 1
	if simrt.Draw(2) == 1 { // (0, what a minimised tape tends to, is the property's single client)
		nclients = 2 + simrt.Draw(2)
	}
	// (a knob for experiments: VERIF_C17_CLIENTS=1 keeps every run to the property's single client)
	if v := os.Getenv("VERIF_C17_CLIENTS"); v != "" {
		if n := int(v[0] - '0'); n >= 1 && n < nclients {
			nclients = n
		}
	}
	if err := w.startSource(); err != nil {
		simrt.Fail("harness.start", "harness:start", "Start failed: %v", err)
	}
	w.nclients = nclients
	env.Op("race world source=%s nchan=%d nsamp=%d npre=%d clients=%d", w.srcName, nchan, nsamp, npre, nclients)

	w.all = make([]int, nchan)
	for i := range w.all {
		w.all[i] = i
	}
	// records must flow: auto + edge triggers from the start
	var ok bool
	sc.ConfigureTriggers(&FullTriggerState{ChannelIndices: append([]int(nil), w.all...), TriggerState: TriggerState{AutoTrigger: true,
		AutoDelay: time.Duration(float64(2*nsamp) / rate * float64(time.Second)), EdgeTrigger: true, EdgeRising: true, EdgeLevel: 500}}, &ok)

	clients := make([]*c17Client, nclients)
	done := make(chan int, nclients)
	nops := 0
	for k := range clients {
		c := &c17Client{w: w, id: k, running: true, sinceFail: -1, stats: map[string]int{}, t0: time.Now()}
		c.nops = 6 + simrt.Draw(14)
		if k > 0 {
			c.nops = 3 + simrt.Draw(10)
		}
		nops += c.nops
		clients[k] = c
	}
	for k := 1; k < nclients; k++ {
		c := clients[k]
		go func() {
			// a connection opens a little later than the first one
			time.Sleep(time.Duration(simrt.Draw(1500)) * time.Millisecond)
			c.run()
			done <- c.id
		}()
	}
	clients[0].run()
	for k := 1; k < nclients; k++ {
		<-done
	}
	// the end of the session: whatever the clients believe, stop writing and stop the source
	sc.WriteControl(&WriteControlConfig{Request: "STOP"}, &ok)
	var d string
	sc.Stop(&d, &ok)
	if w.kind == 0 {
		w.stopScriptedHardware()
	}
	time.Sleep(3 * time.Second) // the updater's change timer fires: configuration saved
	close(abortUpdater)
	time.Sleep(10 * time.Millisecond)

	// the clients' logs (runs with several clients) in the order of time, and the probes of all clients
	var entries []c17LogEntry
	stats := map[string]int{}
	for _, c := range clients {
		entries = append(entries, c.entries...)
		for name, n := range c.stats {
			stats[name] += n
		}
	}
	sort.SliceStable(entries, func(i, j int) bool { return entries[i].at < entries[j].at })
	for _, e := range entries {
		env.Op("%s", e.String())
	}
	names := make([]string, 0, len(stats))
	for name := range stats {
		names = append(names, name)
	}
	sort.Strings(names)
	for _, name := range names {
		for n := stats[name]; n > 0; n-- {
			simrt.Hit(name)
		}
	}
	simrt.Hit(fmt.Sprintf("clients:%d", nclients))
	c17Hits("self-end:hardware-failed-on-its-own", w.nAutoEnds.Load())
	c17Hits("self-end:hardware-failed-when-asked", w.nAskedEnds.Load())
	c17Hits("self-end:error-block", w.nErrBlocks.Load())
	c17Hits("self-end:data-channel-closed", w.nClosedChan.Load())
	if nMsgs > 0 {
		simrt.Hit("status-published")
	}
	env.Sample(map[string]interface{}{"source": w.srcName, "channels": nchan, "clients": nclients, "requests": nops, "raw_blocks": stats["raw-block-requested"],
		"restarts": stats["restart"], "self_ends": w.nAutoEnds.Load() + w.nAskedEnds.Load(), "status_messages": nMsgs})
}

func c17Hits(name string, n int32) {
	for ; n > 0; n-- {
		simrt.Hit(name)
	}
}
