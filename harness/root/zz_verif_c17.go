//go:build verif

package dastard

// C17: a running acquisition is free of data races. Union world under the race detector:
// a source (scripted, Triangle or SimPulse; Abaco and Lancero with their simulated devices
// when those worlds are present), triggers firing, group coupling, LJH/OFF writing with
// flush ticks, the real status updater, the heartbeat loop, raw-data block archive requests
// that complete during the run and one client issuing the control-request mix.
//
// The harness never looks at dastard's memory from its own tasks in this world: everything it
// learns arrives over channels. (A report in which harness code itself touches shared memory is
// classified "harness-made" by the runtime and never counted.)

import (
	"encoding/base64"
	"fmt"
	"path/filepath"
	"strings"
	"time"

	"gonum.org/v1/gonum/mat"

	"verif/simrt"
)

func init() {
	simrt.Register(&simrt.Check{Name: "C17", Property: "C17", Body: c17Body, Classify: classify,
		Judge: c17Judge, MaxSteps: 400000,
		Real: []string{"SourceControl RPC methods", "Start / CoreLoop / ProcessSegments fan-out and fan-in", "per-channel processors, triggers, TriggerBroker", "DataPublisher + LJH2.2/LJH3/OFF writers + asyncbufio writer goroutines", "WriteControl and the three side files", "raw-data block archive (StoreRawDataBlock + its writer goroutine)", "RunClientUpdater loop incl. saveState", "TriangleSource / SimPulseSource producers"},
		Stub: []string{"scripted source (harness blocks)", "record and summary publishers (channel sinks)", "ZMQ status socket (messages captured at SendMessage, Bind skipped)", "heartbeat goroutine: body copied from RunRPCServer where it is an inline closure", "net/rpc transport (methods called directly by one client task)"}})
}

// c17Judge: this check is about races only. A panic or wedge in this world is another
// property's violation (C10/C11) and is not reported under C17.
func c17Judge(res *simrt.Result) *simrt.Violation { return nil }

// c17Sinks drains the record and summary channels without keeping anything.
func c17Sinks() {
	PubRecordsChan = make(chan []*DataRecord, 500)
	PubSummariesChan = make(chan []*DataRecord, 500)
	clientMessageChan = make(chan ClientUpdate, 10)
	rc, sm := PubRecordsChan, PubSummariesChan
	go func() {
		for {
			_, ok := <-rc
			if !ok {
				return
			}
		}
	}()
	go func() {
		for {
			_, ok := <-sm
			if !ok {
				return
			}
		}
	}()
}

func c17Body(env *simrt.Env) {
	c17Sinks()
	resetViper(env.Dir)
	nMsgs := 0
	simrt.ZmqCapture = func(parts []interface{}) { nMsgs++ }
	abortUpdater := make(chan struct{})
	go RunClientUpdater(0, abortUpdater)

	nchan := 2 + simrt.Draw(3)
	nsamp := []int{16, 32, 64}[simrt.Draw(3)]
	npre := 4 + simrt.Draw(nsamp/2)
	rate := 10000.0
	sc := newSourceControl(npre, nsamp)

	// the heartbeat goroutine of RunRPCServer (an inline closure there; body copied)
	go func() {
		broadcastTicker := time.NewTicker(2 * time.Second)
		terminalTicker := time.NewTicker(250 * time.Millisecond)
		defer broadcastTicker.Stop()
		defer terminalTicker.Stop()
		for {
			select {
			case <-broadcastTicker.C:
				sc.broadcastHeartbeat()
			case <-terminalTicker.C:
				sc.terminalHeartbeat()
			case h := <-sc.heartbeats:
				sc.totalData.HWactualMB += h.HWactualMB
				sc.totalData.DataMB += h.DataMB
				sc.totalData.Time += h.Time
				sc.totalData.Running = h.Running
			}
		}
	}()

	kind := simrt.Draw(3)
	var ok bool
	var ss *ScriptedSource
	feedStop := make(chan struct{})
	srcName := ""
	startSource := func() error {
		switch kind {
		case 1:
			srcName = "TRIANGLESOURCE"
			if err := sc.ConfigureTriangleSource(&TriangleSourceConfig{Nchan: nchan, SampleRate: rate, Min: 100, Max: RawType(400 + 100*simrt.Draw(3))}, &ok); err != nil {
				return err
			}
			return sc.Start(&srcName, &ok)
		case 2:
			srcName = "SIMPULSESOURCE"
			if err := sc.ConfigureSimPulseSource(&SimPulseSourceConfig{Nchan: nchan, SampleRate: rate, Pedestal: 1000, Amplitudes: []float64{5000, 8000}, Nsamp: 3 * nsamp}, &ok); err != nil {
				return err
			}
			return sc.Start(&srcName, &ok)
		}
		srcName = "scripted"
		ss = NewScriptedSource(nchan, rate)
		ss.heartbeats = sc.heartbeats
		sc.ActiveSource = DataSource(ss)
		sc.status.SourceName = "Scripted"
		sc.status.Running = true
		if err := Start(sc.ActiveSource, sc.queuedRequests, sc.status.Npresamp, sc.status.Nsamples); err != nil {
			sc.status.Running = false
			sc.isSourceActive = false
			return err
		}
		sc.isSourceActive = true
		sc.status.SamplePeriod = sc.ActiveSource.SamplePeriod()
		sc.status.Nchannels = sc.ActiveSource.Nchan()
		sc.status.ChanGroups = sc.ActiveSource.ChanGroups()
		sc.broadcastStatus()
		sc.broadcastTriggerState()
		sc.broadcastGroupTriggerState()
		sc.broadcastChannelNames()
		// hardware task: paced blocks with pulses, external triggers and drops
		feed := ss.feed
		stop := feedStop
		period := time.Duration(roundint(1e9 / rate))
		go func() {
			sent := 0
			t0 := time.Now()
			ext := int64(10)
			for {
				n := nsamp/2 + simrt.Draw(3*nsamp)
				b := new(dataBlock)
				b.segments = make([]DataSegment, nchan)
				for c := 0; c < nchan; c++ {
					data := make([]RawType, n)
					for i := range data {
						v := 1000 + (sent+i)%7
						if ph := (sent + i + 13*c) % (3 * nsamp); ph < 6 {
							v += 3000 - 400*ph
						}
						data[i] = RawType(v)
					}
					b.segments[c] = DataSegment{rawData: data, framesPerSample: 1, framePeriod: period,
						firstFrameIndex: FrameIndex(sent), firstTime: t0.Add(time.Duration(sent) * period)}
					if simrt.Draw(6) == 0 {
						b.segments[c].droppedFrames = 1 + simrt.Draw(3)
					}
				}
				if simrt.Draw(3) == 0 {
					for k := 0; k < 1+simrt.Draw(3); k++ {
						ext += 1 + int64(simrt.Draw(40))
						b.externalTriggerRowcounts = append(b.externalTriggerRowcounts, ext)
					}
				}
				b.nSamp = n
				select {
				case feed <- b:
				case <-stop:
					return
				}
				sent += n
				time.Sleep(time.Duration(n) * period)
			}
		}()
		return nil
	}
	if err := startSource(); err != nil {
		simrt.Fail("harness.start", "harness:start", "Start failed: %v", err)
	}
	env.Op("race world source=%s nchan=%d nsamp=%d npre=%d", srcName, nchan, nsamp, npre)

	all := make([]int, nchan)
	for i := range all {
		all[i] = i
	}
	basePath := filepath.Join(env.Dir, "data")
	writing := false
	running := true
	nbases := 2
	projectors := func(c int) error {
		pd := make([]float64, nbases*nsamp)
		bd := make([]float64, nbases*nsamp)
		for i := range pd {
			pd[i] = float64((i*7+c)%13) * 0.125
			bd[i] = float64((i*3+c)%11) - 5
		}
		pb, _ := mat.NewDense(nbases, nsamp, pd).MarshalBinary()
		bb, _ := mat.NewDense(nsamp, nbases, bd).MarshalBinary()
		return sc.ConfigureProjectorsBasis(&ProjectorsBasisObject{ChannelIndex: c, ProjectorsBase64: base64.StdEncoding.EncodeToString(pb),
			BasisBase64: base64.StdEncoding.EncodeToString(bb), ModelDescription: "verif"}, &ok)
	}
	// records must flow: auto + edge triggers from the start
	sc.ConfigureTriggers(&FullTriggerState{ChannelIndices: all, TriggerState: TriggerState{AutoTrigger: true,
		AutoDelay: time.Duration(float64(2*nsamp) / rate * float64(time.Second)), EdgeTrigger: true, EdgeRising: true, EdgeLevel: 500}}, &ok)

	nops := 6 + simrt.Draw(14)
	rawBlocks := 0
	for i := 0; i < nops; i++ {
		var err error
		what := ""
		switch op := simrt.Draw(16); op {
		case 0:
			ts := TriggerState{AutoTrigger: simrt.Draw(2) == 0, AutoDelay: time.Duration(1+simrt.Draw(10)) * time.Millisecond,
				EdgeTrigger: simrt.Draw(2) == 0, EdgeRising: true, EdgeLevel: int32(200 + 300*simrt.Draw(3)),
				LevelTrigger: simrt.Draw(3) == 0, LevelRising: true, LevelLevel: RawType(2000)}
			err = sc.ConfigureTriggers(&FullTriggerState{ChannelIndices: all[:1+simrt.Draw(nchan)], TriggerState: ts}, &ok)
			what = "ConfigureTriggers"
		case 1:
			if !writing {
				err = sc.ConfigurePulseLengths(SizeObject{Nsamp: nsamp, Npre: 3 + simrt.Draw(nsamp-4)}, &ok)
				what = "ConfigurePulseLengths"
			}
		case 2:
			if !writing {
				err = projectors(simrt.Draw(nchan))
				what = "ConfigureProjectorsBasis"
			}
		case 3, 4:
			if !writing {
				err = sc.WriteControl(&WriteControlConfig{Request: "START", Path: basePath, WriteLJH22: simrt.Draw(3) > 0, WriteOFF: simrt.Draw(2) == 0, WriteLJH3: simrt.Draw(2) == 0}, &ok)
				writing = err == nil
				what = "WriteControl START"
			} else {
				req := []string{"PAUSE", "UNPAUSE", "UNPAUSE label1", "STOP"}[simrt.Draw(4)]
				err = sc.WriteControl(&WriteControlConfig{Request: req}, &ok)
				if req == "STOP" && err == nil {
					writing = false
				}
				what = "WriteControl " + req
			}
		case 5:
			err = sc.SetExperimentStateLabel(&StateLabelConfig{Label: fmt.Sprintf("state%d", simrt.Draw(3)), WaitForError: true}, &ok)
			what = "SetExperimentStateLabel"
		case 6:
			s := fmt.Sprintf("comment %d", i)
			err = sc.WriteComment(&s, &ok)
			what = "WriteComment"
		case 7:
			a, b := simrt.Draw(nchan), simrt.Draw(nchan)
			err = sc.AddGroupTriggerCoupling(GroupTriggerState{Connections: map[int][]int{a: {b}}}, &ok)
			what = "AddGroupTriggerCoupling"
		case 8:
			a, b := simrt.Draw(nchan), simrt.Draw(nchan)
			err = sc.DeleteGroupTriggerCoupling(&GroupTriggerState{Connections: map[int][]int{a: {b}}}, &ok)
			what = "DeleteGroupTriggerCoupling"
		case 9:
			var d bool
			err = sc.StopTriggerCoupling(&d, &ok)
			what = "StopTriggerCoupling"
		case 10, 11:
			var fn string
			n := (1 + simrt.Draw(6)) * nsamp
			err = sc.StoreRawDataBlock(n, &fn)
			if err == nil {
				rawBlocks++
				simrt.Hit("raw-block-requested")
			}
			what = fmt.Sprintf("StoreRawDataBlock(%d)", n)
		case 12:
			if simrt.Draw(2) == 0 {
				var d string
				err = sc.SendAllStatus(&d, &ok)
				what = "SendAllStatus"
			} else {
				// edge-multi triggering on some channels (fixed-length record modes): its search state is
				// rewritten by the per-channel goroutines on every block
				ts := TriggerState{EdgeMulti: true, EdgeRising: true, AutoDelay: 250 * time.Millisecond}
				ts.EdgeMultiLevel = int32(200 + 300*simrt.Draw(3))
				ts.EdgeMultiVerifyNMonotone = 1 + simrt.Draw(3)
				ts.EdgeMultiMakeContaminatedRecords = simrt.Draw(2) == 0
				ts.EdgeMultiDisableZeroThreshold = simrt.Draw(2) == 0
				err = sc.ConfigureTriggers(&FullTriggerState{ChannelIndices: all[:1+simrt.Draw(nchan)], TriggerState: ts}, &ok)
				what = "ConfigureTriggers(edge-multi)"
				if err == nil {
					simrt.Hit("edge-multi-enabled")
				}
			}
		case 13:
			if running && simrt.Draw(3) == 0 {
				var d string
				err = sc.Stop(&d, &ok)
				if kind == 0 {
					close(feedStop)
					feedStop = make(chan struct{})
				}
				running, writing = false, false
				what = "Stop"
				env.Op("%s -> %v", what, err)
				time.Sleep(time.Duration(1+simrt.Draw(30)) * time.Millisecond)
				err = startSource()
				running = err == nil
				what = "Start"
				if running {
					simrt.Hit("restart")
				}
			}
		default:
			time.Sleep(time.Duration(1+simrt.Draw(400)) * time.Millisecond)
			what = "sleep"
		}
		if what != "" && what != "sleep" {
			es := ""
			if err != nil {
				es = strings.SplitN(err.Error(), "\n", 2)[0]
			}
			env.Op("%s -> %q", what, es)
		}
		// let data flow between requests (and let flush / heartbeat / save timers fire sometimes)
		d := []time.Duration{2 * time.Millisecond, 20 * time.Millisecond, 300 * time.Millisecond, 2500 * time.Millisecond}[simrt.Draw(4)]
		if env.Faulted() && simrt.Chance(1, 3) {
			cls := []string{"writeLoop", "coreLoop"}[simrt.Draw(2)]
			simrt.Stall(cls, 20+simrt.Draw(200))
			simrt.Fault("stall:" + cls)
		}
		time.Sleep(d)
	}
	if writing {
		sc.WriteControl(&WriteControlConfig{Request: "STOP"}, &ok)
	}
	if running {
		var d string
		sc.Stop(&d, &ok)
		if kind == 0 {
			close(feedStop)
		}
	}
	time.Sleep(3 * time.Second) // the updater's change timer fires: configuration saved
	close(abortUpdater)
	time.Sleep(10 * time.Millisecond)
	if nMsgs > 0 {
		simrt.Hit("status-published")
	}
	env.Sample(map[string]interface{}{"source": srcName, "channels": nchan, "requests": nops, "raw_blocks": rawBlocks, "status_messages": nMsgs})
}
