//go:build verif

package dastard

// Lancero ingest world (DESIGN §3.4), part 1: ground truth and the simulated card.
//
// lanceroSimTruth is the firmware: an endless stream of frames of rows x cols 32-bit words
// in readout order (r0c0, r0c1, ..., r1c0, ...), each word = error (uint16 LE) then feedback
// (uint16 LE). The feedback word carries the two flag bits the firmware defines: bit 0 the
// frame bit (set on every column of row 0, clear elsewhere: what lancero.FindFrameBits
// documents), bit 1 the external-trigger level, sampled once per row and repeated on every
// column of that row. The other 30 bits identify the word: word number k = frame*W + index
// is stored as k*eMul+eBase (mod 2^16) in the error half and k*fMul+fBase (mod 2^14) in bits
// 2..15 of the feedback half, with odd multipliers, so any value seen at the output can be
// attributed to the word it came from.
//
// lanceroSimCard implements lancero.Lanceroer over that stream: a byte-exact ring with the
// driver's read-index/write-index accounting. AvailableBuffer returns a copy of the bytes
// between the read index and a write index that is cut at a tape-chosen place at or before
// what the firmware has produced by now (fake clock); the cut never moves backwards between
// releases (a write index only advances). ReleaseBytes advances the read index. The card
// asserts the driver contract: no more bytes are released than were returned and not yet
// released (which also covers "never released twice").

import (
	"encoding/binary"
	"fmt"
	"time"

	"verif/simrt"
)

// ---------------------------------------------------------------------------------
// ground truth

type lanceroSimTruth struct {
	rows, cols int
	W          int // words per frame
	frameSize  int // bytes per frame
	eMul, eInv uint32
	eBase      uint32
	fMul, fInv uint32
	fBase      uint32
	trig       []bool // external-trigger level per global row number g = frame*rows + row
}

// lanceroSimInverse returns the inverse of the odd number m modulo 2^bits.
func lanceroSimInverse(m uint32, bits uint) uint32 {
	mask := uint32(1)<<bits - 1
	x := uint32(1)
	for i := 0; i < 6; i++ { // Newton iteration doubles the number of correct bits
		x = x * (2 - m*x)
	}
	return x & mask
}

func lanceroSimNewTruth(rows, cols int, style int) *lanceroSimTruth {
	t := &lanceroSimTruth{rows: rows, cols: cols, W: rows * cols, frameSize: rows * cols * 4}
	switch style {
	case 0: // plain counters: small errors around zero, feedback in mid range
		t.eMul, t.eBase, t.fMul, t.fBase = 1, 0xfff0, 1, 8000
	case 1: // full-range errors, feedback counting up from 0 (saturation at 0 with negative mix*err)
		t.eMul, t.eBase, t.fMul, t.fBase = 40503, 17, 1, 0
	case 2: // full-range errors, feedback just below the top (saturation at 65535)
		t.eMul, t.eBase, t.fMul, t.fBase = 257, 0x8000, 1, 16384-700
	default: // both halves scattered over their full range
		t.eMul, t.eBase, t.fMul, t.fBase = 0xffff, 0x7ffd, 5419, 3
	}
	t.eInv = lanceroSimInverse(t.eMul, 16)
	t.fInv = lanceroSimInverse(t.fMul, 14)
	return t
}

// E is the error half of word idx (readout order) of frame n.
func (t *lanceroSimTruth) E(n, idx int) uint16 {
	k := uint32(n*t.W + idx)
	return uint16(k*t.eMul + t.eBase)
}

// F is the feedback half without its flag bits.
func (t *lanceroSimTruth) F(n, idx int) uint16 {
	k := uint32(n*t.W + idx)
	return uint16(((k*t.fMul + t.fBase) & 0x3fff) << 2)
}

// flag is the external-trigger level during row r of frame n.
func (t *lanceroSimTruth) flag(n, r int) bool {
	g := n*t.rows + r
	return g >= 0 && g < len(t.trig) && t.trig[g]
}

// FB is the feedback half as the firmware sends it (flag bits included).
func (t *lanceroSimTruth) FB(n, idx int) uint16 {
	v := t.F(n, idx)
	r := idx / t.cols
	if r == 0 {
		v |= 1
	}
	if t.flag(n, r) {
		v |= 2
	}
	return v
}

// whichE says which word number an error value belongs to (k mod 2^16).
func (t *lanceroSimTruth) whichE(v uint16) int {
	return int(((uint32(v) - t.eBase) * t.eInv) & 0xffff)
}

// whichF says which word number a feedback value belongs to (k mod 2^14).
func (t *lanceroSimTruth) whichF(v uint16) int {
	return int(((uint32(v>>2) - t.fBase) * t.fInv) & 0x3fff)
}

// put writes the bytes [from, from+len(dst)) of the endless stream into dst.
func (t *lanceroSimTruth) put(dst []byte, from int64) {
	var wbuf [4]byte
	for i := 0; i < len(dst); {
		pos := from + int64(i)
		k := pos / 4
		off := int(pos % 4)
		n := int(k / int64(t.W))
		idx := int(k % int64(t.W))
		binary.LittleEndian.PutUint16(wbuf[0:], t.E(n, idx))
		binary.LittleEndian.PutUint16(wbuf[2:], t.FB(n, idx))
		i += copy(dst[i:], wbuf[off:])
	}
}

func (t *lanceroSimTruth) describe(k int) string {
	n, idx := k/t.W, k%t.W
	return fmt.Sprintf("frame %d row %d column %d", n, idx/t.cols, idx%t.cols)
}

// ---------------------------------------------------------------------------------
// the card

// lanceroSimGap is one injected loss: nbytes of the stream starting at truth offset at.
type lanceroSimGap struct {
	at         int64
	nbytes     int
	firstFrame int // first and last frame that lost at least one byte
	lastFrame  int
	whole      bool // a whole number of frames
	seenAfter  int  // blocks the harness had received when the gap was made
}

type lanceroSimCard struct {
	env   *simrt.Env
	truth *lanceroSimTruth

	framePeriod time.Duration // firmware pace on the fake clock
	waitStep    time.Duration // polling step of Wait()
	waitFrames  int           // Wait() returns when this many frames are available (scaled-down threshold)

	isOpen       bool
	adapRunning  bool
	collRunning  bool
	ringLength   int
	ringThresh   int
	starts       int  // successful StartCollector calls
	running      bool // the harness's core loop is taking blocks (chunking regime "run")
	allowFaults  bool
	cutStyle     int
	gapsLeft     int
	gapWhole     bool
	blocksSeen   func() int
	onCaptureRun func(firstFrame int)

	// stream state
	pos       int64     // truth offset of the next byte the firmware produces
	capStart  time.Time // when the collector started
	capBytes  int64     // bytes produced (or lost) since capStart
	ring      []byte    // produced and unreleased bytes; ring[0] is at the read index
	visible   int       // bytes of ring already returned by AvailableBuffer (write index as last shown)
	released  int64     // bytes released since the adapter started (alignment bookkeeping)
	gapInRing int       // ring offset of an injected gap not yet released past (-1: none)
	gapBytes  int       // its length
	capPos    int64     // truth offset at which the capture began

	gaps []lanceroSimGap

	// statistics for the evidence sample
	nReads, nReleases int
	maxChunk          int
}

func lanceroSimNewCard(env *simrt.Env, truth *lanceroSimTruth, framePeriod time.Duration) *lanceroSimCard {
	return &lanceroSimCard{env: env, truth: truth, framePeriod: framePeriod, waitStep: 10 * time.Millisecond, waitFrames: 4, isOpen: true, gapInRing: -1}
}

// ChangeRingBuffer is part of lancero.Lanceroer. The real adapter rejects lengths that are
// not a multiple of the 32-byte bus width and thresholds above half the length.
func (lc *lanceroSimCard) ChangeRingBuffer(length, threshold int) error {
	if length <= 0 || length%32 != 0 || threshold <= 0 || threshold*2 > length {
		return fmt.Errorf("lanceroSimCard.ChangeRingBuffer(%d, %d): invalid sizes", length, threshold)
	}
	lc.ringLength, lc.ringThresh = length, threshold
	// allocating a new buffer stops the adapter
	lc.adapRunning = false
	lc.resetRing()
	return nil
}

func (lc *lanceroSimCard) resetRing() {
	lc.ring = lc.ring[:0]
	lc.visible = 0
	lc.released = 0
	lc.gapInRing = -1
}

// Close is part of lancero.Lanceroer.
func (lc *lanceroSimCard) Close() error {
	if !lc.isOpen {
		return fmt.Errorf("lanceroSimCard.Close: already closed")
	}
	lc.isOpen = false
	return nil
}

// StartAdapter is part of lancero.Lanceroer (errors if already started, like the repository's stub).
func (lc *lanceroSimCard) StartAdapter(waitSeconds, verbosity int) error {
	if lc.adapRunning {
		return fmt.Errorf("lanceroSimCard.StartAdapter: already started")
	}
	lc.adapRunning = true
	lc.resetRing() // the read index restarts at 0
	lc.beginCapture()
	return nil
}

// StopAdapter is part of lancero.Lanceroer.
func (lc *lanceroSimCard) StopAdapter() error {
	if !lc.adapRunning {
		return fmt.Errorf("lanceroSimCard.StopAdapter: not started")
	}
	lc.adapRunning = false
	lc.resetRing()
	return nil
}

// CollectorConfigure is part of lancero.Lanceroer.
func (lc *lanceroSimCard) CollectorConfigure(linePeriod, dataDelay int, channelMask uint32, frameLength int) error {
	return nil
}

// StartCollector is part of lancero.Lanceroer.
func (lc *lanceroSimCard) StartCollector(simulate bool) error {
	if lc.collRunning {
		return fmt.Errorf("lanceroSimCard.StartCollector: collector started already")
	}
	lc.collRunning = true
	lc.starts++
	lc.beginCapture()
	return nil
}

// StopCollector is part of lancero.Lanceroer.
func (lc *lanceroSimCard) StopCollector() error {
	if !lc.collRunning {
		return fmt.Errorf("lanceroSimCard.StopCollector: collector stopped already")
	}
	lc.collRunning = false
	return nil
}

// beginCapture: data start to flow into the ring when both the adapter and the collector
// run. The firmware has been cycling through its rows all along, so the first captured word
// is wherever the readout happens to be: a tape-chosen number of words into a frame.
func (lc *lanceroSimCard) beginCapture() {
	if !lc.adapRunning || !lc.collRunning {
		return
	}
	t := lc.truth
	// skip to the next frame boundary plus a drawn phase (0 = starts exactly on a frame)
	frame := (lc.pos + int64(t.frameSize) - 1) / int64(t.frameSize)
	phase := simrt.Draw(t.W)
	lc.pos = frame*int64(t.frameSize) + int64(4*phase)
	lc.capStart = time.Now()
	lc.capBytes = 0
	lc.capPos = lc.pos
	lc.env.Op("card: capture #%d starts at frame %d word %d", lc.starts, frame, phase)
	if lc.starts >= 2 && lc.onCaptureRun != nil {
		lc.onCaptureRun(int(frame))
	}
}

// produce appends what the firmware has sent since the last call.
func (lc *lanceroSimCard) produce() {
	if !lc.adapRunning || !lc.collRunning {
		return
	}
	want := int64(time.Since(lc.capStart)) * int64(lc.truth.W) / int64(lc.framePeriod) * 4
	n := int(want - lc.capBytes)
	if n <= 0 {
		return
	}
	if len(lc.ring)+n > lc.ringLength && lc.ringLength > 0 {
		simrt.Fail("harness.card", "harness:card-ring-overflow", "the simulated ring (%d bytes) overflowed: %d unreleased + %d new", lc.ringLength, len(lc.ring), n)
	}
	old := len(lc.ring)
	lc.ring = append(lc.ring, make([]byte, n)...)
	lc.truth.put(lc.ring[old:], lc.pos)
	lc.pos += int64(n)
	lc.capBytes = want
}

// Wait is part of lancero.Lanceroer. The real adapter returns from Wait when at least the
// threshold amount of data (100 pages while sampling, thousands of frames in a run) is
// available; the stub of the repository sleeps 10 ms, which at its pace is hundreds of frames.
// Here the threshold is scaled down with the frame rate: Wait returns once waitFrames whole
// frames are available.
func (lc *lanceroSimCard) Wait() (time.Time, time.Duration, error) {
	t0 := time.Now()
	for i := 0; i < 10000; i++ {
		lc.produce()
		if !lc.adapRunning || !lc.collRunning || len(lc.ring) >= lc.waitFrames*lc.truth.frameSize {
			break
		}
		time.Sleep(lc.waitStep)
	}
	return time.Now(), time.Since(t0), nil
}

// align returns the largest l <= n such that the stream offset of ring[l] is a word boundary.
func (lc *lanceroSimCard) align(n int) int {
	n -= int((lc.released + int64(n)) % 4)
	if n < 0 {
		n = 0
	}
	return n
}

// AvailableBuffer is part of lancero.Lanceroer.
func (lc *lanceroSimCard) AvailableBuffer() ([]byte, time.Time, error) {
	now := time.Now()
	if !lc.adapRunning {
		return nil, now, fmt.Errorf("lanceroSimCard.AvailableBuffer: adapter not started")
	}
	if !lc.collRunning {
		return nil, now, fmt.Errorf("lanceroSimCard.AvailableBuffer: collector not started")
	}
	if !lc.isOpen {
		return nil, now, fmt.Errorf("lanceroSimCard.AvailableBuffer: not open")
	}
	lc.produce()
	if lc.allowFaults && lc.running && lc.gapsLeft > 0 && lc.gapInRing < 0 && lc.blocksSeen() >= 1 && simrt.Chance(1, 5) {
		lc.injectGap()
	}
	avail := len(lc.ring)
	fs := lc.truth.frameSize
	l := lc.align(avail)
	if lc.running {
		switch k := simrt.Draw(12); {
		case k < 5: // everything the firmware has written, to the last whole word
		case k == 5: // the write index is read in the middle of a word
			if avail > 4 {
				l = avail - 1 - simrt.Draw(3)
			}
		case k == 6: // fewer than three frames
			l = simrt.Draw(3 * fs)
			if simrt.Draw(2) == 0 {
				l = lc.align(l)
			}
		case k == 7: // some part, whole words
			l = lc.align(simrt.Draw(avail + 1))
		case k == 8: // some part, any byte count
			l = simrt.Draw(avail + 1)
		case k == 9: // ends exactly on a frame boundary of the stream
			l = lc.align(avail)
			if fb := lc.frameBoundaryBefore(l); fb > 0 {
				l = fb
			}
		case k == 10: // nothing new since the last look
			l = lc.visible
		default: // exactly three frames beyond the read index (the minimum the reader takes)
			l = 3 * fs
		}
	} else if simrt.Draw(4) == 3 && avail > 4 {
		l = avail - 1 - simrt.Draw(3)
	}
	if l > avail {
		l = avail
	}
	if len(lc.gaps) > 0 {
		// Once bytes have been lost the write index is shown on word boundaries only: the reader's
		// answer to a read it cannot make sense of is ReleaseBytes(len(b)), which after a read ending
		// inside a 32-bit word would leave it off the word grid for good. A real write index moves in
		// units of the 32-byte bus width, so that combination is not claimed (see notes/C04.md).
		l = lc.align(l)
	}
	if l < lc.visible {
		l = lc.visible // a write index never moves backwards
	}
	lc.visible = l
	out := make([]byte, l)
	copy(out, lc.ring[:l])
	// "the best estimate of the time stamp taken immediately after the end of the segment": the
	// moment the firmware sent the last byte returned (= now, to within a word, unless the write
	// index shown lags behind the firmware).
	endTruth := lc.pos - int64(len(lc.ring)-l)
	if lc.gapInRing >= l {
		endTruth -= int64(lc.gapBytes)
	}
	if stamp := lc.capStart.Add(time.Duration((endTruth - lc.capPos) * int64(lc.framePeriod) / int64(lc.truth.frameSize))); stamp.Before(now) {
		now = stamp
	}
	lc.nReads++
	simrt.Logf("card: AvailableBuffer -> %d bytes (%d produced and unreleased), read index at stream byte %d", l, avail, lc.pos-int64(len(lc.ring)))
	if l > lc.maxChunk {
		lc.maxChunk = l
	}
	if lc.running {
		if l < 3*fs {
			simrt.Hit("chunk-below-3-frames")
		}
		if (lc.released+int64(l))%4 != 0 {
			simrt.Hit("chunk-ends-mid-word")
		} else if lc.frameBoundaryBefore(l) != l {
			simrt.Hit("chunk-ends-mid-frame")
		}
		if l >= 12*fs {
			simrt.Hit("chunk-12-frames-or-more")
		}
	}
	return out, now, nil
}

// frameBoundaryBefore returns the largest l' <= l such that ring[l'] starts a frame of the
// stream as delivered (no gap inside the ring), or -1.
func (lc *lanceroSimCard) frameBoundaryBefore(l int) int {
	if lc.gapInRing >= 0 {
		return -1
	}
	// truth offset of ring[l]
	off := lc.pos - int64(len(lc.ring)-l)
	l -= int(off % int64(lc.truth.frameSize))
	return l
}

// injectGap removes a byte range that has not been shown to the driver's user yet.
func (lc *lanceroSimCard) injectGap() {
	t := lc.truth
	fs := t.frameSize
	start := lc.visible + int((4-(lc.released+int64(lc.visible))%4)%4) // first hidden word boundary
	atBoundary := start == lc.visible
	where := simrt.DrawFault(4)
	switch where {
	case 0: // right at the write index last shown (what a ring overflow does)
	case 1: // within the frame that follows
		start += 4 * simrt.DrawFault(t.W)
		atBoundary = false
	default: // anywhere in the next few frames
		start += 4 * simrt.DrawFault(5*t.W)
		atBoundary = false
	}
	var nwords int
	if lc.gapWhole {
		nwords = (1 + simrt.DrawFault(3)) * t.W
	} else {
		nwords = 1 + simrt.DrawFault(3*t.W)
		if nwords%t.W == 0 {
			nwords++
		}
	}
	// make sure the firmware has produced up to the end of the range, then cut it out
	need := start + 4*nwords
	if extra := need - len(lc.ring); extra > 0 {
		old := len(lc.ring)
		lc.ring = append(lc.ring, make([]byte, extra)...)
		t.put(lc.ring[old:], lc.pos)
		lc.pos += int64(extra)
		lc.capBytes += int64(extra) // the firmware is ahead of the clock by this much: it produces nothing until the clock catches up
	}
	at := lc.pos - int64(len(lc.ring)-start)
	lc.ring = append(lc.ring[:start], lc.ring[start+4*nwords:]...)
	g := lanceroSimGap{at: at, nbytes: 4 * nwords, firstFrame: int(at / int64(fs)), lastFrame: int((at + int64(4*nwords) - 1) / int64(fs)), whole: lc.gapWhole, seenAfter: lc.blocksSeen()}
	lc.gaps = append(lc.gaps, g)
	lc.gapInRing = start
	lc.gapBytes = 4 * nwords
	lc.gapsLeft--
	if lc.gapWhole {
		simrt.Fault("gap-whole-frames")
	} else {
		simrt.Fault("gap")
	}
	if atBoundary {
		simrt.Hit("gap-at-chunk-boundary")
	}
	if at%int64(fs) == 0 {
		simrt.Hit("gap-starts-on-frame-boundary")
	}
	lc.env.Op("fault: %d bytes lost from the stream at frame %d word %d (%d bytes beyond the read index, write index last shown at %d)", 4*nwords, g.firstFrame, int(at%int64(fs))/4, start, lc.visible)
}

// ReleaseBytes is part of lancero.Lanceroer.
func (lc *lanceroSimCard) ReleaseBytes(nBytes int) error {
	lc.nReleases++
	if nBytes < 0 {
		simrt.Fail("C04.driver-contract", "lancero:release-negative", "ReleaseBytes(%d)", nBytes)
	}
	if nBytes > lc.visible {
		simrt.Fail("C04.driver-contract", "lancero:release-more-than-delivered", "ReleaseBytes(%d), but only %d bytes have been returned by AvailableBuffer and not released yet (released twice, or released beyond the data handed out)", nBytes, lc.visible)
	}
	simrt.Logf("card: ReleaseBytes(%d) of %d delivered", nBytes, lc.visible)
	lc.ring = lc.ring[nBytes:]
	lc.visible -= nBytes
	lc.released += int64(nBytes)
	if lc.gapInRing >= 0 {
		lc.gapInRing -= nBytes
		if lc.gapInRing <= 0 {
			lc.gapInRing = -1 // the join is at or before the read index: what is left is contiguous
		}
	}
	return nil
}

// String keeps spew.Sdump (called by sampleCard on its card) from walking the whole simulation.
func (lc *lanceroSimCard) String() string { return "lanceroSimCard" }

// InspectAdapter is part of lancero.Lanceroer.
func (lc *lanceroSimCard) InspectAdapter() uint32 { return 0 }
