//go:build verif

package dastard

// C09: group triggers deliver exactly the connected secondaries; edits act as a set.
// Pipeline world with a request history over add / delete / stop-coupling /
// err-fb-coupling with in- and out-of-range indices, interleaved with blocks.
// Sources and receivers of every trigger kind (none, auto, edge/level mixes, edge-multi),
// blocks of many lengths, trigger settings and record lengths replaced between blocks.

import (
	"fmt"
	"sort"
	"time"

	"verif/simrt"
)

func init() {
	simrt.Register(&simrt.Check{Name: "C09", Property: "C09", Body: c09Body, Classify: classify,
		Real: []string{"TriggerBroker (AddConnection, DeleteConnection, StopTriggerCoupling, Distribute)", "ProcessSegments (primaries / barrier / secondaries)",
			"TriggerData (auto, level, edge, edge-multi in its three record modes), TriggerDataSecondary, TrimStream",
			"RPC methods AddGroupTriggerCoupling, DeleteGroupTriggerCoupling, StopTriggerCoupling, CoupleErrToFB, CoupleFBToErr, ConfigureTriggers, ConfigurePulseLengths"},
		Stub: []string{"hardware (ScriptedSource)", "ZMQ publishers (sinks)", "net/rpc transport", "Lancero source for err/fb coupling (generic source: the request must be refused and change nothing)"}})
}

type pair struct{ s, r int }

func connString(m map[pair]bool) string {
	var ps []pair
	for p := range m {
		ps = append(ps, p)
	}
	sort.Slice(ps, func(i, j int) bool { return ps[i].s < ps[j].s || ps[i].s == ps[j].s && ps[i].r < ps[j].r })
	return fmt.Sprint(ps)
}

func c09Body(env *simrt.Env) {
	nchan := 2 + simrt.Draw(5)
	nsamp, npre := drawLengths()
	if nsamp > 50 {
		nsamp, npre = 25, 8
	}
	rate := 10000.0
	w := newPipeWorld(env, nchan, npre, nsamp, rate)
	resetViper(env.Dir)
	for c := range w.signed {
		w.signed[c] = simrt.Draw(2) == 0
	}
	w.F0 = FrameIndex([]int64{0, 5, 1 << 36}[simrt.Draw(3)])
	w.T0 = time.Now()
	// The source has one to three runs. A run ends by a client's Stop or (a fault) by itself: the hardware
	// delivers an error block, or the data channel closes.
	nruns := 1 + simrt.Draw(3)
	env.Op("group-trigger world nchan=%d nsamp=%d npre=%d runs=%d", nchan, nsamp, npre, nruns)

	conn := map[pair]bool{} // reference connection set
	var tss []TriggerState  // trigger settings of the current run
	var epochs [][]epoch    // per channel: the record lengths in force during the current run (one epoch per change)
	recStart := 0           // the current run's first record
	var specs []streamSpec  // of the current run's streams
	var edges []int         // block ends of the current run
	emtRun := false         // the current run may have edge-multi channels
	runRecCount := func(c int) int {
		n := 0
		for _, r := range w.sk.recs[recStart:] {
			if r.rec.channelIndex == c {
				n++
			}
		}
		return n
	}
	valid := func(i int) bool { return i >= 0 && i < nchan }
	// configureChannel draws trigger settings for one channel and requests them: nothing enabled, auto only, a mix
	// of edge / level / auto, or the edge-multi trigger (three record modes, with and without the kink model). An
	// edge-multi channel gets pulses that suit its settings in the part of its stream that is not fed yet.
	configureChannel := func(c int) {
		nsamp, npre := w.nsamp, w.npre
		var ts TriggerState
		k := simrt.Draw(8)
		if !emtRun && k >= 5 {
			k -= 3
		}
		switch {
		case k == 0: // no trigger enabled on this channel
			ts = TriggerState{AutoDelay: 250 * time.Millisecond, EdgeLevel: 100, EdgeRising: true, LevelLevel: 4000}
		case k == 1:
			ts = TriggerState{AutoTrigger: true, AutoDelay: time.Duration(float64(nsamp+simrt.Draw(2*nsamp)) / rate * float64(time.Second)), EdgeLevel: 100, EdgeRising: true}
		case k <= 4:
			ts = genTriggerState(specs[c], w.signed[c], nsamp, rate, true)
		default:
			ts = genEMTState(specs[c], w.signed[c], nsamp, npre)
		}
		var ok bool
		st := FullTriggerState{ChannelIndices: []int{c}, TriggerState: ts}
		if err := w.sc.ConfigureTriggers(&st, &ok); err != nil {
			if !ts.EdgeMulti {
				simrt.Fail("harness.configure", "harness:configure", "ConfigureTriggers rejected: %v", err)
			}
			// edge-multi settings that do not suit the record lengths an earlier request left in force
			// (a short side and the kink model): refused, the channel keeps what it had
			simrt.Hit("edge-multi-request-refused")
			env.Op("chan %d: %s refused (%v)", c, c09TsString(&ts), err)
			for _, f := range w.ss.ComputeFullTriggerState() {
				for _, ch := range f.ChannelIndices {
					if ch == c {
						st.TriggerState = f.TriggerState
					}
				}
			}
			ts = st.TriggerState
		} else if ts.EdgeMulti {
			np := c09AddPulses(w.stream[c], w.sent, w.signed[c], specs[c].noise, &ts, edges, nsamp, npre)
			env.Op("chan %d: %d pulses added for the edge-multi trigger", c, np)
		}
		tss[c] = st.TriggerState
		env.Op("chan %d: %s", c, c09TsString(&ts))
	}
	kindOf := func(c int) string { return c09Kind(&tss[c]) }
	drawIdx := func() int {
		if simrt.Draw(5) == 0 {
			return simrt.Draw(nchan+7) - 3 // includes out-of-range values
		}
		return simrt.Draw(nchan)
	}
	drawMap := func() map[int][]int {
		m := map[int][]int{}
		for i := 0; i < 1+simrt.Draw(3); i++ {
			s := drawIdx()
			for j := 0; j < 1+simrt.Draw(3); j++ {
				m[s] = append(m[s], drawIdx())
			}
		}
		return m
	}
	setOf := func(gts GroupTriggerState, what string) map[pair]bool {
		got := map[pair]bool{}
		for s, rxs := range gts.Connections {
			for _, r := range rxs {
				if got[pair{s, r}] {
					simrt.Fail("C09.reported", "group:report-duplicate", "connection %d->%d reported twice after %s", s, r, what)
				}
				got[pair{s, r}] = true
			}
		}
		return got
	}
	checkReported := func(what string) {
		w.drain()
		m, ok := w.sk.lastMsg("GROUPTRIGGER")
		if !ok {
			simrt.Fail("C09.reported", "group:no-report", "no GROUPTRIGGER status after %s", what)
		}
		gts, isGts := m.state.(GroupTriggerState)
		if !isGts {
			simrt.Fail("C09.reported", "group:report-type", "GROUPTRIGGER status carries %T", m.state)
		}
		got := setOf(gts, what)
		if connString(got) != connString(conn) {
			simrt.Fail("C09.reported", "group:reported-set-differs", "after %s the reported connections are %s, set semantics give %s", what, connString(got), connString(conn))
		}
	}
	add := func(m map[int][]int) {
		var ok bool
		err := w.sc.AddGroupTriggerCoupling(GroupTriggerState{Connections: m}, &ok)
		env.Op("add %v -> %v", m, err)
		for s, rxs := range m {
			for _, r := range rxs {
				if valid(s) && valid(r) && s != r {
					conn[pair{s, r}] = true
				} else if !valid(s) || !valid(r) {
					simrt.Hit("out-of-range-index-in-add")
				}
			}
		}
	}
	del := func(m map[int][]int) {
		var ok bool
		err := w.sc.DeleteGroupTriggerCoupling(&GroupTriggerState{Connections: m}, &ok)
		env.Op("delete %v -> %v", m, err)
		for s, rxs := range m {
			for _, r := range rxs {
				if !conn[pair{s, r}] {
					simrt.Hit("delete-of-nonexistent-pair")
				}
				delete(conn, pair{s, r})
			}
		}
	}
	request := func() {
		var ok bool
		switch simrt.Draw(11) {
		case 0, 1, 2, 9:
			add(drawMap())
			checkReported("add")
		case 10:
			// One channel's trigger settings are replaced between two blocks (any kind to any kind): what a
			// source reports from here on, and what a receiver triggers on by itself, changes; what a receiver
			// owes its sources does not.
			c := simrt.Draw(nchan)
			was := kindOf(c)
			configureChannel(c)
			w.drain()
			epochs[c] = append(epochs[c], epoch{from: w.sent, recFrom: runRecCount(c), ts: tss[c], npre: w.npre, nsamp: w.nsamp})
			simrt.Hit("trigger-settings-replaced-mid-run:" + was + "->" + kindOf(c))
			for p := range conn {
				if p.s == c || p.r == c {
					simrt.Hit("trigger-settings-replaced-mid-run-on-a-connected-channel")
					break
				}
			}
		case 8:
			// A pulse-length request between two blocks: all channels get the new lengths at once (there are no
			// per-channel lengths in dastard), while every channel still holds history cut to the old ones. The
			// server may refuse (lengths with a short side do not suit an edge-multi channel with the kink
			// model): the harness follows the answer.
			ns, np := drawLengths()
			if ns > 50 {
				l := [][2]int{{8, 5}, {10, 3}, {12, 9}, {25, 22}, {7, 3}}[simrt.Draw(5)]
				ns, np = l[0], l[1]
			}
			err := w.sc.ConfigurePulseLengths(SizeObject{Nsamp: ns, Npre: np}, &ok)
			env.Op("ConfigurePulseLengths nsamp=%d npre=%d -> %v", ns, np, err)
			w.drain()
			if err != nil {
				simrt.Hit("pulse-length-request-refused")
			} else if ns != w.nsamp || np != w.npre {
				simrt.Hit("pulse-length-change-mid-run")
				w.nsamp, w.npre = ns, np
				for c := 0; c < nchan; c++ {
					epochs[c] = append(epochs[c], epoch{from: w.sent, recFrom: runRecCount(c), ts: tss[c], npre: np, nsamp: ns})
				}
			}
		case 3, 4:
			del(drawMap())
			checkReported("delete")
		case 5:
			var dummy bool
			err := w.sc.StopTriggerCoupling(&dummy, &ok)
			env.Op("stop coupling -> %v", err)
			conn = map[pair]bool{}
			checkReported("stop-coupling")
		case 6:
			on := simrt.Draw(2) == 0
			err := w.sc.CoupleErrToFB(&on, &ok)
			env.Op("CoupleErrToFB(%v) -> %v", on, err)
			simrt.Hit("err-fb-coupling-request")
		default:
			on := simrt.Draw(2) == 0
			err := w.sc.CoupleFBToErr(&on, &ok)
			env.Op("CoupleFBToErr(%v) -> %v", on, err)
			simrt.Hit("err-fb-coupling-request")
		}
	}
	// requestWithStatusConsumerBehind (a fault): the consumer of the status queue stops taking messages (a slow
	// subscriber) while status traffic goes on - a monitoring client asks for the full status (two messages per
	// request), the last free place is taken by the answer to a query (an add of nothing) - until the queue is
	// full; then an add or delete request is served (sometimes with a second client's SendAllStatus waiting for
	// room next to it). The consumer resumes a drawn number of scheduler steps later. Whatever was lost or kept
	// on the way, once everything is drained the latest GROUPTRIGGER message must be the set in force.
	requestWithStatusConsumerBehind := func() {
		w.sync()
		w.drain()
		simrt.Stall("harness:sink-status", 1<<30)
		env.Op("the status consumer falls behind")
		armedAt := -1
		k := 3 + simrt.Draw(150)
		simrt.GoHarness("status-consumer-resumes", func() {
			// k steps after the coupling request is issued (or, as a safety net, 6000 steps from now)
			for s0 := simrt.Steps(); !(armedAt >= 0 && simrt.Steps()-armedAt >= k) && simrt.Steps()-s0 < 6000; {
				simrt.Gosched()
			}
			simrt.Unstall()
		})
		leave := []int{0, 0, 0, 0, 1, 3}[simrt.Draw(6)] // places left free in the queue (mostly none)
		for n := 0; cap(clientMessageChan)-len(clientMessageChan) > leave && n < 40; n++ {
			var ok bool
			if cap(clientMessageChan)-len(clientMessageChan) >= 2 {
				var dummy string
				w.sc.SendAllStatus(&dummy, &ok)
			} else {
				w.sc.AddGroupTriggerCoupling(GroupTriggerState{Connections: map[int][]int{}}, &ok)
			}
		}
		env.Op("status traffic: %d of %d places of the queue taken", len(clientMessageChan), cap(clientMessageChan))
		trafficDone := make(chan struct{})
		nsend := []int{0, 0, 1, 3}[simrt.Draw(4)]
		simrt.GoHarness("second-client", func() {
			for i := 0; i < nsend; i++ {
				var dummy string
				var ok bool
				w.sc.SendAllStatus(&dummy, &ok)
			}
			close(trafficDone)
		})
		if len(clientMessageChan) == cap(clientMessageChan) {
			simrt.Hit("status-queue-full-when-a-coupling-request-is-served")
		}
		armedAt = simrt.Steps()
		what := "add with the status consumer behind"
		if len(conn) > 0 && simrt.Draw(2) == 0 {
			// delete an existing connection (the request certainly changes the set)
			var ps []pair
			for p := range conn {
				ps = append(ps, p)
			}
			sort.Slice(ps, func(i, j int) bool { return ps[i].s < ps[j].s || ps[i].s == ps[j].s && ps[i].r < ps[j].r })
			p := ps[simrt.Draw(len(ps))]
			del(map[int][]int{p.s: {p.r}})
			what = "delete with the status consumer behind"
		} else {
			add(drawMap())
		}
		<-trafficDone
		checkReported(what)
	}

	restartKeeps := "" // what a restart does to a non-empty connection set, as observed so far in this history
	restartKeepsAfter := ""
	lastEnd := ""
	restartsWithConn := map[string]bool{}
	for run := 0; run < nruns; run++ {
		// the record lengths this run starts with (an earlier run may have changed them)
		nsamp, npre := w.nsamp, w.npre
		// this run's blocks and ground-truth streams
		nblocks := 2 + simrt.Draw(9)
		if run == 0 {
			nblocks = 6 + simrt.Draw(25)
			if nruns > 1 {
				nblocks = 4 + simrt.Draw(12)
			}
		}
		var blocks []int
		total := 0
		for i := 0; i < nblocks; i++ {
			var n int
			switch simrt.Draw(9) {
			case 0:
				n = nsamp / 2
			case 1:
				n = nsamp
			case 2:
				n = 2 * nsamp
			case 3:
				n = 3*nsamp + 1
			case 4:
				n = 5
			case 5: // very short blocks (a postponed primary stays postponed over several of them)
				n = 1 + simrt.Draw(4)
			case 6: // shorter than a record
				n = 1 + simrt.Draw(nsamp)
			case 7: // the post-trigger part, give or take
				n = nsamp - npre - 1 + simrt.Draw(3)
			default: // longer than a record
				n = nsamp + 1 + simrt.Draw(2*nsamp)
			}
			if n < 1 {
				n = 1
			}
			blocks = append(blocks, n)
			total += n
		}
		edges = edgesOf(blocks)
		specs = make([]streamSpec, nchan)
		w.stream = make([][]RawType, nchan)
		for c := 0; c < nchan; c++ {
			w.stream[c], specs[c] = genStream(total, edges, w.signed[c], nsamp)
		}
		w.sent, w.fed = 0, 0
		w.blockFirst, w.blockStamp = nil, nil
		recStart = len(w.sk.recs)
		env.Op("run %d: blocks=%v", run, blocks)
		if err := w.startScripted(); err != nil {
			simrt.Fail("harness.start", "harness:start", "Start number %d failed: %v", run+1, err)
		}
		if run > 0 {
			// A restart: the state a client holds (the latest GROUPTRIGGER message) must equal the set the
			// restarted source actually uses. Whether a new run starts from the empty set or keeps the
			// connections of the previous one is the implementation's business (no request says either), but
			// it cannot depend on how the previous run came to its end: that is not a coupling request.
			w.drain()
			prev := conn
			conn = setOf(w.ss.ComputeGroupTriggerState(), "a restart of the source")
			checkReported("a restart of the source")
			simrt.Hit("restart-with-connections-reported")
			if lastEnd != "a client's Stop" {
				simrt.Hit("restart-after-the-run-ended-by-itself")
			}
			if len(prev) > 0 {
				keeps := ""
				switch connString(conn) {
				case connString(map[pair]bool{}):
					keeps = "starts from the empty set"
				case connString(prev):
					keeps = "keeps the connections"
				default:
					simrt.Fail("C09.restart", "group:restart-set-neither-empty-nor-previous", "the run before this restart ended (by %s) with connections %s; the restarted source uses %s", lastEnd, connString(prev), connString(conn))
				}
				if restartKeeps != "" && keeps != restartKeeps {
					simrt.Fail("C09.restart", "group:restart-set-depends-on-how-the-run-ended", "restart number %d, after a run that ended by %s with connections %s, %s (now %s), but the restart after a run that ended by %s: %s; the way a run ends is not a coupling request", run, lastEnd, connString(prev), keeps, connString(conn), restartKeepsAfter, restartKeeps)
				}
				restartKeeps, restartKeepsAfter = keeps, lastEnd
				if lastEnd == "a client's Stop" {
					restartsWithConn["stop"] = true
					simrt.Hit("restart-after-stop-with-connections")
				} else {
					restartsWithConn["self"] = true
					simrt.Hit("restart-after-self-end-with-connections")
				}
				if len(restartsWithConn) == 2 {
					simrt.Hit("both-kinds-of-restart-with-connections-in-one-history")
				}
			}
		}
		// trigger settings: some channels auto (steady primaries), some edge/level, some none
		// The mix is per channel, so every kind of source meets every kind of receiver: a receiver's own trigger
		// (or the lack of one) decides nothing about the secondaries it owes. The edge-multi trigger (in its three
		// record modes, with and without the kink model) is the one trigger that reports a primary late: an edge
		// less than one record before the end of the inspectable part of a block is reported with the next block
		// (or later, when short blocks follow). Such a primary is a primary of the cycle in which it is reported.
		tss = make([]TriggerState, nchan)
		emtRun = simrt.Draw(5) != 0 // 1 run in 5 has classic triggers only
		for c := 0; c < nchan; c++ {
			configureChannel(c)
		}
		epochs = make([][]epoch, nchan)
		var emtCh []int
		for c := 0; c < nchan; c++ {
			epochs[c] = []epoch{{ts: tss[c], npre: npre, nsamp: nsamp}}
			if tss[c].EdgeMulti {
				emtCh = append(emtCh, c)
			}
		}
		if len(emtCh) > 0 && simrt.Draw(2) == 0 {
			// an edge-multi channel is the source of one or two channels from the first block on
			m := map[int][]int{}
			src := emtCh[simrt.Draw(len(emtCh))]
			for j := 0; j < 1+simrt.Draw(2); j++ {
				m[src] = append(m[src], simrt.Draw(nchan))
			}
			add(m)
			checkReported("add")
		}
		if nruns > 1 && simrt.Draw(2) == 0 {
			// connections made early in the run (so that most runs end with some)
			add(drawMap())
			checkReported("add")
		}

		for bi, n := range blocks {
			if simrt.Draw(3) == 0 {
				w.sync()
				w.drain()
				if env.Faulted() && simrt.Draw(4) == 0 {
					requestWithStatusConsumerBehind()
				} else {
					request()
				}
			}
			first := w.sk.nBatches
			firstRec := len(w.sk.recs)
			w.feedBlock(n, nil)
			w.sync()
			w.drain()
			checkCycle(w, bi, first, firstRec, conn, tss)
			if n < w.npre {
				simrt.Hit("block-shorter-than-pretrigger")
			}
			if run > 0 && len(conn) > 0 {
				simrt.Hit("cycle-with-connections-after-a-restart")
			}
		}

		// the end of the run
		lastEnd = "a client's Stop"
		endKind := 0
		if env.Faulted() {
			endKind = simrt.Draw(3)
		}
		if endKind == 0 {
			w.stop()
		} else {
			if endKind == 1 {
				lastEnd = "an error block from the hardware"
				b := new(dataBlock)
				b.err = fmt.Errorf("scripted hardware error")
				w.ss.feed <- b
			} else {
				lastEnd = "the data channel closing"
				w.ss.feed <- nil
			}
			env.Op("the run ends by %s", lastEnd)
			simrt.Fault("self-termination")
			t0 := time.Now()
			for w.ss.Running() || (endKind == 1 && w.ss.delivered <= w.fed) {
				if time.Since(t0) > 60*time.Second {
					simrt.Fail("harness.self-end", "harness:self-termination-ignored", "the source is still running 60 s after %s; tasks %v", lastEnd, simrt.AliveTaskInfo())
				}
				time.Sleep(200 * time.Microsecond)
			}
			firstRec := len(w.sk.recs)
			w.drain()
			if len(w.sk.recs) != firstRec {
				simrt.Fail("C09.secondaries", "group:records-after-the-end-of-the-run", "%d records were published after %s", len(w.sk.recs)-firstRec, lastEnd)
			}
			if simrt.Draw(2) == 0 {
				// a client that does not know the source has ended asks for Stop
				w.stop()
			} else {
				w.sc.handlePossibleStoppedSource()
			}
		}
		w.drain()
		per := make([]chanObs, nchan)
		for _, r := range w.sk.recs[recStart:] {
			c := r.rec.channelIndex
			if c < 0 || c >= nchan {
				simrt.Fail("C01.channel-index", "record:bad-channel-index", "record with channelIndex %d (nchan %d)", c, nchan)
			}
			per[c].recs = append(per[c].recs, r)
		}
		for c := 0; c < nchan; c++ {
			o := chanObs{recs: per[c].recs, epochs: epochs[c]}
			checkExcerpts(w, c, &o)
		}
	}
	env.Sample(map[string]interface{}{"nchan": nchan, "runs": nruns, "final_connections": connString(conn), "records": len(w.sk.recs)})
}

// checkCycle validates one processing cycle: the published batches split into a
// primaries part followed by a secondaries part (ProcessSegments' barrier), and each
// receiver's secondary frames are the multiset union of its sources' primary frames.
func checkCycle(w *pipeWorld, cycle, firstBatch, firstRec int, conn map[pair]bool, tss []TriggerState) {
	type batch struct {
		ch     int
		frames []FrameIndex
	}
	var bs []batch
	cur := -1
	for _, ro := range w.sk.recs[firstRec:] {
		if ro.batch != cur {
			cur = ro.batch
			bs = append(bs, batch{ch: ro.rec.channelIndex})
		}
		b := &bs[len(bs)-1]
		if ro.rec.channelIndex != b.ch {
			simrt.Fail("C09.batches", "group:mixed-batch", "cycle %d: a published batch mixes channels %d and %d", cycle, b.ch, ro.rec.channelIndex)
		}
		b.frames = append(b.frames, ro.rec.trigFrame)
	}
	hasIncoming := func(r int) bool {
		for p := range conn {
			if p.r == r {
				return true
			}
		}
		return false
	}
	var prim, sec map[int][]FrameIndex // of the split that was accepted
	try := func(split int) string {
		seenP, seenS := map[int]int{}, map[int]int{}
		for i, b := range bs {
			if i < split {
				seenP[b.ch]++
				if seenP[b.ch] > 1 {
					return "channel twice among primaries"
				}
			} else {
				seenS[b.ch]++
				if seenS[b.ch] > 1 {
					return "channel twice among secondaries"
				}
			}
		}
		prim = map[int][]FrameIndex{}
		for _, b := range bs[:split] {
			prim[b.ch] = b.frames
		}
		sec = map[int][]FrameIndex{}
		for _, b := range bs[split:] {
			sec[b.ch] = b.frames
		}
		for r := 0; r < w.nchan; r++ {
			var want []FrameIndex
			for s := 0; s < w.nchan; s++ {
				if conn[pair{s, r}] {
					want = append(want, prim[s]...)
				}
			}
			got := append([]FrameIndex(nil), sec[r]...)
			sort.Slice(want, func(i, j int) bool { return want[i] < want[j] })
			sort.Slice(got, func(i, j int) bool { return got[i] < got[j] })
			if fmt.Sprint(want) != fmt.Sprint(got) {
				return fmt.Sprintf("receiver %d: secondary frames %v, sources' primary frames %v", r, got, want)
			}
		}
		// a channel with no trigger enabled has no primaries
		for ch := range prim {
			ts := &tss[ch]
			if !ts.AutoTrigger && !ts.EdgeTrigger && !ts.LevelTrigger && !ts.EdgeMulti {
				return fmt.Sprintf("channel %d has primaries but no trigger enabled", ch)
			}
		}
		return ""
	}
	why := ""
	for split := 0; split <= len(bs); split++ {
		why = try(split)
		if why == "" {
			break
		}
	}
	if why != "" {
		var desc []string
		for _, b := range bs {
			desc = append(desc, fmt.Sprintf("ch%d%v", b.ch, b.frames))
		}
		simrt.Fail("C09.secondaries", "group:secondaries-differ", "cycle %d: no primaries|secondaries split of the published batches %v is consistent with connections %s (last attempt: %s)", cycle, desc, connString(conn), why)
	}
	for _, b := range bs {
		if hasIncoming(b.ch) {
			simrt.Hit("records-on-a-connected-receiver")
			break
		}
	}
	// which kinds of source reached which kinds of receiver in this cycle, and how far back the secondaries reach
	kind := func(c int) string { return c09Kind(&tss[c]) }
	if len(w.blockFirst) > 0 {
		cur := w.blockFirst[len(w.blockFirst)-1] // first sample of this cycle's block
		for p := range conn {
			if len(prim[p.s]) == 0 {
				continue
			}
			simrt.Hit("secondaries:" + kind(p.s) + "->" + kind(p.r))
			for _, f := range prim[p.s] {
				k := int(f - w.F0)
				if k+w.nsamp-w.npre <= cur {
					// the record was complete before this cycle's block arrived: the source reports it late
					simrt.Hit("late-primary:" + kind(p.s) + "->" + kind(p.r))
					if k-w.npre < cur-w.nsamp-w.npre {
						simrt.Hit("late-primary-more-than-a-record-before-the-block:" + kind(p.s) + "->" + kind(p.r))
					}
					if len(w.blockFirst) > 1 && k+w.nsamp-w.npre <= w.blockFirst[len(w.blockFirst)-2] {
						simrt.Hit("late-primary-by-two-blocks-or-more")
					}
				}
			}
		}
		for s, fs := range prim {
			if tss[s].EdgeMulti && tss[s].EMTState.mode == EMTRecordsTwoFullLength {
				for i := 1; i < len(fs); i++ {
					if d := fs[i] - fs[i-1]; d > 0 && int(d) < w.nsamp {
						for p := range conn {
							if p.s == s {
								simrt.Hit("overlapping-primaries-reach-a-receiver")
								break
							}
						}
					}
				}
			}
		}
	}
	for p := range conn {
		if conn[pair{p.r, p.s}] {
			simrt.Hit("receiver-that-is-also-a-source")
			break
		}
	}
}

func c09Kind(ts *TriggerState) string {
	switch {
	case ts.EdgeMulti:
		return "edge-multi"
	case ts.EdgeTrigger || ts.LevelTrigger:
		return "edge/level"
	case ts.AutoTrigger:
		return "auto"
	}
	return "none"
}

func c09TsString(ts *TriggerState) string {
	if !ts.EdgeMulti {
		return tsString(ts)
	}
	return fmt.Sprintf("edge-multi level=%d nmonotone=%d short-records=%v contaminated-records=%v kink-model=%v", ts.EdgeMultiLevel, ts.EdgeMultiVerifyNMonotone,
		ts.EdgeMultiMakeShortRecords, ts.EdgeMultiMakeContaminatedRecords, !ts.EdgeMultiDisableZeroThreshold)
}

// c09AddPulses adds pulses that suit an edge-multi setting (steep enough for its level, rising or falling as its
// sign says, monotone for as long as it verifies) to the part of a ground-truth stream that is not fed yet (from). Where they
// lie with respect to the block ends decides when the source reports them: an edge in the last record length of
// the part of a block the trigger may inspect (everything but the last nsamp-npre samples) is held back until
// the following block, or longer when short blocks follow.
func c09AddPulses(s []RawType, from int, signed bool, noise int, ts *TriggerState, edges []int, nsamp, npre int) int {
	npost := nsamp - npre
	lo, hi := 0, 65535
	if signed {
		lo, hi = -32768, 32767
	}
	T := int(ts.EdgeMultiLevel)
	if noise > 100 {
		noise = 100 // (a stream of full-scale noise triggers by itself)
	}
	step := 2*T + 3*noise + 20
	if T < 1 {
		step = 2*T - 3*noise - 20
	}
	made := 0
	for _, e := range edges {
		if simrt.Draw(5) >= 3 {
			continue
		}
		var pos int
		switch simrt.Draw(5) {
		case 0, 1, 2: // less than one record before the end of the inspectable part of the block
			pos = e - npost - 1 - simrt.Draw(nsamp)
		case 3: // right at the end of the inspectable part
			pos = e - npost - 2 + simrt.Draw(5)
		default: // anywhere in the two records before the end of the block
			pos = e - 1 - simrt.Draw(2*nsamp)
		}
		if pos < npre+2 || pos < from || pos >= len(s) {
			continue
		}
		rise := ts.EdgeMultiVerifyNMonotone + simrt.Draw(2)
		if rise < 1 {
			rise = 1
		}
		tau := float64(1 + nsamp/4)
		for i := pos; i < len(s) && i < pos+rise+6*int(tau); i++ {
			var a float64
			if i-pos < rise {
				a = float64(step * (i - pos + 1))
			} else {
				a = float64(step * rise)
				for k := 0; k < i-pos-rise+1; k++ {
					a *= 1 - 1/tau
				}
			}
			v := interp(s[i], signed) + int(a)
			if v < lo {
				v = lo
			}
			if v > hi {
				v = hi
			}
			s[i] = RawType(uint16(v))
		}
		made++
	}
	return made
}
