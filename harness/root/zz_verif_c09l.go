//go:build verif

package dastard

// C09L — the Lancero variant of C09: group triggers deliver exactly the connected secondaries and
// connection edits act as a set, with the error/feedback coupling requests on a real LanceroSource.
//
// World: real SourceControl (built as RunRPCServer builds it, minus sockets) + real LanceroSource
// (ConfigureLanceroSource, Start("LANCEROSOURCE"): sampleCard, StartRun, reader goroutine, block
// assembly goroutine, distributeData) over the simulated card of zz_verif_c09lcard.go, real core loop,
// ProcessSegments, processors, broker; sinks on the record, summary, status and heartbeat channels.
// The card sends frames only when the harness feeds it, so one feed = one block = one processing
// cycle; the harness waits for the cycle to finish (readCounter, then an empty request through the
// core loop), drains the sinks and checks the cycle.
//
// Oracle (property C09; rule ids):
//   C09L.reported     after every add / delete / stop-coupling request a GROUPTRIGGER message has been
//                     broadcast and its connections equal the reference set Conn (set semantics: adds and
//                     deletes idempotent, self pairs and pairs with an out-of-range member never enter;
//                     ErrToFB on = all (2j -> 2j+1) in, all (2j+1 -> 2j) out; FBToErr on = the opposite;
//                     either coupling off = both kinds of pair connection out, nothing else touched;
//                     stop = empty)
//   C09L.coupling     after every coupling request (and stop-coupling) the TRIGCOUPLING message carries
//                     the status requested (stop: none)
//   C09L.secondaries  per cycle there is a split of the published batches into primaries (before the
//                     barrier) and secondaries (after it) such that every primary batch satisfies its
//                     channel's own enabled criterion (auto: on the channel's cadence; edge: the edge
//                     criterion holds at the trigger frame of the ground-truth stream; no trigger enabled:
//                     no primaries) and for every receiver rx
//                     frames(secondaries of rx) == multiset union over (s,rx) in Conn of frames(primaries of s)
//                     (so: no incoming connection => no secondaries; no trigger and no incoming connection
//                     => nothing at all). A request issued while the block was in flight may have taken
//                     effect before or after that block: either connection set is accepted for that cycle.
//   C09L.excerpt      every record has the configured lengths, its channel's signedness, and its samples
//                     are the channel's own ground-truth stream around the trigger frame
//   C09L.returns      every request returns within 20 s; C09L.progress: a fed block is processed within 30 s
//   no-panic          any task
//
// Coupling requests broadcast TRIGCOUPLING, not GROUPTRIGGER: the set they leave behind is verified
// through behaviour (C09L.secondaries) and through the GROUPTRIGGER message of the next add/delete
// (the workload also uses an add of the empty map as a query).

import (
	"encoding/json"
	"fmt"
	"os"
	"path/filepath"
	"sort"
	"strings"
	"time"

	"verif/simrt"
)

func init() {
	simrt.Register(&simrt.Check{Name: "C09L", Property: "C09", Body: c09lBody, Classify: c09lClassify, MaxSteps: 60000,
		Real: []string{"LanceroSource.SetCoupling (err->fb, fb->err, none)", "TriggerBroker (AddConnection, DeleteConnection, StopTriggerCoupling, Distribute, connection-count fast path)",
			"RPC methods CoupleErrToFB, CoupleFBToErr, AddGroupTriggerCoupling, DeleteGroupTriggerCoupling, StopTriggerCoupling, ConfigureTriggers, ConfigureLanceroSource, Start, Stop",
			"LanceroSource start-up, reader, block assembly, distributeData", "CoreLoop / ProcessSegments (primaries, barrier, secondaries)", "TriggerData / TriggerDataSecondary"},
		Stub: []string{"Lancero card + driver (c09lCard: frames produced when the harness feeds them)", "ZMQ publishers (sinks)", "net/rpc transport"}})
}

func c09lClassify(site string) string {
	if strings.HasPrefix(site, "lancero_source.go") {
		return "lancero"
	}
	return classify(site)
}

type c09lPair struct{ s, r int }

func c09lConnString(m map[c09lPair]bool) string {
	var ps []c09lPair
	for p := range m {
		ps = append(ps, p)
	}
	sort.Slice(ps, func(i, j int) bool { return ps[i].s < ps[j].s || ps[i].s == ps[j].s && ps[i].r < ps[j].r })
	var sb strings.Builder
	sb.WriteString("{")
	for i, p := range ps {
		if i > 0 {
			sb.WriteString(" ")
		}
		fmt.Fprintf(&sb, "%d>%d", p.s, p.r)
	}
	sb.WriteString("}")
	return sb.String()
}

func c09lCopy(m map[c09lPair]bool) map[c09lPair]bool {
	out := make(map[c09lPair]bool, len(m))
	for p := range m {
		out[p] = true
	}
	return out
}

const (
	c09lNone = iota
	c09lAuto
	c09lEdge
)

type c09lTrig struct {
	kind     int
	delay    int // auto: frames between triggers
	ts       TriggerState
	lastPrim FrameIndex
	havePrim bool
}

type c09lWorld struct {
	env   *simrt.Env
	sc    *SourceControl
	ls    *LanceroSource
	sk    *sinks
	card  *c09lCard
	truth *c09lTruth

	rows, cols, nchan int
	nsamp, npre       int
	period            time.Duration // sample (frame) period as dastard states it
	poll              time.Duration

	n0      int         // truth frame of dastard's frame 0
	out     [][]RawType // expected output stream per channel, indexed by dastard frame number
	cycles  int         // processing cycles completed
	recMark int         // records checked so far
	prevLen int         // frames delivered before the cycle being checked
	trig    []c09lTrig

	conn          map[c09lPair]bool
	absentDeletes int // deletes of absent pairs (in-range receiver) since the set was last emptied by stop-coupling
	absentPending bool
	requests      int
	nSecondaries  int
	nPrimaries    int
}

func (w *c09lWorld) valid(i int) bool { return i >= 0 && i < w.nchan }

func c09lBody(env *simrt.Env) {
	// virtual CPU time per scheduler step of this run (see C11): used to pace the polling only
	t0 := time.Now()
	simrt.Gosched()
	delta := time.Since(t0)

	cols := 2 + simrt.Draw(3)
	rows := 2 + simrt.Draw(3)
	w := &c09lWorld{env: env, rows: rows, cols: cols, nchan: 2 * rows * cols, conn: map[c09lPair]bool{}}
	w.nsamp = []int{8, 12, 20}[simrt.Draw(3)]
	w.npre = 4 + simrt.Draw(w.nsamp-5)
	w.poll = 2 * time.Millisecond
	if 40*delta > w.poll {
		w.poll = 40 * delta
	}
	const lsync = 60000
	framePeriod := time.Duration(rows*lsync*8) * time.Nanosecond
	w.period = framePeriod
	ncycles := 8 + simrt.Draw(14)
	env.Op("lancero group-trigger world: %d columns x %d rows = %d channels, nsamp=%d npre=%d, %d cycles", cols, rows, w.nchan, w.nsamp, w.npre, ncycles)

	resetViper(env.Dir)
	w.sk = startSinks(nil, func() int {
		if w.ls == nil {
			return 0
		}
		return w.ls.readCounter
	})
	w.sc = newSourceControl(w.npre, w.nsamp)
	w.sk.drainHeartbeats(w.sc.heartbeats)

	cg := map[string]int{"SETT": 10, "seqln": rows, "lsync": lsync, "testpattern": 0, "propagationdelay": 0, "NSAMP": 1 + simrt.Draw(4), "carddelay": 0, "XPT": 0}
	cgBytes, _ := json.Marshal(cg)
	cgPath := filepath.Join(env.Dir, "cringeGlobals.json")
	if err := os.WriteFile(cgPath, cgBytes, 0644); err != nil {
		simrt.Fail("harness.setup", "harness:cringe-globals", "%v", err)
	}
	cringeGlobalsPath = cgPath
	w.truth = c09lNewTruth(rows, cols)
	w.card = c09lNewCard(env, w.truth, framePeriod)
	// what NewLanceroSource does when it finds one card
	ls := new(LanceroSource)
	ls.name = "Lancero"
	ls.nsamp = 1
	ls.channelsPerPixel = 2
	ls.devices = map[int]*LanceroDevice{0: {devnum: 0, card: w.card}}
	ls.ncards = 1
	ls.heartbeats = w.sc.heartbeats
	w.sc.lancero = ls
	w.ls = ls
	var ok bool
	if err := w.sc.ConfigureLanceroSource(&LanceroSourceConfig{FiberMask: 0xffff, CardDelay: []int{1}, ActiveCards: []int{0}, FirstRow: 1}, &ok); err != nil {
		simrt.Fail("harness.setup", "harness:configure", "ConfigureLanceroSource: %v", err)
	}
	name := "LANCEROSOURCE"
	if err := w.sc.Start(&name, &ok); err != nil {
		simrt.Fail("harness.setup", "harness:start", "Start(LANCEROSOURCE) on a card that delivers well-formed frames: %v", err)
	}
	if ls.nchan != w.nchan {
		simrt.Fail("harness.setup", "harness:geometry", "a %d-column x %d-row card was started with %d channels", cols, rows, ls.nchan)
	}
	if w.card.runFirstFrame < 0 {
		simrt.Fail("harness.setup", "harness:no-alignment-release", "StartRun returned without releasing the partial first frame")
	}
	w.n0 = w.card.runFirstFrame
	w.out = make([][]RawType, w.nchan)
	w.trig = make([]c09lTrig, w.nchan)

	// cycle 0: what StartRun left in the ring; nothing is enabled yet, so nothing may be published
	w.waitCycle()
	w.checkCycle(w.conn)

	w.configureSources()

	for i := 0; i < ncycles; i++ {
		if env.Faulted() && simrt.Chance(1, 4) {
			class := []string{"coreLoop", "lancero"}[simrt.DrawFault(2)]
			steps := 5 + simrt.DrawFault(60)
			simrt.Stall(class, steps)
			simrt.Fault("stall:" + class)
			env.Op("fault: %s stalled for %d steps", class, steps)
		}
		nreq := []int{0, 1, 1, 2}[simrt.Draw(4)]
		if i == 0 {
			nreq = 1 + simrt.Draw(2)
		}
		inflight := false
		for j := 0; j < nreq; j++ {
			kind := w.drawRequestKind()
			if j == nreq-1 && kind != c09lReqRetrigger && simrt.Draw(4) == 3 {
				// the last request of this gap is issued while the next block is in flight
				before := c09lCopy(w.conn)
				target := w.ls.dataBlockCount + 1
				w.feed()
				for deadline := time.Now().Add(30 * time.Second); w.ls.dataBlockCount < target; {
					if time.Now().After(deadline) {
						simrt.Fail("C09L.progress", "lancero:block-not-assembled", "a fed block was not assembled within 30 s (tasks %v)", simrt.AliveTaskInfo())
					}
					time.Sleep(w.poll)
				}
				simrt.Hit("request-while-block-in-flight")
				w.request(kind)
				w.waitCycle()
				w.checkCycle(before, w.conn)
				inflight = true
				break
			}
			if env.Faulted() && delta <= 200*time.Microsecond && simrt.Chance(1, 5) {
				w.requestWithStatusConsumerBehind(kind)
			} else {
				w.request(kind)
			}
		}
		if !inflight {
			w.feed()
			w.waitCycle()
			w.checkCycle(w.conn)
		}
	}

	var dummy string
	simrt.Within(30*time.Second, "C09L.returns", "coupling:stop-hangs", func() { w.sc.Stop(&dummy, &ok) })
	w.drain()
	if len(w.sk.recs) != w.recMark {
		simrt.Fail("C09L.secondaries", "group:records-outside-a-cycle", "%d records were published after the last cycle was checked", len(w.sk.recs)-w.recMark)
	}
	env.Sample(map[string]interface{}{"columns": cols, "rows": rows, "channels": w.nchan, "nsamp": w.nsamp, "npre": w.npre, "cycles": w.cycles, "requests": w.requests,
		"final_connections": len(w.conn), "primaries": w.nPrimaries, "secondaries": w.nSecondaries, "frames": len(w.out[0])})
}

// ---------------------------------------------------------------------------------
// data

// feed plans pulses for the next block on the edge-triggered channels and lets the card send it.
func (w *c09lWorld) feed() {
	k := []int{w.nsamp, w.nsamp/2 + 1, 2*w.nsamp + 3, 3, 4 * w.nsamp, w.nsamp + 1}[simrt.Draw(6)]
	nf := w.card.nextFrame()
	for c := range w.trig {
		if w.trig[c].kind != c09lEdge {
			continue
		}
		if d := simrt.Draw(4); d > 0 {
			start := nf + simrt.Draw(k)
			w.truth.pulses[c] = append(w.truth.pulses[c], c09lPulse{start: start, height: 2500})
		}
	}
	w.card.feed(k)
	w.env.Op("feed %d frames from truth frame %d", k, nf)
}

func (w *c09lWorld) drain() {
	for i := 0; len(PubRecordsChan) > 0 || len(PubSummariesChan) > 0 || len(clientMessageChan) > 0; i++ {
		time.Sleep(20 * time.Microsecond)
		if i > 200000 {
			simrt.Fail("harness.drain", "harness:drain", "sinks never drained")
		}
	}
}

// waitCycle returns when the block that is in the card's ring has been processed completely and
// everything it published has reached the sinks.
func (w *c09lWorld) waitCycle() {
	target := w.cycles + 1
	for deadline := time.Now().Add(30 * time.Second); w.ls.readCounter < target; {
		if time.Now().After(deadline) {
			simrt.Fail("C09L.progress", "lancero:block-not-processed", "a fed block was not processed within 30 s (read counter %d, blocks assembled %d; tasks %v)", w.ls.readCounter, w.ls.dataBlockCount, simrt.AliveTaskInfo())
		}
		time.Sleep(w.poll)
	}
	// an empty request through the core loop: ProcessSegments has returned
	done := make(chan struct{})
	select {
	case w.sc.queuedRequests <- func() { close(done) }:
		<-done
	case <-time.After(30 * time.Second):
		simrt.Fail("C09L.progress", "lancero:core-loop-not-serving", "the core loop did not take a request for 30 s (tasks %v)", simrt.AliveTaskInfo())
	}
	if w.ls.readCounter != target {
		simrt.Fail("harness.cycle", "harness:two-blocks-from-one-feed", "read counter %d after feeding for cycle %d", w.ls.readCounter, target)
	}
	w.cycles = target
	w.drain()
	// extend the expected output streams to what dastard has numbered so far
	w.prevLen = len(w.out[0])
	emitted := int(w.ls.nextFrameNum)
	if w.n0+emitted > w.card.nextFrame() {
		simrt.Fail("harness.cycle", "harness:more-frames-than-sent", "dastard has numbered %d frames, the card has sent %d since the run began", emitted, w.card.nextFrame()-w.n0)
	}
	for c := 0; c < w.nchan; c++ {
		for f := len(w.out[c]); f < emitted; f++ {
			var v uint16
			if c%2 == 0 {
				v = w.truth.val(c, w.n0+f)
			} else if f > 0 {
				v = w.truth.val(c, w.n0+f-1) // the feedback stream is delayed by one sample
			}
			w.out[c] = append(w.out[c], RawType(v))
		}
	}
}

// ---------------------------------------------------------------------------------
// triggers

func (w *c09lWorld) configure(c int, t c09lTrig) {
	ts := TriggerState{AutoDelay: 250 * time.Millisecond, EdgeLevel: 100, EdgeRising: true, LevelLevel: 4000}
	switch t.kind {
	case c09lAuto:
		ts.AutoTrigger = true
		ts.AutoDelay = time.Duration(t.delay) * w.period
	case c09lEdge:
		ts.EdgeTrigger = true
		ts.EdgeLevel = 1000
	}
	t.ts = ts
	var ok bool
	st := FullTriggerState{ChannelIndices: []int{c}, TriggerState: ts}
	var err error
	simrt.Within(20*time.Second, "C09L.returns", "coupling:request-hangs", func() { err = w.sc.ConfigureTriggers(&st, &ok) })
	if err != nil {
		simrt.Fail("harness.configure", "harness:configure-triggers", "ConfigureTriggers(channel %d) rejected: %v", c, err)
	}
	w.trig[c] = t
	w.env.Op("triggers of channel %d: %s", c, map[int]string{c09lNone: "none", c09lAuto: fmt.Sprintf("auto every %d frames", t.delay), c09lEdge: "edge"}[t.kind])
}

func (w *c09lWorld) drawDelay() int {
	d := []int{w.nsamp + 3, w.nsamp, 2*w.nsamp + 1, 5 * w.nsamp}[simrt.Draw(4)]
	if d < w.nsamp {
		d = w.nsamp
	}
	return d
}

// configureSources enables a trigger on a few drawn channels; every other channel keeps the
// default (nothing enabled), so all it can ever publish is secondaries.
func (w *c09lWorld) configureSources() {
	nsrc := 1 + simrt.Draw(4)
	for i := 0; i < nsrc; i++ {
		c := simrt.Draw(w.nchan)
		if w.trig[c].kind != c09lNone {
			continue
		}
		if simrt.Draw(3) == 2 {
			w.configure(c, c09lTrig{kind: c09lEdge})
		} else {
			w.configure(c, c09lTrig{kind: c09lAuto, delay: w.drawDelay()})
		}
	}
}

// ---------------------------------------------------------------------------------
// requests and the reference model

const (
	c09lReqAdd = iota
	c09lReqDelete
	c09lReqDeleteAbsent
	c09lReqDeleteExisting
	c09lReqErrToFBOn
	c09lReqFBToErrOn
	c09lReqErrToFBOff
	c09lReqFBToErrOff
	c09lReqStop
	c09lReqQuery
	c09lReqFanIn
	c09lReqRetrigger
)

func (w *c09lWorld) drawRequestKind() int {
	return []int{c09lReqAdd, c09lReqErrToFBOn, c09lReqDelete, c09lReqFBToErrOn, c09lReqAdd, c09lReqDeleteAbsent, c09lReqErrToFBOff, c09lReqFanIn,
		c09lReqFBToErrOff, c09lReqDeleteExisting, c09lReqStop, c09lReqQuery, c09lReqRetrigger, c09lReqDeleteAbsent, c09lReqAdd}[simrt.Draw(15)]
}

func (w *c09lWorld) drawIdx() int {
	if simrt.Draw(6) == 5 {
		return simrt.Draw(w.nchan+7) - 3 // includes negative and too large values
	}
	return simrt.Draw(w.nchan)
}

// drawSource prefers channels that have a trigger enabled (so that connections carry traffic).
func (w *c09lWorld) drawSource() int {
	if simrt.Draw(3) != 2 {
		var src []int
		for c := range w.trig {
			if w.trig[c].kind != c09lNone {
				src = append(src, c)
			}
		}
		if len(src) > 0 {
			return src[simrt.Draw(len(src))]
		}
	}
	return w.drawIdx()
}

func (w *c09lWorld) drawMap() map[int][]int {
	m := map[int][]int{}
	ns := 1 + simrt.Draw(3)
	for i := 0; i < ns; i++ {
		s := w.drawSource()
		nr := 1 + simrt.Draw(3)
		for j := 0; j < nr; j++ {
			r := w.drawIdx()
			if simrt.Draw(8) == 7 {
				r = s // a self pair
			}
			m[s] = append(m[s], r)
		}
	}
	return m
}

func (w *c09lWorld) isPairConn(p c09lPair) bool {
	return w.valid(p.s) && w.valid(p.r) && p.s/2 == p.r/2 && p.s != p.r
}

func (w *c09lWorld) hasGroupConn() bool {
	for p := range w.conn {
		if !w.isPairConn(p) {
			return true
		}
	}
	return false
}

func (w *c09lWorld) hasPairConn(fromErr bool) bool {
	for p := range w.conn {
		if w.isPairConn(p) && (p.s%2 == 0) == fromErr {
			return true
		}
	}
	return false
}

func (w *c09lWorld) call(what string, f func() error) {
	var err error
	simrt.Within(20*time.Second, "C09L.returns", "coupling:request-hangs", func() { err = f() })
	w.requests++
	w.env.Op("request %s -> %v", what, err)
}

func (w *c09lWorld) nMsgs(tag string) int {
	n := 0
	for i := range w.sk.msgs {
		if w.sk.msgs[i].tag == tag {
			n++
		}
	}
	return n
}

// checkReported: the request has broadcast the broker's connection set and it equals Conn.
func (w *c09lWorld) checkReported(what string, before int) {
	w.drain()
	if w.nMsgs("GROUPTRIGGER") <= before {
		simrt.Fail("C09L.reported", "group:no-report", "no GROUPTRIGGER message after %s", what)
	}
	m, _ := w.sk.lastMsg("GROUPTRIGGER")
	gts, isGts := m.state.(GroupTriggerState)
	if !isGts {
		simrt.Fail("C09L.reported", "group:report-type", "GROUPTRIGGER message carries %T", m.state)
	}
	got := map[c09lPair]bool{}
	for s, rxs := range gts.Connections {
		for _, r := range rxs {
			if got[c09lPair{s, r}] {
				simrt.Fail("C09L.reported", "group:report-duplicate", "connection %d->%d reported twice after %s", s, r, what)
			}
			got[c09lPair{s, r}] = true
		}
	}
	if c09lConnString(got) != c09lConnString(w.conn) {
		simrt.Fail("C09L.reported", "group:reported-set-differs", "after %s the reported connections are %s, set semantics give %s", what, c09lConnString(got), c09lConnString(w.conn))
	}
}

// lastReported renders the connections of the latest GROUPTRIGGER message.
func (w *c09lWorld) lastReported() string {
	m, ok := w.sk.lastMsg("GROUPTRIGGER")
	if !ok {
		return "none"
	}
	gts, _ := m.state.(GroupTriggerState)
	got := map[c09lPair]bool{}
	for s, rxs := range gts.Connections {
		for _, r := range rxs {
			got[c09lPair{s, r}] = true
		}
	}
	return c09lConnString(got)
}

func (w *c09lWorld) checkCoupling(what string, before int, want CouplingStatus) {
	w.drain()
	if w.nMsgs("TRIGCOUPLING") <= before {
		simrt.Fail("C09L.coupling", "coupling:no-report", "no TRIGCOUPLING message after %s", what)
	}
	m, _ := w.sk.lastMsg("TRIGCOUPLING")
	got, isCS := m.state.(CouplingStatus)
	if !isCS {
		simrt.Fail("C09L.coupling", "coupling:report-type", "TRIGCOUPLING message carries %T", m.state)
	}
	if got != want {
		simrt.Fail("C09L.coupling", "coupling:reported-status-differs", "after %s the TRIGCOUPLING message says %d, requested was %d (1 none, 2 fb->err, 3 err->fb)", what, got, want)
	}
}

func (w *c09lWorld) refAdd(m map[int][]int) {
	for s, rxs := range m {
		for _, r := range rxs {
			switch {
			case !w.valid(s) || !w.valid(r):
				simrt.Hit("out-of-range-index-in-add")
			case s == r:
				simrt.Hit("self-pair-in-add")
			default:
				if w.conn[c09lPair{s, r}] {
					simrt.Hit("add-of-existing-pair")
				}
				w.conn[c09lPair{s, r}] = true
			}
		}
	}
}

func (w *c09lWorld) refDelete(s, r int) {
	if !w.conn[c09lPair{s, r}] {
		if w.valid(r) {
			w.absentDeletes++
			w.absentPending = true
		}
		return
	}
	delete(w.conn, c09lPair{s, r})
}

func (w *c09lWorld) refCouple(fromErr, on bool) {
	for j := 0; j < w.nchan/2; j++ {
		e, f := 2*j, 2*j+1
		fwd, rev := c09lPair{e, f}, c09lPair{f, e}
		if !fromErr {
			fwd, rev = rev, fwd
		}
		if on {
			w.conn[fwd] = true
		} else {
			w.refDelete(fwd.s, fwd.r)
		}
		w.refDelete(rev.s, rev.r)
	}
}

func (w *c09lWorld) request(kind int) {
	var ok bool
	nG, nC := w.nMsgs("GROUPTRIGGER"), w.nMsgs("TRIGCOUPLING")
	add := func(what string, m map[int][]int) {
		w.call(fmt.Sprintf("%s %v", what, m), func() error { return w.sc.AddGroupTriggerCoupling(GroupTriggerState{Connections: m}, &ok) })
		w.refAdd(m)
		w.checkReported(what, nG)
	}
	del := func(what string, m map[int][]int) {
		w.call(fmt.Sprintf("%s %v", what, m), func() error { return w.sc.DeleteGroupTriggerCoupling(&GroupTriggerState{Connections: m}, &ok) })
		for s, rxs := range m {
			for _, r := range rxs {
				if !w.valid(s) || !w.valid(r) {
					simrt.Hit("out-of-range-index-in-delete")
				}
				if !w.conn[c09lPair{s, r}] {
					simrt.Hit("delete-of-absent-pair")
				}
				w.refDelete(s, r)
			}
		}
		w.checkReported(what, nG)
	}
	couple := func(fromErr, on bool) {
		what := fmt.Sprintf("CoupleFBToErr(%v)", on)
		want := NoCoupling
		if fromErr {
			what = fmt.Sprintf("CoupleErrToFB(%v)", on)
		}
		if on {
			want = FBToErr
			if fromErr {
				want = ErrToFB
			}
			if w.hasPairConn(!fromErr) {
				simrt.Hit("coupling-reversed-while-the-opposite-is-on")
			}
		} else if w.hasGroupConn() {
			simrt.Hit("coupling-off-with-unrelated-group-connections")
		}
		if w.hasGroupConn() {
			simrt.Hit("coupling-request-with-group-connections-present")
		}
		c := on
		if fromErr {
			w.call(what, func() error { return w.sc.CoupleErrToFB(&c, &ok) })
		} else {
			w.call(what, func() error { return w.sc.CoupleFBToErr(&c, &ok) })
		}
		w.refCouple(fromErr, on)
		w.checkCoupling(what, nC, want)
		if w.nMsgs("GROUPTRIGGER") == nG && w.lastReported() != c09lConnString(w.conn) {
			// observation (see notes): the request changed the set and only TRIGCOUPLING was broadcast
			simrt.Hit("coupling-request-changed-the-set-without-a-GROUPTRIGGER-message")
			if m, have := w.sk.lastMsg("GROUPTRIGGER"); have && !on {
				gts, _ := m.state.(GroupTriggerState)
				for s, rxs := range gts.Connections {
					for _, r := range rxs {
						if !w.conn[c09lPair{s, r}] {
							// sharper: with coupling reported off, the latest GROUPTRIGGER still lists a pair that is no longer used
							simrt.Hit("coupling-off-removed-a-pair-the-latest-GROUPTRIGGER-still-lists")
						}
					}
				}
			}
		}
		// the set the request left behind, as reported by an add of nothing (half of the time;
		// otherwise it is visible through the secondaries only)
		if simrt.Draw(2) == 1 {
			nG = w.nMsgs("GROUPTRIGGER")
			add("add (query after coupling request)", map[int][]int{})
		}
	}
	switch kind {
	case c09lReqAdd:
		add("add", w.drawMap())
	case c09lReqFanIn:
		// several sources onto one receiver: the union is a multiset
		r := simrt.Draw(w.nchan)
		m := map[int][]int{}
		ns := 2 + simrt.Draw(2)
		for i := 0; i < ns; i++ {
			s := w.drawSource()
			m[s] = append(m[s], r)
		}
		add("add", m)
	case c09lReqDelete:
		del("delete", w.drawMap())
	case c09lReqDeleteAbsent:
		// in-range pairs that are not connected; as many as there are connections when that is few
		// (a connection count that is decremented for them reaches zero with pairs remaining)
		n := 1 + simrt.Draw(3)
		if left := len(w.conn) - w.absentDeletes; left >= 1 && left <= 4 && simrt.Draw(3) != 2 {
			n = left
		}
		m := map[int][]int{}
		for i := 0; i < n; i++ {
			for try := 0; try < 8; try++ {
				s, r := simrt.Draw(w.nchan), simrt.Draw(w.nchan)
				dup := false
				for _, x := range m[s] {
					dup = dup || x == r
				}
				if s != r && !w.conn[c09lPair{s, r}] && !dup {
					m[s] = append(m[s], r)
					break
				}
			}
		}
		del("delete (absent pairs)", m)
	case c09lReqDeleteExisting:
		var ps []c09lPair
		for p := range w.conn {
			ps = append(ps, p)
		}
		sort.Slice(ps, func(i, j int) bool { return ps[i].s < ps[j].s || ps[i].s == ps[j].s && ps[i].r < ps[j].r })
		m := map[int][]int{}
		nd := 1 + simrt.Draw(2)
		for i := 0; i < nd && len(ps) > 0; i++ {
			p := ps[simrt.Draw(len(ps))]
			m[p.s] = append(m[p.s], p.r) // may repeat a pair
		}
		del("delete (existing pairs)", m)
	case c09lReqErrToFBOn:
		couple(true, true)
	case c09lReqFBToErrOn:
		couple(false, true)
	case c09lReqErrToFBOff:
		couple(true, false)
	case c09lReqFBToErrOff:
		couple(false, false)
	case c09lReqStop:
		var dummy bool
		w.call("StopTriggerCoupling", func() error { return w.sc.StopTriggerCoupling(&dummy, &ok) })
		if len(w.conn) > 0 {
			simrt.Hit("stop-coupling-with-connections")
		}
		w.conn = map[c09lPair]bool{}
		w.absentDeletes = 0
		w.checkReported("stop-coupling", nG)
		w.checkCoupling("stop-coupling", nC, NoCoupling)
	case c09lReqQuery:
		add("add", map[int][]int{})
	case c09lReqRetrigger:
		// a channel's own trigger is switched (none <-> auto); edge channels keep theirs
		c := simrt.Draw(w.nchan)
		if simrt.Draw(2) == 1 {
			c = w.drawSource()
		}
		if !w.valid(c) || w.trig[c].kind == c09lEdge {
			return
		}
		if w.trig[c].kind == c09lAuto && simrt.Draw(3) != 2 {
			w.configure(c, c09lTrig{kind: c09lNone})
			simrt.Hit("source-trigger-switched-off")
		} else {
			w.configure(c, c09lTrig{kind: c09lAuto, delay: w.drawDelay()})
		}
	}
}

// requestWithStatusConsumerBehind (a fault): the consumer of the status queue stops taking messages (a slow
// subscriber) while status traffic goes on - a monitoring client asks for the full status (two messages per request),
// the last free place is taken by the answer to a query (an add of nothing) - until the queue is full; then the
// request is issued (sometimes with a second client's SendAllStatus waiting for room next to it); the consumer
// resumes a drawn number of scheduler steps later. The rules of request() are unchanged: the messages the request
// owes must have arrived once everything is drained.
// (Only in runs with a small virtual CPU cost per step: the request waits for the consumer, and its
// 20 s bound must hold under the scheduler's starvation bound.)
func (w *c09lWorld) requestWithStatusConsumerBehind(kind int) {
	w.drain()
	simrt.Stall("harness:sink-status", 1<<30)
	w.env.Op("fault: the status consumer falls behind")
	armedAt := -1
	k := 3 + simrt.Draw(150)
	simrt.GoHarness("status-consumer-resumes", func() {
		// k steps after the request is issued (or, as a safety net, 6000 steps from now)
		for s0 := simrt.Steps(); !(armedAt >= 0 && simrt.Steps()-armedAt >= k) && simrt.Steps()-s0 < 6000; {
			simrt.Gosched()
		}
		simrt.Unstall()
	})
	leave := []int{0, 0, 0, 0, 1, 3}[simrt.Draw(6)] // places left free in the queue (mostly none)
	for n := 0; cap(clientMessageChan)-len(clientMessageChan) > leave && n < 40; n++ {
		var ok bool
		if cap(clientMessageChan)-len(clientMessageChan) >= 2 {
			var dummy string
			w.sc.SendAllStatus(&dummy, &ok)
		} else {
			w.sc.AddGroupTriggerCoupling(GroupTriggerState{Connections: map[int][]int{}}, &ok)
		}
	}
	w.env.Op("status traffic: %d of %d places of the queue taken", len(clientMessageChan), cap(clientMessageChan))
	trafficDone := make(chan struct{})
	nsend := []int{0, 0, 1, 3}[simrt.Draw(4)]
	simrt.GoHarness("second-client", func() {
		for i := 0; i < nsend; i++ {
			var dummy string
			var ok bool
			w.sc.SendAllStatus(&dummy, &ok)
		}
		close(trafficDone)
	})
	if len(clientMessageChan) == cap(clientMessageChan) {
		simrt.Hit("status-queue-full-when-a-request-is-served")
	}
	armedAt = simrt.Steps()
	w.request(kind)
	<-trafficDone
	w.drain()
}

// ---------------------------------------------------------------------------------
// the per-cycle oracle

type c09lBatch struct {
	ch     int
	frames []FrameIndex
}

func c09lSorted(f []FrameIndex) []FrameIndex {
	out := append([]FrameIndex(nil), f...)
	sort.Slice(out, func(i, j int) bool { return out[i] < out[j] })
	return out
}

// primaryOK says whether the batch can be the channel's own (primary) triggers of this cycle.
func (w *c09lWorld) primaryOK(b *c09lBatch) string {
	t := &w.trig[b.ch]
	switch t.kind {
	case c09lNone:
		return fmt.Sprintf("channel %d has no trigger enabled", b.ch)
	case c09lAuto:
		for i, f := range b.frames {
			if i == 0 {
				if t.havePrim && f-t.lastPrim != FrameIndex(t.delay) {
					return fmt.Sprintf("channel %d triggers automatically every %d frames, its last own trigger was at frame %d, this batch starts at %d", b.ch, t.delay, t.lastPrim, f)
				}
			} else if f-b.frames[i-1] != FrameIndex(t.delay) {
				return fmt.Sprintf("channel %d triggers automatically every %d frames, this batch has %d after %d", b.ch, t.delay, f, b.frames[i-1])
			}
		}
	case c09lEdge:
		for _, f := range b.frames {
			if f < 0 || int(f) >= len(w.out[b.ch]) || !edgeCrit(w.out[b.ch], int(f), b.ch%2 == 0, &t.ts) {
				return fmt.Sprintf("channel %d: the edge criterion does not hold at frame %d of its stream", b.ch, f)
			}
		}
	}
	return ""
}

// trySplit checks one primaries|secondaries split against one connection set.
func (w *c09lWorld) trySplit(bs []c09lBatch, split int, conn map[c09lPair]bool) (why string, stage int, prim map[int][]FrameIndex) {
	prim = map[int][]FrameIndex{}
	sec := map[int][]FrameIndex{}
	for i := range bs {
		b := &bs[i]
		if i < split {
			if _, dup := prim[b.ch]; dup {
				return fmt.Sprintf("channel %d twice among the primaries", b.ch), 0, nil
			}
			if why := w.primaryOK(b); why != "" {
				return why, 0, nil
			}
			prim[b.ch] = b.frames
		} else {
			if _, dup := sec[b.ch]; dup {
				return fmt.Sprintf("channel %d twice among the secondaries", b.ch), 0, nil
			}
			sec[b.ch] = b.frames
		}
	}
	for r := 0; r < w.nchan; r++ {
		var want []FrameIndex
		for s := 0; s < w.nchan; s++ {
			if conn[c09lPair{s, r}] {
				want = append(want, prim[s]...)
			}
		}
		want = c09lSorted(want)
		got := c09lSorted(sec[r])
		if fmt.Sprint(want) != fmt.Sprint(got) {
			return fmt.Sprintf("taking the first %d batches as primaries, receiver %d has secondary frames %v, its sources have primary frames %v", split, r, got, want), 1, nil
		}
	}
	return "", 2, prim
}

func (w *c09lWorld) checkRecord(ro *recObs) {
	rec := ro.rec
	c := rec.channelIndex
	if !w.valid(c) {
		simrt.Fail("C09L.excerpt", "record:bad-channel-index", "record with channel index %d (%d channels)", c, w.nchan)
	}
	if len(rec.data) != w.nsamp || rec.presamples != w.npre {
		simrt.Fail("C09L.excerpt", "record:wrong-lengths", "record of channel %d at frame %d has %d samples, %d pre-trigger; configured %d, %d", c, rec.trigFrame, len(rec.data), rec.presamples, w.nsamp, w.npre)
	}
	if rec.signed != (c%2 == 0) {
		simrt.Fail("C09L.excerpt", "record:wrong-signedness", "record of channel %d (%s) has signed=%v", c, map[bool]string{true: "error", false: "feedback"}[c%2 == 0], rec.signed)
	}
	first := int(rec.trigFrame) - w.npre
	if first < 0 || first+w.nsamp > len(w.out[c]) {
		simrt.Fail("C09L.excerpt", "record:outside-the-stream", "record of channel %d at frame %d (samples %d..%d), but only frames 0..%d have been delivered", c, rec.trigFrame, first, first+w.nsamp-1, len(w.out[c])-1)
	}
	for j := 0; j < w.nsamp; j++ {
		if c%2 == 1 && first+j == 0 {
			continue // the very first feedback sample of a run is whatever preceded it
		}
		if rec.data[j] != w.out[c][first+j] {
			simrt.Fail("C09L.excerpt", "record:samples-not-own-stream", "record of channel %d at frame %d: sample %d is %d, the channel's own stream has %d at frame %d", c, rec.trigFrame, j, rec.data[j], w.out[c][first+j], first+j)
		}
	}
}

// checkCycle validates what was published since the previous cycle against the connection set(s)
// that may have been in force.
func (w *c09lWorld) checkCycle(conns ...map[c09lPair]bool) {
	recs := w.sk.recs[w.recMark:]
	w.recMark = len(w.sk.recs)
	var bs []c09lBatch
	cur := -1
	for i := range recs {
		ro := &recs[i]
		w.checkRecord(ro)
		if ro.batch != cur {
			cur = ro.batch
			bs = append(bs, c09lBatch{ch: ro.rec.channelIndex})
		}
		b := &bs[len(bs)-1]
		if ro.rec.channelIndex != b.ch {
			simrt.Fail("C09L.secondaries", "group:mixed-batch", "cycle %d: a published batch mixes channels %d and %d", w.cycles, b.ch, ro.rec.channelIndex)
		}
		b.frames = append(b.frames, ro.rec.trigFrame)
	}
	// all consistent interpretations
	type solution struct {
		conn map[c09lPair]bool
		prim map[int][]FrameIndex
	}
	var sols []solution
	why, whyStage := "", -1
	okFor := make([]bool, len(conns))
	for ci, conn := range conns {
		if ci > 0 && c09lConnString(conn) == c09lConnString(conns[0]) {
			okFor[ci] = okFor[0]
			continue
		}
		for split := 0; split <= len(bs); split++ {
			y, stage, prim := w.trySplit(bs, split, conn)
			if y == "" {
				sols = append(sols, solution{conn, prim})
				okFor[ci] = true
			} else if stage >= whyStage {
				why, whyStage = y, stage
			}
		}
	}
	if len(sols) == 0 {
		var desc []string
		for _, b := range bs {
			desc = append(desc, fmt.Sprintf("ch%d%v", b.ch, b.frames))
		}
		var cs []string
		for _, conn := range conns {
			cs = append(cs, c09lConnString(conn))
		}
		sig := "group:secondaries-differ"
		simrt.Fail("C09L.secondaries", sig, "cycle %d: no primaries|secondaries split of the published batches %v is consistent with the connections %s (%s); triggers enabled: %s",
			w.cycles, desc, strings.Join(cs, " or "), why, w.trigSummary())
	}
	if len(conns) == 2 && c09lConnString(conns[0]) != c09lConnString(conns[1]) {
		switch {
		case okFor[0] && !okFor[1]:
			simrt.Hit("in-flight-request-took-effect-after-the-block")
		case okFor[1] && !okFor[0]:
			simrt.Hit("in-flight-request-took-effect-before-the-block")
		}
	}
	// own-trigger bookkeeping: only what every interpretation agrees on
	for c := 0; c < w.nchan; c++ {
		agree := true
		for i := 1; i < len(sols); i++ {
			if fmt.Sprint(sols[i].prim[c]) != fmt.Sprint(sols[0].prim[c]) {
				agree = false
			}
		}
		if !agree {
			w.trig[c].havePrim = false
			simrt.Hit("ambiguous-split")
			continue
		}
		if p := sols[0].prim[c]; len(p) > 0 {
			w.trig[c].lastPrim, w.trig[c].havePrim = p[len(p)-1], true
		}
	}
	// probes (first interpretation)
	sol := sols[0]
	nprim, nsec := 0, 0
	for _, p := range sol.prim {
		nprim += len(p)
	}
	for _, b := range bs {
		nsec += len(b.frames)
	}
	nsec -= nprim
	for i := range bs {
		if _, isPrim := sol.prim[bs[i].ch]; isPrim && fmt.Sprint(sol.prim[bs[i].ch]) == fmt.Sprint(bs[i].frames) {
			continue
		}
		for _, f := range bs[i].frames {
			if int(f)-w.npre < w.prevLen {
				simrt.Hit("secondary-window-reaches-into-retained-history")
			}
		}
	}
	w.nPrimaries += nprim
	w.nSecondaries += nsec
	if nsec > 0 {
		simrt.Hit("secondaries-delivered")
		if w.absentPending {
			simrt.Hit("delete-of-absent-pair-then-secondaries")
		}
	}
	if nprim > 0 && w.absentPending {
		simrt.Hit("delete-of-absent-pair-then-data")
		w.absentPending = false
	}
	live := false // a connection whose source had primaries in this cycle
	for p := range sol.conn {
		if len(sol.prim[p.s]) == 0 {
			continue
		}
		live = true
		if w.isPairConn(p) {
			if p.s%2 == 0 {
				simrt.Hit("secondaries-through-err-to-fb-pair")
			} else {
				simrt.Hit("secondaries-through-fb-to-err-pair")
			}
		} else {
			simrt.Hit("secondaries-through-group-connection")
		}
		for q := range sol.conn {
			if q.s == p.r {
				simrt.Hit("receiver-that-is-also-a-source")
				if len(sol.prim[q.s]) > 0 {
					simrt.Hit("receiver-with-own-primaries-is-also-a-source")
				}
			}
			if q.r == p.r && q.s != p.s && len(sol.prim[q.s]) > 0 {
				simrt.Hit("receiver-with-two-active-sources")
			}
		}
	}
	if live && len(sol.conn) > 0 && len(sol.conn) == w.absentDeletes {
		simrt.Hit("as-many-absent-deletes-as-connections-then-data")
	}
	if nprim > 0 && len(sol.conn) == 0 {
		simrt.Hit("primaries-with-no-connections")
	}
}

func (w *c09lWorld) trigSummary() string {
	var parts []string
	for c := range w.trig {
		switch w.trig[c].kind {
		case c09lAuto:
			parts = append(parts, fmt.Sprintf("ch%d auto/%d", c, w.trig[c].delay))
		case c09lEdge:
			parts = append(parts, fmt.Sprintf("ch%d edge", c))
		}
	}
	return strings.Join(parts, ", ")
}
