//go:build verif

//verif:noinstrument

package dastard

// Sinks for the publish/status channels. This file is deliberately not instrumented:
// each sink yields (simrt.Y) before a receive and then handles the received item
// without another scheduling point, so that "channel empty" implies "everything
// published so far has been recorded".

import (
	"time"

	"verif/simrt"
)

// startSinks (re)makes the package-level channels inside the bubble and drains them.
func startSinks(sc *SourceControl, cycle func() int) *sinks {
	sk := &sinks{cycleFunc: cycle}
	PubRecordsChan = make(chan []*DataRecord, 500)
	PubSummariesChan = make(chan []*DataRecord, 500)
	clientMessageChan = make(chan ClientUpdate, 10)
	rc, sm, cm := PubRecordsChan, PubSummariesChan, clientMessageChan
	simrt.GoHarness("sink-records", func() {
		for {
			simrt.Y("sink:records")
			for sk.holdRecs {
				simrt.SleepSim(50 * time.Microsecond)
			}
			batch, ok := <-rc
			if !ok {
				return
			}
			for _, r := range batch {
				sk.recs = append(sk.recs, recObs{rec: r, cycle: sk.cycleFunc(), batch: sk.nBatches, seq: simrt.Steps()})
			}
			sk.nBatches++
		}
	})
	simrt.GoHarness("sink-summaries", func() {
		for {
			simrt.Y("sink:summaries")
			for sk.holdSums {
				simrt.SleepSim(50 * time.Microsecond)
			}
			batch, ok := <-sm
			if !ok {
				return
			}
			sk.sumRecs = append(sk.sumRecs, batch...)
		}
	})
	simrt.GoHarness("sink-status", func() {
		for {
			simrt.Y("sink:status")
			m, ok := <-cm
			if !ok {
				return
			}
			o := msgObs{tag: m.tag, state: m.state, cycle: sk.cycleFunc()}
			if len(sk.msgs) < 20000 {
				sk.msgs = append(sk.msgs, o)
			}
			if sk.onMsg != nil {
				sk.onMsg(o)
			}
		}
	})
	return sk
}

// drainHeartbeats consumes the server's heartbeat channel.
func (sk *sinks) drainHeartbeats(hb chan Heartbeat) {
	simrt.GoHarness("sink-heartbeats", func() {
		for {
			simrt.Y("sink:heartbeats")
			_, ok := <-hb
			if !ok {
				return
			}
			sk.beats++
		}
	})
}
