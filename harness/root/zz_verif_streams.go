//go:build verif

package dastard

// Ground-truth stream generation and the trigger-criterion reference scan used by the
// pipeline checks. Everything is drawn from the run's choice tape.

import (
	"fmt"
	"time"

	"verif/simrt"
)

func drawFrom(xs []int) int { return xs[simrt.Draw(len(xs))] }

// genPartition cuts total samples into blocks according to a drawn regime.
func genPartition(total, nsamp int) []int {
	regime := simrt.Draw(5)
	var blocks []int
	left := total
	for left > 0 {
		var n int
		switch regime {
		case 0: // tiny blocks
			n = 1 + simrt.Draw(5)
		case 1: // around one record
			n = nsamp - 3 + simrt.Draw(7)
		case 2: // several records
			n = nsamp*2 + simrt.Draw(nsamp*3+1)
		case 3: // shorter than a record
			n = 1 + simrt.Draw(nsamp)
		default: // mixed
			switch simrt.Draw(4) {
			case 0:
				n = 1 + simrt.Draw(4)
			case 1:
				n = nsamp - 2 + simrt.Draw(5)
			case 2:
				n = 1 + simrt.Draw(nsamp)
			default:
				n = nsamp + simrt.Draw(4*nsamp)
			}
		}
		if n < 1 {
			n = 1
		}
		if n > left {
			n = left
		}
		blocks = append(blocks, n)
		left -= n
	}
	return blocks
}

func edgesOf(blocks []int) []int {
	var e []int
	pos := 0
	for _, n := range blocks {
		pos += n
		e = append(e, pos)
	}
	return e
}

type streamSpec struct {
	kind     int
	baseline int
	noise    int
	features []string
}

// genStream makes one channel's ground-truth stream of n samples. Values are produced
// as integers in the channel's interpretation (signed: −32768..32767, unsigned:
// 0..65535) and stored as the 16-bit pattern, wrapping like the hardware would.
func genStream(n int, edges []int, signed bool, nsamp int) ([]RawType, streamSpec) {
	vals := make([]int, n)
	spec := streamSpec{kind: simrt.Draw(6)}
	lo, hi := 0, 65535
	if signed {
		lo, hi = -32768, 32767
	}
	switch spec.kind {
	case 5: // constants at the extremes
		c := []int{lo, hi, (lo + hi) / 2, (lo+hi)/2 + 1}[simrt.Draw(4)]
		for i := range vals {
			vals[i] = c
		}
		spec.baseline = c
	case 4: // full-scale noise
		for i := range vals {
			vals[i] = lo + simrt.Draw(65536)
		}
		spec.noise = 65536
	default:
		spec.baseline = lo + 1000 + simrt.Draw(20000)
		spec.noise = []int{0, 0, 1, 3, 20}[simrt.Draw(5)]
		for i := range vals {
			vals[i] = spec.baseline
			if spec.noise > 0 {
				vals[i] += simrt.Draw(2*spec.noise+1) - spec.noise
			}
		}
	}
	if spec.kind <= 3 {
		nfeat := simrt.Draw(9)
		for f := 0; f < nfeat; f++ {
			// position: biased to ±4 samples around block edges
			var pos int
			if len(edges) > 0 && simrt.Draw(2) == 0 {
				pos = edges[simrt.Draw(len(edges))] + simrt.Draw(9) - 4
			} else {
				pos = simrt.Draw(n)
			}
			if pos < 0 || pos >= n {
				continue
			}
			switch spec.kind {
			case 0, 3: // pulses: fast rise, exponential decay (positive or negative)
				h := []int{30, 200, 5000, 40000}[simrt.Draw(4)]
				if simrt.Draw(4) == 0 {
					h = -h
				}
				rise := 1 + simrt.Draw(3)
				tau := float64(1 + nsamp/4)
				for i := pos; i < n && i < pos+6*int(tau)+rise; i++ {
					var a float64
					if i-pos < rise {
						a = float64(h) * float64(i-pos+1) / float64(rise)
					} else {
						a = float64(h)
						for k := 0; k < i-pos-rise+1; k++ {
							a *= 1 - 1/tau
						}
					}
					vals[i] += int(a)
				}
				spec.features = append(spec.features, fmt.Sprintf("pulse@%d h=%d", pos, h))
			case 1: // plateau (level crossings both ways)
				h := []int{50, 500, 5000}[simrt.Draw(3)]
				if simrt.Draw(3) == 0 {
					h = -h
				}
				d := 1 + simrt.Draw(2*nsamp)
				for i := pos; i < n && i < pos+d; i++ {
					vals[i] += h
				}
				spec.features = append(spec.features, fmt.Sprintf("plateau@%d h=%d len=%d", pos, h, d))
			case 2: // monotone ramp
				slope := []int{1, 5, 40, -3, -30}[simrt.Draw(5)]
				d := 2 + simrt.Draw(nsamp)
				for i := pos; i < n; i++ {
					k := i - pos
					if k > d {
						k = d
					}
					vals[i] += slope * k
				}
				spec.features = append(spec.features, fmt.Sprintf("ramp@%d slope=%d len=%d", pos, slope, d))
			}
		}
	}
	out := make([]RawType, n)
	for i, v := range vals {
		if spec.kind != 4 {
			if v < lo {
				v = lo
			}
			if v > hi {
				v = hi
			}
		}
		out[i] = RawType(uint16(v))
	}
	return out, spec
}

// interp returns the sample in the channel's interpretation.
func interp(v RawType, signed bool) int {
	if signed {
		return int(int16(v))
	}
	return int(v)
}

// edgeCrit evaluates the edge-trigger criterion at sample k (needs k>=3).
func edgeCrit(s []RawType, k int, signed bool, ts *TriggerState) bool {
	if k < 3 || k >= len(s) {
		return false
	}
	d := interp(s[k], signed) + interp(s[k-1], signed) - interp(s[k-2], signed) - interp(s[k-3], signed)
	return (ts.EdgeRising && d >= int(ts.EdgeLevel)) || (ts.EdgeFalling && d <= -int(ts.EdgeLevel))
}

// levelCrit evaluates the level-trigger criterion at sample k (needs k>=1).
func levelCrit(s []RawType, k int, signed bool, ts *TriggerState) bool {
	if k < 1 || k >= len(s) {
		return false
	}
	thr := interp(ts.LevelLevel, signed)
	x, p := interp(s[k], signed), interp(s[k-1], signed)
	if ts.LevelRising {
		return x >= thr && p < thr
	}
	return x <= thr && p > thr
}

// genTriggerState draws a non-EMT trigger configuration suited to a stream.
func genTriggerState(spec streamSpec, signed bool, nsamp int, rate float64, allowAuto bool) TriggerState {
	ts := TriggerState{AutoDelay: 250 * time.Millisecond, EdgeLevel: 100, EdgeRising: true, LevelLevel: 4000}
	mode := simrt.Draw(7)
	edge := mode == 0 || mode == 3 || mode == 4 || mode == 6
	level := mode == 1 || mode == 3 || mode == 5 || mode == 6
	auto := allowAuto && (mode == 2 || mode == 4 || mode == 5 || mode == 6)
	if !edge && !level && !auto {
		edge = true
	}
	ts.EdgeTrigger = edge
	ts.EdgeLevel = int32([]int{1, 20, 100, 1000, 30000}[simrt.Draw(5)])
	switch simrt.Draw(3) {
	case 0:
		ts.EdgeRising, ts.EdgeFalling = true, false
	case 1:
		ts.EdgeRising, ts.EdgeFalling = false, true
	default:
		ts.EdgeRising, ts.EdgeFalling = true, true
	}
	ts.LevelTrigger = level
	ts.LevelRising = simrt.Draw(2) == 0
	off := []int{-200, -20, 1, 25, 250, 2500}[simrt.Draw(6)]
	ts.LevelLevel = RawType(uint16(spec.baseline + off))
	ts.AutoTrigger = auto
	// auto delay in samples: shorter than, equal to and longer than a record
	ds := []int{1, nsamp / 2, nsamp, nsamp + 7, 3 * nsamp}[simrt.Draw(5)]
	ts.AutoDelay = time.Duration(float64(ds) / rate * float64(time.Second))
	if simrt.Draw(5) == 0 {
		ts.AutoVetoRange = RawType([]int{1, 50, 5000}[simrt.Draw(3)])
	}
	return ts
}

func tsString(ts *TriggerState) string {
	return fmt.Sprintf("auto=%v/%v/veto%d level=%v/rising=%v/%d edge=%v/r=%v/f=%v/%d emt=%v", ts.AutoTrigger, ts.AutoDelay, ts.AutoVetoRange,
		ts.LevelTrigger, ts.LevelRising, ts.LevelLevel, ts.EdgeTrigger, ts.EdgeRising, ts.EdgeFalling, ts.EdgeLevel, ts.EdgeMulti)
}

// genEMTState draws an edge-multi configuration through the RPC-compatible fields.
func genEMTState(spec streamSpec, signed bool, nsamp, npre int) TriggerState {
	ts := TriggerState{EdgeMulti: true, AutoDelay: 250 * time.Millisecond, EdgeLevel: 100, EdgeRising: true, LevelLevel: 4000}
	ts.EdgeMultiLevel = int32([]int{10, 100, 2000, -100, 1}[simrt.Draw(5)])
	nm := 1 + simrt.Draw(4)
	if nm > nsamp-npre {
		nm = nsamp - npre
	}
	ts.EdgeMultiVerifyNMonotone = nm
	switch simrt.Draw(3) {
	case 0:
		ts.EdgeMultiMakeShortRecords = true
	case 1:
		ts.EdgeMultiMakeContaminatedRecords = true
	}
	ts.EdgeMultiDisableZeroThreshold = simrt.Draw(2) == 0
	return ts
}
