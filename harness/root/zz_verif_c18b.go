//go:build verif

package dastard

// C18b — the shared-memory ring buffer as a loss-free FIFO *in its role as the Abaco
// transport* (property C18; DESIGN §5 C18 "and as transport in 3.3", C03 probe "ring wrap
// during a read"). World: zz_verif_c18b_world.go.
//
// Oracle. The harness owns the packet stream (ring packet k at stream offset k·packetSize,
// content a hash of (group, channel, frame)) and knows from Write's return values how many
// bytes are in the ring.
//
// At the producer (every call of the real AbacoRing, seen through the observing shim):
//
//	C18b.start-aligned   after start() (and after StartRun's discardStale()) the read pointer
//	                     is on a packet boundary, not behind its old value, not beyond the
//	                     write pointer
//	C18b.start-stale     … and no whole packet written before that moment stays readable
//	                     ("discarding whatever is in it"): only the bytes of an unfinished
//	                     packet may remain
//	C18b.whole-packets   samplePackets / ReadAllPackets never fail to decode (a read that is
//	                     not a whole number of packets, or that starts inside a packet, shows
//	                     up as a garbage header)
//	C18b.fifo            the packets handed over are ring packets next, next+1, … bit for bit
//	                     (sequence number, channel info, frame count, time stamp, payload):
//	                     nothing skipped, repeated, reordered, split, or handed over before it
//	                     was completely written
//	C18b.read-all        ReadAllPackets hands over every whole packet in the ring (the largest
//	                     multiple of the packet size, as the stand-alone C18 oracle demands of
//	                     ReadMultipleOf)
//	C18b.read-pointer    afterwards the read pointer has advanced by exactly those packets
//	C18b.write           Write never reports an error, accepts at most what it was given and
//	                     never more than fits; the write pointer equals the bytes accepted
//
// At the source's output (raw blocks from getNextBlock), with the reduced C03 reference
// "slot = packet handed over in the run phase (real) or sampled/discarded at start-up
// (filler, compared by count)"; slots are counted per group from the first packet Sample()
// saw (the code's documented synchronisation assumption), g0 = first slot emitted:
//
//	C18b.block-shape        one segment per channel, equal lengths > 0
//	C18b.frames-contiguous  one firstFrameIndex per block; first_{k+1} = first_k + len_k
//	C18b.content            per channel the concatenated blocks equal the reference from g0 on
//	                        (g0 <= first slot every group has after start-up); a slot that was
//	                        not handed to the source cannot be emitted
//	C18b.no-drops           Σ droppedFrames == frames of the filler slots emitted (the packets
//	                        StartRun discarded): back-pressure never costs a frame
//	C18b.sample-count       at the end every channel got (last slot − g0 + 1)·frames
//	C18b.liveness           nominal runs with at most 200 µs of virtual CPU per scheduler
//	                        step: a whole packet in the ring is read within 1 s (+1500 steps),
//	                        a slot all groups have is emitted within the same bound. In every
//	                        run: the source does not end by itself and the ring is drained in
//	                        the end.
//
// Relaxations: filler values are ignored; 32-bit payloads may be reduced by floor or by
// rounding towards zero (as C03); fillers of the start-up prefix before g0 may or may not be
// counted as dropped (as C03).

import (
	"fmt"
	"time"

	"verif/simrt"
)

func init() {
	real := []string{"ringbuffer.RingBuffer in /dev/shm (Create, Write, BytesWriteable; Open, PacketSize, DiscardStride, ReadMultipleOf, Read, BytesReadable, Close, Unlink)",
		"AbacoRing: NewAbacoRing, start, discardStale, samplePackets, ReadAllPackets, stop",
		"AbacoSource: Configure(ActiveCards), Sample, PrepareChannels, PrepareRun, StartRun, readerMainLoop, getNextBlock, distributeData, closeDevices",
		"packets: NewPacket, SetTimestamp, NewData, Bytes, ReadPacketPlusPad"}
	stub := []string{"DEED writer process (a task writing padded packets with the package's own Write, honouring the read pointer)",
		"core loop (the harness performs the steps of Start() and takes raw blocks from getNextBlock())",
		"observing shim between AbacoSource and the real AbacoRing (delegates all five PacketProducer methods)"}
	simrt.Register(&simrt.Check{Name: "C18b", Property: "C18", Body: c18bBody, Classify: c18bClassify, MaxSteps: 20000, Real: real, Stub: stub})
}

type c18bOracle struct {
	w        *c18bWorld
	S        int
	cands    [][]int
	emitted  int
	blocks   int
	haveNext bool
	next     FrameIndex
	dropped  int
}

func newC18bOracle(w *c18bWorld) *c18bOracle {
	o := &c18bOracle{w: w}
	for _, g := range w.groups {
		if g.base < 0 {
			o.w.fail("C18b.start", "ring:group-not-sampled", "Sample() returned without a packet of group %d", g.ord)
		}
		if s := g.lastSampled - g.base + 1; s > o.S {
			o.S = s
		}
	}
	o.cands = make([][]int, len(w.groups))
	for i := range o.cands {
		for c := 0; c <= o.S; c++ {
			o.cands[i] = append(o.cands[i], c)
		}
	}
	return o
}

func (o *c18bOracle) live() bool { return !o.w.faulted && o.w.delta <= 200*time.Microsecond }

func (o *c18bOracle) liveBound() time.Duration {
	if !o.live() {
		return time.Hour
	}
	return time.Second + 1500*o.w.delta
}

func (o *c18bOracle) ok(g *c18bGroup, ch, frame int, got RawType) bool {
	v, alt := o.w.demuxed(g, ch, frame)
	return got == v || got == alt
}

// fits: is the block consistent with g0 = c for group g? If not, the first offending
// position (ch < 0: a slot that cannot have been emitted).
func (o *c18bOracle) fits(g *c18bGroup, b *dataBlock, c int) (ok bool, pos, idx, ch int) {
	w := o.w
	L := len(b.segments[0].rawData)
	for j := 0; j < L; j++ {
		f := c*w.fpp + o.emitted + j
		i := g.base + f/w.fpp
		fr := i*w.fpp + f%w.fpp
		switch g.fateOf(i) {
		case c18bNone, c18bOld:
			return false, j, i, -1
		case c18bDelivered:
			for ch := 0; ch < g.nchan; ch++ {
				if !o.ok(g, ch, fr, b.segments[g.chanOff+ch].rawData[j]) {
					return false, j, i, ch
				}
			}
		}
	}
	return true, 0, 0, 0
}

// chunkIs: does the block from position pos show group packet i (from its frame k on)?
func (o *c18bOracle) chunkIs(g *c18bGroup, b *dataBlock, pos, k, i int) bool {
	w := o.w
	if i < 0 || g.fateOf(i) == c18bNone {
		return false
	}
	L := len(b.segments[0].rawData)
	n := 0
	for ; k < w.fpp && pos < L; k, pos = k+1, pos+1 {
		for ch := 0; ch < g.nchan; ch++ {
			if !o.ok(g, ch, i*w.fpp+k, b.segments[g.chanOff+ch].rawData[pos]) {
				return false
			}
			n++
		}
	}
	return n >= 2 || (n > 0 && w.fpp*g.nchan == 1)
}

func (o *c18bOracle) explain(g *c18bGroup, b *dataBlock, c, pos, i, ch int) (sig, text string) {
	w := o.w
	f := c*w.fpp + o.emitted + pos
	k := f % w.fpp
	if ch < 0 {
		return "content:more-frames-than-handed-over", fmt.Sprintf("group %d block %d position %d: this position would be the group's packet %d (ring packet %d), which the ring has not handed to the source", g.ord, o.blocks, pos, i, w.ringIndex(g, i))
	}
	got := b.segments[g.chanOff+ch].rawData[pos]
	want, _ := w.demuxed(g, ch, i*w.fpp+k)
	base := fmt.Sprintf("group %d (channels %d..%d) block %d position %d channel %d: expected frame %d of the group's packet %d (ring packet %d, handed over) = 0x%04x, got 0x%04x",
		g.ord, g.firstChan, g.firstChan+g.nchan-1, o.blocks, pos, g.firstChan+ch, k, i, w.ringIndex(g, i), want, got)
	for d := 1; d <= 40; d++ {
		if o.chunkIs(g, b, pos, k, i+d) {
			return "content:packet-missing", base + fmt.Sprintf("; the output shows packet %d here: %d slot(s) are missing from the stream", i+d, d)
		}
		if o.chunkIs(g, b, pos, k, i-d) {
			return "content:extra-or-repeated-frames", base + fmt.Sprintf("; the output shows packet %d here: %d slot(s) too many were emitted before", i-d, d)
		}
	}
	return "content:wrong-values", base
}

func (o *c18bOracle) onBlock(b *dataBlock) {
	w := o.w
	if len(b.segments) != w.nchan {
		o.w.fail("C18b.block-shape", "shape:channel-count", "block %d has %d segments, the source has %d channels", o.blocks, len(b.segments), w.nchan)
	}
	L := len(b.segments[0].rawData)
	for i := range b.segments {
		if len(b.segments[i].rawData) != L {
			o.w.fail("C18b.block-shape", "shape:unequal-lengths", "block %d: channel 0 has %d samples, channel %d has %d", o.blocks, L, i, len(b.segments[i].rawData))
		}
	}
	if L == 0 {
		o.w.fail("C18b.block-shape", "shape:empty-block", "block %d is empty", o.blocks)
	}
	first := b.segments[0].firstFrameIndex
	drop := b.segments[0].droppedFrames
	for i := range b.segments {
		if b.segments[i].firstFrameIndex != first {
			o.w.fail("C18b.frames-contiguous", "frames:segments-disagree", "block %d: firstFrameIndex %d on channel 0, %d on channel %d", o.blocks, first, b.segments[i].firstFrameIndex, i)
		}
		if b.segments[i].droppedFrames != drop {
			o.w.fail("C18b.no-drops", "dropped:segments-disagree", "block %d: droppedFrames %d on channel 0, %d on channel %d", o.blocks, drop, b.segments[i].droppedFrames, i)
		}
	}
	if o.haveNext && first != o.next {
		o.w.fail("C18b.frames-contiguous", "frames:not-contiguous", "block %d starts at frame %d, the previous block ended at %d", o.blocks, first, o.next)
	}
	o.haveNext = true
	o.next = first + FrameIndex(L)
	if drop < 0 {
		o.w.fail("C18b.no-drops", "dropped:negative", "block %d reports %d dropped frames", o.blocks, drop)
	}
	if drop > 0 && o.blocks > 0 && len(w.groups) == 1 {
		o.w.fail("C18b.no-drops", "dropped:reported-mid-run", "block %d reports %d dropped frames although DEED never skipped or overwrote a packet (only the first block may account for what StartRun discarded)", o.blocks, drop)
	}
	o.dropped += drop
	for gi, g := range w.groups {
		var keep []int
		type miss struct{ c, pos, idx, ch int }
		var last *miss
		for _, c := range o.cands[gi] {
			ok, pos, idx, ch := o.fits(g, b, c)
			if ok {
				keep = append(keep, c)
			} else {
				last = &miss{c, pos, idx, ch}
			}
		}
		if len(keep) == 0 {
			sig, text := o.explain(g, b, last.c, last.pos, last.idx, last.ch)
			o.w.fail("C18b.content", sig, "%s (taking slot %d as the first one emitted; %d frames emitted before this block of %d; candidates before this block %v; the group's first sampled packet is %d, last sampled %d)",
				text, last.c, o.emitted, L, o.cands[gi], g.base, g.lastSampled)
		}
		o.cands[gi] = keep
	}
	if len(o.common()) == 0 {
		o.w.fail("C18b.content", "aligned:groups-start-differently", "after block %d no first slot fits all groups: per group the consistent values are %v", o.blocks, o.cands)
	}
	if c18bDebug {
		fmt.Printf("DBG block %d len %d first %d dropped %d emittedBefore %d cands %v\n", o.blocks, L, first, drop, o.emitted, o.cands)
	}
	o.emitted += L
	o.blocks++
}

func (o *c18bOracle) common() []int {
	var out []int
	for _, c := range o.cands[0] {
		all := true
		for gi := 1; gi < len(o.cands); gi++ {
			found := false
			for _, c2 := range o.cands[gi] {
				if c2 == c {
					found = true
				}
			}
			all = all && found
		}
		if all {
			out = append(out, c)
		}
	}
	return out
}

// lastSlot: the last slot (relative to each group's first sampled packet) that every group
// has been handed.
func (o *c18bOracle) lastSlot() int {
	m := 1 << 30
	for _, g := range o.w.groups {
		l := g.lastDeliv
		if l < 0 {
			l = g.lastSampled
		}
		if l-g.base < m {
			m = l - g.base
		}
	}
	return m
}

func (o *c18bOracle) g0Lenient() int {
	cs := o.common()
	if o.blocks > 0 && len(cs) > 0 {
		return cs[len(cs)-1]
	}
	return o.S
}

// checkLive: time bounds (nominal runs on an unsaturated simulated CPU only).
func (o *c18bOracle) checkLive(when string) {
	w := o.w
	if !o.live() || !w.running {
		return
	}
	now := time.Now()
	bound := o.liveBound()
	if k := w.next; k < w.built && now.Sub(w.doneAt[k]) > bound {
		o.w.fail("C18b.liveness", "liveness:ring-not-read", "%sring packet %d has been complete in the ring for %v and was not read (%d reads so far, %d bytes buffered; virtual CPU per step %v, bound %v)",
			when, k, now.Sub(w.doneAt[k]), w.nReads, w.queued(), w.delta, bound)
	}
	g0 := o.g0Lenient()
	rel := g0 + o.emitted/w.fpp // first slot not yet (completely) emitted
	if rel > o.lastSlot() {
		return
	}
	for _, g := range w.groups {
		i := g.base + rel
		if g.fateOf(i) != c18bDelivered || now.Sub(g.delivAt[i]) <= bound {
			return
		}
	}
	o.w.fail("C18b.liveness", "liveness:handed-over-not-emitted", "%sslot %d was handed to the source by every group more than %v ago and has not been emitted (%d frames in %d blocks emitted, first emitted slot %d; virtual CPU per step %v)",
		when, rel, bound, o.emitted, o.blocks, g0, w.delta)
}

func (o *c18bOracle) finalChecks() (g0 int) {
	w := o.w
	cs := o.common()
	if o.blocks == 0 && o.lastSlot() < o.S {
		return o.S // (nothing could be emitted: no slot that every group has after start-up)
	}
	if o.blocks == 0 || len(cs) == 0 {
		o.w.fail("C18b.liveness", "liveness:nothing-emitted", "no block was emitted although %d packets were handed to the source in the run phase", w.nDelivered)
	}
	last := o.lastSlot()
	g0 = -1
	for _, c := range cs {
		if (last-c+1)*w.fpp == o.emitted {
			g0 = c
		}
	}
	if g0 < 0 {
		c := cs[len(cs)-1]
		want := (last - c + 1) * w.fpp
		sig := "count:frames-missing-at-end"
		if o.emitted > want {
			sig = "count:too-many-frames"
		}
		o.w.fail("C18b.sample-count", sig, "every packet DEED wrote was handed to the source (last slot all groups have: %d), the output starts at slot %v, so each channel must have got %d frames; it got %d", last, cs, want, o.emitted)
	}
	fill, slack := 0, 0
	for _, g := range w.groups {
		for rel := g0; rel <= last; rel++ {
			if g.fateOf(g.base+rel) != c18bDelivered {
				fill += w.fpp
			}
		}
		for rel := g.lastSampled + 1 - g.base; rel < g0; rel++ {
			if g.fateOf(g.base+rel) != c18bDelivered {
				slack += w.fpp
			}
		}
	}
	if fill > 0 {
		simrt.Hit("startup-discard-filled")
	}
	if o.dropped < fill {
		o.w.fail("C18b.no-drops", "dropped:under-reported", "the blocks report %d dropped frames in total, but %d filler frames were emitted for the packets discarded at StartRun (first emitted slot %d)", o.dropped, fill, g0)
	}
	if o.dropped > fill+slack {
		o.w.fail("C18b.no-drops", "dropped:over-reported", "the blocks report %d dropped frames in total; only %d filler frames were emitted (+%d in the start-up prefix) and DEED never skipped or overwrote a packet", o.dropped, fill, slack)
	}
	return g0
}

func c18bBody(env *simrt.Env) {
	w := newC18bWorld(env)
	defer w.cleanup()
	env.Op("%s", w.describe())
	w.createRing()
	w.makeHistory()
	simrt.GoHarness("c18bWriter", w.writer)
	var o *c18bOracle
	var began time.Time
	runFor := time.Duration(w.runTicks) * c18bTick
	limit := runFor + 14*time.Second + 40000*w.delta
	for w.session = 0; w.session < w.sessions; w.session++ {
		last := w.session == w.sessions-1
		if w.session > 0 {
			// the source is down, DEED keeps writing until the ring is full
			w.env.Op("pause of %v before the source is started again", w.pause)
			if w.restart > 0 {
				// … and is killed and restarted with another packet size at some moment of the pause
				t0 := time.Now()
				w.restartProducer()
				if d := w.pause - time.Since(t0); d > 0 {
					time.Sleep(d)
				}
			} else {
				time.Sleep(w.pause)
			}
		}
		w.startSource()
		o = newC18bOracle(w)
		began = time.Now()
		settle := o.liveBound()
		if cap := 4 * time.Second; settle > cap { // the source's own watchdogs fire after 5 s without data
			settle = cap
		}
		selfEnded := w.pump(o.onBlock, func() bool {
			o.checkLive("")
			enough := time.Since(began) >= runFor && w.sessDeliv >= 6*len(w.groups) && (!w.big || w.flushedRun || w.stop)
			if !last {
				// like a client's Stop: at any moment, whatever is in the ring or under way
				return enough || time.Since(began) > limit
			}
			if !w.stop && enough {
				w.stop = true
				w.env.Op("writer told to stop after %v (%d packets written)", time.Since(began), w.built)
			}
			if w.wdone && w.next == w.built {
				if o.blocks > 0 && (o.lastSlot()-o.g0Lenient()+1)*w.fpp <= o.emitted {
					return true
				}
				if time.Since(w.lastDelivAt) > settle+100*time.Millisecond {
					return true
				}
			}
			return time.Since(began) > limit
		})
		w.running = false
		if selfEnded {
			o.w.fail("C18b.liveness", "liveness:source-ended-by-itself", "the source closed its block channel %v after the start although DEED kept writing (pauses of at most 1.2 s); %d blocks, %d frames emitted", time.Since(began), o.blocks, o.emitted)
		}
		if !last && time.Since(began) > limit {
			o.w.fail("C18b.liveness", "liveness:reader-stopped-reading", "the first session did not get %d packets within %v: next ring packet %d, %d written, %d bytes buffered", 6*len(w.groups), limit, w.next, w.built, w.queued())
		}
		if !last {
			simrt.Hit("source-stopped-with-data-in-ring")
		}
	}
	if !w.wdone || w.next != w.built {
		// (the end condition demands a finished writer and a drained ring, unless the time limit was reached)
		o.w.fail("C18b.liveness", "liveness:reader-stopped-reading", "the reader did not drain the ring within %v: next ring packet %d, %d written, %d bytes buffered, writer finished=%v", limit, w.next, w.built, w.queued(), w.wdone)
	}
	o.checkLive("at the end: ")
	g0 := o.finalChecks()
	if !w.faulted && (w.mode != 0 || w.staleWhole+w.stalePartial > 0) {
		o.w.fail("harness.nominal", "harness:fault-in-nominal", "faults in a nominal run")
	}
	env.Sample(map[string]interface{}{"big": w.big, "ring_bytes": w.size, "packet_bytes": w.psize, "ring_packets": w.npk, "extra_bytes": w.extra, "groups": len(w.groups), "channels": w.nchan,
		"frames_per_packet": w.fpp, "period_us": int(w.period / time.Microsecond), "writer_mode": w.mode, "sessions": w.sessions, "restart_kind": w.restart, "packet_bytes_before_restart": w.oldPsize, "packets_written": w.built, "old": w.nOld, "sampled": w.nSampled,
		"discarded_at_startrun": w.nDiscarded, "delivered": w.nDelivered, "reads": w.nReads, "max_packets_per_read": w.maxPerRead, "truncated_writes": w.nTruncated,
		"writer_waits": w.writerWaited, "blocks": o.blocks, "frames_out": o.emitted, "first_emitted_slot": g0, "dropped_reported": o.dropped})
}
