//go:build verif

//verif:noinstrument

package dastard

// C16: the counting / crashing afero file system that is put under viper for the process
// under test, and raw (not interposed, not counted) file helpers for the harness itself.
//
// This file is deliberately not instrumented: the os.* calls below must stay the real
// ones so that the harness can look at a directory without moving the operation counter
// of the run's simrt.FaultFS plan (only operations of the process under test are crash
// points). Nothing in here blocks.

import (
	"os"
	"path/filepath"
	"sort"
	"syscall"

	"github.com/spf13/afero"

	"verif/simrt"
)

// c16FS wraps the OS file system: every call announces itself to the run's fault plan
// (simrt.FSOp) before it is performed, so that the calls viper makes inside
// WriteConfigAs (open, write, sync, close) are operation boundaries exactly like the
// interposed os.Remove / os.Rename calls of saveState. A write of more than a few bytes
// is performed as three consecutive write calls (one buffer handed to write(2) may reach
// the file in pieces; a kill between the pieces leaves a truncated file).
type c16FS struct {
	afero.Fs
	st *c16FSState
}

type c16FSState struct {
	// dead is set once the plan's crash point fired in a call of this file system: the
	// process is gone, so whatever its unwinding goroutine still calls (deferred Close)
	// must have no effect.
	dead bool
	// onOp, if set, is called (in the calling task, before the operation) for every
	// operation announced through this file system.
	onOp func(op, path string)
}

func c16NewFS() *c16FS {
	return &c16FS{Fs: afero.NewOsFs(), st: &c16FSState{}}
}

func (st *c16FSState) op(op, path string) error {
	if st.dead {
		return &os.PathError{Op: op, Path: path, Err: syscall.EIO}
	}
	if st.onOp != nil {
		st.onOp(op, path)
	}
	defer func() {
		if r := recover(); r != nil {
			if _, ok := r.(simrt.CrashHere); ok {
				st.dead = true
			}
			panic(r)
		}
	}()
	return simrt.FSOp(op, path)
}

func (f *c16FS) Create(name string) (afero.File, error) {
	if err := f.st.op("create", name); err != nil {
		return nil, err
	}
	fl, err := f.Fs.Create(name)
	if err != nil {
		return nil, err
	}
	return &c16File{File: fl, st: f.st}, nil
}

func (f *c16FS) OpenFile(name string, flag int, perm os.FileMode) (afero.File, error) {
	if err := f.st.op("openfile", name); err != nil {
		return nil, err
	}
	fl, err := f.Fs.OpenFile(name, flag, perm)
	if err != nil {
		return nil, err
	}
	return &c16File{File: fl, st: f.st}, nil
}

func (f *c16FS) Open(name string) (afero.File, error) {
	if err := f.st.op("open", name); err != nil {
		return nil, err
	}
	fl, err := f.Fs.Open(name)
	if err != nil {
		return nil, err
	}
	return &c16File{File: fl, st: f.st}, nil
}

func (f *c16FS) Mkdir(name string, perm os.FileMode) error {
	if err := f.st.op("mkdir", name); err != nil {
		return err
	}
	return f.Fs.Mkdir(name, perm)
}

func (f *c16FS) MkdirAll(name string, perm os.FileMode) error {
	if err := f.st.op("mkdirall", name); err != nil {
		return err
	}
	return f.Fs.MkdirAll(name, perm)
}

func (f *c16FS) Remove(name string) error {
	if err := f.st.op("remove", name); err != nil {
		return err
	}
	return f.Fs.Remove(name)
}

func (f *c16FS) RemoveAll(name string) error {
	if err := f.st.op("removeall", name); err != nil {
		return err
	}
	return f.Fs.RemoveAll(name)
}

func (f *c16FS) Rename(o, n string) error {
	if err := f.st.op("rename", o+" -> "+n); err != nil {
		return err
	}
	if err := simrt.CrossDeviceErr("rename", o, n); err != nil {
		return err
	}
	return f.Fs.Rename(o, n)
}

func (f *c16FS) Stat(name string) (os.FileInfo, error) {
	if err := f.st.op("stat", name); err != nil {
		return nil, err
	}
	return f.Fs.Stat(name)
}

func (f *c16FS) Chmod(name string, mode os.FileMode) error {
	if err := f.st.op("chmod", name); err != nil {
		return err
	}
	return f.Fs.Chmod(name, mode)
}

type c16File struct {
	afero.File
	st *c16FSState
}

func (fl *c16File) chunks(n int) []int {
	if n < 12 {
		return []int{n}
	}
	a := n / 3
	return []int{a, a, n - 2*a}
}

func (fl *c16File) Write(p []byte) (int, error) {
	done := 0
	for _, c := range fl.chunks(len(p)) {
		if err := fl.st.op("write", fl.Name()); err != nil {
			return done, err
		}
		n, err := fl.File.Write(p[done : done+c])
		done += n
		if err != nil {
			return done, err
		}
	}
	return done, nil
}

func (fl *c16File) WriteString(s string) (int, error) { return fl.Write([]byte(s)) }

func (fl *c16File) WriteAt(p []byte, off int64) (int, error) {
	if err := fl.st.op("writeat", fl.Name()); err != nil {
		return 0, err
	}
	return fl.File.WriteAt(p, off)
}

func (fl *c16File) Truncate(size int64) error {
	if err := fl.st.op("truncate", fl.Name()); err != nil {
		return err
	}
	return fl.File.Truncate(size)
}

func (fl *c16File) Sync() error {
	if err := fl.st.op("sync", fl.Name()); err != nil {
		return err
	}
	return fl.File.Sync()
}

func (fl *c16File) Close() error {
	if fl.st.dead {
		fl.File.Close() // give the descriptor back; the content is what the kill left
		return &os.PathError{Op: "close", Path: fl.Name(), Err: syscall.EIO}
	}
	if err := fl.st.op("close", fl.Name()); err != nil {
		fl.File.Close() // an injected failure of close still gives the descriptor back
		return err
	}
	return fl.File.Close()
}

// ---------------------------------------------------------------------------------
// raw helpers (harness side; never counted)

func c16RawRead(path string) ([]byte, error) { return os.ReadFile(path) }

func c16RawWrite(path string, b []byte) error {
	if err := os.MkdirAll(filepath.Dir(path), 0775); err != nil {
		return err
	}
	return os.WriteFile(path, b, 0664)
}

func c16RawExists(path string) bool {
	_, err := os.Lstat(path)
	return err == nil
}

func c16RawMkdirAll(path string) error { return os.MkdirAll(path, 0775) }

func c16RawRemoveAll(path string) { os.RemoveAll(path) }

// c16RawList renders the regular files of a directory as "name (n bytes)", sorted.
func c16RawList(dir string) []string {
	ents, err := os.ReadDir(dir)
	if err != nil {
		return []string{"<" + err.Error() + ">"}
	}
	var out []string
	for _, e := range ents {
		if e.IsDir() {
			continue
		}
		sz := int64(-1)
		if fi, err := e.Info(); err == nil {
			sz = fi.Size()
		}
		out = append(out, e.Name()+" ("+c16Itoa(sz)+" bytes)")
	}
	sort.Strings(out)
	return out
}

func c16Itoa(v int64) string {
	if v == 0 {
		return "0"
	}
	neg := v < 0
	if neg {
		v = -v
	}
	var b [24]byte
	i := len(b)
	for v > 0 {
		i--
		b[i] = byte('0' + v%10)
		v /= 10
	}
	if neg {
		i--
		b[i] = '-'
	}
	return string(b[i:])
}

// c16RawCopyDir copies the regular files of src (one level: the .dastard directory has
// no sub-directories that matter) into dst, creating dst. Hard links are not preserved
// as links; contents and names are.
func c16RawCopyDir(src, dst string) error {
	ents, err := os.ReadDir(src)
	if err != nil {
		if os.IsNotExist(err) {
			return nil
		}
		return err
	}
	if err := os.MkdirAll(dst, 0775); err != nil {
		return err
	}
	for _, e := range ents {
		if e.IsDir() {
			continue
		}
		b, err := os.ReadFile(filepath.Join(src, e.Name()))
		if err != nil {
			return err
		}
		if err := os.WriteFile(filepath.Join(dst, e.Name()), b, 0664); err != nil {
			return err
		}
	}
	return nil
}

func c16Setenv(k, v string) { os.Setenv(k, v) }
func c16Getenv(k string) string { return os.Getenv(k) }
