//go:build verif

package dastard

// Shared pieces of the simulation worlds that live inside package dastard: the scripted
// data source (built on the DataSource interface + embedded AnySource exactly like the
// repository's own simulated sources), sinks for the publish/status channels, and the
// pipeline world used by C01, C02, C06, C08, C09, C20 (DESIGN §3.2).

import (
	"fmt"
	"io"
	"log"
	"strings"
	"time"

	"github.com/spf13/viper"

	"verif/simrt"
)

// A full writer queue is reported by the ljh/off writers (io.ErrShortWrite), returned by PublishData and turned
// into a panic by its only callers, processSegment and processSecondaries: the documented fail-stop of a server
// whose disk cannot keep up. It needs the writer goroutine of a file to fall a whole queue (1000 records)
// behind, which a scheduling policy that starves that goroutine can produce without any injected fault. No
// property forbids it (C07: "a record is either written completely or rejected with an error"), so in every
// world of this package such a run simply ends there; the worlds that are about the writers (C05a, C07c)
// recover the panic themselves and judge what the dying process left on disk.
func init() {
	simrt.BenignCrash = func(res *simrt.Result) string {
		c := res.Crash
		if c == nil || !strings.HasPrefix(strings.TrimSpace(c.Value), "short write") {
			return ""
		}
		if strings.Contains(c.Stack, ".processSegment(") || strings.Contains(c.Stack, ".processSecondaries(") {
			return "fail-stop:writer-queue-overflow"
		}
		return ""
	}
}

func init() {
	log.SetOutput(io.Discard)
	ProblemLogger = log.New(io.Discard, "", 0)
	UpdateLogger = log.New(io.Discard, "", 0)
}

// classify maps spawn sites to task classes used by stall faults and the census.
func classify(site string) string {
	switch {
	case strings.HasPrefix(site, "asyncbufio.go"):
		return "writeLoop"
	case strings.HasPrefix(site, "harness:"):
		return site
	case strings.HasPrefix(site, "zz_verif"):
		return "harness:" + site
	case strings.HasPrefix(site, "data_source.go:165"):
		return "coreLoop"
	}
	return site
}

// ---------------------------------------------------------------------------------
// ScriptedSource

// ScriptedSource forwards harness-made blocks to the core loop.
type ScriptedSource struct {
	AnySource
	feed      chan *dataBlock
	delivered int // blocks handed over to the core loop so far
	starts    int
	// sampleErr, if set, makes the next Sample() fail (hardware not sending yet).
	sampleErr error
	// startRunErr, if set, makes the next StartRun() fail (the driver refuses to start).
	startRunErr error
	// geomRows > 0 lays the channels out column-major on a rows x cols array.
	geomRows int
}

// NewScriptedSource creates a scripted source with nchan channels at the given rate.
func NewScriptedSource(nchan int, rate float64) *ScriptedSource {
	ss := new(ScriptedSource)
	ss.name = "Scripted"
	ss.nchan = nchan
	ss.sampleRate = rate
	ss.samplePeriod = time.Duration(roundint(1e9 / rate))
	ss.feed = make(chan *dataBlock)
	return ss
}

// Sample is part of DataSource.
func (ss *ScriptedSource) Sample() error {
	if ss.sampleErr != nil {
		err := ss.sampleErr
		ss.sampleErr = nil
		return err
	}
	ss.chanNames = make([]string, ss.nchan)
	ss.chanNumbers = make([]int, ss.nchan)
	ss.rowColCodes = make([]RowColCode, ss.nchan)
	for i := 0; i < ss.nchan; i++ {
		ss.chanNames[i] = fmt.Sprintf("chan%d", i+1)
		ss.chanNumbers[i] = i + 1
		ss.rowColCodes[i] = rcCode(0, i, 1, ss.nchan)
		if ss.geomRows > 0 {
			ss.rowColCodes[i] = rcCode(i%ss.geomRows, i/ss.geomRows, ss.geomRows, (ss.nchan+ss.geomRows-1)/ss.geomRows)
		}
	}
	return nil
}

// StartRun is part of DataSource: a producer goroutine like the simulated sources'.
func (ss *ScriptedSource) StartRun() error {
	if ss.startRunErr != nil {
		err := ss.startRunErr
		ss.startRunErr = nil
		return err
	}
	ss.starts++
	ss.delivered = 0
	if ss.geomRows > 0 && ss.subframeDivisions > 1 {
		for i := range ss.subframeOffsets {
			ss.subframeOffsets[i] = (i % ss.geomRows) % ss.subframeDivisions
		}
	}
	go func() {
		for {
			select {
			case <-ss.abortSelf:
				close(ss.nextBlock)
				return
			case b, ok := <-ss.feed:
				if !ok || b == nil {
					close(ss.nextBlock)
					return
				}
				select {
				case ss.nextBlock <- b:
					ss.delivered++
					if b.err != nil {
						return
					}
				case <-ss.abortSelf:
					close(ss.nextBlock)
					return
				}
			}
		}
	}()
	return nil
}

// ---------------------------------------------------------------------------------
// sinks

type recObs struct {
	rec   *DataRecord
	cycle int // blocks delivered to the core loop when the record was published
	batch int // index of the published batch
	seq   int // scheduler step at reception
}

type msgObs struct {
	tag   string
	state interface{}
	cycle int
}

type sinks struct {
	recs      []recObs
	nBatches  int
	sumRecs   []*DataRecord
	msgs      []msgObs
	beats     int
	cycleFunc func() int
	onMsg     func(m msgObs)
	// holdRecs / holdSums stall the consumer of the record / summary channel (a subscriber or socket
	// that does not take data for a while): the sink takes nothing while the flag is set.
	holdRecs bool
	holdSums bool
}

// lastMsg returns the most recent status message with the tag.
func (sk *sinks) lastMsg(tag string) (msgObs, bool) {
	for i := len(sk.msgs) - 1; i >= 0; i-- {
		if sk.msgs[i].tag == tag {
			return sk.msgs[i], true
		}
	}
	return msgObs{}, false
}

// ---------------------------------------------------------------------------------
// pipeline world

type pipeWorld struct {
	env    *simrt.Env
	sc     *SourceControl
	ss     *ScriptedSource
	sk     *sinks
	nchan  int
	npre   int
	nsamp  int
	rate   float64
	period time.Duration
	T0     time.Time
	F0     FrameIndex
	signed []bool
	stream [][]RawType // full ground-truth stream per channel (generated up front)
	sent   int         // samples delivered per channel so far
	edges  map[int]bool
	fed    int // blocks fed
	// stampJitter, when set, gives block number b a time stamp that deviates from the nominal one
	// (block stamps are the source's business: dastard must derive trigger times from them)
	stampJitter func(b int) time.Duration
	blockFirst  []int       // first sample index of each block fed
	blockStamp  []time.Time // time stamp given to each block fed
	// hardware data loss (faulted runs): the next block fed starts gapNext frames after the end of the
	// previous one (the frames in between were never delivered) and/or carries dropNext as its
	// droppedFrames count (an Abaco source reports filled-in packet loss that way, with contiguous numbering)
	gapNext     int
	dropNext    int
	gapSum      int          // frames skipped so far
	blockFrame0 []FrameIndex // first frame number of each block fed
	blockDrop   []int        // droppedFrames flag of each block fed
	// cycleBase: blocks delivered to earlier runs of this world (a history with a Stop and a new Start goes
	// on feeding the same stream; the source counts its deliveries from zero in every run)
	cycleBase int
}

// newSourceControl builds the server object the way RunRPCServer does (minus sockets).
func newSourceControl(npre, nsamp int) *SourceControl {
	sc := NewSourceControl()
	sc.clientUpdates = clientMessageChan
	ms := newMapServer()
	ms.clientUpdates = clientMessageChan
	sc.mapServer = ms
	sc.status.Npresamp = npre
	sc.status.Nsamples = nsamp
	sc.ActiveSource = sc.triangle
	return sc
}

func newPipeWorld(env *simrt.Env, nchan, npre, nsamp int, rate float64) *pipeWorld {
	w := &pipeWorld{env: env, nchan: nchan, npre: npre, nsamp: nsamp, rate: rate}
	w.period = time.Duration(roundint(1e9 / rate))
	w.sk = startSinks(nil, func() int {
		if w.ss == nil {
			return 0
		}
		return w.cycleBase + w.ss.delivered
	})
	w.sc = newSourceControl(npre, nsamp)
	w.sk.drainHeartbeats(w.sc.heartbeats)
	w.ss = NewScriptedSource(nchan, rate)
	w.ss.heartbeats = w.sc.heartbeats
	w.signed = make([]bool, nchan)
	return w
}

// startScripted does for the scripted source what SourceControl.Start does for the
// built-in ones (the switch there only knows the built-in names).
func (w *pipeWorld) startScripted() error {
	s := w.sc
	s.ActiveSource = DataSource(w.ss)
	s.status.SourceName = "Scripted"
	s.status.Running = true
	if err := Start(s.ActiveSource, s.queuedRequests, s.status.Npresamp, s.status.Nsamples); err != nil {
		s.status.Running = false
		s.isSourceActive = false
		return err
	}
	s.isSourceActive = true
	s.status.SamplePeriod = s.ActiveSource.SamplePeriod()
	s.status.Nchannels = s.ActiveSource.Nchan()
	s.status.ChanGroups = s.ActiveSource.ChanGroups()
	s.broadcastStatus()
	s.broadcastTriggerState()
	s.broadcastGroupTriggerState()
	s.broadcastChannelNames()
	return nil
}

// feedBlock hands the next n samples of every channel's stream to the source.
func (w *pipeWorld) feedBlock(n int, mod func(b *dataBlock)) {
	if w.sent+n > len(w.stream[0]) {
		n = len(w.stream[0]) - w.sent
	}
	if n <= 0 {
		return
	}
	b := new(dataBlock)
	b.segments = make([]DataSegment, w.nchan)
	w.gapSum += w.gapNext
	frame0 := w.F0 + FrameIndex(w.sent) + FrameIndex(w.gapSum)
	stamp := w.T0.Add(time.Duration(w.sent+w.gapSum) * w.period)
	if w.stampJitter != nil {
		stamp = stamp.Add(w.stampJitter(w.fed))
	}
	w.blockFirst = append(w.blockFirst, w.sent)
	w.blockStamp = append(w.blockStamp, stamp)
	w.blockFrame0 = append(w.blockFrame0, frame0)
	w.blockDrop = append(w.blockDrop, w.dropNext)
	for c := 0; c < w.nchan; c++ {
		data := make([]RawType, n)
		copy(data, w.stream[c][w.sent:w.sent+n])
		b.segments[c] = DataSegment{
			rawData:         data,
			framesPerSample: 1,
			framePeriod:     w.period,
			firstFrameIndex: frame0,
			firstTime:       stamp,
			signed:          w.signed[c],
			droppedFrames:   w.dropNext,
		}
	}
	w.gapNext, w.dropNext = 0, 0
	b.nSamp = n
	if mod != nil {
		mod(b)
	}
	w.ss.feed <- b
	w.sent += n
	w.fed++
}

// sync returns after every block fed so far has been completely processed: it waits
// for the producer to have handed over the last block, then runs an empty request
// through the core loop (requests run between blocks).
func (w *pipeWorld) sync() {
	for w.cycleBase+w.ss.delivered < w.fed {
		time.Sleep(10 * time.Microsecond)
		if !w.sc.ActiveSource.Running() {
			return
		}
	}
	w.barrier()
}

func (w *pipeWorld) barrier() {
	s := w.sc
	done := make(chan struct{})
	f := func() { close(done) }
	select {
	case s.queuedRequests <- f:
		<-done
	case <-time.After(30 * time.Second):
		simrt.Fail("harness.barrier", "harness:barrier-timeout", "core loop did not take a request for 30 s (tasks %v)", simrt.AliveTaskInfo())
	}
}

// stop stops the source through the RPC method.
func (w *pipeWorld) stop() {
	var dummy string
	var ok bool
	simrt.Within(30*time.Second, "harness.stop", "harness:stop-hangs", func() { w.sc.Stop(&dummy, &ok) })
}

// resetViper gives the run a private configuration (file in the sandbox directory).
func resetViper(dir string) {
	viper.Reset()
	viper.SetConfigFile(dir + "/config.yaml")
}
