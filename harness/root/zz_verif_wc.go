//go:build verif

package dastard

// Pipeline + write-control world (DESIGN §5 C06, C20 and the pipeline half of C05):
// auto-triggered records flow through the real core loop while a client issues
// START/STOP/PAUSE/UNPAUSE/label requests; blocks carry external-trigger lists and
// drop counts. Three checks share the body:
//   C06  — reported writing state == behaviour (which records end up in which files)
//   C05b — the files of every writing session are well-formed, state the channel's true
//          identity/geometry, and hold exactly the accepted records
//   C20  — the three run-log side files record every event exactly once, in order

import (
	"bytes"
	"encoding/base64"
	"encoding/binary"
	"fmt"
	"math"
	"os"
	"path/filepath"
	"runtime/debug"
	"strings"
	"syscall"
	"time"

	"gonum.org/v1/gonum/mat"

	"verif/simrt"
)

func init() {
	real := []string{"Start/CoreLoop/ProcessSegments/Stop", "SourceControl.WriteControl, SetExperimentStateLabel, ConfigureProjectorsBasis, ConfigureTriggers",
		"AnySource.WriteControl / writeControlStart / makeDirectory", "WritingState", "HandleExternalTriggers / HandleDataDrop", "DataPublisher + ljh/off writers + asyncbufio on real files"}
	stub := []string{"hardware (ScriptedSource feeding harness-made blocks with external-trigger lists and drop counts; its channel table is drawn: one uniform array, Abaco-like channel groups of unequal size, or Lancero-like cards of unlike rows x columns, 1 to 16 channels)", "ZMQ publishers and status publisher (sinks)", "net/rpc transport"}
	for _, p := range []struct{ name, prop string }{{"C06", "C06"}, {"C05b", "C05"}, {"C20", "C20"}} {
		p := p
		ck := &simrt.Check{Name: p.name, Property: p.prop, Body: func(env *simrt.Env) { wcBody(env, p.name) }, Classify: classify, Real: real, Stub: stub}
		ck.Judge = wcJudge
		ck.Stub = append(append([]string{}, stub...), "full disk for one class of run-log side files (faulted runs: the handle is /dev/full, every write fails with ENOSPC)",
			"failing creation of the experiment-state file (faulted runs: os.Create interposed)")
		simrt.Register(ck)
	}
}

// wcFailStop is the message of the core loop's deliberate panic when block processing returns an
// error (data_source.go, CoreLoop): the documented fail-stop. In this world it is reached only
// when the injected disk-full fault makes a write to the external-trigger or data-drop file fail
// while a block is processed. The simulated process ends there, and what it left on disk is judged
// (wcSource.RunDoneDeactivate, afterFailStop in wcBody). Any other panic, and this one without that
// fault, is a violation as usual. wcJudge only sees panics of tasks other than the core loop (and
// the fail-stop itself should the loop's last deferred call not be reached).
const wcFailStop = "Panic to stop source when processSegments errors"

func wcJudge(res *simrt.Result) *simrt.Violation {
	if res.Crash != nil && strings.Contains(res.Crash.Value, wcFailStop) &&
		(res.Faults["fulldisk:external_trigger"] > 0 || res.Faults["fulldisk:data_drop"] > 0) {
		res.Probes["fail-stop:side-file-write-error"]++
		return nil
	}
	if res.Crash != nil {
		frame := res.Crash.Frame
		if frame == "" {
			frame = res.Crash.Value
			if i := strings.IndexByte(frame, '\n'); i >= 0 {
				frame = frame[:i]
			}
			if len(frame) > 120 {
				frame = frame[:120]
			}
		}
		st := strings.Split(res.Crash.Stack, "\n")
		if len(st) > 40 {
			st = st[:40]
		}
		return &simrt.Violation{Rule: "no-panic", Sig: "panic:" + frame, Detail: res.Crash.Value + "\n" + strings.Join(st, "\n")}
	}
	if res.Deadlock {
		return &simrt.Violation{Rule: "no-deadlock", Sig: "deadlock", Detail: "every task blocked for ever"}
	}
	return nil
}

// wcProjSet is one set of projector/basis matrices loaded into a channel.
type wcProjSet struct {
	ver    int
	nbases int
	proj   []float64 // nbases x nsamp, row-major
	basis  []float64 // nsamp x nbases, row-major
}

// wcMakeProj makes identifiable matrices: version 0 is what every world started with so far.
func wcMakeProj(c, ver, nbases, nsamp int) *wcProjSet {
	ps := &wcProjSet{ver: ver, nbases: nbases, proj: make([]float64, nbases*nsamp), basis: make([]float64, nbases*nsamp)}
	for i := range ps.proj {
		ps.proj[i] = float64((i*7+c+5*ver)%13)*0.125 + float64(ver)
		ps.basis[i] = float64((i*3+c+ver)%11) - 5 - float64(2*ver)
	}
	return ps
}

type wcSession struct {
	dir      string
	pattern  string
	types    [3]bool            // ljh22, ljh3, off as reported at START
	expected [][3][]*DataRecord // per channel, per type: records that must be in the file
	extTrig  []int64
	drops    [][2]int64
	labels   []wcLabel
	stopped  bool
	stopLo   time.Time
	stopHi   time.Time
	// OFF files exist for the channels that had projectors when the session started
	offEligible []bool
	projAtStart []*wcProjSet
	// offProj[c][i]: the matrices in force when the i-th expected OFF record of channel c was analysed
	offProj [][]*wcProjSet
	// gone: the operator deleted or renamed the (stopped) session's directory
	gone bool
	// ident: the source's channel table (the truth the headers are compared with)
	ident *wcIdentity
	// life: the run of the source (1, 2, ...) in which the session started
	life int
	// I/O faults: handles substituted / creation failed before the session's START request
	fullAtStart        int
	createFailedBefore bool
	// side files whose content is not judged because the injected I/O fault touched them in this session
	skipES, skipET, skipDD bool
	// afterFailStop: the session ended by the core loop's fail-stop; optExt/optDrops are the events of the
	// block(s) in whose processing the failure surfaced, in order: any whole-block prefix of them may be present
	afterFailStop bool
	optExt        [][]int64
	optDrops      [][2]int64
}

type wcLabel struct {
	label  string
	lo, hi time.Time // the time stamp must lie in [lo, hi]
}

func openFDsUnder(dir string) []string {
	var out []string
	ents, err := os.ReadDir("/proc/self/fd")
	if err != nil {
		return nil
	}
	for _, e := range ents {
		if tgt, err := os.Readlink("/proc/self/fd/" + e.Name()); err == nil && strings.HasPrefix(tgt, dir) && !strings.HasSuffix(tgt, "(deleted)") {
			out = append(out, tgt)
		}
	}
	return out
}

func sameState(a, b *WritingState) bool {
	return a.Active == b.Active && a.Paused == b.Paused && a.BasePath == b.BasePath && a.FilenamePattern == b.FilenamePattern &&
		a.WriteLJH22 == b.WriteLJH22 && a.WriteLJH3 == b.WriteLJH3 && a.WriteOFF == b.WriteOFF
}

func stateString(s *WritingState) string {
	return fmt.Sprintf("{active=%v paused=%v ljh22=%v ljh3=%v off=%v pattern=%q}", s.Active, s.Paused, s.WriteLJH22, s.WriteLJH3, s.WriteOFF, filepath.Base(s.FilenamePattern))
}

// wcSource is the scripted source of this world. It differs from ScriptedSource in one method: the
// core loop's last deferred call, RunDoneDeactivate, notices the loop's deliberate fail-stop panic
// ("Panic to stop source when processSegments errors") and lets the simulated process end there
// WITHOUT ending the simulation, so that what the dying process left on disk can be judged (the
// deferred clean-up of CoreLoop has run by then, exactly as it does before a real process dies).
// Every other panic of the core loop is reported as the violation it always was.
type wcSource struct {
	ScriptedSource
	failStops  int    // deliberate fail-stop panics of the core loop
	failValue  string // the panic value of the last one
	failStack  string
	deactivate int // calls of RunDoneDeactivate (ends of a run)
	run        *wcRun
	// ident is the channel table of the simulated hardware (names, numbers, array geometry, sub-frame
	// parameters per channel): what a real source learns from its cards / channel groups.
	ident *wcIdentity
}

// wcChanIdent is the true identity of one channel.
type wcChanIdent struct {
	name                 string
	number               int
	row, col, rows, cols int
	suboff               int
}

// wcIdentity is the channel table of the world's source. The harness draws it; PrepareChannels hands it
// to dastard the way the real sources' PrepareChannels do; the file oracle reads it, never the copy
// dastard holds.
type wcIdentity struct {
	layout   string // uniform | groups | cards
	source   string // the data source's name as the headers must state it
	ch       []wcChanIdent
	subdiv   int
	groups   []GroupIndex
	perPixel int
	desc     string
}

// geometries returns the number of distinct (rows, cols) pairs among the channels.
func (id *wcIdentity) geometries() int {
	seen := map[[2]int]bool{}
	for _, c := range id.ch {
		seen[[2]int{c.rows, c.cols}] = true
	}
	return len(seen)
}

// wcDrawIdentity draws the channel table. Three families, as the real sources make them:
//   - uniform: one rows x cols array, column-major, every channel with the same geometry (the simulated
//     sources, a Roach, one Lancero card, one Abaco group);
//   - groups: an Abaco-like source, every channel group a column of its own length (rows = the group's size,
//     cols = number of groups), numbers = first channel of the group + index, gaps between groups;
//   - cards: a Lancero-like source, several cards each with its own rows x cols, numbering with the
//     first-row number / column separation / card separation options, optionally an error and a feedback
//     channel per pixel that share a number ("err7", "chan7"), sub-frame offset = row.
//
// One channel and many (up to 16) channels are both drawn.
func wcDrawIdentity() *wcIdentity {
	id := &wcIdentity{perPixel: 1}
	kind := simrt.Draw(8)
	many := kind == 7
	if many {
		kind = 3 + simrt.Draw(4)
	}
	limit := 12
	if many {
		limit = 16
	}
	switch {
	case kind < 3:
		id.layout, id.source = "uniform", "Scripted"
		rows := 1 + simrt.Draw(3)
		cols := 1 + simrt.Draw(2)
		base := []int{0, 1, 1, 17, 4000}[simrt.Draw(5)]
		id.subdiv = []int{1, rows, 64}[simrt.Draw(3)]
		for i := 0; i < rows*cols; i++ {
			id.ch = append(id.ch, wcChanIdent{name: fmt.Sprintf("chan%d", base+i), number: base + i, row: i % rows, col: i / rows, rows: rows, cols: cols, suboff: (i % rows) % id.subdiv})
		}
		id.groups = []GroupIndex{{Firstchan: base, Nchan: rows * cols}}
		id.desc = fmt.Sprintf("uniform %dx%d, numbers from %d", rows, cols, base)
	case kind < 5:
		id.layout, id.source = "groups", "Abaco"
		ng := 1 + simrt.Draw(4)
		maxSize := 4
		if many {
			ng, maxSize = 3+simrt.Draw(3), 6
		}
		next := []int{0, 1, 100}[simrt.Draw(3)]
		id.subdiv = []int{64, 1, 7}[simrt.Draw(3)]
		offsets := simrt.Draw(2) == 0 // (Abaco itself: all zero)
		var sizes []int
		total := 0
		for g := 0; g < ng; g++ {
			sz := 1 + simrt.Draw(maxSize)
			if total+sz > limit {
				sz = limit - total
			}
			if sz <= 0 {
				break
			}
			sizes = append(sizes, sz)
			total += sz
		}
		for g, sz := range sizes {
			id.groups = append(id.groups, GroupIndex{Firstchan: next, Nchan: sz})
			for r := 0; r < sz; r++ {
				so := 0
				if offsets {
					so = simrt.Draw(id.subdiv)
				}
				id.ch = append(id.ch, wcChanIdent{name: fmt.Sprintf("chan%d", next+r), number: next + r, row: r, col: g, rows: sz, cols: len(sizes), suboff: so})
			}
			next += sz + []int{0, 0, 5, 64}[simrt.Draw(4)]
		}
		id.desc = fmt.Sprintf("channel groups of sizes %v", sizes)
	default:
		id.layout, id.source = "cards", "Lancero"
		ncards := 1 + simrt.Draw(3)
		type card struct{ nrows, ncols int }
		var cards []card
		maxRows := 3
		if many {
			maxRows = 4
		}
		pixels := 0
		for k := 0; k < ncards; k++ {
			cd := card{1 + simrt.Draw(maxRows), 1 + simrt.Draw(2)}
			if pixels+cd.nrows*cd.ncols > limit {
				break
			}
			cards = append(cards, cd)
			pixels += cd.nrows * cd.ncols
		}
		pairs := simrt.Draw(2) == 0 && 2*pixels <= limit
		if pairs {
			id.perPixel = 2
		}
		first := []int{0, 1, 2, 33}[simrt.Draw(4)]
		sepCols := []int{0, 4, 32}[simrt.Draw(3)]
		sepCards := []int{0, 64, 1000}[simrt.Draw(3)]
		fbOffsetZero := simrt.Draw(2) == 0 // the feedback channel of a pair reads 0 (as the Lancero source has it) or its row
		for _, cd := range cards {
			if cd.nrows > id.subdiv {
				id.subdiv = cd.nrows
			}
		}
		cnum := first
		thisColFirst := cnum - sepCols
		for k, cd := range cards {
			if sepCards > 0 {
				cnum = k*sepCards + first
				thisColFirst = cnum - sepCols
			}
			for col := 0; col < cd.ncols; col++ {
				if sepCols > 0 {
					cnum = thisColFirst + sepCols
				}
				thisColFirst = cnum
				id.groups = append(id.groups, GroupIndex{Firstchan: cnum, Nchan: cd.nrows})
				for row := 0; row < cd.nrows; row++ {
					if pairs {
						id.ch = append(id.ch, wcChanIdent{name: fmt.Sprintf("err%d", cnum), number: cnum, row: row, col: col, rows: cd.nrows, cols: cd.ncols, suboff: row})
					}
					so := row
					if pairs && fbOffsetZero {
						so = 0
					}
					id.ch = append(id.ch, wcChanIdent{name: fmt.Sprintf("chan%d", cnum), number: cnum, row: row, col: col, rows: cd.nrows, cols: cd.ncols, suboff: so})
					cnum++
				}
			}
		}
		id.desc = fmt.Sprintf("cards %v, err/chan pairs %v, first number %d, column separation %d, card separation %d", cards, pairs, first, sepCols, sepCards)
	}
	simrt.Hit("identity:layout:" + id.layout)
	if len(id.ch) == 1 {
		simrt.Hit("identity:one-channel")
	}
	if len(id.ch) >= 8 {
		simrt.Hit("identity:eight-or-more-channels")
	}
	if id.geometries() > 1 {
		simrt.Hit("identity:channels-do-not-share-one-geometry")
	}
	if id.ch[0].number != 1 {
		simrt.Hit("identity:numbering-does-not-start-at-1")
	}
	if id.perPixel == 2 {
		simrt.Hit("identity:error-and-feedback-channel-share-a-number")
	}
	return id
}

// PrepareChannels is part of DataSource: the channel table of the simulated hardware, handed over the way
// AbacoSource / LanceroSource.PrepareChannels do it.
func (s *wcSource) PrepareChannels() error {
	id := s.ident
	n := len(id.ch)
	s.channelsPerPixel = id.perPixel
	s.groupKeysSorted = append([]GroupIndex{}, id.groups...)
	s.chanNames = make([]string, n)
	s.chanNumbers = make([]int, n)
	s.subframeOffsets = make([]int, n)
	s.rowColCodes = make([]RowColCode, n)
	s.subframeDivisions = id.subdiv
	for i, c := range id.ch {
		s.chanNames[i] = c.name
		s.chanNumbers[i] = c.number
		s.subframeOffsets[i] = c.suboff
		s.rowColCodes[i] = rcCode(c.row, c.col, c.rows, c.cols)
	}
	return nil
}

// wcRun counts per run of the source: a producer that is still finishing its last step when the next
// run starts counts into its own run's object, never into the new one's.
type wcRun struct {
	delivered int // blocks handed over to the core loop in this run
}

// StartRun is part of DataSource: ScriptedSource's producer, bound to the channels and the counter of
// this run.
func (s *wcSource) StartRun() error {
	s.starts++
	run := new(wcRun)
	s.run = run
	s.delivered = 0
	abort, next, feed := s.abortSelf, s.nextBlock, s.feed
	go func() {
		for {
			select {
			case <-abort:
				close(next)
				return
			case b, ok := <-feed:
				if !ok || b == nil {
					close(next)
					return
				}
				select {
				case next <- b:
					run.delivered++
					if s.run == run {
						s.delivered = run.delivered
					}
					if b.err != nil {
						return
					}
				case <-abort:
					close(next)
					return
				}
			}
		}
	}()
	return nil
}

// RunDoneDeactivate is part of DataSource; CoreLoop defers it first, so it runs last.
func (s *wcSource) RunDoneDeactivate() {
	r := recover()
	s.deactivate++
	if r == nil {
		s.ScriptedSource.RunDoneDeactivate()
		return
	}
	var val string
	switch v := r.(type) {
	case string:
		val = v
	case error:
		val = v.Error()
	default:
		// not a panic of the program (the simulator's own unwinding): pass it on untouched
		s.ScriptedSource.RunDoneDeactivate()
		panic(r)
	}
	stack := string(debug.Stack())
	s.ScriptedSource.RunDoneDeactivate()
	if strings.Contains(val, wcFailStop) {
		s.failStops++
		s.failValue, s.failStack = val, stack
		return
	}
	wcReportPanic(val, stack)
}

// wcReportPanic reports a panic of the core loop with the signature the default judge gives it.
func wcReportPanic(val, stack string) {
	frame := wcTopFrame(stack)
	if frame == "" {
		frame = val
		if i := strings.IndexByte(frame, '\n'); i >= 0 {
			frame = frame[:i]
		}
		if len(frame) > 120 {
			frame = frame[:120]
		}
	}
	st := strings.Split(stack, "\n")
	if len(st) > 40 {
		st = st[:40]
	}
	simrt.Fail("no-panic", "panic:"+frame, "%s\n%s", val, strings.Join(st, "\n"))
}

// wcTopFrame: the innermost function of the program under test below the panic (as simrt does it).
func wcTopFrame(stack string) string {
	seenPanic := false
	for _, l := range strings.Split(stack, "\n") {
		if strings.HasPrefix(l, "panic(") {
			seenPanic = true
			continue
		}
		if !seenPanic {
			continue
		}
		if strings.HasPrefix(l, simrt.ModulePrefix) && !strings.Contains(l, "zz_verif") && !strings.Contains(l, "wcSource") {
			if j := strings.LastIndex(l, "("); j > 0 {
				l = l[:j]
			}
			return strings.TrimPrefix(l, simrt.ModulePrefix)
		}
	}
	return ""
}

// wcBlockEv: what one block carried for the run-log side files.
type wcBlockEv struct {
	idx   int // index of the block within the current run of the source
	ext   []int64
	first int64
	drop  int
}

func wcBody(env *simrt.Env, check string) {
	ident := wcDrawIdentity()
	nchan := len(ident.ch)
	nsamp := []int{8, 16, 40}[simrt.Draw(3)]
	npre := 3 + simrt.Draw(nsamp-4)
	rate := 10000.0
	w := newPipeWorld(env, nchan, npre, nsamp, rate)
	// this world's source: a ScriptedSource whose end of run can be observed (see wcSource)
	src := new(wcSource)
	src.name = ident.source
	src.ident = ident
	src.subframeDivisions = ident.subdiv
	src.nchan = nchan
	src.sampleRate = rate
	src.samplePeriod = time.Duration(roundint(1e9 / rate))
	src.feed = make(chan *dataBlock)
	w.ss = &src.ScriptedSource
	w.ss.heartbeats = w.sc.heartbeats
	resetViper(env.Dir)
	for c := range w.signed {
		w.signed[c] = simrt.Draw(2) == 0
	}
	w.F0 = FrameIndex([]int64{0, 1000, 1 << 35}[simrt.Draw(3)])
	w.T0 = time.Now()
	total := 60 * 4 * nsamp
	w.stream = make([][]RawType, nchan)
	for c := 0; c < nchan; c++ {
		s := make([]RawType, total)
		if nchan <= 6 {
			for i := range s {
				s[i] = RawType(1000*(c+1) + i%97 + simrt.Draw(3))
			}
		} else {
			// (many channels: one draw per channel instead of one per sample keeps the tape short)
			x := uint32(simrt.Draw(1<<16)) + 1
			for i := range s {
				x = x*1664525 + 1013904223
				s[i] = RawType(1000*(c+1) + i%97 + int((x>>16)%3))
			}
		}
		w.stream[c] = s
	}

	hasProj := make([]bool, nchan)
	projNow := make([]*wcProjSet, nchan) // the matrices in force per channel (nil: none)
	projVer := 0
	configure := func(c int, ps *wcProjSet) error {
		pb, _ := mat.NewDense(ps.nbases, nsamp, append([]float64{}, ps.proj...)).MarshalBinary()
		bb, _ := mat.NewDense(nsamp, ps.nbases, append([]float64{}, ps.basis...)).MarshalBinary()
		var ok bool
		return w.sc.ConfigureProjectorsBasis(&ProjectorsBasisObject{ChannelIndex: c, ProjectorsBase64: base64.StdEncoding.EncodeToString(pb),
			BasisBase64: base64.StdEncoding.EncodeToString(bb), ModelDescription: fmt.Sprintf("verif v%d", ps.ver)}, &ok)
	}
	nbases := 1 + simrt.Draw(3)
	autoDelay := time.Duration(float64(nsamp+simrt.Draw(nsamp)) / rate * float64(time.Second))

	// startSource does for this world's source what SourceControl.Start does for the built-in ones (the
	// switch there only knows the built-in names), then configures what a restarted source forgets:
	// auto triggers on every channel (a record every 1..2 record lengths) and projectors on a drawn subset.
	lives := 0     // runs of the source started so far
	lifeFed0 := 0  // blocks fed before the current run of the source started
	alive := false // the source runs
	startSource := func() {
		s := w.sc
		s.ActiveSource = DataSource(src)
		s.status.SourceName = "Scripted"
		s.status.Running = true
		if err := Start(s.ActiveSource, s.queuedRequests, s.status.Npresamp, s.status.Nsamples); err != nil {
			simrt.Fail("harness.start", "harness:start", "Start (run %d of the source) failed: %v", lives+1, err)
		}
		s.isSourceActive = true
		s.status.SamplePeriod = s.ActiveSource.SamplePeriod()
		s.status.Nchannels = s.ActiveSource.Nchan()
		s.status.ChanGroups = s.ActiveSource.ChanGroups()
		s.broadcastStatus()
		s.broadcastTriggerState()
		s.broadcastGroupTriggerState()
		s.broadcastChannelNames()
		lives++
		lifeFed0 = w.fed
		alive = true
		all := make([]int, nchan)
		for i := range all {
			all[i] = i
		}
		ts := TriggerState{AutoTrigger: true, AutoDelay: autoDelay, EdgeLevel: 100, EdgeRising: true}
		var ok bool
		if err := w.sc.ConfigureTriggers(&FullTriggerState{ChannelIndices: all, TriggerState: ts}, &ok); err != nil {
			simrt.Fail("harness.configure", "harness:configure", "%v", err)
		}
		for c := 0; c < nchan; c++ {
			hasProj[c], projNow[c] = false, nil
			if simrt.Draw(2) == 0 {
				continue
			}
			ver := 0
			if lives > 1 {
				projVer++
				ver = projVer
			}
			ps := wcMakeProj(c, ver, nbases, nsamp)
			if err := configure(c, ps); err != nil {
				simrt.Fail("harness.projectors", "harness:projectors", "%v", err)
			}
			hasProj[c] = true
			projNow[c] = ps
		}
	}
	startSource()

	// I/O faults (faulted runs of all three checks). Record files are never affected: C05b's content oracle
	// stays exact, and a STOP (or the end of a run) that meets a failing side file must still leave every
	// record file complete and closed.
	//  * full disk for one class of run-log side files: the handle is on /dev/full, every write fails;
	//  * the creation of the experiment-state file fails once (EIO, ENOSPC, EMFILE, EACCES, or ENOENT as
	//    when the run directory vanished between two steps of START).
	var fullFS *simrt.FaultFS
	faultClass := ""
	if env.Faulted() {
		switch simrt.DrawFault(4) {
		case 0:
		case 1, 2:
			fullFS = simrt.NewFaultFS(env.Dir)
			faultClass = []string{"experiment_state", "external_trigger", "data_drop"}[simrt.DrawFault(3)]
			fullFS.FullMatch = []string{faultClass}
			fullFS.FullFrom = simrt.DrawFault(3)
			fullFS.FullCount = simrt.DrawFault(3)
			simrt.SetFS(fullFS)
			env.Op("fault plan: the disk is full for the %s file from its creation #%d on (%d creations, 0 = all)", faultClass, fullFS.FullFrom, fullFS.FullCount)
		default:
			fullFS = simrt.NewFaultFS(env.Dir)
			fullFS.FailMatch = "experiment_state"
			fullFS.FailAt = simrt.DrawFault(3)
			fullFS.FailErr = []error{syscall.EIO, syscall.ENOSPC, syscall.EMFILE, syscall.EACCES, syscall.ENOENT}[simrt.DrawFault(5)]
			simrt.SetFS(fullFS)
			env.Op("fault plan: creation #%d of an experiment-state file fails with %v", fullFS.FailAt, fullFS.FailErr)
		}
	}
	// ioFault: some I/O fault has happened in this run (from then on an error reply does not mean "refused")
	ioFault := func() bool { return fullFS != nil && (fullFS.FullFired > 0 || fullFS.Fired) }
	fullFired := func() int {
		if fullFS == nil {
			return 0
		}
		return fullFS.FullFired
	}
	createFailed := func() bool { return fullFS != nil && fullFS.Fired }
	env.Op("write-control world: %d channels (%s; source %q), nsamp=%d npre=%d subdiv=%d projectors=%v", nchan, ident.desc, ident.source, nsamp, npre, ident.subdiv, hasProj)
	for c, ci := range ident.ch {
		env.Op("  channel %d: %s number %d, row %d of %d, column %d of %d, sub-frame offset %d", c, ci.name, ci.number, ci.row, ci.rows, ci.col, ci.cols, ci.suboff)
	}

	basePath := filepath.Join(env.Dir, "data")
	var sessions []*wcSession
	var superseded []*wcSession
	var cur *wcSession
	state := w.ss.ComputeWritingState()
	recIdx := 0
	dirsSeen := map[string]bool{}
	removed := 0 // run directories deleted or renamed by the operator
	extNext := int64(100)
	processDead := false    // the core loop ended by its fail-stop panic: the process is gone, nothing follows
	var fullFiredBefore int // substituted handles / failed creation before the request in progress
	var createFailedBefore bool
	pausedAtSelfEnd := false // the last run of the source ended by itself while writing was paused

	// markFaults notes on the session which of its side files an I/O fault has touched (their content is
	// then not judged; everything else stays strict)
	markFaults := func(s *wcSession) {
		if s == nil || fullFS == nil {
			return
		}
		if fullFired() > s.fullAtStart {
			switch faultClass {
			case "experiment_state":
				s.skipES = true
			case "external_trigger":
				s.skipET = true
			case "data_drop":
				s.skipDD = true
			}
		}
		if createFailed() && !s.createFailedBefore {
			s.skipES = true
		}
	}
	endSession := func(s *wcSession, lo, hi time.Time) {
		s.stopped = true
		s.stopLo, s.stopHi = lo, hi
		markFaults(s)
		checkSessionFiles(w, check, s)
	}

	// attribute the records published since the last look to the files they must be in
	attributeRecords := func() {
		w.drain()
		for ; recIdx < len(w.sk.recs); recIdx++ {
			r := w.sk.recs[recIdx].rec
			if cur == nil || cur.stopped || !state.Active || state.Paused {
				continue
			}
			c := r.channelIndex
			if state.WriteLJH22 {
				cur.expected[c][0] = append(cur.expected[c][0], r)
			}
			if state.WriteLJH3 {
				cur.expected[c][1] = append(cur.expected[c][1], r)
			}
			if state.WriteOFF && cur.offEligible[c] {
				cur.expected[c][2] = append(cur.expected[c][2], r)
				cur.offProj[c] = append(cur.offProj[c], projNow[c])
			}
		}
	}
	// events belong to the session that is active when the block is processed
	attributeEvents := func(ev wcBlockEv) {
		if cur != nil && !cur.stopped {
			cur.extTrig = append(cur.extTrig, ev.ext...)
			if ev.drop > 0 {
				cur.drops = append(cur.drops, [2]int64{ev.first, int64(ev.drop)})
			}
			if len(ev.ext) > 0 {
				simrt.Hit("ext-triggers-while-active")
			}
			if state.Paused && (len(ev.ext) > 0 || ev.drop > 0) {
				simrt.Hit("events-while-paused")
			}
		} else if len(ev.ext) > 0 || ev.drop > 0 {
			simrt.Hit("events-while-inactive")
		}
	}

	// feedRaw hands one block with drawn external triggers and drop count to the source; it returns as soon
	// as the source has accepted the block (the core loop may not have seen it yet).
	feedRaw := func(eventful bool) wcBlockEv {
		n := nsamp + simrt.Draw(3*nsamp)
		var ext []int64
		pExt, pDrop := 3, 4
		if eventful {
			pExt, pDrop = 2, 2
		}
		if simrt.Draw(pExt) == 0 {
			nExt := 1 + simrt.Draw(5)
			if simrt.Draw(6) == 0 || (faultClass == "external_trigger" && simrt.Draw(3) == 0) {
				// a burst: more bytes than the side file's write buffer holds (hundreds of edges in one block)
				nExt = 300 + simrt.Draw(900)
				simrt.Hit("ext-trigger-burst")
				if faultClass == "external_trigger" && fullFired() > 0 && state.Active {
					simrt.Hit("ext-trigger-burst-while-its-file-is-on-the-full-disk")
				}
			}
			for k := 0; k < nExt; k++ {
				extNext += 1 + int64(simrt.Draw(50))
				ext = append(ext, extNext)
			}
		}
		drop := 0
		if simrt.Draw(pDrop) == 0 {
			drop = 1 + simrt.Draw(20)
		}
		ev := wcBlockEv{idx: w.fed - lifeFed0, ext: ext, first: int64(w.F0) + int64(w.sent), drop: drop}
		fedBefore := w.fed
		w.feedBlock(n, func(b *dataBlock) {
			b.externalTriggerRowcounts = ext
			for i := range b.segments {
				b.segments[i].droppedFrames = drop
			}
		})
		if w.fed == fedBefore {
			// the ground-truth stream is used up: nothing was fed
			ev.idx = -1
		}
		return ev
	}

	// syncLoop returns true after every block fed in this run of the source has been completely processed
	// (the producer has handed over the last one and an empty request has gone through the core loop: requests
	// run between blocks), false when the run of the source has ended instead. A loop that does neither
	// within a minute of simulated time is wedged.
	syncLoop := func() bool {
		t0 := time.Now()
		wedged := func() {
			simrt.Fail(check+".loop-alive", "wc:core-loop-neither-serves-nor-ends", "for 60 s of simulated time the core loop has neither taken a request nor ended (blocks fed in this run %d, handed over %d; fail-stop panics so far %d; I/O fault fired: %v); tasks %v",
				w.fed-lifeFed0, src.run.delivered, src.failStops, ioFault(), simrt.AliveTaskInfo())
		}
		for src.run.delivered < w.fed-lifeFed0 {
			time.Sleep(10 * time.Microsecond)
			if !w.ss.Running() {
				return false
			}
			if time.Since(t0) > 60*time.Second {
				wedged()
			}
		}
		done := make(chan struct{})
		f := func() { close(done) }
		for {
			if !w.ss.Running() {
				return false
			}
			select {
			case w.sc.queuedRequests <- f:
				<-done
				return true
			case <-time.After(5 * time.Millisecond):
			}
			if time.Since(t0) > 60*time.Second {
				wedged()
			}
		}
	}

	// afterFailStop: the core loop has ended by its deliberate fail-stop panic while processing one of the
	// blocks in evs (their events may or may not have reached the side files). A real process is dead at
	// this point; its deferred clean-up has run. What it left on disk is judged: every record published while
	// the state said active and unpaused is in its file, complete; the experiment-state file ends with STOP;
	// the side files hold every event of the blocks processed before — except the file on the full disk.
	afterFailStop := func(evs []wcBlockEv, lo time.Time) {
		hi := time.Now()
		processDead = true
		alive = false
		legit := fullFS != nil && fullFired() > 0 && (faultClass == "external_trigger" || faultClass == "data_drop")
		env.Op("the core loop ends by its fail-stop panic (legitimate: %v)", legit)
		if !legit {
			// no failing side-file write explains it: a panic like any other
			wcReportPanic(src.failValue, src.failStack)
		}
		simrt.Hit("fail-stop:side-file-write-error")
		attributeRecords()
		if cur != nil && !cur.stopped {
			for _, ev := range evs {
				if ev.idx >= 0 {
					cur.optExt = append(cur.optExt, ev.ext)
					cur.optDrops = append(cur.optDrops, [2]int64{ev.first, int64(ev.drop)})
				}
			}
			cur.afterFailStop = true
			simrt.Hit("fail-stop:files-on-disk-judged")
			endSession(cur, lo, hi)
		}
	}

	feed := func(nblocks int) {
		for b := 0; b < nblocks && alive; b++ {
			lo := time.Now()
			ev := feedRaw(false)
			if !syncLoop() {
				if src.failStops == 0 {
					simrt.Fail(check+".loop-alive", "wc:source-ended-unasked", "the run of the source ended although nobody stopped it and the hardware reported no error")
				}
				afterFailStop([]wcBlockEv{ev}, lo)
				return
			}
			if ev.idx >= 0 {
				attributeEvents(ev)
			}
		}
		attributeRecords()
	}

	// sessionBookkeeping follows the *reported* state after something that may have changed it.
	sessionBookkeeping := func(prev, now *WritingState, lo, hi time.Time) {
		if now.Active && (!prev.Active || now.FilenamePattern != prev.FilenamePattern) {
			dir := filepath.Dir(now.FilenamePattern)
			if dirsSeen[dir] {
				simrt.Fail("C06.new-directory", "wc:directory-reused", "START reports directory %s which an earlier START already used", dir)
			}
			dirsSeen[dir] = true
			if ents, e := os.ReadDir(dir); e != nil {
				simrt.Fail("C06.new-directory", "wc:directory-missing", "START reports directory %s which does not exist: %v", dir, e)
			} else {
				for _, en := range ents {
					if !strings.Contains(en.Name(), "experiment_state") {
						simrt.Fail("C06.new-directory", "wc:directory-not-new", "directory %s of a fresh START already holds %s", dir, en.Name())
					}
				}
			}
			if cur != nil && !cur.stopped {
				// a START accepted while the previous session was still active: what that session's
				// files hold is checked once everything has been stopped
				superseded = append(superseded, cur)
				simrt.Hit("start-accepted-while-active")
			}
			cur = &wcSession{dir: dir, pattern: now.FilenamePattern, types: [3]bool{now.WriteLJH22, now.WriteLJH3, now.WriteOFF}, expected: make([][3][]*DataRecord, nchan),
				offEligible: append([]bool{}, hasProj...), projAtStart: append([]*wcProjSet{}, projNow...), offProj: make([][]*wcProjSet, nchan),
				life: lives, ident: ident}
			// I/O faults that happened before this request are not this session's (the request itself is)
			cur.fullAtStart = fullFiredBefore
			cur.createFailedBefore = createFailedBefore
			sessions = append(sessions, cur)
			if prev.Paused {
				simrt.Hit("start-after-paused-run")
			}
			if lives > 1 {
				simrt.Hit("writing-started-in-a-later-run-of-the-source")
				if pausedAtSelfEnd {
					simrt.Hit("writing-started-after-a-run-that-ended-by-itself-while-paused")
				}
			}
		}
		if !now.Active && prev.Active && cur != nil {
			if now.Paused {
				simrt.Fail("C06.stop-state", "wc:stop-leaves-paused", "after STOP the reported state is %s", stateString(now))
			}
			endSession(cur, lo, hi)
		}
	}

	var request func(lifeOps bool)

	// restartSource: after the run of the source has ended, a client may ask a few things of the stopped
	// server (every one of them must be refused and change nothing), then the source is started again.
	restartSource := func() {
		for k := simrt.Draw(3); k > 0 && !processDead; k-- {
			simrt.Hit("request-while-the-source-is-stopped")
			request(false)
		}
		if simrt.Draw(2) == 0 {
			// a client that does not know the source has ended asks for Stop first
			var dummy string
			var ok bool
			simrt.Within(60*time.Second, check+".stop-returns", "wc:stop-hangs", func() { w.sc.Stop(&dummy, &ok) })
		} else {
			w.sc.handlePossibleStoppedSource()
		}
		prev := w.ss.ComputeWritingState()
		startSource()
		now := w.ss.ComputeWritingState()
		env.Op("the source is started again (run %d); reported %s; projectors=%v", lives, stateString(now), hasProj)
		simrt.Hit("source-restarted")
		_ = prev
		state = now
	}

	// endOfRun: the run of the source has ended (client Stop, or by itself). Bookkeeping follows the report.
	endOfRun := func(what string, lo, hi time.Time) {
		alive = false
		prev := state
		attributeRecords()
		now := w.ss.ComputeWritingState()
		env.Op("%s; reported %s", what, stateString(now))
		if prev.Active && now.Active {
			// nothing in C06/C20 says the end of a run is a STOP; what follows is judged as always
			simrt.Hit("writing-reported-active-after-the-run-ended")
		}
		fullFiredBefore, createFailedBefore = fullFired(), createFailed()
		sessionBookkeeping(prev, now, lo, hi)
		state = now
	}

	// sourceStop: the client stops the SOURCE (no WriteControl STOP first) while 0-2 blocks with events are in
	// flight: fed to the source, not necessarily seen by the core loop. Every block the source delivered to
	// the loop before the run ended was delivered while writing was (still) active — nobody asked to stop
	// writing before — so its events must be in the side files, its records in the record files.
	sourceStop := func() {
		var inflight []wcBlockEv
		lo0 := time.Now()
		nb := simrt.Draw(3)
		if !state.Active {
			nb = simrt.Draw(2)
		}
		for k := 0; k < nb; k++ {
			inflight = append(inflight, feedRaw(true))
		}
		for k := simrt.Draw(40); k > 0; k-- {
			simrt.Gosched()
		}
		if state.Active {
			simrt.Hit("source-stopped-while-writing")
			if state.Paused {
				simrt.Hit("source-stopped-while-writing-paused")
			}
			if len(inflight) > 0 {
				simrt.Hit("source-stopped-while-writing-with-blocks-in-flight")
			}
		}
		pausedAtSelfEnd = false
		lo := time.Now()
		var dummy string
		var ok bool
		simrt.Within(60*time.Second, check+".stop-returns", "wc:stop-hangs", func() { w.sc.Stop(&dummy, &ok) })
		hi := time.Now()
		if src.failStops > 0 {
			afterFailStop(inflight, lo0)
			return
		}
		delivered := src.run.delivered
		for _, ev := range inflight {
			if ev.idx < 0 {
				continue
			}
			if ev.idx < delivered {
				attributeEvents(ev)
				if state.Active && (len(ev.ext) > 0 || ev.drop > 0) {
					simrt.Hit("events-of-a-block-in-flight-when-the-source-was-stopped")
				}
			} else {
				simrt.Hit("block-in-flight-never-delivered-because-the-source-was-stopped")
			}
		}
		endOfRun(fmt.Sprintf("source Stop with %d blocks in flight (%d delivered in this run)", len(inflight), delivered), lo, hi)
	}

	// selfEnd: the hardware reports an error, or the data channel closes: the run ends by itself.
	selfEnd := func() {
		if state.Active {
			simrt.Hit("self-termination-while-writing")
			if state.Paused {
				simrt.Hit("self-termination-while-writing-paused")
			}
		}
		pausedAtSelfEnd = state.Active && state.Paused
		lo := time.Now()
		what := "the source delivers an error block"
		if simrt.Draw(2) == 0 {
			b := new(dataBlock)
			b.err = fmt.Errorf("scripted hardware error")
			w.ss.feed <- b
		} else {
			w.ss.feed <- nil
			what = "the source closes its block channel"
		}
		simrt.Fault("self-termination")
		for w.ss.Running() {
			if time.Since(lo) > 60*time.Second {
				simrt.Fail(check+".loop-alive", "wc:self-termination-ignored", "the source is still running 60 s after %s; tasks %v", what, simrt.AliveTaskInfo())
			}
			time.Sleep(200 * time.Microsecond)
		}
		if src.failStops > 0 {
			afterFailStop(nil, lo)
			return
		}
		endOfRun(what, lo, time.Now())
	}

	request = func(lifeOps bool) {
		var ok bool
		kind := simrt.Draw(16)
		if kind >= 14 && (!lifeOps || lives >= 4) {
			kind = simrt.Draw(14)
		}
		if kind == 15 && !env.Faulted() {
			kind = 14 // a failing source is a fault; a client stopping the source is not
		}
		prev := state
		var req string
		var err error
		fullFiredBefore, createFailedBefore = fullFired(), createFailed()
		lo := time.Now()
		switch {
		case kind < 3: // START with a subset of types
			cfg := &WriteControlConfig{Request: []string{"START", "Start", "start"}[simrt.Draw(3)], Path: basePath}
			m := simrt.Draw(8)
			cfg.WriteLJH22, cfg.WriteLJH3, cfg.WriteOFF = m&1 != 0, m&2 != 0, m&4 != 0
			req = fmt.Sprintf("START ljh22=%v ljh3=%v off=%v", cfg.WriteLJH22, cfg.WriteLJH3, cfg.WriteOFF)
			err = w.sc.WriteControl(cfg, &ok)
			if createFailed() && !createFailedBefore {
				simrt.Hit("start-whose-experiment-state-file-cannot-be-created")
			}
		case kind < 5:
			req = "STOP"
			err = w.sc.WriteControl(&WriteControlConfig{Request: "STOP"}, &ok)
		case kind < 7:
			req = "PAUSE"
			err = w.sc.WriteControl(&WriteControlConfig{Request: "Pause"}, &ok)
		case kind < 9:
			req = "UNPAUSE"
			err = w.sc.WriteControl(&WriteControlConfig{Request: "UNPAUSE"}, &ok)
		case kind < 10:
			lbl := []string{"A", "run 7", "x,y"}[simrt.Draw(3)]
			req = "UNPAUSE " + lbl
			err = w.sc.WriteControl(&WriteControlConfig{Request: req}, &ok)
			if err == nil && cur != nil && !cur.stopped {
				cur.labels = append(cur.labels, wcLabel{lbl, lo, time.Now()})
			}
		case kind < 11:
			req = []string{"FOO", "UNPAUSEx", "UNPAUSE ", ""}[simrt.Draw(4)]
			err = w.sc.WriteControl(&WriteControlConfig{Request: req}, &ok)
			req = fmt.Sprintf("malformed %q", req)
		case kind < 12:
			lbl := []string{"cal", "dark", "beam on"}[simrt.Draw(3)]
			req = "label " + lbl
			err = w.sc.SetExperimentStateLabel(&StateLabelConfig{Label: lbl, WaitForError: true}, &ok)
			if err == nil && cur != nil && !cur.stopped {
				// (the stamp is taken somewhere inside the request: the statement says no more than "timestamped")
				cur.labels = append(cur.labels, wcLabel{lbl, lo, time.Now()})
			}
		case kind < 13:
			// projectors/basis are (re)loaded at any time, also while writing. Whether the server accepts
			// is its business; which matrices are in force for which record is what the file oracle needs.
			c := simrt.Draw(nchan)
			nb := nbases
			if simrt.Draw(3) == 0 {
				nb = 1 + simrt.Draw(3)
			}
			projVer++
			ps := wcMakeProj(c, projVer, nb, nsamp)
			req = fmt.Sprintf("PROJECTORS channel %d v%d nbases %d", c, projVer, nb)
			err = configure(c, ps)
			if err == nil {
				projNow[c] = ps
				hasProj[c] = true
				if prev.Active {
					simrt.Hit("projectors-accepted-while-writing")
				}
			} else if prev.Active {
				simrt.Hit("projectors-refused-while-writing")
			}
			if prev.Active && prev.WriteOFF && cur != nil && !cur.stopped && cur.offEligible[c] {
				simrt.Hit("projectors-requested-for-a-channel-of-an-OFF-session")
				if len(cur.expected[c][2]) == 0 {
					simrt.Hit("projectors-requested-before-the-first-OFF-record")
				}
			}
		case kind < 14:
			// the operator deletes or renames the directory of an earlier, stopped writing session
			var cands []*wcSession
			for _, s := range sessions {
				if s.stopped && !s.gone {
					cands = append(cands, s)
				}
			}
			req = "operator: no stopped run directory to remove"
			if len(cands) > 0 {
				s := cands[simrt.Draw(len(cands))]
				var e error
				switch simrt.Draw(3) {
				case 0:
					e = os.RemoveAll(s.dir)
					req = "operator deletes " + filepath.Base(s.dir)
				case 1:
					attic := filepath.Join(env.Dir, "attic")
					os.MkdirAll(attic, 0755)
					e = os.Rename(s.dir, filepath.Join(attic, fmt.Sprintf("run%d", removed)))
					req = "operator moves " + filepath.Base(s.dir) + " out of the data tree"
				default:
					junk := fmt.Sprintf("%s.junk%d", s.dir, removed)
					e = os.Rename(s.dir, junk)
					req = "operator renames " + filepath.Base(s.dir) + " to " + filepath.Base(junk)
				}
				if e != nil {
					simrt.Fail("harness.operator", "harness:operator", "%s: %v", req, e)
				}
				// that session's files are no longer checked, and its directory name is free again
				s.gone = true
				removed++
				delete(dirsSeen, s.dir)
				simrt.Hit("stopped-run-directory-removed")
				if prev.Active {
					simrt.Hit("stopped-run-directory-removed-while-writing")
				}
			}
		case kind == 14:
			sourceStop()
			if !processDead {
				restartSource()
			}
			return
		default:
			selfEnd()
			if !processDead {
				restartSource()
			}
			return
		}
		hi := time.Now()
		w.drain()
		now := w.ss.ComputeWritingState()
		errText := "<nil>"
		if err != nil {
			// (the sandbox path differs from process to process: keep it out of the run's identity)
			errText = strings.ReplaceAll(err.Error(), env.Dir, "<sandbox>")
		}
		env.Op("%s -> %s; reported %s", req, errText, stateString(now))
		if err != nil && !ioFault() {
			simrt.Hit("request-rejected")
			if !sameState(prev, now) {
				simrt.Fail("C06.rejected-request", "wc:rejected-request-changed-state", "request %s was rejected (%v) but the reported state changed from %s to %s", req, err, stateString(prev), stateString(now))
			}
			state = now
			return
		}
		if err != nil {
			// Runs with an I/O fault: a request that was carried out may report the I/O failure of a side file.
			// What it did is read from the reported state; report and behaviour must still agree.
			simrt.Hit("request-error-under-full-disk")
			if !sameState(prev, now) {
				simrt.Hit("request-error-under-full-disk-with-state-change")
				if strings.HasPrefix(req, "START") && createFailed() && !createFailedBefore {
					simrt.Hit("start-answered-with-an-error-but-reported-active")
				}
				if req == "STOP" && prev.Active && !now.Active {
					// (the session is over according to the report: its record files must be complete and closed)
					simrt.Hit("stop-answered-with-an-error-and-reported-inactive")
				}
			}
		}
		// the WRITING status message, when one was sent, equals the reported state
		if m, found := w.sk.lastMsg("WRITING"); err == nil && found && (strings.HasPrefix(req, "START") || strings.HasPrefix(req, "STOP") || strings.Contains(req, "PAUSE")) {
			if pp, isPP := m.state.(**WritingState); isPP && *pp != nil {
				if !sameState(*pp, now) {
					simrt.Fail("C06.status-message", "wc:status-differs", "after %s the WRITING status says %s but the server reports %s", req, stateString(*pp), stateString(now))
				}
			}
		}
		// A request that reported an error (an I/O failure of a side file) and changed the writing state all the
		// same: the clients learn the writing state from the WRITING messages, so the last one must state it
		// (the statement: "the writing state reported to clients ... agrees with behaviour").
		if err != nil && !sameState(prev, now) {
			m, found := w.sk.lastMsg("WRITING")
			told := false
			if found {
				if pp, isPP := m.state.(**WritingState); isPP && *pp != nil {
					told = sameState(*pp, now)
				}
			}
			if !told {
				kind := strings.Fields(req + " ?")[0]
				simrt.Fail("C06.status-message", "wc:state-changed-by-failed-request-without-status:"+kind, "%s answered %s and changed the writing state from %s to %s, but no WRITING message tells the clients: the last one they have %s", req, errText, stateString(prev), stateString(now),
					func() string {
						if !found {
							return "is none at all"
						}
						if pp, isPP := m.state.(**WritingState); isPP && *pp != nil {
							return "says " + stateString(*pp)
						}
						return "is unreadable"
					}())
			}
		}
		sessionBookkeeping(prev, now, lo, hi)
		if strings.HasPrefix(req, "PAUSE") && !prev.Active {
			simrt.Hit("pause-before-start")
		}
		state = now
	}

	nops := 6 + simrt.Draw(16)
	for i := 0; i < nops && !processDead; i++ {
		if simrt.Draw(3) > 0 {
			feed(1 + simrt.Draw(3))
		}
		if processDead {
			break
		}
		request(true)
		if simrt.Draw(6) == 0 {
			time.Sleep([]time.Duration{1100 * time.Millisecond, 10500 * time.Millisecond}[simrt.Draw(2)])
			simrt.Hit("flush-tickers-fired")
		}
	}
	if !processDead {
		feed(1)
	}
	if !processDead && state.Active && simrt.Draw(4) == 0 {
		// the history ends with the client stopping the source while writing is on
		sourceStop()
	}
	if !processDead && alive && state.Active {
		var ok bool
		fullFiredBefore, createFailedBefore = fullFired(), createFailed()
		lo := time.Now()
		err := w.sc.WriteControl(&WriteControlConfig{Request: "STOP"}, &ok)
		w.drain()
		now := w.ss.ComputeWritingState()
		env.Op("final STOP -> %s; reported %s", strings.ReplaceAll(fmt.Sprint(err), env.Dir, "<sandbox>"), stateString(now))
		if err != nil && !ioFault() {
			simrt.Fail("C06.stop-state", "wc:stop-refused-while-active", "STOP was refused (%v) while the reported state was %s", err, stateString(state))
		}
		if err != nil && !now.Active {
			simrt.Hit("stop-answered-with-an-error-and-reported-inactive")
		}
		if now.Active {
			// the report still says active (only possible when the STOP met an I/O failure): then records
			// are still being stored, or the report is wrong
			state = now
			feed(1)
		}
		if !processDead && cur != nil && !cur.stopped {
			endSession(cur, lo, time.Now())
		}
	}
	if check != "C20" {
		for _, s := range superseded {
			// records emitted after the newer START belong to the newer session's files only
			markFaults(s)
			checkSessionFiles(w, check, s)
		}
	}
	if alive || processDead {
		// (after a fail-stop the server object still believes the source runs: a Stop must return all the same)
		var dummy string
		var ok bool
		simrt.Within(60*time.Second, check+".stop-returns", "wc:stop-hangs", func() { w.sc.Stop(&dummy, &ok) })
	}
	if check != "C20" {
		// What a stopped session left is final: records published after its STOP (or after the end of its run) are
		// in no file of it, whatever happened since (later sessions, runs of the source, the source's Stop).
		for _, s := range sessions {
			if s.stopped && !s.gone {
				simrt.Hit("stopped-session-files-judged-again-at-the-end-of-the-history")
				checkSessionFiles(w, check, s)
			}
		}
	}
	nrec := 0
	for _, s := range sessions {
		for c := range s.expected {
			for t := 0; t < 3; t++ {
				nrec += len(s.expected[c][t])
			}
		}
	}
	env.Sample(map[string]interface{}{"channels": nchan, "sessions": len(sessions), "requests": nops, "records_expected_in_files": nrec, "runs_of_the_source": lives})
}

// checkSessionFiles runs after a STOP: all files of the session are closed and complete.
func checkSessionFiles(w *pipeWorld, check string, s *wcSession) {
	if s.gone {
		return
	}
	// the harness's own look at the files is not subject to the run's I/O fault plan (and does not use it up)
	if sim := simrt.Current(); sim != nil && sim.FS != nil {
		saved := sim.FS
		sim.FS = nil
		defer func() { sim.FS = saved }()
	}
	// (in disk-full runs the affected side file's handle is on /dev/full, not under the run directory: every
	// other file of the session, side files included, must be closed by a STOP even if it reported the failure)
	// (after a fail-stop the process is dead and its descriptors with it: only the content is judged)
	fds := openFDsUnder(s.dir)
	if len(fds) > 0 && !s.afterFailStop {
		rule, sig := "C06.stop-closes-files", "wc:files-open-after-stop"
		if check == "C05b" {
			// (C05: "after writing is stopped ... the file length equals the header plus the sum of the record sizes":
			// a file that is still open is not finished)
			rule = "C05.stop-closes-files"
		}
		if check == "C20" {
			rule, sig = "C20.closed-after-stop", "sidefiles:open-after-stop"
		}
		simrt.Fail(rule, sig, "after STOP descriptors are still open under the run directory: %v", fds)
	}
	switch check {
	case "C06", "C05b":
		for c := 0; c < w.nchan; c++ {
			name := s.ident.ch[c].name
			for t, ext := range []string{"ljh", "ljh3", "off"} {
				path := fmt.Sprintf(s.pattern, name, ext)
				want := s.expected[c][t]
				how := "after STOP"
				if s.afterFailStop {
					how = "after the core loop's fail-stop (its deferred clean-up has run)"
				}
				b, err := os.ReadFile(path)
				if err != nil {
					if len(want) == 0 {
						continue
					}
					simrt.Fail(check+".records-stored", "wc:file-missing:"+ext, "channel %d: the state said active/unpaused with %s enabled while %d records were emitted, but %s does not exist %s", c, ext, len(want), filepath.Base(path), how)
				}
				frames, perr := framesInFile(t, b)
				if perr != nil {
					simrt.Fail(check+".parse", "wc:unparsable:"+ext, "channel %d: %s does not parse %s: %v (%d records were emitted while the reported state was active and unpaused)", c, filepath.Base(path), how, perr, len(want))
				}
				if len(frames) != len(want) {
					simrt.Fail(check+".records-stored", "wc:record-count:"+ext, "channel %d %s: %s the file holds %d records, %d were emitted while the reported state was active, unpaused and %s-enabled (session types %v)", c, ext, how, len(frames), len(want), ext, s.types)
				}
				for i, r := range want {
					wantF := int64(r.trigFrame)
					if t == 0 {
						wantF = wantF*int64(s.ident.subdiv) + int64(s.ident.ch[c].suboff)
					}
					if frames[i] != wantF {
						simrt.Fail(check+".records-stored", "wc:record-order:"+ext, "channel %d %s: record %d has frame count %d, the %d-th emitted record has %d", c, ext, i, frames[i], i, wantF)
					}
				}
				if check == "C05b" {
					checkFileAgainstRecords(w, s.ident, c, t, path, want, s.offProj[c], s.projAtStart[c])
				}
			}
		}
	case "C20":
		checkSideFiles(w, s)
	}
}

func framesInFile(t int, b []byte) ([]int64, error) {
	var out []int64
	switch t {
	case 0:
		f, err := decodeLJH22(b)
		if err != nil {
			return nil, err
		}
		if f.trail != 0 {
			return nil, fmt.Errorf("%d trailing bytes after the last whole record", f.trail)
		}
		for _, r := range f.recs {
			out = append(out, r.subframe)
		}
	case 1:
		f, err := decodeLJH3(b)
		if err != nil {
			return nil, err
		}
		if f.trail != 0 {
			return nil, fmt.Errorf("%d trailing bytes after the last whole record", f.trail)
		}
		for _, r := range f.recs {
			out = append(out, r.frame)
		}
	default:
		f, err := decodeOFF(b)
		if err != nil {
			return nil, err
		}
		if f.trail != 0 {
			return nil, fmt.Errorf("%d trailing bytes after the last whole record", f.trail)
		}
		for _, r := range f.recs {
			out = append(out, r.frame)
		}
	}
	return out, nil
}

// checkFileAgainstRecords is C05's content oracle in the pipeline world.
func checkFileAgainstRecords(w *pipeWorld, id *wcIdentity, c, t int, path string, recs []*DataRecord, projs []*wcProjSet, atStart *wcProjSet) {
	// the channel's TRUE identity: the harness's own channel table, not what dastard made of it
	ci := id.ch[c]
	p := chanParams{index: c, number: ci.number, name: ci.name, nsamp: w.nsamp, npre: w.npre, timebase: 1.0 / w.rate,
		rows: ci.rows, cols: ci.cols, row: ci.row, col: ci.col, nchans: w.nchan, subdiv: id.subdiv, suboff: ci.suboff, source: id.source}
	if len(recs) > 0 && (ci.rows != id.ch[0].rows || ci.cols != id.ch[0].cols) {
		simrt.Hit("identity:header-checked-of-a-channel-whose-geometry-is-not-channel-0's:" + []string{"ljh", "ljh3", "off"}[t])
	}
	var want []wantRec
	for _, r := range recs {
		want = append(want, wantRec{frame: int64(r.trigFrame), time: r.trigTime, pre: r.presamples, data: r.data, coefs: r.modelCoefs, ptMean: r.pretrigMean, ptDelt: r.pretrigDelta, resid: r.residualStdDev})
	}
	switch t {
	case 0:
		checkLJH22File(path, p, want, id.source)
	case 1:
		checkLJH3File(path, p, want, true)
	default:
		// the header must state the matrices that were in force for every record of the file
		ps := atStart
		for i, q := range projs {
			if i == 0 {
				ps = q
			} else if q != ps {
				simrt.Fail("C05.off-matrices", "files:off-matrices-replaced-under-open-file", "channel %d: OFF record %d was analysed with projector set v%d, record 0 with v%d: one header cannot state both", c, i, q.ver, ps.ver)
			}
		}
		if ps == nil {
			if len(recs) == 0 {
				if _, err := os.Stat(path); err != nil {
					return
				}
			}
			simrt.Fail("C05.off-matrices", "files:off-file-without-projectors", "channel %d has an OFF file although no projectors were in force for it", c)
		}
		p.nbases = ps.nbases
		p.proj, p.basis = mat.NewDense(ps.nbases, w.nsamp, append([]float64{}, ps.proj...)), mat.NewDense(w.nsamp, ps.nbases, append([]float64{}, ps.basis...))
		checkOFFFile(path, p, want)
		// independent of the bookkeeping above: the stored coefficients are the header's projectors applied
		// to the record (documented meaning of the projector matrix: projectors x data = coefficients)
		b, err := os.ReadFile(path)
		if err != nil {
			return
		}
		f, err := decodeOFF(b)
		if err != nil || len(f.recs) != len(recs) || len(f.projectors) != f.nbases*w.nsamp {
			return // reported by checkOFFFile
		}
		for i, r := range recs {
			if len(r.data) != w.nsamp {
				continue
			}
			for k := 0; k < f.nbases; k++ {
				sum, mag := 0.0, 1.0
				for j, v := range r.data {
					x := float64(v)
					if w.signed[c] {
						x = float64(int16(v))
					}
					term := f.projectors[k*w.nsamp+j] * x
					sum += term
					mag += math.Abs(term)
				}
				if math.Abs(float64(f.recs[i].coefs[k])-sum) > 1e-5*mag {
					simrt.Fail("C05.off-coefs-from-header", "files:off-coefs-not-from-header-projectors", "channel %d OFF record %d coefficient %d is %v, but the header's projectors applied to the record's samples give %v: the header does not state the matrices the record was analysed with", c, i, k, f.recs[i].coefs[k], sum)
				}
			}
			simrt.Hit("off-coefs-recomputed-from-header")
		}
	}
}

// checkSideFiles is C20's oracle for one finished writing session. A side file that the injected I/O
// fault touched in this session (s.skipES/ET/DD) is not judged; after a fail-stop the events of the
// block(s) being processed when the failure surfaced are optional (whole blocks, in order).
func checkSideFiles(w *pipeWorld, s *wcSession) {
	how := "after STOP"
	if s.afterFailStop {
		how = "after the core loop's fail-stop (its deferred clean-up has run)"
	}
	if !s.skipES {
		checkExperimentStateFile(s, how)
	} else {
		simrt.Hit("experiment-state-file-not-judged:io-fault")
	}
	// external trigger file
	etPath := fmt.Sprintf(s.pattern, "external_trigger", "bin")
	b, err := os.ReadFile(etPath)
	full := append([]int64{}, s.extTrig...)
	allowed := []int{len(full)}
	for _, o := range s.optExt {
		full = append(full, o...)
		if len(o) > 0 {
			allowed = append(allowed, len(full))
		}
	}
	isAllowed := func(n int) bool {
		for _, a := range allowed {
			if a == n {
				return true
			}
		}
		return false
	}
	switch {
	case s.skipET:
		simrt.Hit("ext-trigger-file-not-judged:io-fault")
	case err != nil:
		if len(s.extTrig) > 0 {
			simrt.Fail("C20.external-trigger", "sidefiles:ext-trigger-missing", "%d external triggers were delivered while active but the file is missing %s: %v", len(s.extTrig), how, err)
		}
	default:
		nl := bytes.IndexByte(b, '\n')
		if len(full) == 0 {
			if nl < 0 || len(b) != nl+1 {
				simrt.Fail("C20.external-trigger", "sidefiles:ext-trigger-spurious", "no external trigger was delivered while active but the file holds %d bytes", len(b))
			}
			break
		}
		if nl < 0 || b[0] != '#' {
			if len(s.extTrig) == 0 && len(b) == 0 {
				break // (only optional events: the file was created and the process died)
			}
			simrt.Fail("C20.external-trigger", "sidefiles:ext-trigger-header", "external-trigger file has no header line")
		}
		data := b[nl+1:]
		if len(data)%8 != 0 || !isAllowed(len(data)/8) {
			simrt.Fail("C20.external-trigger", "sidefiles:ext-trigger-count", "%s the external-trigger file holds %d bytes of counts (%d values), %d counts were delivered while active (acceptable numbers of values: %v)", how, len(data), len(data)/8, len(s.extTrig), allowed)
		}
		for i := 0; i < len(data)/8; i++ {
			if got := int64(binary.LittleEndian.Uint64(data[8*i:])); got != full[i] {
				simrt.Fail("C20.external-trigger", "sidefiles:ext-trigger-value", "external-trigger count %d in the file is %d, the source delivered %d", i, got, full[i])
			}
		}
		simrt.Hit("ext-trigger-file-checked")
	}
	// data drop file
	ddPath := fmt.Sprintf(s.pattern, "data_drop", "txt")
	b, err = os.ReadFile(ddPath)
	fullD := append([][2]int64{}, s.drops...)
	allowedD := []int{len(fullD)}
	for _, o := range s.optDrops {
		if o[1] > 0 {
			fullD = append(fullD, o)
			allowedD = append(allowedD, len(fullD))
		}
	}
	switch {
	case s.skipDD:
		simrt.Hit("data-drop-file-not-judged:io-fault")
	case err != nil:
		if len(s.drops) > 0 {
			simrt.Fail("C20.data-drop", "sidefiles:data-drop-missing", "%d blocks reported dropped frames while active but the file is missing %s: %v", len(s.drops), how, err)
		}
	case len(fullD) == 0:
		if strings.Count(string(b), "\n") > 1 {
			simrt.Fail("C20.data-drop", "sidefiles:data-drop-spurious", "no block reported dropped frames while active but the data-drop file holds %q", string(b))
		}
	default:
		lines := strings.Split(strings.TrimSuffix(string(b), "\n"), "\n")
		ok := false
		for _, a := range allowedD {
			if len(lines) == a+1 {
				ok = true
			}
		}
		if len(s.drops) == 0 && len(b) == 0 {
			break // (only optional events: the file was created and the process died)
		}
		if !ok || !strings.HasPrefix(lines[0], "#") {
			simrt.Fail("C20.data-drop", "sidefiles:data-drop-lines", "%s the data-drop file has %d lines, want a header + %d drop lines (acceptable numbers of drop lines: %v): %q", how, len(lines), len(s.drops), allowedD, lines)
		}
		for i := 0; i+1 < len(lines); i++ {
			d := fullD[i]
			want := fmt.Sprintf("%12d %8d", d[0], d[1])
			if lines[1+i] != want {
				simrt.Fail("C20.data-drop", "sidefiles:data-drop-line", "data-drop line %d is %q, want %q", i, lines[1+i], want)
			}
		}
		simrt.Hit("data-drop-file-checked")
	}
}

// checkExperimentStateFile: header, START, one line per accepted label, STOP last.
func checkExperimentStateFile(s *wcSession, how string) {
	esPath := fmt.Sprintf(s.pattern, "experiment_state", "txt")
	b, err := os.ReadFile(esPath)
	if err != nil {
		simrt.Fail("C20.experiment-state", "sidefiles:experiment-state-missing", "experiment-state file missing %s: %v", how, err)
	}
	lines := strings.Split(strings.TrimSuffix(string(b), "\n"), "\n")
	if len(lines) < 1 || !strings.HasPrefix(lines[0], "#") {
		simrt.Fail("C20.experiment-state", "sidefiles:experiment-state-header", "experiment-state file does not start with a header line: %q", string(b))
	}
	body := lines[1:]
	wantN := len(s.labels) + 2
	if len(body) != wantN {
		simrt.Fail("C20.experiment-state", "sidefiles:experiment-state-lines", "%s the experiment-state file has %d lines after the header, want START + %d accepted labels + STOP: %q", how, len(body), len(s.labels), body)
	}
	parse := func(line string) (int64, string) {
		k := strings.Index(line, ", ")
		if k < 0 {
			simrt.Fail("C20.experiment-state", "sidefiles:experiment-state-format", "malformed experiment-state line %q", line)
		}
		var ns int64
		if _, e := fmt.Sscanf(line[:k], "%d", &ns); e != nil {
			simrt.Fail("C20.experiment-state", "sidefiles:experiment-state-format", "malformed experiment-state line %q", line)
		}
		return ns, line[k+2:]
	}
	if _, l := parse(body[0]); l != "START" {
		simrt.Fail("C20.experiment-state", "sidefiles:experiment-state-start", "first state line is %q, want START", body[0])
	}
	if ns, l := parse(body[len(body)-1]); l != "STOP" || ns < s.stopLo.UnixNano() || ns > s.stopHi.UnixNano() {
		simrt.Fail("C20.experiment-state", "sidefiles:experiment-state-stop", "%s the last state line is %q, want STOP stamped within the stopping operation [%d,%d]", how, body[len(body)-1], s.stopLo.UnixNano(), s.stopHi.UnixNano())
	}
	for i, lb := range s.labels {
		ns, l := parse(body[1+i])
		if l != lb.label || ns < lb.lo.UnixNano() || ns > lb.hi.UnixNano() {
			simrt.Fail("C20.experiment-state", "sidefiles:experiment-state-label", "state line %d is %q, want label %q stamped in [%d,%d]", i+1, body[1+i], lb.label, lb.lo.UnixNano(), lb.hi.UnixNano())
		}
	}
}
