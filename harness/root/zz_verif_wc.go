//go:build verif

package dastard

// Pipeline + write-control world (DESIGN §5 C06, C20 and the pipeline half of C05):
// auto-triggered records flow through the real core loop while a client issues
// START/STOP/PAUSE/UNPAUSE/label requests; blocks carry external-trigger lists and
// drop counts. Three checks share the body:
//   C06  — reported writing state == behaviour (which records end up in which files)
//   C05b — the files of every writing session are well-formed, state the channel's true
//          identity/geometry, and hold exactly the accepted records
//   C20  — the three run-log side files record every event exactly once, in order

import (
	"bytes"
	"encoding/base64"
	"encoding/binary"
	"fmt"
	"os"
	"path/filepath"
	"strings"
	"time"

	"gonum.org/v1/gonum/mat"

	"verif/simrt"
)

func init() {
	real := []string{"Start/CoreLoop/ProcessSegments/Stop", "SourceControl.WriteControl, SetExperimentStateLabel, ConfigureProjectorsBasis, ConfigureTriggers",
		"AnySource.WriteControl / writeControlStart / makeDirectory", "WritingState", "HandleExternalTriggers / HandleDataDrop", "DataPublisher + ljh/off writers + asyncbufio on real files"}
	stub := []string{"hardware (ScriptedSource feeding harness-made blocks with external-trigger lists and drop counts)", "ZMQ publishers and status publisher (sinks)", "net/rpc transport"}
	for _, p := range []struct{ name, prop string }{{"C06", "C06"}, {"C05b", "C05"}, {"C20", "C20"}} {
		p := p
		simrt.Register(&simrt.Check{Name: p.name, Property: p.prop, Body: func(env *simrt.Env) { wcBody(env, p.name) }, Classify: classify, Real: real, Stub: stub})
	}
}

type wcSession struct {
	dir      string
	pattern  string
	types    [3]bool          // ljh22, ljh3, off as reported at START
	expected [][3][]*DataRecord // per channel, per type: records that must be in the file
	extTrig  []int64
	drops    [][2]int64
	labels   []wcLabel
	stopped  bool
	stopLo   time.Time
	stopHi   time.Time
}

type wcLabel struct {
	label  string
	lo, hi time.Time // the time stamp must lie in [lo, hi]
}

func openFDsUnder(dir string) []string {
	var out []string
	ents, err := os.ReadDir("/proc/self/fd")
	if err != nil {
		return nil
	}
	for _, e := range ents {
		if tgt, err := os.Readlink("/proc/self/fd/" + e.Name()); err == nil && strings.HasPrefix(tgt, dir) && !strings.HasSuffix(tgt, "(deleted)") {
			out = append(out, tgt)
		}
	}
	return out
}

func sameState(a, b *WritingState) bool {
	return a.Active == b.Active && a.Paused == b.Paused && a.BasePath == b.BasePath && a.FilenamePattern == b.FilenamePattern &&
		a.WriteLJH22 == b.WriteLJH22 && a.WriteLJH3 == b.WriteLJH3 && a.WriteOFF == b.WriteOFF
}

func stateString(s *WritingState) string {
	return fmt.Sprintf("{active=%v paused=%v ljh22=%v ljh3=%v off=%v pattern=%q}", s.Active, s.Paused, s.WriteLJH22, s.WriteLJH3, s.WriteOFF, filepath.Base(s.FilenamePattern))
}

func wcBody(env *simrt.Env, check string) {
	rows := 1 + simrt.Draw(3)
	cols := 1 + simrt.Draw(2)
	nchan := rows * cols
	nsamp := []int{8, 16, 40}[simrt.Draw(3)]
	npre := 3 + simrt.Draw(nsamp-4)
	rate := 10000.0
	w := newPipeWorld(env, nchan, npre, nsamp, rate)
	resetViper(env.Dir)
	w.ss.geomRows = rows
	w.ss.subframeDivisions = []int{1, rows, 64}[simrt.Draw(3)]
	for c := range w.signed {
		w.signed[c] = simrt.Draw(2) == 0
	}
	w.F0 = FrameIndex([]int64{0, 1000, 1 << 35}[simrt.Draw(3)])
	w.T0 = time.Now()
	total := 40 * 4 * nsamp
	w.stream = make([][]RawType, nchan)
	for c := 0; c < nchan; c++ {
		s := make([]RawType, total)
		for i := range s {
			s[i] = RawType(1000*(c+1) + i%97 + simrt.Draw(3))
		}
		w.stream[c] = s
	}
	if err := w.startScripted(); err != nil {
		simrt.Fail("harness.start", "harness:start", "Start failed: %v", err)
	}
	// auto triggers on every channel: a record every 1..2 record lengths
	{
		all := make([]int, nchan)
		for i := range all {
			all[i] = i
		}
		ts := TriggerState{AutoTrigger: true, AutoDelay: time.Duration(float64(nsamp+simrt.Draw(nsamp)) / rate * float64(time.Second)), EdgeLevel: 100, EdgeRising: true}
		var ok bool
		if err := w.sc.ConfigureTriggers(&FullTriggerState{ChannelIndices: all, TriggerState: ts}, &ok); err != nil {
			simrt.Fail("harness.configure", "harness:configure", "%v", err)
		}
	}
	// projectors on a drawn subset of channels
	hasProj := make([]bool, nchan)
	nbases := 1 + simrt.Draw(3)
	for c := 0; c < nchan; c++ {
		if simrt.Draw(2) == 0 {
			continue
		}
		pd := make([]float64, nbases*nsamp)
		bd := make([]float64, nbases*nsamp)
		for i := range pd {
			pd[i] = float64((i*7+c)%13) * 0.125
			bd[i] = float64((i*3+c)%11) - 5
		}
		pb, _ := mat.NewDense(nbases, nsamp, pd).MarshalBinary()
		bb, _ := mat.NewDense(nsamp, nbases, bd).MarshalBinary()
		var ok bool
		err := w.sc.ConfigureProjectorsBasis(&ProjectorsBasisObject{ChannelIndex: c, ProjectorsBase64: base64.StdEncoding.EncodeToString(pb),
			BasisBase64: base64.StdEncoding.EncodeToString(bb), ModelDescription: "verif"}, &ok)
		if err != nil {
			simrt.Fail("harness.projectors", "harness:projectors", "%v", err)
		}
		hasProj[c] = true
	}
	env.Op("write-control world rows=%d cols=%d nsamp=%d npre=%d subdiv=%d projectors=%v", rows, cols, nsamp, npre, w.ss.subframeDivisions, hasProj)

	basePath := filepath.Join(env.Dir, "data")
	var sessions []*wcSession
	var superseded []*wcSession
	var cur *wcSession
	state := w.ss.ComputeWritingState()
	recIdx := 0
	dirsSeen := map[string]bool{}
	extNext := int64(100)

	feed := func(nblocks int) {
		for b := 0; b < nblocks; b++ {
			n := nsamp + simrt.Draw(3*nsamp)
			var ext []int64
			if simrt.Draw(3) == 0 {
				nExt := 1 + simrt.Draw(5)
				if simrt.Draw(6) == 0 {
					// a burst: more bytes than the side file's write buffer holds (hundreds of edges in one block)
					nExt = 300 + simrt.Draw(900)
					simrt.Hit("ext-trigger-burst")
				}
				for k := 0; k < nExt; k++ {
					extNext += 1 + int64(simrt.Draw(50))
					ext = append(ext, extNext)
				}
			}
			drop := 0
			if simrt.Draw(4) == 0 {
				drop = 1 + simrt.Draw(20)
			}
			first := int64(w.F0) + int64(w.sent)
			w.feedBlock(n, func(b *dataBlock) {
				b.externalTriggerRowcounts = ext
				for i := range b.segments {
					b.segments[i].droppedFrames = drop
				}
			})
			// events belong to the session that is active when the block is processed
			w.sync()
			if cur != nil && !cur.stopped {
				cur.extTrig = append(cur.extTrig, ext...)
				if drop > 0 {
					cur.drops = append(cur.drops, [2]int64{first, int64(drop)})
				}
				if len(ext) > 0 {
					simrt.Hit("ext-triggers-while-active")
				}
				if state.Paused && (len(ext) > 0 || drop > 0) {
					simrt.Hit("events-while-paused")
				}
			} else if len(ext) > 0 || drop > 0 {
				simrt.Hit("events-while-inactive")
			}
		}
		w.drain()
		// attribute the records published since the last request
		for ; recIdx < len(w.sk.recs); recIdx++ {
			r := w.sk.recs[recIdx].rec
			if cur == nil || cur.stopped || !state.Active || state.Paused {
				continue
			}
			c := r.channelIndex
			if state.WriteLJH22 {
				cur.expected[c][0] = append(cur.expected[c][0], r)
			}
			if state.WriteLJH3 {
				cur.expected[c][1] = append(cur.expected[c][1], r)
			}
			if state.WriteOFF && hasProj[c] {
				cur.expected[c][2] = append(cur.expected[c][2], r)
			}
		}
	}

	request := func() {
		var ok bool
		kind := simrt.Draw(12)
		prev := state
		var req string
		var err error
		lo := time.Now()
		switch {
		case kind < 3: // START with a subset of types
			cfg := &WriteControlConfig{Request: []string{"START", "Start", "start"}[simrt.Draw(3)], Path: basePath}
			m := simrt.Draw(8)
			cfg.WriteLJH22, cfg.WriteLJH3, cfg.WriteOFF = m&1 != 0, m&2 != 0, m&4 != 0
			req = fmt.Sprintf("START ljh22=%v ljh3=%v off=%v", cfg.WriteLJH22, cfg.WriteLJH3, cfg.WriteOFF)
			err = w.sc.WriteControl(cfg, &ok)
		case kind < 5:
			req = "STOP"
			err = w.sc.WriteControl(&WriteControlConfig{Request: "STOP"}, &ok)
		case kind < 7:
			req = "PAUSE"
			err = w.sc.WriteControl(&WriteControlConfig{Request: "Pause"}, &ok)
		case kind < 9:
			req = "UNPAUSE"
			err = w.sc.WriteControl(&WriteControlConfig{Request: "UNPAUSE"}, &ok)
		case kind < 10:
			lbl := []string{"A", "run 7", "x,y"}[simrt.Draw(3)]
			req = "UNPAUSE " + lbl
			err = w.sc.WriteControl(&WriteControlConfig{Request: req}, &ok)
			if err == nil && cur != nil && !cur.stopped {
				cur.labels = append(cur.labels, wcLabel{lbl, lo, time.Now()})
			}
		case kind < 11:
			req = []string{"FOO", "UNPAUSEx", "UNPAUSE ", ""}[simrt.Draw(4)]
			err = w.sc.WriteControl(&WriteControlConfig{Request: req}, &ok)
			req = fmt.Sprintf("malformed %q", req)
		default:
			lbl := []string{"cal", "dark", "beam on"}[simrt.Draw(3)]
			req = "label " + lbl
			err = w.sc.SetExperimentStateLabel(&StateLabelConfig{Label: lbl, WaitForError: true}, &ok)
			if err == nil && cur != nil && !cur.stopped {
				cur.labels = append(cur.labels, wcLabel{lbl, lo, lo})
			}
		}
		hi := time.Now()
		w.drain()
		now := w.ss.ComputeWritingState()
		env.Op("%s -> %v; reported %s", req, err, stateString(now))
		if err != nil {
			simrt.Hit("request-rejected")
			if !sameState(prev, now) {
				simrt.Fail("C06.rejected-request", "wc:rejected-request-changed-state", "request %s was rejected (%v) but the reported state changed from %s to %s", req, err, stateString(prev), stateString(now))
			}
			state = now
			return
		}
		// the WRITING status message, when one was sent, equals the reported state
		if m, found := w.sk.lastMsg("WRITING"); found && (strings.HasPrefix(req, "START") || strings.HasPrefix(req, "STOP") || strings.Contains(req, "PAUSE")) {
			if pp, isPP := m.state.(**WritingState); isPP && *pp != nil {
				if !sameState(*pp, now) {
					simrt.Fail("C06.status-message", "wc:status-differs", "after %s the WRITING status says %s but the server reports %s", req, stateString(*pp), stateString(now))
				}
			}
		}
		// session bookkeeping follows the *reported* state
		if now.Active && (!prev.Active || now.FilenamePattern != prev.FilenamePattern) {
			dir := filepath.Dir(now.FilenamePattern)
			if dirsSeen[dir] {
				simrt.Fail("C06.new-directory", "wc:directory-reused", "START reports directory %s which an earlier START already used", dir)
			}
			dirsSeen[dir] = true
			if ents, e := os.ReadDir(dir); e != nil {
				simrt.Fail("C06.new-directory", "wc:directory-missing", "START reports directory %s which does not exist: %v", dir, e)
			} else {
				for _, en := range ents {
					if !strings.Contains(en.Name(), "experiment_state") {
						simrt.Fail("C06.new-directory", "wc:directory-not-new", "directory %s of a fresh START already holds %s", dir, en.Name())
					}
				}
			}
			if cur != nil && !cur.stopped {
				// a START accepted while the previous session was still active: what that session's
				// files hold is checked once everything has been stopped
				superseded = append(superseded, cur)
				simrt.Hit("start-accepted-while-active")
			}
			cur = &wcSession{dir: dir, pattern: now.FilenamePattern, types: [3]bool{now.WriteLJH22, now.WriteLJH3, now.WriteOFF}, expected: make([][3][]*DataRecord, nchan)}
			sessions = append(sessions, cur)
			if prev.Paused {
				simrt.Hit("start-after-paused-run")
			}
		}
		if !now.Active && prev.Active && cur != nil {
			cur.stopped = true
			cur.stopLo, cur.stopHi = lo, hi
			if now.Paused {
				simrt.Fail("C06.stop-state", "wc:stop-leaves-paused", "after STOP the reported state is %s", stateString(now))
			}
			checkSessionFiles(w, check, cur, hasProj, nbases)
		}
		if strings.HasPrefix(req, "PAUSE") && !prev.Active {
			simrt.Hit("pause-before-start")
		}
		state = now
	}

	nops := 6 + simrt.Draw(16)
	for i := 0; i < nops; i++ {
		if simrt.Draw(3) > 0 {
			feed(1 + simrt.Draw(3))
		}
		request()
		if simrt.Draw(6) == 0 {
			time.Sleep([]time.Duration{1100 * time.Millisecond, 10500 * time.Millisecond}[simrt.Draw(2)])
			simrt.Hit("flush-tickers-fired")
		}
	}
	feed(1)
	if state.Active {
		var ok bool
		lo := time.Now()
		err := w.sc.WriteControl(&WriteControlConfig{Request: "STOP"}, &ok)
		env.Op("final STOP -> %v", err)
		w.drain()
		if cur != nil && !cur.stopped {
			cur.stopped = true
			cur.stopLo, cur.stopHi = lo, time.Now()
			checkSessionFiles(w, check, cur, hasProj, nbases)
		}
	}
	if check != "C20" {
		for _, s := range superseded {
			// records emitted after the newer START belong to the newer session's files only
			checkSessionFiles(w, check, s, hasProj, nbases)
		}
	}
	w.stop()
	nrec := 0
	for _, s := range sessions {
		for c := range s.expected {
			for t := 0; t < 3; t++ {
				nrec += len(s.expected[c][t])
			}
		}
	}
	env.Sample(map[string]interface{}{"channels": nchan, "sessions": len(sessions), "requests": nops, "records_expected_in_files": nrec})
}

// checkSessionFiles runs after a STOP: all files of the session are closed and complete.
func checkSessionFiles(w *pipeWorld, check string, s *wcSession, hasProj []bool, nbases int) {
	if fds := openFDsUnder(s.dir); len(fds) > 0 {
		rule, sig := "C06.stop-closes-files", "wc:files-open-after-stop"
		if check == "C20" {
			rule, sig = "C20.closed-after-stop", "sidefiles:open-after-stop"
		}
		simrt.Fail(rule, sig, "after STOP descriptors are still open under the run directory: %v", fds)
	}
	switch check {
	case "C06", "C05b":
		for c := 0; c < w.nchan; c++ {
			name := w.ss.chanNames[c]
			for t, ext := range []string{"ljh", "ljh3", "off"} {
				path := fmt.Sprintf(s.pattern, name, ext)
				want := s.expected[c][t]
				b, err := os.ReadFile(path)
				if err != nil {
					if len(want) == 0 {
						continue
					}
					simrt.Fail(check+".records-stored", "wc:file-missing:"+ext, "channel %d: the state said active/unpaused with %s enabled while %d records were emitted, but %s does not exist", c, ext, len(want), filepath.Base(path))
				}
				frames, perr := framesInFile(t, b)
				if perr != nil {
					simrt.Fail(check+".parse", "wc:unparsable:"+ext, "channel %d: %s does not parse after STOP: %v", c, filepath.Base(path), perr)
				}
				if len(frames) != len(want) {
					simrt.Fail(check+".records-stored", "wc:record-count:"+ext, "channel %d %s: the file holds %d records, %d were emitted while the reported state was active, unpaused and %s-enabled (session types %v)", c, ext, len(frames), len(want), ext, s.types)
				}
				for i, r := range want {
					wantF := int64(r.trigFrame)
					if t == 0 {
						wantF = wantF*int64(w.ss.subframeDivisions) + int64(w.ss.subframeOffsets[c])
					}
					if frames[i] != wantF {
						simrt.Fail(check+".records-stored", "wc:record-order:"+ext, "channel %d %s: record %d has frame count %d, the %d-th emitted record has %d", c, ext, i, frames[i], i, wantF)
					}
				}
				if check == "C05b" {
					checkFileAgainstRecords(w, c, t, path, want, nbases)
				}
			}
		}
	case "C20":
		checkSideFiles(w, s)
	}
}

func framesInFile(t int, b []byte) ([]int64, error) {
	var out []int64
	switch t {
	case 0:
		f, err := decodeLJH22(b)
		if err != nil {
			return nil, err
		}
		if f.trail != 0 {
			return nil, fmt.Errorf("%d trailing bytes after the last whole record", f.trail)
		}
		for _, r := range f.recs {
			out = append(out, r.subframe)
		}
	case 1:
		f, err := decodeLJH3(b)
		if err != nil {
			return nil, err
		}
		if f.trail != 0 {
			return nil, fmt.Errorf("%d trailing bytes after the last whole record", f.trail)
		}
		for _, r := range f.recs {
			out = append(out, r.frame)
		}
	default:
		f, err := decodeOFF(b)
		if err != nil {
			return nil, err
		}
		if f.trail != 0 {
			return nil, fmt.Errorf("%d trailing bytes after the last whole record", f.trail)
		}
		for _, r := range f.recs {
			out = append(out, r.frame)
		}
	}
	return out, nil
}

// checkFileAgainstRecords is C05's content oracle in the pipeline world.
func checkFileAgainstRecords(w *pipeWorld, c, t int, path string, recs []*DataRecord, nbases int) {
	rc := w.ss.rowColCodes[c]
	p := chanParams{index: c, number: w.ss.chanNumbers[c], name: w.ss.chanNames[c], nsamp: w.nsamp, npre: w.npre, timebase: 1.0 / w.rate,
		rows: rc.rows(), cols: rc.cols(), row: rc.row(), col: rc.col(), nchans: w.nchan, subdiv: w.ss.subframeDivisions, suboff: w.ss.subframeOffsets[c], nbases: nbases}
	var want []wantRec
	for _, r := range recs {
		want = append(want, wantRec{frame: int64(r.trigFrame), time: r.trigTime, pre: r.presamples, data: r.data, coefs: r.modelCoefs, ptMean: r.pretrigMean, ptDelt: r.pretrigDelta, resid: r.residualStdDev})
	}
	switch t {
	case 0:
		checkLJH22File(path, p, want, "Scripted")
	case 1:
		checkLJH3File(path, p, want, true)
	default:
		dsp := w.ss.processors[c]
		p.proj, p.basis = dsp.projectors, dsp.basis
		checkOFFFile(path, p, want)
	}
}

// checkSideFiles is C20's oracle for one finished writing session.
func checkSideFiles(w *pipeWorld, s *wcSession) {
	// experiment state file: header, START, one line per accepted label, STOP last
	esPath := fmt.Sprintf(s.pattern, "experiment_state", "txt")
	b, err := os.ReadFile(esPath)
	if err != nil {
		simrt.Fail("C20.experiment-state", "sidefiles:experiment-state-missing", "experiment-state file missing after STOP: %v", err)
	}
	lines := strings.Split(strings.TrimSuffix(string(b), "\n"), "\n")
	if len(lines) < 1 || !strings.HasPrefix(lines[0], "#") {
		simrt.Fail("C20.experiment-state", "sidefiles:experiment-state-header", "experiment-state file does not start with a header line: %q", string(b))
	}
	body := lines[1:]
	wantN := len(s.labels) + 2
	if len(body) != wantN {
		simrt.Fail("C20.experiment-state", "sidefiles:experiment-state-lines", "experiment-state file has %d lines after the header, want START + %d accepted labels + STOP: %q", len(body), len(s.labels), body)
	}
	parse := func(line string) (int64, string) {
		k := strings.Index(line, ", ")
		if k < 0 {
			simrt.Fail("C20.experiment-state", "sidefiles:experiment-state-format", "malformed experiment-state line %q", line)
		}
		var ns int64
		if _, e := fmt.Sscanf(line[:k], "%d", &ns); e != nil {
			simrt.Fail("C20.experiment-state", "sidefiles:experiment-state-format", "malformed experiment-state line %q", line)
		}
		return ns, line[k+2:]
	}
	if _, l := parse(body[0]); l != "START" {
		simrt.Fail("C20.experiment-state", "sidefiles:experiment-state-start", "first state line is %q, want START", body[0])
	}
	if ns, l := parse(body[len(body)-1]); l != "STOP" || ns < s.stopLo.UnixNano() || ns > s.stopHi.UnixNano() {
		simrt.Fail("C20.experiment-state", "sidefiles:experiment-state-stop", "last state line is %q, want STOP stamped within the STOP request [%d,%d]", body[len(body)-1], s.stopLo.UnixNano(), s.stopHi.UnixNano())
	}
	for i, lb := range s.labels {
		ns, l := parse(body[1+i])
		if l != lb.label || ns < lb.lo.UnixNano() || ns > lb.hi.UnixNano() {
			simrt.Fail("C20.experiment-state", "sidefiles:experiment-state-label", "state line %d is %q, want label %q stamped in [%d,%d]", i+1, body[1+i], lb.label, lb.lo.UnixNano(), lb.hi.UnixNano())
		}
	}
	// external trigger file
	etPath := fmt.Sprintf(s.pattern, "external_trigger", "bin")
	b, err = os.ReadFile(etPath)
	if len(s.extTrig) == 0 {
		if err == nil {
			nl := bytes.IndexByte(b, '\n')
			if nl < 0 || len(b) != nl+1 {
				simrt.Fail("C20.external-trigger", "sidefiles:ext-trigger-spurious", "no external trigger was delivered while active but the file holds %d bytes", len(b))
			}
		}
	} else {
		if err != nil {
			simrt.Fail("C20.external-trigger", "sidefiles:ext-trigger-missing", "%d external triggers were delivered while active but the file is missing: %v", len(s.extTrig), err)
		}
		nl := bytes.IndexByte(b, '\n')
		if nl < 0 || b[0] != '#' {
			simrt.Fail("C20.external-trigger", "sidefiles:ext-trigger-header", "external-trigger file has no header line")
		}
		data := b[nl+1:]
		if len(data) != 8*len(s.extTrig) {
			simrt.Fail("C20.external-trigger", "sidefiles:ext-trigger-count", "external-trigger file holds %d bytes of counts (%d values), %d counts were delivered while active", len(data), len(data)/8, len(s.extTrig))
		}
		for i, v := range s.extTrig {
			if got := int64(binary.LittleEndian.Uint64(data[8*i:])); got != v {
				simrt.Fail("C20.external-trigger", "sidefiles:ext-trigger-value", "external-trigger count %d in the file is %d, the source delivered %d", i, got, v)
			}
		}
		simrt.Hit("ext-trigger-file-checked")
	}
	// data drop file
	ddPath := fmt.Sprintf(s.pattern, "data_drop", "txt")
	b, err = os.ReadFile(ddPath)
	if len(s.drops) == 0 {
		if err == nil && strings.Count(string(b), "\n") > 1 {
			simrt.Fail("C20.data-drop", "sidefiles:data-drop-spurious", "no block reported dropped frames while active but the data-drop file holds %q", string(b))
		}
	} else {
		if err != nil {
			simrt.Fail("C20.data-drop", "sidefiles:data-drop-missing", "%d blocks reported dropped frames while active but the file is missing: %v", len(s.drops), err)
		}
		lines := strings.Split(strings.TrimSuffix(string(b), "\n"), "\n")
		if len(lines) != len(s.drops)+1 || !strings.HasPrefix(lines[0], "#") {
			simrt.Fail("C20.data-drop", "sidefiles:data-drop-lines", "data-drop file has %d lines, want a header + %d drop lines: %q", len(lines), len(s.drops), lines)
		}
		for i, d := range s.drops {
			want := fmt.Sprintf("%12d %8d", d[0], d[1])
			if lines[1+i] != want {
				simrt.Fail("C20.data-drop", "sidefiles:data-drop-line", "data-drop line %d is %q, want %q", i, lines[1+i], want)
			}
		}
		simrt.Hit("data-drop-file-checked")
	}
}
