//go:build verif

package dastard

// Pipeline + write-control world (DESIGN §5 C06, C20 and the pipeline half of C05):
// auto-triggered records flow through the real core loop while a client issues
// START/STOP/PAUSE/UNPAUSE/label requests; blocks carry external-trigger lists and
// drop counts. Three checks share the body:
//   C06  — reported writing state == behaviour (which records end up in which files)
//   C05b — the files of every writing session are well-formed, state the channel's true
//          identity/geometry, and hold exactly the accepted records
//   C20  — the three run-log side files record every event exactly once, in order

import (
	"bytes"
	"encoding/base64"
	"encoding/binary"
	"fmt"
	"math"
	"os"
	"path/filepath"
	"strings"
	"time"

	"gonum.org/v1/gonum/mat"

	"verif/simrt"
)

func init() {
	real := []string{"Start/CoreLoop/ProcessSegments/Stop", "SourceControl.WriteControl, SetExperimentStateLabel, ConfigureProjectorsBasis, ConfigureTriggers",
		"AnySource.WriteControl / writeControlStart / makeDirectory", "WritingState", "HandleExternalTriggers / HandleDataDrop", "DataPublisher + ljh/off writers + asyncbufio on real files"}
	stub := []string{"hardware (ScriptedSource feeding harness-made blocks with external-trigger lists and drop counts)", "ZMQ publishers and status publisher (sinks)", "net/rpc transport"}
	for _, p := range []struct{ name, prop string }{{"C06", "C06"}, {"C05b", "C05"}, {"C20", "C20"}} {
		p := p
		ck := &simrt.Check{Name: p.name, Property: p.prop, Body: func(env *simrt.Env) { wcBody(env, p.name) }, Classify: classify, Real: real, Stub: stub}
		if p.name == "C06" {
			ck.Judge = wcJudge
			ck.Stub = append(append([]string{}, stub...), "full disk for one class of run-log side files (faulted runs: the handle is /dev/full, every write fails with ENOSPC)")
		}
		simrt.Register(ck)
	}
}

// wcFailStop is the message of the core loop's deliberate panic when block processing returns an
// error (data_source.go, CoreLoop): the documented fail-stop. In the C06 world it is reached only
// when the injected disk-full fault makes a write to the external-trigger or data-drop file fail
// while a block is processed; such a run simply ends there (DESIGN §2.5). Any other panic, and this
// one without that fault, is a violation as usual.
const wcFailStop = "Panic to stop source when processSegments errors"

func wcJudge(res *simrt.Result) *simrt.Violation {
	if res.Crash != nil && strings.Contains(res.Crash.Value, wcFailStop) &&
		(res.Faults["fulldisk:external_trigger"] > 0 || res.Faults["fulldisk:data_drop"] > 0) {
		res.Probes["fail-stop:side-file-write-error"]++
		return nil
	}
	if res.Crash != nil {
		frame := res.Crash.Frame
		if frame == "" {
			frame = res.Crash.Value
			if i := strings.IndexByte(frame, '\n'); i >= 0 {
				frame = frame[:i]
			}
			if len(frame) > 120 {
				frame = frame[:120]
			}
		}
		st := strings.Split(res.Crash.Stack, "\n")
		if len(st) > 40 {
			st = st[:40]
		}
		return &simrt.Violation{Rule: "no-panic", Sig: "panic:" + frame, Detail: res.Crash.Value + "\n" + strings.Join(st, "\n")}
	}
	if res.Deadlock {
		return &simrt.Violation{Rule: "no-deadlock", Sig: "deadlock", Detail: "every task blocked for ever"}
	}
	return nil
}

// wcProjSet is one set of projector/basis matrices loaded into a channel.
type wcProjSet struct {
	ver    int
	nbases int
	proj   []float64 // nbases x nsamp, row-major
	basis  []float64 // nsamp x nbases, row-major
}

// wcMakeProj makes identifiable matrices: version 0 is what every world started with so far.
func wcMakeProj(c, ver, nbases, nsamp int) *wcProjSet {
	ps := &wcProjSet{ver: ver, nbases: nbases, proj: make([]float64, nbases*nsamp), basis: make([]float64, nbases*nsamp)}
	for i := range ps.proj {
		ps.proj[i] = float64((i*7+c+5*ver)%13)*0.125 + float64(ver)
		ps.basis[i] = float64((i*3+c+ver)%11) - 5 - float64(2*ver)
	}
	return ps
}

type wcSession struct {
	dir      string
	pattern  string
	types    [3]bool          // ljh22, ljh3, off as reported at START
	expected [][3][]*DataRecord // per channel, per type: records that must be in the file
	extTrig  []int64
	drops    [][2]int64
	labels   []wcLabel
	stopped  bool
	stopLo   time.Time
	stopHi   time.Time
	// OFF files exist for the channels that had projectors when the session started
	offEligible []bool
	projAtStart []*wcProjSet
	// offProj[c][i]: the matrices in force when the i-th expected OFF record of channel c was analysed
	offProj [][]*wcProjSet
	// gone: the operator deleted or renamed the (stopped) session's directory
	gone bool
}


type wcLabel struct {
	label  string
	lo, hi time.Time // the time stamp must lie in [lo, hi]
}

func openFDsUnder(dir string) []string {
	var out []string
	ents, err := os.ReadDir("/proc/self/fd")
	if err != nil {
		return nil
	}
	for _, e := range ents {
		if tgt, err := os.Readlink("/proc/self/fd/" + e.Name()); err == nil && strings.HasPrefix(tgt, dir) && !strings.HasSuffix(tgt, "(deleted)") {
			out = append(out, tgt)
		}
	}
	return out
}

func sameState(a, b *WritingState) bool {
	return a.Active == b.Active && a.Paused == b.Paused && a.BasePath == b.BasePath && a.FilenamePattern == b.FilenamePattern &&
		a.WriteLJH22 == b.WriteLJH22 && a.WriteLJH3 == b.WriteLJH3 && a.WriteOFF == b.WriteOFF
}

func stateString(s *WritingState) string {
	return fmt.Sprintf("{active=%v paused=%v ljh22=%v ljh3=%v off=%v pattern=%q}", s.Active, s.Paused, s.WriteLJH22, s.WriteLJH3, s.WriteOFF, filepath.Base(s.FilenamePattern))
}

func wcBody(env *simrt.Env, check string) {
	rows := 1 + simrt.Draw(3)
	cols := 1 + simrt.Draw(2)
	nchan := rows * cols
	nsamp := []int{8, 16, 40}[simrt.Draw(3)]
	npre := 3 + simrt.Draw(nsamp-4)
	rate := 10000.0
	w := newPipeWorld(env, nchan, npre, nsamp, rate)
	resetViper(env.Dir)
	w.ss.geomRows = rows
	w.ss.subframeDivisions = []int{1, rows, 64}[simrt.Draw(3)]
	for c := range w.signed {
		w.signed[c] = simrt.Draw(2) == 0
	}
	w.F0 = FrameIndex([]int64{0, 1000, 1 << 35}[simrt.Draw(3)])
	w.T0 = time.Now()
	total := 40 * 4 * nsamp
	w.stream = make([][]RawType, nchan)
	for c := 0; c < nchan; c++ {
		s := make([]RawType, total)
		for i := range s {
			s[i] = RawType(1000*(c+1) + i%97 + simrt.Draw(3))
		}
		w.stream[c] = s
	}
	if err := w.startScripted(); err != nil {
		simrt.Fail("harness.start", "harness:start", "Start failed: %v", err)
	}
	// auto triggers on every channel: a record every 1..2 record lengths
	{
		all := make([]int, nchan)
		for i := range all {
			all[i] = i
		}
		ts := TriggerState{AutoTrigger: true, AutoDelay: time.Duration(float64(nsamp+simrt.Draw(nsamp)) / rate * float64(time.Second)), EdgeLevel: 100, EdgeRising: true}
		var ok bool
		if err := w.sc.ConfigureTriggers(&FullTriggerState{ChannelIndices: all, TriggerState: ts}, &ok); err != nil {
			simrt.Fail("harness.configure", "harness:configure", "%v", err)
		}
	}
	// projectors on a drawn subset of channels
	hasProj := make([]bool, nchan)
	projNow := make([]*wcProjSet, nchan) // the matrices in force per channel (nil: none)
	projVer := 0
	configure := func(c int, ps *wcProjSet) error {
		pb, _ := mat.NewDense(ps.nbases, nsamp, append([]float64{}, ps.proj...)).MarshalBinary()
		bb, _ := mat.NewDense(nsamp, ps.nbases, append([]float64{}, ps.basis...)).MarshalBinary()
		var ok bool
		return w.sc.ConfigureProjectorsBasis(&ProjectorsBasisObject{ChannelIndex: c, ProjectorsBase64: base64.StdEncoding.EncodeToString(pb),
			BasisBase64: base64.StdEncoding.EncodeToString(bb), ModelDescription: fmt.Sprintf("verif v%d", ps.ver)}, &ok)
	}
	nbases := 1 + simrt.Draw(3)
	for c := 0; c < nchan; c++ {
		if simrt.Draw(2) == 0 {
			continue
		}
		ps := wcMakeProj(c, 0, nbases, nsamp)
		if err := configure(c, ps); err != nil {
			simrt.Fail("harness.projectors", "harness:projectors", "%v", err)
		}
		hasProj[c] = true
		projNow[c] = ps
	}
	// disk-full fault (C06, faulted runs): one class of run-log side files gets a handle whose every
	// write fails. Record files are never affected.
	var fullFS *simrt.FaultFS
	if env.Faulted() && check == "C06" && simrt.Chance(1, 2) {
		fullFS = simrt.NewFaultFS(env.Dir)
		class := []string{"experiment_state", "external_trigger", "data_drop"}[simrt.DrawFault(3)]
		fullFS.FullMatch = []string{class}
		fullFS.FullFrom = simrt.DrawFault(3)
		fullFS.FullCount = simrt.DrawFault(3)
		simrt.SetFS(fullFS)
		env.Op("fault plan: the disk is full for the %s file from its creation #%d on (%d creations, 0 = all)", class, fullFS.FullFrom, fullFS.FullCount)
	}
	diskFull := func() bool { return fullFS != nil && fullFS.FullFired > 0 }
	env.Op("write-control world rows=%d cols=%d nsamp=%d npre=%d subdiv=%d projectors=%v", rows, cols, nsamp, npre, w.ss.subframeDivisions, hasProj)

	basePath := filepath.Join(env.Dir, "data")
	var sessions []*wcSession
	var superseded []*wcSession
	var cur *wcSession
	state := w.ss.ComputeWritingState()
	recIdx := 0
	dirsSeen := map[string]bool{}
	removed := 0 // run directories deleted or renamed by the operator
	extNext := int64(100)

	feed := func(nblocks int) {
		for b := 0; b < nblocks; b++ {
			n := nsamp + simrt.Draw(3*nsamp)
			var ext []int64
			if simrt.Draw(3) == 0 {
				nExt := 1 + simrt.Draw(5)
				if simrt.Draw(6) == 0 {
					// a burst: more bytes than the side file's write buffer holds (hundreds of edges in one block)
					nExt = 300 + simrt.Draw(900)
					simrt.Hit("ext-trigger-burst")
				}
				for k := 0; k < nExt; k++ {
					extNext += 1 + int64(simrt.Draw(50))
					ext = append(ext, extNext)
				}
			}
			drop := 0
			if simrt.Draw(4) == 0 {
				drop = 1 + simrt.Draw(20)
			}
			first := int64(w.F0) + int64(w.sent)
			w.feedBlock(n, func(b *dataBlock) {
				b.externalTriggerRowcounts = ext
				for i := range b.segments {
					b.segments[i].droppedFrames = drop
				}
			})
			// events belong to the session that is active when the block is processed
			w.sync()
			if cur != nil && !cur.stopped {
				cur.extTrig = append(cur.extTrig, ext...)
				if drop > 0 {
					cur.drops = append(cur.drops, [2]int64{first, int64(drop)})
				}
				if len(ext) > 0 {
					simrt.Hit("ext-triggers-while-active")
				}
				if state.Paused && (len(ext) > 0 || drop > 0) {
					simrt.Hit("events-while-paused")
				}
			} else if len(ext) > 0 || drop > 0 {
				simrt.Hit("events-while-inactive")
			}
		}
		w.drain()
		// attribute the records published since the last request
		for ; recIdx < len(w.sk.recs); recIdx++ {
			r := w.sk.recs[recIdx].rec
			if cur == nil || cur.stopped || !state.Active || state.Paused {
				continue
			}
			c := r.channelIndex
			if state.WriteLJH22 {
				cur.expected[c][0] = append(cur.expected[c][0], r)
			}
			if state.WriteLJH3 {
				cur.expected[c][1] = append(cur.expected[c][1], r)
			}
			if state.WriteOFF && cur.offEligible[c] {
				cur.expected[c][2] = append(cur.expected[c][2], r)
				cur.offProj[c] = append(cur.offProj[c], projNow[c])
			}
		}
	}

	request := func() {
		var ok bool
		kind := simrt.Draw(14)
		prev := state
		var req string
		var err error
		lo := time.Now()
		switch {
		case kind < 3: // START with a subset of types
			cfg := &WriteControlConfig{Request: []string{"START", "Start", "start"}[simrt.Draw(3)], Path: basePath}
			m := simrt.Draw(8)
			cfg.WriteLJH22, cfg.WriteLJH3, cfg.WriteOFF = m&1 != 0, m&2 != 0, m&4 != 0
			req = fmt.Sprintf("START ljh22=%v ljh3=%v off=%v", cfg.WriteLJH22, cfg.WriteLJH3, cfg.WriteOFF)
			err = w.sc.WriteControl(cfg, &ok)
		case kind < 5:
			req = "STOP"
			err = w.sc.WriteControl(&WriteControlConfig{Request: "STOP"}, &ok)
		case kind < 7:
			req = "PAUSE"
			err = w.sc.WriteControl(&WriteControlConfig{Request: "Pause"}, &ok)
		case kind < 9:
			req = "UNPAUSE"
			err = w.sc.WriteControl(&WriteControlConfig{Request: "UNPAUSE"}, &ok)
		case kind < 10:
			lbl := []string{"A", "run 7", "x,y"}[simrt.Draw(3)]
			req = "UNPAUSE " + lbl
			err = w.sc.WriteControl(&WriteControlConfig{Request: req}, &ok)
			if err == nil && cur != nil && !cur.stopped {
				cur.labels = append(cur.labels, wcLabel{lbl, lo, time.Now()})
			}
		case kind < 11:
			req = []string{"FOO", "UNPAUSEx", "UNPAUSE ", ""}[simrt.Draw(4)]
			err = w.sc.WriteControl(&WriteControlConfig{Request: req}, &ok)
			req = fmt.Sprintf("malformed %q", req)
		case kind < 12:
			lbl := []string{"cal", "dark", "beam on"}[simrt.Draw(3)]
			req = "label " + lbl
			err = w.sc.SetExperimentStateLabel(&StateLabelConfig{Label: lbl, WaitForError: true}, &ok)
			if err == nil && cur != nil && !cur.stopped {
				cur.labels = append(cur.labels, wcLabel{lbl, lo, lo})
			}
		case kind < 13:
			// projectors/basis are (re)loaded at any time, also while writing. Whether the server accepts
			// is its business; which matrices are in force for which record is what the file oracle needs.
			c := simrt.Draw(nchan)
			nb := nbases
			if simrt.Draw(3) == 0 {
				nb = 1 + simrt.Draw(3)
			}
			projVer++
			ps := wcMakeProj(c, projVer, nb, nsamp)
			req = fmt.Sprintf("PROJECTORS channel %d v%d nbases %d", c, projVer, nb)
			err = configure(c, ps)
			if err == nil {
				projNow[c] = ps
				hasProj[c] = true
				if prev.Active {
					simrt.Hit("projectors-accepted-while-writing")
				}
			} else if prev.Active {
				simrt.Hit("projectors-refused-while-writing")
			}
			if prev.Active && prev.WriteOFF && cur != nil && !cur.stopped && cur.offEligible[c] {
				simrt.Hit("projectors-requested-for-a-channel-of-an-OFF-session")
				if len(cur.expected[c][2]) == 0 {
					simrt.Hit("projectors-requested-before-the-first-OFF-record")
				}
			}
		default:
			// the operator deletes or renames the directory of an earlier, stopped writing session
			var cands []*wcSession
			for _, s := range sessions {
				if s.stopped && !s.gone {
					cands = append(cands, s)
				}
			}
			req = "operator: no stopped run directory to remove"
			if len(cands) > 0 {
				s := cands[simrt.Draw(len(cands))]
				var e error
				switch simrt.Draw(3) {
				case 0:
					e = os.RemoveAll(s.dir)
					req = "operator deletes " + filepath.Base(s.dir)
				case 1:
					attic := filepath.Join(env.Dir, "attic")
					os.MkdirAll(attic, 0755)
					e = os.Rename(s.dir, filepath.Join(attic, fmt.Sprintf("run%d", removed)))
					req = "operator moves " + filepath.Base(s.dir) + " out of the data tree"
				default:
					junk := fmt.Sprintf("%s.junk%d", s.dir, removed)
					e = os.Rename(s.dir, junk)
					req = "operator renames " + filepath.Base(s.dir) + " to " + filepath.Base(junk)
				}
				if e != nil {
					simrt.Fail("harness.operator", "harness:operator", "%s: %v", req, e)
				}
				// that session's files are no longer checked, and its directory name is free again
				s.gone = true
				removed++
				delete(dirsSeen, s.dir)
				simrt.Hit("stopped-run-directory-removed")
				if prev.Active {
					simrt.Hit("stopped-run-directory-removed-while-writing")
				}
			}
		}
		hi := time.Now()
		w.drain()
		now := w.ss.ComputeWritingState()
		env.Op("%s -> %v; reported %s", req, err, stateString(now))
		if err != nil && !diskFull() {
			simrt.Hit("request-rejected")
			if !sameState(prev, now) {
				simrt.Fail("C06.rejected-request", "wc:rejected-request-changed-state", "request %s was rejected (%v) but the reported state changed from %s to %s", req, err, stateString(prev), stateString(now))
			}
			state = now
			return
		}
		if err != nil {
			// Disk-full runs: a request that was carried out may report the I/O failure of a side file.
			// What it did is read from the reported state; report and behaviour must still agree.
			simrt.Hit("request-error-under-full-disk")
			if !sameState(prev, now) {
				simrt.Hit("request-error-under-full-disk-with-state-change")
			}
		}
		// the WRITING status message, when one was sent, equals the reported state
		if m, found := w.sk.lastMsg("WRITING"); err == nil && found && (strings.HasPrefix(req, "START") || strings.HasPrefix(req, "STOP") || strings.Contains(req, "PAUSE")) {
			if pp, isPP := m.state.(**WritingState); isPP && *pp != nil {
				if !sameState(*pp, now) {
					simrt.Fail("C06.status-message", "wc:status-differs", "after %s the WRITING status says %s but the server reports %s", req, stateString(*pp), stateString(now))
				}
			}
		}
		// session bookkeeping follows the *reported* state
		if now.Active && (!prev.Active || now.FilenamePattern != prev.FilenamePattern) {
			dir := filepath.Dir(now.FilenamePattern)
			if dirsSeen[dir] {
				simrt.Fail("C06.new-directory", "wc:directory-reused", "START reports directory %s which an earlier START already used", dir)
			}
			dirsSeen[dir] = true
			if ents, e := os.ReadDir(dir); e != nil {
				simrt.Fail("C06.new-directory", "wc:directory-missing", "START reports directory %s which does not exist: %v", dir, e)
			} else {
				for _, en := range ents {
					if !strings.Contains(en.Name(), "experiment_state") {
						simrt.Fail("C06.new-directory", "wc:directory-not-new", "directory %s of a fresh START already holds %s", dir, en.Name())
					}
				}
			}
			if cur != nil && !cur.stopped {
				// a START accepted while the previous session was still active: what that session's
				// files hold is checked once everything has been stopped
				superseded = append(superseded, cur)
				simrt.Hit("start-accepted-while-active")
			}
			cur = &wcSession{dir: dir, pattern: now.FilenamePattern, types: [3]bool{now.WriteLJH22, now.WriteLJH3, now.WriteOFF}, expected: make([][3][]*DataRecord, nchan),
				offEligible: append([]bool{}, hasProj...), projAtStart: append([]*wcProjSet{}, projNow...), offProj: make([][]*wcProjSet, nchan)}
			sessions = append(sessions, cur)
			if prev.Paused {
				simrt.Hit("start-after-paused-run")
			}
		}
		if !now.Active && prev.Active && cur != nil {
			cur.stopped = true
			cur.stopLo, cur.stopHi = lo, hi
			if now.Paused {
				simrt.Fail("C06.stop-state", "wc:stop-leaves-paused", "after STOP the reported state is %s", stateString(now))
			}
			checkSessionFiles(w, check, cur)
		}
		if strings.HasPrefix(req, "PAUSE") && !prev.Active {
			simrt.Hit("pause-before-start")
		}
		state = now
	}

	nops := 6 + simrt.Draw(16)
	for i := 0; i < nops; i++ {
		if simrt.Draw(3) > 0 {
			feed(1 + simrt.Draw(3))
		}
		request()
		if simrt.Draw(6) == 0 {
			time.Sleep([]time.Duration{1100 * time.Millisecond, 10500 * time.Millisecond}[simrt.Draw(2)])
			simrt.Hit("flush-tickers-fired")
		}
	}
	feed(1)
	if state.Active {
		var ok bool
		lo := time.Now()
		err := w.sc.WriteControl(&WriteControlConfig{Request: "STOP"}, &ok)
		w.drain()
		now := w.ss.ComputeWritingState()
		env.Op("final STOP -> %v; reported %s", err, stateString(now))
		if err != nil && !diskFull() {
			simrt.Fail("C06.stop-state", "wc:stop-refused-while-active", "STOP was refused (%v) while the reported state was %s", err, stateString(state))
		}
		if now.Active {
			// the report still says active (only possible when the STOP met an I/O failure): then records
			// are still being stored, or the report is wrong
			state = now
			feed(1)
		}
		if cur != nil && !cur.stopped {
			cur.stopped = true
			cur.stopLo, cur.stopHi = lo, time.Now()
			checkSessionFiles(w, check, cur)
		}
	}
	if check != "C20" {
		for _, s := range superseded {
			// records emitted after the newer START belong to the newer session's files only
			checkSessionFiles(w, check, s)
		}
	}
	w.stop()
	nrec := 0
	for _, s := range sessions {
		for c := range s.expected {
			for t := 0; t < 3; t++ {
				nrec += len(s.expected[c][t])
			}
		}
	}
	env.Sample(map[string]interface{}{"channels": nchan, "sessions": len(sessions), "requests": nops, "records_expected_in_files": nrec})
}

// checkSessionFiles runs after a STOP: all files of the session are closed and complete.
func checkSessionFiles(w *pipeWorld, check string, s *wcSession) {
	if s.gone {
		return
	}
	// (in disk-full runs the affected side file's handle is on /dev/full, not under the run directory: every
	// other file of the session, side files included, must be closed by a STOP even if it reported the failure)
	fds := openFDsUnder(s.dir)
	if len(fds) > 0 {
		rule, sig := "C06.stop-closes-files", "wc:files-open-after-stop"
		if check == "C20" {
			rule, sig = "C20.closed-after-stop", "sidefiles:open-after-stop"
		}
		simrt.Fail(rule, sig, "after STOP descriptors are still open under the run directory: %v", fds)
	}
	switch check {
	case "C06", "C05b":
		for c := 0; c < w.nchan; c++ {
			name := w.ss.chanNames[c]
			for t, ext := range []string{"ljh", "ljh3", "off"} {
				path := fmt.Sprintf(s.pattern, name, ext)
				want := s.expected[c][t]
				b, err := os.ReadFile(path)
				if err != nil {
					if len(want) == 0 {
						continue
					}
					simrt.Fail(check+".records-stored", "wc:file-missing:"+ext, "channel %d: the state said active/unpaused with %s enabled while %d records were emitted, but %s does not exist", c, ext, len(want), filepath.Base(path))
				}
				frames, perr := framesInFile(t, b)
				if perr != nil {
					simrt.Fail(check+".parse", "wc:unparsable:"+ext, "channel %d: %s does not parse after STOP: %v", c, filepath.Base(path), perr)
				}
				if len(frames) != len(want) {
					simrt.Fail(check+".records-stored", "wc:record-count:"+ext, "channel %d %s: the file holds %d records, %d were emitted while the reported state was active, unpaused and %s-enabled (session types %v)", c, ext, len(frames), len(want), ext, s.types)
				}
				for i, r := range want {
					wantF := int64(r.trigFrame)
					if t == 0 {
						wantF = wantF*int64(w.ss.subframeDivisions) + int64(w.ss.subframeOffsets[c])
					}
					if frames[i] != wantF {
						simrt.Fail(check+".records-stored", "wc:record-order:"+ext, "channel %d %s: record %d has frame count %d, the %d-th emitted record has %d", c, ext, i, frames[i], i, wantF)
					}
				}
				if check == "C05b" {
					checkFileAgainstRecords(w, c, t, path, want, s.offProj[c], s.projAtStart[c])
				}
			}
		}
	case "C20":
		checkSideFiles(w, s)
	}
}

func framesInFile(t int, b []byte) ([]int64, error) {
	var out []int64
	switch t {
	case 0:
		f, err := decodeLJH22(b)
		if err != nil {
			return nil, err
		}
		if f.trail != 0 {
			return nil, fmt.Errorf("%d trailing bytes after the last whole record", f.trail)
		}
		for _, r := range f.recs {
			out = append(out, r.subframe)
		}
	case 1:
		f, err := decodeLJH3(b)
		if err != nil {
			return nil, err
		}
		if f.trail != 0 {
			return nil, fmt.Errorf("%d trailing bytes after the last whole record", f.trail)
		}
		for _, r := range f.recs {
			out = append(out, r.frame)
		}
	default:
		f, err := decodeOFF(b)
		if err != nil {
			return nil, err
		}
		if f.trail != 0 {
			return nil, fmt.Errorf("%d trailing bytes after the last whole record", f.trail)
		}
		for _, r := range f.recs {
			out = append(out, r.frame)
		}
	}
	return out, nil
}

// checkFileAgainstRecords is C05's content oracle in the pipeline world.
func checkFileAgainstRecords(w *pipeWorld, c, t int, path string, recs []*DataRecord, projs []*wcProjSet, atStart *wcProjSet) {
	rc := w.ss.rowColCodes[c]
	p := chanParams{index: c, number: w.ss.chanNumbers[c], name: w.ss.chanNames[c], nsamp: w.nsamp, npre: w.npre, timebase: 1.0 / w.rate,
		rows: rc.rows(), cols: rc.cols(), row: rc.row(), col: rc.col(), nchans: w.nchan, subdiv: w.ss.subframeDivisions, suboff: w.ss.subframeOffsets[c]}
	var want []wantRec
	for _, r := range recs {
		want = append(want, wantRec{frame: int64(r.trigFrame), time: r.trigTime, pre: r.presamples, data: r.data, coefs: r.modelCoefs, ptMean: r.pretrigMean, ptDelt: r.pretrigDelta, resid: r.residualStdDev})
	}
	switch t {
	case 0:
		checkLJH22File(path, p, want, "Scripted")
	case 1:
		checkLJH3File(path, p, want, true)
	default:
		// the header must state the matrices that were in force for every record of the file
		ps := atStart
		for i, q := range projs {
			if i == 0 {
				ps = q
			} else if q != ps {
				simrt.Fail("C05.off-matrices", "files:off-matrices-replaced-under-open-file", "channel %d: OFF record %d was analysed with projector set v%d, record 0 with v%d: one header cannot state both", c, i, q.ver, ps.ver)
			}
		}
		if ps == nil {
			if len(recs) == 0 {
				if _, err := os.Stat(path); err != nil {
					return
				}
			}
			simrt.Fail("C05.off-matrices", "files:off-file-without-projectors", "channel %d has an OFF file although no projectors were in force for it", c)
		}
		p.nbases = ps.nbases
		p.proj, p.basis = mat.NewDense(ps.nbases, w.nsamp, append([]float64{}, ps.proj...)), mat.NewDense(w.nsamp, ps.nbases, append([]float64{}, ps.basis...))
		checkOFFFile(path, p, want)
		// independent of the bookkeeping above: the stored coefficients are the header's projectors applied
		// to the record (documented meaning of the projector matrix: projectors x data = coefficients)
		b, err := os.ReadFile(path)
		if err != nil {
			return
		}
		f, err := decodeOFF(b)
		if err != nil || len(f.recs) != len(recs) || len(f.projectors) != f.nbases*w.nsamp {
			return // reported by checkOFFFile
		}
		for i, r := range recs {
			if len(r.data) != w.nsamp {
				continue
			}
			for k := 0; k < f.nbases; k++ {
				sum, mag := 0.0, 1.0
				for j, v := range r.data {
					x := float64(v)
					if w.signed[c] {
						x = float64(int16(v))
					}
					term := f.projectors[k*w.nsamp+j] * x
					sum += term
					mag += math.Abs(term)
				}
				if math.Abs(float64(f.recs[i].coefs[k])-sum) > 1e-5*mag {
					simrt.Fail("C05.off-coefs-from-header", "files:off-coefs-not-from-header-projectors", "channel %d OFF record %d coefficient %d is %v, but the header's projectors applied to the record's samples give %v: the header does not state the matrices the record was analysed with", c, i, k, f.recs[i].coefs[k], sum)
				}
			}
			simrt.Hit("off-coefs-recomputed-from-header")
		}
	}
}

// checkSideFiles is C20's oracle for one finished writing session.
func checkSideFiles(w *pipeWorld, s *wcSession) {
	// experiment state file: header, START, one line per accepted label, STOP last
	esPath := fmt.Sprintf(s.pattern, "experiment_state", "txt")
	b, err := os.ReadFile(esPath)
	if err != nil {
		simrt.Fail("C20.experiment-state", "sidefiles:experiment-state-missing", "experiment-state file missing after STOP: %v", err)
	}
	lines := strings.Split(strings.TrimSuffix(string(b), "\n"), "\n")
	if len(lines) < 1 || !strings.HasPrefix(lines[0], "#") {
		simrt.Fail("C20.experiment-state", "sidefiles:experiment-state-header", "experiment-state file does not start with a header line: %q", string(b))
	}
	body := lines[1:]
	wantN := len(s.labels) + 2
	if len(body) != wantN {
		simrt.Fail("C20.experiment-state", "sidefiles:experiment-state-lines", "experiment-state file has %d lines after the header, want START + %d accepted labels + STOP: %q", len(body), len(s.labels), body)
	}
	parse := func(line string) (int64, string) {
		k := strings.Index(line, ", ")
		if k < 0 {
			simrt.Fail("C20.experiment-state", "sidefiles:experiment-state-format", "malformed experiment-state line %q", line)
		}
		var ns int64
		if _, e := fmt.Sscanf(line[:k], "%d", &ns); e != nil {
			simrt.Fail("C20.experiment-state", "sidefiles:experiment-state-format", "malformed experiment-state line %q", line)
		}
		return ns, line[k+2:]
	}
	if _, l := parse(body[0]); l != "START" {
		simrt.Fail("C20.experiment-state", "sidefiles:experiment-state-start", "first state line is %q, want START", body[0])
	}
	if ns, l := parse(body[len(body)-1]); l != "STOP" || ns < s.stopLo.UnixNano() || ns > s.stopHi.UnixNano() {
		simrt.Fail("C20.experiment-state", "sidefiles:experiment-state-stop", "last state line is %q, want STOP stamped within the STOP request [%d,%d]", body[len(body)-1], s.stopLo.UnixNano(), s.stopHi.UnixNano())
	}
	for i, lb := range s.labels {
		ns, l := parse(body[1+i])
		if l != lb.label || ns < lb.lo.UnixNano() || ns > lb.hi.UnixNano() {
			simrt.Fail("C20.experiment-state", "sidefiles:experiment-state-label", "state line %d is %q, want label %q stamped in [%d,%d]", i+1, body[1+i], lb.label, lb.lo.UnixNano(), lb.hi.UnixNano())
		}
	}
	// external trigger file
	etPath := fmt.Sprintf(s.pattern, "external_trigger", "bin")
	b, err = os.ReadFile(etPath)
	if len(s.extTrig) == 0 {
		if err == nil {
			nl := bytes.IndexByte(b, '\n')
			if nl < 0 || len(b) != nl+1 {
				simrt.Fail("C20.external-trigger", "sidefiles:ext-trigger-spurious", "no external trigger was delivered while active but the file holds %d bytes", len(b))
			}
		}
	} else {
		if err != nil {
			simrt.Fail("C20.external-trigger", "sidefiles:ext-trigger-missing", "%d external triggers were delivered while active but the file is missing: %v", len(s.extTrig), err)
		}
		nl := bytes.IndexByte(b, '\n')
		if nl < 0 || b[0] != '#' {
			simrt.Fail("C20.external-trigger", "sidefiles:ext-trigger-header", "external-trigger file has no header line")
		}
		data := b[nl+1:]
		if len(data) != 8*len(s.extTrig) {
			simrt.Fail("C20.external-trigger", "sidefiles:ext-trigger-count", "external-trigger file holds %d bytes of counts (%d values), %d counts were delivered while active", len(data), len(data)/8, len(s.extTrig))
		}
		for i, v := range s.extTrig {
			if got := int64(binary.LittleEndian.Uint64(data[8*i:])); got != v {
				simrt.Fail("C20.external-trigger", "sidefiles:ext-trigger-value", "external-trigger count %d in the file is %d, the source delivered %d", i, got, v)
			}
		}
		simrt.Hit("ext-trigger-file-checked")
	}
	// data drop file
	ddPath := fmt.Sprintf(s.pattern, "data_drop", "txt")
	b, err = os.ReadFile(ddPath)
	if len(s.drops) == 0 {
		if err == nil && strings.Count(string(b), "\n") > 1 {
			simrt.Fail("C20.data-drop", "sidefiles:data-drop-spurious", "no block reported dropped frames while active but the data-drop file holds %q", string(b))
		}
	} else {
		if err != nil {
			simrt.Fail("C20.data-drop", "sidefiles:data-drop-missing", "%d blocks reported dropped frames while active but the file is missing: %v", len(s.drops), err)
		}
		lines := strings.Split(strings.TrimSuffix(string(b), "\n"), "\n")
		if len(lines) != len(s.drops)+1 || !strings.HasPrefix(lines[0], "#") {
			simrt.Fail("C20.data-drop", "sidefiles:data-drop-lines", "data-drop file has %d lines, want a header + %d drop lines: %q", len(lines), len(s.drops), lines)
		}
		for i, d := range s.drops {
			want := fmt.Sprintf("%12d %8d", d[0], d[1])
			if lines[1+i] != want {
				simrt.Fail("C20.data-drop", "sidefiles:data-drop-line", "data-drop line %d is %q, want %q", i, lines[1+i], want)
			}
		}
		simrt.Hit("data-drop-file-checked")
	}
}
