//go:build verif

package dastard

// C11 workload: every request kind of the RPC layer with arguments from valid, boundary and
// invalid families. Each generator returns the call, the reply kind the property demands when
// the request meets a source that is running for the whole call (c11OK / c11Err / c11Any — the
// last wherever the documented contract leaves room for doubt), and the model updates.

import (
	"encoding/base64"
	"fmt"
	"os"
	"path/filepath"
	"strings"
	"time"

	"gonum.org/v1/gonum/mat"

	"verif/simrt"
)

func (c *c11World) drawRequest() *c11Req {
	// a planned I/O failure that has not fired yet: steer every third request towards the handler
	// (or the writing state) it is aimed at
	if (c.persist || c.full) && c.fires > 0 && c.state() == c11Healthy && simrt.Draw(3) == 2 {
		// the file stays uncreatable (or its disk stays full): keep coming back to the requests that use
		// it or the state around it
		if c.full && (c.faultClass == "external-trigger" || c.faultClass == "data-drop") && simrt.Draw(2) == 0 {
			return c.reqWriteControlFam(3) // STOP flushes the side logs
		}
		switch simrt.Draw(7) {
		case 0:
			return c.reqLabel()
		case 1:
			return c.reqWriteControlFam(7) // UNPAUSE label
		case 2:
			return c.reqWriteControlFam(3) // STOP
		case 3:
			return c.reqWriteControlFam(0) // START
		case 4:
			return c.reqWriteComment()
		case 5:
			return c.reqLengths()
		}
		return c.reqReadComment()
	}
	if c.faultClass != "none" && c.fires == 0 && c.state() == c11Healthy && simrt.Draw(3) == 2 {
		switch {
		case c.faultClass == "temp-file":
			return c.reqRawBlock()
		case c.faultClass == "channel-groups":
			// written by Start: nothing to steer
		case c.writing != c11WOn:
			return c.reqWriteControlFam(simrt.Draw(3))
		case c.faultClass == "comment":
			return c.reqWriteComment()
		case c.full && c.faultClass == "experiment-state":
			return c.reqWriteControlFam(3) // the second creation of the state file is the full one: STOP, then START again
		}
	}
	switch k := simrt.Draw(41); {
	case k >= 38:
		return c.reqConfigure()
	case k >= 36:
		return c.reqMapUnload()
	case k >= 34:
		return c.reqMapLoad()
	case k == 0:
		return c.reqSendAll()
	case k <= 5:
		return c.reqTriggers()
	case k <= 8:
		return c.reqLengths()
	case k <= 11:
		return c.reqProjectors()
	case k <= 17:
		return c.reqWriteControl()
	case k <= 19:
		return c.reqLabel()
	case k <= 22:
		return c.reqWriteComment()
	case k == 23:
		return c.reqReadComment()
	case k <= 25:
		return c.reqFBCoupling()
	case k <= 27:
		return c.reqGroup()
	case k == 28:
		return c.reqStopCoupling()
	case k == 29:
		return c.reqMix()
	case k <= 31:
		return c.reqRawBlock()
	case k == 32:
		return c.reqStop()
	}
	return c.reqStart()
}

// drawBadIndex returns a channel index outside [0, nchan).
func (c *c11World) drawBadIndex() int {
	return []int{-1, c.nchan, -7, c.nchan + 5, -1 << 40, 1 << 40}[simrt.Draw(6)]
}

func (c *c11World) allChannels() []int {
	all := make([]int, c.nchan)
	for i := range all {
		all[i] = i
	}
	return all
}

func (c *c11World) reqSendAll() *c11Req {
	var ok bool
	var dummy string
	return &c11Req{kind: "SendAllStatus", expect: c11Any, do: func() error { return c.sc.SendAllStatus(&dummy, &ok) }}
}

func (c *c11World) reqTriggers() *c11Req {
	var ok bool
	ts := TriggerState{AutoDelay: 0, EdgeLevel: 100, EdgeRising: true, LevelLevel: 3000, LevelRising: true}
	switch simrt.Draw(4) {
	case 0:
		ts.AutoTrigger = true
		ts.AutoDelay = c.period * time.Duration(c.nsamp+simrt.Draw(3*c.nsamp))
	case 1:
		ts.EdgeTrigger = true
	case 2:
		ts.LevelTrigger = true
	default:
		ts.AutoTrigger, ts.EdgeTrigger = true, true
		ts.AutoDelay = c.period * time.Duration(2*c.nsamp)
	}
	r := &c11Req{kind: "ConfigureTriggers", needsSource: true, queued: true}
	var idx []int
	switch simrt.Draw(8) {
	case 0:
		idx, r.expect = c.allChannels(), c11OK
		r.onOK = func() { c.emt = false }
	case 1:
		idx, r.expect = []int{simrt.Draw(c.nchan)}, c11OK
	case 2:
		idx, r.expect = []int{c.nchan - 1, 0}, c11OK
	case 3:
		idx, r.expect, r.badIndex = []int{c.drawBadIndex()}, c11Err, true
	case 4:
		idx, r.expect, r.badIndex = append(c.allChannels(), c.drawBadIndex()), c11Err, true
	case 5:
		idx, r.expect, r.badIndex = append([]int{c.drawBadIndex()}, c.allChannels()...), c11Err, true
	case 6:
		// no channel at all: the reply kind is not pinned down by the property
		if simrt.Draw(2) == 0 {
			idx = []int{}
		}
	default:
		// edge-multi through the legacy fields: validity depends on the record lengths
		idx = c.allChannels()
		ts = TriggerState{EdgeMulti: true, EdgeLevel: 100, EdgeRising: true}
		ts.EdgeMultiLevel = int32(50 * simrt.Draw(3))
		ts.EdgeMultiVerifyNMonotone = 1 + simrt.Draw(4)
		// (variable-length records and projectors together are a documented "not implemented"
		// fail-stop of the analysis code: the workload keeps the two apart)
		ts.EdgeMultiMakeShortRecords = simrt.Draw(2) == 1 && !c.projAsked
		if ts.EdgeMultiMakeShortRecords {
			c.emtShort = true
		}
		ts.EdgeMultiMakeContaminatedRecords = simrt.Draw(3) == 2
		r.onOK = func() { c.emt = true }
		r.onErr = func() { c.emt = true }
	}
	r.desc = fmt.Sprintf("channels=%v auto=%v edge=%v level=%v emt=%v", idx, ts.AutoTrigger, ts.EdgeTrigger, ts.LevelTrigger, ts.EdgeMulti)
	state := &FullTriggerState{ChannelIndices: idx, TriggerState: ts}
	r.do = func() error { return c.sc.ConfigureTriggers(state, &ok) }
	return r
}

func (c *c11World) reqLengths() *c11Req { return c.reqLengthsFam(simrt.Draw(7)) }

func (c *c11World) reqLengthsFam(fam int) *c11Req {
	var ok bool
	r := &c11Req{kind: "ConfigurePulseLengths", needsSource: true, queued: true}
	ns, np := c.nsamp, c.npre
	switch fam {
	case 0:
		// unchanged
		if c.lenKnown {
			r.expect = c11OK
		}
	case 1:
		ns = []int{8, 16, 40, 100, 250}[simrt.Draw(5)]
		np = 3 + simrt.Draw(ns-3)
		if c.writing == c11WOff && !c.emt {
			r.expect = c11OK
		}
		r.onOK = func() { c.nsamp, c.npre, c.lenKnown = ns, np, true }
		r.onErr = func() {
			if ns != c.nsamp || np != c.npre {
				c.lenKnown = false // possibly applied to some channels only
			}
		}
	case 2:
		ns, r.expect = []int{0, -1, -1000}[simrt.Draw(3)], c11Err
	case 3:
		np, r.expect = []int{0, -1, -1000}[simrt.Draw(3)], c11Err
	case 4:
		ns = []int{8, 40}[simrt.Draw(2)]
		np, r.expect = ns+[]int{0, 1, 500}[simrt.Draw(3)], c11Err
	case 5:
		// fewer than three pre-trigger samples: refused by the trigger code, not by the property
		ns, np = 20, 1+simrt.Draw(2)
		r.onErr = func() {}
		r.onOK = func() { c.nsamp, c.npre = ns, np }
	default:
		ns, np = 0, 0
		r.expect = c11Err
	}
	r.desc = fmt.Sprintf("nsamp=%d npre=%d", ns, np)
	r.do = func() error { return c.sc.ConfigurePulseLengths(SizeObject{Nsamp: ns, Npre: np}, &ok) }
	return r
}

func c11Matrix(rows, cols int, seed int) string {
	d := make([]float64, rows*cols)
	for i := range d {
		d[i] = float64((i*7+seed)%13)*0.125 - 0.5
	}
	b, _ := mat.NewDense(rows, cols, d).MarshalBinary()
	return base64.StdEncoding.EncodeToString(b)
}

func (c *c11World) reqProjectors() *c11Req {
	var ok bool
	r := &c11Req{kind: "ConfigureProjectorsBasis", needsSource: true, queued: true}
	nb := 1 + simrt.Draw(3)
	ch := simrt.Draw(c.nchan)
	proj, basis := c11Matrix(nb, c.nsamp, ch), c11Matrix(c.nsamp, nb, ch+3)
	what := "well-formed"
	fam := simrt.Draw(10)
	if c.emtShort && fam != 3 && fam != 5 {
		fam = 2 // see reqTriggers: no projectors next to variable-length records
	}
	if fam <= 1 || fam >= 7 {
		c.projAsked = true // decodable matrices reach the handler
	}
	switch fam {
	case 0, 1:
		// (projectors cannot be exchanged under an open OFF file: the reply is left open then)
		if c.lenKnown && !c.offMaybe {
			r.expect = c11OK
		}
	case 2:
		ch, r.expect, r.badIndex, what = c.drawBadIndex(), c11Err, true, "channel index out of range"
	case 3:
		r.expect, what = c11Err, "projectors are not base64"
		proj = []string{"!!! not base64 !!!", proj[:len(proj)-3] + "*", "="}[simrt.Draw(3)]
	case 4:
		r.expect, what = c11Err, "basis is not base64"
		basis = "%%%" + basis
	case 5:
		r.expect, what = c11Err, "projectors are not a matrix encoding"
		raw, _ := base64.StdEncoding.DecodeString(proj)
		switch simrt.Draw(5) {
		case 0:
			raw = raw[:len(raw)/2] // truncated
		case 1:
			raw = nil // empty
		case 2:
			raw = []byte(strings.Repeat("dastard!", 6)) // no header
		case 3:
			raw = append(raw, 1, 2, 3) // trailing bytes
		default:
			// header claims far more elements than follow
			for i := 8; i < 16 && i < len(raw); i++ {
				raw[i] = 0x7f
			}
		}
		proj = base64.StdEncoding.EncodeToString(raw)
	case 6:
		r.expect, what = c11Err, "basis is not a matrix encoding"
		raw, _ := base64.StdEncoding.DecodeString(basis)
		basis = base64.StdEncoding.EncodeToString(raw[:len(raw)-8])
	case 7:
		if c.lenKnown {
			r.expect = c11Err
		}
		what = "projectors have the wrong number of columns"
		proj = c11Matrix(nb, c.nsamp+1+simrt.Draw(3), 1)
	case 8:
		if c.lenKnown {
			r.expect = c11Err
		}
		what = "basis shape does not match the projectors"
		if simrt.Draw(2) == 0 {
			basis = c11Matrix(c.nsamp, nb+1, 2)
		} else {
			basis = c11Matrix(c.nsamp-1, nb, 2)
		}
	default:
		if c.lenKnown {
			r.expect = c11Err
		}
		what = "projectors and basis swapped"
		if nb == c.nsamp {
			r.expect = c11Any
		}
		proj, basis = basis, proj
	}
	r.desc = fmt.Sprintf("channel=%d bases=%d: %s", ch, nb, what)
	pbo := &ProjectorsBasisObject{ChannelIndex: ch, ProjectorsBase64: proj, BasisBase64: basis, ModelDescription: "verif"}
	r.do = func() error { return c.sc.ConfigureProjectorsBasis(pbo, &ok) }
	return r
}

func c11Case(s string) string {
	switch simrt.Draw(3) {
	case 1:
		return strings.ToLower(s)
	case 2:
		return s[:1] + strings.ToLower(s[1:])
	}
	return s
}

func (c *c11World) reqWriteControl() *c11Req { return c.reqWriteControlFam(simrt.Draw(12)) }

func (c *c11World) reqWriteControlFam(fam int) *c11Req {
	var ok bool
	r := &c11Req{kind: "WriteControl", needsSource: true, queued: true}
	cfg := &WriteControlConfig{}
	if c.any == &c.sc.erroring.AnySource && (fam <= 2 || fam >= 9) {
		// the ErroringSource is a test fixture without channel geometry: nobody starts writing
		// on it in the instants before it ends
		fam = 3
	}
	switch fam {
	case 0, 1, 2:
		cfg.Request, cfg.Path = c11Case("START"), c.dataDir
		m := 1 + simrt.Draw(3) // LJH2.2 and/or LJH3
		cfg.WriteLJH22, cfg.WriteLJH3 = m&1 != 0, m&2 != 0
		if simrt.Draw(5) == 4 {
			cfg.WriteOFF = true // needs projectors: not modelled
			c.offMaybe = true
		} else if c.writing == c11WOff && !c.mapMaybe {
			r.expect = c11OK // (with a TES map loaded the map must also fit the channels: left open)
		}
		r.kind, r.isStart = "WriteControl-START", true
		r.onOK = func() { c.writing, c.commentOK = c11WOn, false }
		r.onErr = func() {
			if c.writing == c11WOff {
				c.writing = c11WUnknown // a failed START may leave writing half started
			}
		}
	case 3, 4:
		cfg.Request = c11Case("STOP")
		r.kind = "WriteControl-STOP"
		if c.writing == c11WOn {
			r.expect = c11OK // (a redundant STOP may or may not be refused)
		}
		r.onOK = func() { c.writing, c.commentOK, c.offMaybe = c11WOff, false, false }
		r.onErr = func() { c.writing = c11WUnknown }
	case 5:
		cfg.Request = c11Case("PAUSE")
		r.kind = "WriteControl-PAUSE"
	case 6:
		cfg.Request = c11Case("UNPAUSE")
		r.kind = "WriteControl-UNPAUSE"
	case 7:
		cfg.Request = c11Case("UNPAUSE") + " " + []string{"A", "run 7", "x,y"}[simrt.Draw(3)]
		r.kind = "WriteControl-UNPAUSE-label"
		if c.writing == c11WOn {
			r.expect = c11OK
		}
	case 8:
		cfg.Request = []string{"FOO", "", "RESUME", "xSTART", "S"}[simrt.Draw(5)]
		r.kind, r.expect = "WriteControl-unknown-verb", c11Err
	case 9:
		cfg.Request = "START" // no file type selected
		cfg.Path = c.dataDir
		r.kind, r.isStart = "WriteControl-START-no-type", true
		r.onErr = func() {}
		r.onOK = func() { c.writing = c11WUnknown }
	case 10:
		cfg.Request, cfg.WriteLJH22 = "START", true // empty path: falls back to the last base path, if any
		r.kind, r.isStart = "WriteControl-START-empty-path", true
		r.onOK = func() { c.writing, c.commentOK = c11WOn, false }
		r.onErr = func() {
			if c.writing == c11WOff {
				c.writing = c11WUnknown
			}
		}
	default:
		cfg.Request = []string{"UNPAUSEx", "UNPAUSE ", "PAUSED now"}[simrt.Draw(3)]
		r.kind = "WriteControl-malformed"
	}
	r.desc = fmt.Sprintf("%q ljh22=%v ljh3=%v off=%v path=%v map=%v", cfg.Request, cfg.WriteLJH22, cfg.WriteLJH3, cfg.WriteOFF, cfg.Path != "", c.mapMaybe)
	r.do = func() error { return c.sc.WriteControl(cfg, &ok) }
	return r
}

func (c *c11World) reqLabel() *c11Req {
	var ok bool
	r := &c11Req{kind: "SetExperimentStateLabel", needsSource: true, queued: true}
	lbl := []string{"cal", "beam on", "", "x\ny"}[simrt.Draw(4)]
	if lbl != "" && c.writing == c11WOn {
		r.expect = c11OK
	}
	r.desc = fmt.Sprintf("%q wait", lbl)
	r.do = func() error { return c.sc.SetExperimentStateLabel(&StateLabelConfig{Label: lbl, WaitForError: true}, &ok) }
	return r
}

func (c *c11World) reqWriteComment() *c11Req {
	var ok bool
	r := &c11Req{kind: "WriteComment", needsSource: true, queued: true}
	txt := []string{"a comment", "two\nlines\n", "", "x"}[simrt.Draw(4)]
	if txt != "" {
		if c.writing == c11WOn {
			r.expect = c11OK // there is a run directory to put comment.txt in
		}
		r.onOK = func() { c.commentOK = c.writing == c11WOn }
	}
	r.desc = fmt.Sprintf("%q writing=%s", txt, []string{"off", "on", "unknown"}[c.writing])
	r.do = func() error { return c.sc.WriteComment(&txt, &ok) }
	return r
}

func (c *c11World) reqReadComment() *c11Req {
	r := &c11Req{kind: "ReadComment", needsSource: true}
	zero := []int{0, 0, 0, 7}[simrt.Draw(4)]
	if zero == 0 && c.writing == c11WOn && c.commentOK {
		r.expect = c11OK
	}
	r.desc = fmt.Sprintf("%d", zero)
	r.do = func() error {
		var reply string
		return c.sc.ReadComment(&zero, &reply)
	}
	return r
}

func (c *c11World) reqFBCoupling() *c11Req {
	var ok bool
	on := simrt.Draw(3) == 2
	r := &c11Req{kind: "CoupleErrToFB", needsSource: true, queued: true, desc: fmt.Sprint(on)}
	if !on {
		r.expect = c11OK // switching coupling off is allowed on every source
	}
	if simrt.Draw(2) == 1 {
		r.kind = "CoupleFBToErr"
		r.do = func() error { return c.sc.CoupleFBToErr(&on, &ok) }
	} else {
		r.do = func() error { return c.sc.CoupleErrToFB(&on, &ok) }
	}
	return r
}

func (c *c11World) reqGroup() *c11Req {
	var ok bool
	r := &c11Req{kind: "AddGroupTriggerCoupling", needsSource: true, queued: true, expect: c11OK}
	conns := map[int][]int{}
	for i := 0; i < 1+simrt.Draw(2); i++ {
		s := simrt.Draw(c.nchan)
		if simrt.Draw(6) == 5 {
			// out-of-range members never take effect (C09); the reply kind is left open
			s, r.expect, r.badIndex = c.drawBadIndex(), c11Any, true
		}
		for j := 0; j < 1+simrt.Draw(2); j++ {
			rx := simrt.Draw(c.nchan)
			if simrt.Draw(6) == 5 {
				rx, r.expect, r.badIndex = c.drawBadIndex(), c11Any, true
			}
			conns[s] = append(conns[s], rx)
		}
	}
	if simrt.Draw(8) == 7 {
		conns = nil
	}
	r.desc = fmt.Sprint(conns)
	if simrt.Draw(3) == 2 {
		r.kind = "DeleteGroupTriggerCoupling"
		r.do = func() error { return c.sc.DeleteGroupTriggerCoupling(&GroupTriggerState{Connections: conns}, &ok) }
	} else {
		r.do = func() error { return c.sc.AddGroupTriggerCoupling(GroupTriggerState{Connections: conns}, &ok) }
	}
	return r
}

func (c *c11World) reqStopCoupling() *c11Req {
	var ok, dummy bool
	return &c11Req{kind: "StopTriggerCoupling", needsSource: true, queued: true, expect: c11OK, do: func() error { return c.sc.StopTriggerCoupling(&dummy, &ok) }}
}

func (c *c11World) reqMix() *c11Req {
	var ok bool
	if c.kind == 3 && c.any == c.main {
		return c.reqMixLancero()
	}
	r := &c11Req{kind: "ConfigureMixFraction", needsSource: true}
	mfo := &MixFractionObject{ChannelIndices: []int{1}, MixFractions: []float64{0.5}}
	switch simrt.Draw(4) {
	case 1:
		mfo = &MixFractionObject{ChannelIndices: []int{1, 3}, MixFractions: []float64{0.5}} // fewer fractions than indices
		r.expect = c11Err
	case 2:
		mfo = &MixFractionObject{ChannelIndices: []int{c.drawBadIndex()}, MixFractions: []float64{1}}
		r.expect = c11Err
	case 3:
		mfo = &MixFractionObject{}
	}
	r.desc = fmt.Sprintf("indices=%v fractions=%v (source without mix)", mfo.ChannelIndices, mfo.MixFractions)
	r.do = func() error { return c.sc.ConfigureMixFraction(mfo, &ok) }
	return r
}

func (c *c11World) reqRawBlock() *c11Req {
	r := &c11Req{kind: "StoreRawDataBlock", needsSource: true, queued: true}
	var n int
	switch simrt.Draw(6) {
	case 0, 1:
		n = 1 + simrt.Draw(2*c.blkLen) // completes within a few blocks
	case 2:
		n = 200000 // does not complete during the run
	case 3:
		n, r.expect = 0, c11Err
	case 4:
		n, r.expect = -1-simrt.Draw(3), c11Err
	default:
		n, r.expect = -1<<31, c11Err
	}
	if n > 0 && !c.rawAsked {
		r.expect = c11OK // the first archive request of a run finds no other one in progress
	}
	var name string
	r.onOK = func() {
		c.rawAsked = true
		c.rawNames = append(c.rawNames, name)
	}
	r.onErr = func() {
		if n > 0 {
			c.rawAsked = true
		}
	}
	r.desc = fmt.Sprint(n)
	r.do = func() error { return c.sc.StoreRawDataBlock(n, &name) }
	return r
}

func (c *c11World) reqStop() *c11Req {
	var ok bool
	var dummy string
	r := &c11Req{kind: "Stop", expect: c11OK}
	r.do = func() error {
		err := c.sc.Stop(&dummy, &ok)
		return err
	}
	r.onOK = func() {
		if c.up {
			c.noteDown(c.termSent)
		}
		c.stopHardware()
	}
	return r
}

func (c *c11World) reqStart() *c11Req {
	var ok bool
	r := &c11Req{kind: "Start"}
	name := "NoSuchSource"
	st := c.state()
	switch {
	case st == c11Down && c.env.Faulted() && simrt.Draw(2) == 0:
		// a built-in source that ends by itself at once
		name = "ERRORINGSOURCE"
		r.onOK = func() {
			simrt.Fault("self-termination")
			c.stopHardware()
			c.noteStarted(&c.sc.erroring.AnySource, 1, true)
		}
	case st == c11Down && c.kind != 0 && simrt.Draw(2) == 0:
		name = c.name
		r.onOK = func() { c.noteStarted(c.main, c.nchanMain, false) }
	case st != c11Down && simrt.Draw(2) == 0:
		name = "TRIANGLESOURCE" // refused: a source is active
	case simrt.Draw(3) == 0:
		// sources without any device in this world: refused (nothing to read from), whatever was configured
		name = []string{"ABACOSOURCE", "ROACHSOURCE"}[simrt.Draw(2)]
	}
	r.desc = name
	r.do = func() error { return c.sc.Start(&name, &ok) }
	return r
}

// ---- TES map history (MapServer.Load / Unload): WriteControl START hands the loaded map to the source

// pixelsWanted is the pixel count a map must have to fit the running source.
func (c *c11World) pixelsWanted() int {
	if c.kind == 3 && c.any == c.main {
		return c.nchan / 2 // error + feedback channel per pixel
	}
	return c.nchan
}

func (c *c11World) reqMapLoad() *c11Req {
	var ok bool
	r := &c11Req{kind: "MapServer.Load"}
	c.nmaps++
	path := filepath.Join(c.env.Dir, fmt.Sprintf("map%d.cfg", c.nmaps))
	want := c.pixelsWanted()
	npix, what := want, "as many pixels as the source needs"
	var text strings.Builder
	wellFormed := true
	switch fam := simrt.Draw(10); fam {
	case 0, 1, 2:
	case 3:
		npix, what = want+1+simrt.Draw(3), "more pixels than the source needs"
	case 4:
		npix, what = want-1, "one pixel fewer than the source needs"
	case 5:
		npix, what = 2*want, "twice the pixels (a map counting error and feedback channels)"
	default:
		wellFormed = false
	}
	if npix < 1 {
		npix = 1
	}
	matter := wellFormed && simrt.Draw(4) == 3 // legacy numbering 1, 3, 5, ...
	if wellFormed {
		fmt.Fprintf(&text, "spacing: %d\n", 100+10*simrt.Draw(50))
		for i := 1; i <= npix; i++ {
			n := i
			if matter {
				n = 2*i - 1
			}
			fmt.Fprintf(&text, "%8d %8d %8d c%dr%d\n", n, 290*(i%7), -520*(i/7), i/7, i%7)
		}
		if matter {
			what += ", legacy channel numbering"
		}
		r.expect = c11OK
		r.onOK = func() { c.mapMaybe = true }
	} else {
		switch simrt.Draw(5) {
		case 0:
			what, path = "file does not exist", filepath.Join(c.env.Dir, "no-such-map.cfg")
		case 1:
			what = "empty file"
		case 2:
			what = "no spacing line"
			text.WriteString("1 0 0 c0r0\n2 0 520 c0r1\n")
		case 3:
			what = "garbage in the middle"
			text.WriteString("spacing: 520\n1 0 0 c0r0\n2 0 x520 c0r1\n3 0 1040 c0r2\n")
		default:
			what = "channel numbers out of sequence"
			text.WriteString("spacing: 520\n1 0 0 c0r0\n2 0 520 c0r1\n7 0 1040 c0r2\n4 0 1560 c0r3\n")
		}
		r.onOK = func() { c.mapMaybe = true }
	}
	if what != "file does not exist" {
		if err := os.WriteFile(path, []byte(text.String()), 0644); err != nil {
			simrt.Fail("harness.map", "harness:map-file", "%v", err)
		}
	}
	r.desc = fmt.Sprintf("%d pixels for %d channels: %s", npix, c.nchan, what)
	if !wellFormed {
		r.desc = what
	}
	r.do = func() error { return c.sc.mapServer.Load(&path, &ok) }
	return r
}

func (c *c11World) reqMapUnload() *c11Req {
	var ok bool
	zero := 0
	return &c11Req{kind: "MapServer.Unload", expect: c11OK, do: func() error { return c.sc.mapServer.Unload(&zero, &ok) }, onOK: func() { c.mapMaybe = false }}
}
