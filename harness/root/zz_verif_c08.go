//go:build verif

package dastard

// C08: edge-multi triggering is block-boundary independent and never indexes outside.
// The same stream is processed twice in one simulated run — once as a single block,
// once cut into a drawn partition, with a real Stop/Start in between — and the two
// record lists must be identical; structural invariants are checked on both.

import (
	"fmt"
	"time"

	"verif/simrt"
)

func init() {
	simrt.Register(&simrt.Check{Name: "C08", Property: "C08", Body: c08Body, Classify: classify,
		Real: []string{"Start/CoreLoop/ProcessSegments/Stop (twice per run)", "edge-multi trigger state machine, zero-threshold refinement, record extents", "TrimStream", "ConfigureTriggers RPC (EdgeMulti* fields)"},
		Stub: []string{"hardware (ScriptedSource)", "ZMQ publishers (sinks)", "net/rpc transport"}})
}

// genEMTStream makes a stream with edges placed with bias to the first searchable
// sample, block edges, each other, and exact monotone runs; ends with a quiet tail.
func genEMTStream(n int, edges []int, signed bool, nsamp, npre, nmono int) ([]RawType, []string) {
	lo, hi := 0, 65535
	if signed {
		lo, hi = -32768, 32767
	}
	base := lo + 2000 + simrt.Draw(20000)
	noise := []int{0, 0, 1, 4}[simrt.Draw(4)]
	vals := make([]int, n)
	for i := range vals {
		vals[i] = base
		if noise > 0 {
			vals[i] += simrt.Draw(2*noise+1) - noise
		}
	}
	var feats []string
	tail := n - 3*nsamp
	nf := 1 + simrt.Draw(10)
	last := -1
	for f := 0; f < nf; f++ {
		var pos int
		switch simrt.Draw(5) {
		case 0: // first searchable samples after (re)configuration
			pos = npre + simrt.Draw(3) - 1
		case 1: // around a block edge
			if len(edges) > 0 {
				pos = edges[simrt.Draw(len(edges))] + simrt.Draw(5) - 2
			}
		case 2: // closer than a record to the previous one
			if last >= 0 {
				pos = last + 1 + simrt.Draw(nsamp)
			} else {
				pos = simrt.Draw(tail)
			}
		default:
			pos = simrt.Draw(tail)
		}
		if pos < 1 || pos >= tail {
			continue
		}
		h := []int{40, 300, 3000, 20000}[simrt.Draw(4)]
		if simrt.Draw(4) == 0 {
			h = -h
		}
		rise := 1 + simrt.Draw(4)
		if simrt.Draw(3) == 0 {
			rise = nmono // monotone run exactly as long as required
		}
		if rise < 1 {
			rise = 1
		}
		decay := 2 + simrt.Draw(nsamp)
		for i := pos; i < n && i < pos+rise+decay; i++ {
			if i-pos < rise {
				vals[i] += h * (i - pos + 1) / rise
			} else {
				vals[i] += h * (decay - (i - pos - rise) - 1) / decay
			}
		}
		feats = append(feats, fmt.Sprintf("edge@%d h=%d rise=%d", pos, h, rise))
		last = pos
	}
	out := make([]RawType, n)
	for i, v := range vals {
		if v < lo {
			v = lo
		}
		if v > hi {
			v = hi
		}
		out[i] = RawType(uint16(v))
	}
	return out, feats
}

type emtRec struct {
	frame FrameIndex
	pre   int
	n     int
	data  []RawType
}

func c08Body(env *simrt.Env) {
	nsamp, npre := drawLengths()
	rate := 10000.0
	w := newPipeWorld(env, 1, npre, nsamp, rate)
	resetViper(env.Dir)
	w.signed[0] = simrt.Draw(2) == 0
	w.F0 = FrameIndex([]int64{0, 7, 1 << 40}[simrt.Draw(3)])
	w.T0 = time.Now()
	total := nsamp * (8 + simrt.Draw(20))
	if total > 6000 {
		total = 6000
	}
	blocks := genPartition(total, nsamp)
	if len(blocks) > 150 {
		rest := 0
		for _, n := range blocks[150:] {
			rest += n
		}
		blocks = append(blocks[:150], rest)
	}
	edges := edgesOf(blocks)
	ts := genEMTState(streamSpec{}, w.signed[0], nsamp, npre)
	var feats []string
	w.stream = make([][]RawType, 1)
	w.stream[0], feats = genEMTStream(total, edges, w.signed[0], nsamp, npre, ts.EdgeMultiVerifyNMonotone)
	env.Op("EMT nsamp=%d npre=%d total=%d blocks=%v level=%d nmono=%d short=%v contaminated=%v nozt=%v signed=%v", nsamp, npre, total, blocks,
		ts.EdgeMultiLevel, ts.EdgeMultiVerifyNMonotone, ts.EdgeMultiMakeShortRecords, ts.EdgeMultiMakeContaminatedRecords, ts.EdgeMultiDisableZeroThreshold, w.signed[0])
	env.Op("features %v", feats)

	pass := func(part []int) ([]emtRec, *chanObs) {
		w.sent, w.fed = 0, 0
		w.blockFirst, w.blockStamp = nil, nil
		before := len(w.sk.recs)
		if err := w.startScripted(); err != nil {
			simrt.Fail("harness.start", "harness:start", "Start failed: %v", err)
		}
		var ok bool
		st := FullTriggerState{ChannelIndices: []int{0}, TriggerState: ts}
		if err := w.sc.ConfigureTriggers(&st, &ok); err != nil {
			simrt.Fail("harness.configure", "harness:configure", "ConfigureTriggers(EMT) rejected: %v", err)
		}
		for _, n := range part {
			w.feedBlock(n, nil)
			if n < nsamp-npre {
				simrt.Hit("block-shorter-than-lookahead")
			}
		}
		w.sync()
		w.drain()
		w.stop()
		w.drain()
		o := &chanObs{epochs: []epoch{{ts: st.TriggerState, npre: npre, nsamp: nsamp}}, blockFirst: w.blockFirst, blockStamp: w.blockStamp}
		var out []emtRec
		for _, ro := range w.sk.recs[before:] {
			r := ro.rec
			out = append(out, emtRec{r.trigFrame, r.presamples, len(r.data), r.data})
			o.recs = append(o.recs, ro)
		}
		return out, o
	}
	one, oa := pass([]int{total})
	many, ob := pass(blocks)
	env.Op("one block: %d records; %d blocks: %d records", len(one), len(blocks), len(many))

	mode := EMTRecordsFullLengthIsolated
	if ts.EdgeMultiMakeShortRecords {
		mode = EMTRecordsVariableLength
	} else if ts.EdgeMultiMakeContaminatedRecords {
		mode = EMTRecordsTwoFullLength
	}
	structural := func(name string, rs []emtRec) {
		for i, r := range rs {
			if i > 0 && r.frame <= rs[i-1].frame {
				simrt.Fail("C08.order", "emt:frames-not-increasing", "%s: record %d has frame %d after frame %d", name, i, r.frame, rs[i-1].frame)
			}
			if mode != EMTRecordsVariableLength {
				if r.n != nsamp || r.pre != npre {
					simrt.Fail("C08.full-length", "emt:not-full-length", "%s: record %d at frame %d has len=%d pre=%d in a fixed-length mode (nsamp=%d npre=%d)", name, i, r.frame, r.n, r.pre, nsamp, npre)
				}
			} else if i+1 < len(rs) {
				nx := rs[i+1]
				end := r.frame + FrameIndex(r.n-r.pre)
				if end > nx.frame {
					simrt.Fail("C08.variable-extent", "emt:record-past-next-edge", "%s: record at frame %d (post %d) extends past the next trigger at %d", name, r.frame, r.n-r.pre, nx.frame)
				}
				if end > nx.frame-FrameIndex(nx.pre) {
					simrt.Fail("C08.variable-overlap", "emt:records-overlap", "%s: record at frame %d ends at %d, next record starts at %d", name, r.frame, end, nx.frame-FrameIndex(nx.pre))
				}
			}
		}
	}
	structural("one-block", one)
	structural("partitioned", many)
	w.sent = total
	checkExcerpts(w, 0, oa)
	checkExcerpts(w, 0, ob)
	if len(one) != len(many) {
		simrt.Fail("C08.partition-independent", "emt:record-count-differs", "one block gives %d records, %d blocks give %d (one-block frames %v, partitioned frames %v)", len(one), len(blocks), len(many), framesOf(one), framesOf(many))
	}
	for i := range one {
		a, b := one[i], many[i]
		if a.frame != b.frame || a.pre != b.pre || a.n != b.n {
			simrt.Fail("C08.partition-independent", "emt:record-differs", "record %d: one block gives (frame %d, pre %d, len %d), partition gives (frame %d, pre %d, len %d)", i, a.frame, a.pre, a.n, b.frame, b.pre, b.n)
		}
	}
	if len(one) > 0 {
		simrt.Hit("emt-records-produced")
	}
	env.Sample(map[string]interface{}{"nsamp": nsamp, "npre": npre, "samples": total, "blocks": len(blocks), "records": len(one), "mode": int(mode), "features": feats})
}

func framesOf(rs []emtRec) []FrameIndex {
	var out []FrameIndex
	for _, r := range rs {
		out = append(out, r.frame)
	}
	if len(out) > 30 {
		out = out[:30]
	}
	return out
}
