//go:build verif

package dastard

// C08: edge-multi triggering is block-boundary independent and never indexes outside.
// The same stream is processed twice in one simulated run — once as a single block,
// once cut into a drawn partition, with a real Stop/Start in between — and the two
// record lists must be identical; structural invariants are checked on both.

import (
	"fmt"
	"time"

	"verif/simrt"
)

func init() {
	simrt.Register(&simrt.Check{Name: "C08", Property: "C08", Body: c08Body, Classify: classify,
		Real: []string{"Start/CoreLoop/ProcessSegments/Stop (twice per run)", "edge-multi trigger state machine, zero-threshold refinement, record extents", "TrimStream", "ConfigureTriggers RPC (EdgeMulti* fields)"},
		Stub: []string{"hardware (ScriptedSource)", "ZMQ publishers (sinks)", "net/rpc transport"}})
}

// genEMTStream makes a stream with edges placed with bias to the first searchable
// sample, block edges, each other, and exact monotone runs; ends with a quiet tail.
//
// hot lists stream positions at which a request that changes nothing will arrive: some edges are put where
// the samples are still retained at that moment - in the few samples whose edge has just had its record when
// the block ends there, and anywhere in the retained history (where a second edge behind it gives the first
// one its record early).
func genEMTStream(n int, edges []int, signed bool, nsamp, npre, nmono int, hot []int) ([]RawType, []string) {
	lo, hi := 0, 65535
	if signed {
		lo, hi = -32768, 32767
	}
	base := lo + 2000 + simrt.Draw(20000)
	noise := []int{0, 0, 1, 4}[simrt.Draw(4)]
	vals := make([]int, n)
	for i := range vals {
		vals[i] = base
		if noise > 0 {
			vals[i] += simrt.Draw(2*noise+1) - noise
		}
	}
	var feats []string
	tail := n - 3*nsamp
	nf := 1 + simrt.Draw(10)
	last := -1
	for f := 0; f < nf; f++ {
		var pos int
		kinds := 5
		if len(hot) > 0 {
			kinds = 7
		}
		switch simrt.Draw(kinds) {
		case 5: // in the history retained when a request arrives
			pos = hot[simrt.Draw(len(hot))] - 1 - simrt.Draw(2*nsamp+10)
		case 6: // one record and one post-trigger length before a request, and a little more
			pos = hot[simrt.Draw(len(hot))] - (2*nsamp - npre) - simrt.Draw(14)
		case 0: // first searchable samples after (re)configuration
			pos = npre + simrt.Draw(3) - 1
		case 1: // around a block edge
			if len(edges) > 0 {
				pos = edges[simrt.Draw(len(edges))] + simrt.Draw(5) - 2
			}
		case 2: // closer than a record to the previous one
			if last >= 0 {
				pos = last + 1 + simrt.Draw(nsamp)
			} else {
				pos = simrt.Draw(tail)
			}
		default:
			pos = simrt.Draw(tail)
		}
		if pos < 1 || pos >= tail {
			continue
		}
		h := []int{40, 300, 3000, 20000}[simrt.Draw(4)]
		if simrt.Draw(4) == 0 {
			h = -h
		}
		rise := 1 + simrt.Draw(4)
		if simrt.Draw(3) == 0 {
			rise = nmono // monotone run exactly as long as required
		}
		if rise < 1 {
			rise = 1
		}
		decay := 2 + simrt.Draw(nsamp)
		for i := pos; i < n && i < pos+rise+decay; i++ {
			if i-pos < rise {
				vals[i] += h * (i - pos + 1) / rise
			} else {
				vals[i] += h * (decay - (i - pos - rise) - 1) / decay
			}
		}
		feats = append(feats, fmt.Sprintf("edge@%d h=%d rise=%d", pos, h, rise))
		last = pos
	}
	out := make([]RawType, n)
	for i, v := range vals {
		if v < lo {
			v = lo
		}
		if v > hi {
			v = hi
		}
		out[i] = RawType(uint16(v))
	}
	return out, feats
}

type emtRec struct {
	frame FrameIndex
	pre   int
	n     int
	data  []RawType
	k     int  // index of the trigger sample in the delivered stream
	at    int  // position in the pass's record list
	skip  bool // near a request or a loss of frames, or reaching across a loss: not compared between the passes
}

// c08Req is one control request of a request sequence.
type c08Req struct {
	lengths bool
	ns, np  int
	ts      TriggerState
}

// c08Cut is a place in the stream where both passes have a block edge: control requests are issued
// there and/or the hardware loses frames there.
type c08Cut struct {
	pos      int
	gap      int  // frames lost before the block that starts here
	drop     int  // droppedFrames count that block carries
	scripted bool // a request sequence is issued here
	script   []c08Req
	drawn    bool // script has been drawn (in the first pass, following the server's answers)
	final    bool // the sequence ends by asking for the run's edge-multi settings at its record lengths
	answers  [2][]bool
}

// c08Noop is a place in the stream where, in the partitioned pass only, requests arrive that change nothing:
// requests that break the validity rule and are refused, and a pulse-length request for the lengths in force.
// The other pass has neither the requests nor a block edge there.
type c08Noop struct {
	pos int
}

func c08Body(env *simrt.Env) {
	nsamp, npre := drawLengths()
	rate := 10000.0
	w := newPipeWorld(env, 1, npre, nsamp, rate)
	resetViper(env.Dir)
	w.signed[0] = simrt.Draw(2) == 0
	w.F0 = FrameIndex([]int64{0, 7, 1 << 40}[simrt.Draw(3)])
	w.T0 = time.Now()
	total := nsamp * (8 + simrt.Draw(20))
	if total > 6000 {
		total = 6000
	}
	blocks := genPartition(total, nsamp)
	if len(blocks) > 150 {
		rest := 0
		for _, n := range blocks[150:] {
			rest += n
		}
		blocks = append(blocks[:150], rest)
	}
	edges := edgesOf(blocks)
	ts := genEMTState(streamSpec{}, w.signed[0], nsamp, npre)

	// ---- cuts: where requests are issued and where frames are lost. Both passes have a block edge there.
	// scenario 0, 1: the edge-multi request before any data and nothing else (the plain case);
	// scenario 2: request sequences (lengths and trigger requests in both orders, some of them refused)
	// before the data and once or twice mid-run.
	var interior []int // block edges of the partition that leave the quiet tail alone
	for _, e := range edges {
		if e >= 1 && e <= total-3*nsamp {
			interior = append(interior, e)
		}
	}
	// requests that change nothing (partitioned pass only), at 1-3 block edges of the partition
	noopAt := map[int]*c08Noop{}
	var hot []int
	if len(interior) > 0 && simrt.Draw(2) == 0 {
		for i := 0; i < 1+simrt.Draw(3); i++ {
			pos := interior[simrt.Draw(len(interior))]
			if noopAt[pos] == nil {
				noopAt[pos] = &c08Noop{pos: pos}
				hot = append(hot, pos)
			}
		}
	}
	var feats []string
	w.stream = make([][]RawType, 1)
	w.stream[0], feats = genEMTStream(total, edges, w.signed[0], nsamp, npre, ts.EdgeMultiVerifyNMonotone, hot)
	env.Op("EMT nsamp=%d npre=%d total=%d blocks=%v level=%d nmono=%d short=%v contaminated=%v nozt=%v signed=%v", nsamp, npre, total, blocks,
		ts.EdgeMultiLevel, ts.EdgeMultiVerifyNMonotone, ts.EdgeMultiMakeShortRecords, ts.EdgeMultiMakeContaminatedRecords, ts.EdgeMultiDisableZeroThreshold, w.signed[0])
	env.Op("features %v", feats)
	cutAt := map[int]*c08Cut{0: {pos: 0, scripted: true}}
	cut := func(pos int) *c08Cut {
		if cutAt[pos] == nil {
			cutAt[pos] = &c08Cut{pos: pos}
		}
		return cutAt[pos]
	}
	sequences := simrt.Draw(3) == 2
	if sequences {
		last := 0
		for i := 0; i < 1+simrt.Draw(2) && len(interior) > 0; i++ {
			pos := interior[simrt.Draw(len(interior))]
			cut(pos).scripted = true
			if pos > last {
				last = pos
			}
		}
		if simrt.Draw(4) > 0 {
			cutAt[last].final = true // (else the run may end with edge-multi off or refused)
		}
	}
	// faulted runs: 1 frames lost and reported (droppedFrames set), 2 frames lost, only the numbers jump,
	// 3 droppedFrames set on blocks of a contiguous stream (packet loss filled in by the source)
	trouble := 0
	if env.Faulted() {
		trouble = simrt.DrawFault(4)
	}
	maxLen := nsamp
	if (trouble == 1 || trouble == 2) && len(interior) > 0 {
		for i := 0; i < 1+simrt.DrawFault(2); i++ {
			sizes := []int{1, 2, 3, npre - 1, npre, nsamp - npre, nsamp - 1, nsamp, nsamp + 1, nsamp + npre + 10, nsamp + npre + 11, 2*nsamp + 10, 2*nsamp + 11,
				3 * nsamp, 10*nsamp + simrt.DrawFault(1000), 1 << 20}
			ct := cut(interior[simrt.DrawFault(len(interior))])
			ct.gap = sizes[simrt.DrawFault(len(sizes))]
			if trouble == 1 {
				ct.drop = ct.gap
			}
		}
	}
	if trouble == 3 {
		for _, e := range interior {
			if simrt.DrawFault(4) == 1 {
				cut(e).drop = 1 + simrt.DrawFault(40)
			}
		}
	}
	var cutPos []int
	for _, e := range append([]int{0}, interior...) {
		if cutAt[e] != nil && (len(cutPos) == 0 || cutPos[len(cutPos)-1] != e) {
			cutPos = append(cutPos, e)
		}
	}

	oddLengths := [][2]int{{8, 6}, {8, 5}, {10, 3}, {6, 3}, {5, 4}, {4, 3}, {12, 9}, {16, 13}, {7, 3}, {9, 4}, {10, 8}, {16, 14}, {25, 23}, {50, 49}, {120, 118}}
	allOff := TriggerState{AutoDelay: 250 * time.Millisecond, EdgeLevel: 100, EdgeRising: true, LevelLevel: 4000}

	pass := func(pi int, part []int) ([]emtRec, *chanObs) {
		w.sent, w.fed, w.gapSum = 0, 0, 0
		w.blockFirst, w.blockStamp, w.blockFrame0, w.blockDrop = nil, nil, nil, nil
		w.nsamp, w.npre = nsamp, npre
		// (both passes start from the same configuration, like a server started twice with the same file)
		w.sc.status.Nsamples, w.sc.status.Npresamp = nsamp, npre
		before := len(w.sk.recs)
		if err := w.startScripted(); err != nil {
			simrt.Fail("harness.start", "harness:start", "Start failed: %v", err)
		}
		cur := allOff
		o := &chanObs{epochs: []epoch{{ts: cur, npre: npre, nsamp: nsamp}}}
		newEpoch := func() {
			w.drain()
			o.epochs = append(o.epochs, epoch{from: w.sent, recFrom: len(w.sk.recs) - before, ts: cur, npre: w.npre, nsamp: w.nsamp})
			if w.nsamp > maxLen {
				maxLen = w.nsamp
			}
		}
		// issue follows the server's answer: what it accepted is in force from here on
		issue := func(ct *c08Cut, rq c08Req) {
			var ok bool
			var err error
			if rq.lengths {
				err = w.sc.ConfigurePulseLengths(SizeObject{Nsamp: rq.ns, Npre: rq.np}, &ok)
				env.Op("pass %d at %d: ConfigurePulseLengths nsamp=%d npre=%d -> %v", pi, ct.pos, rq.ns, rq.np, err)
				if err == nil {
					w.nsamp, w.npre = rq.ns, rq.np
				}
			} else {
				st := FullTriggerState{ChannelIndices: []int{0}, TriggerState: rq.ts}
				err = w.sc.ConfigureTriggers(&st, &ok)
				env.Op("pass %d at %d: ConfigureTriggers emt=%v level=%d nmono=%d short=%v contaminated=%v nozt=%v -> %v", pi, ct.pos, rq.ts.EdgeMulti, rq.ts.EdgeMultiLevel,
					rq.ts.EdgeMultiVerifyNMonotone, rq.ts.EdgeMultiMakeShortRecords, rq.ts.EdgeMultiMakeContaminatedRecords, rq.ts.EdgeMultiDisableZeroThreshold, err)
				if err == nil {
					if st.TriggerState.EdgeMulti && (w.nsamp-w.npre < 4 || w.npre < 4) {
						simrt.Hit("edge-multi-on-with-a-short-side")
					}
					cur = st.TriggerState
				}
			}
			if err != nil {
				simrt.Hit("request-refused")
			}
			ct.answers[pi] = append(ct.answers[pi], err == nil)
			if err == nil {
				newEpoch()
			}
		}
		atCut := func(ct *c08Cut) {
			if ct.pos > 0 && ct.scripted {
				w.sync()
				w.drain()
			}
			if !ct.scripted {
				// only the hardware does something here
			} else if !sequences {
				issue(ct, c08Req{ts: ts})
				if !cur.EdgeMulti {
					simrt.Fail("harness.configure", "harness:configure", "ConfigureTriggers(EMT) rejected")
				}
			} else if !ct.drawn {
				// first pass: draw the sequence while following the answers
				ct.drawn = true
				pat := simrt.Draw(4)
				n := 2 + simrt.Draw(3)
				for i := 0; i < n; i++ {
					// 0 usual lengths, 1 lengths with a short side, 2 edge-multi request, 3 all triggers off
					kind := simrt.Draw(4)
					switch pat {
					case 0:
						kind = []int{1, 2, 0, 2}[i]
					case 1:
						kind = []int{3, 1, 2, 0}[i]
					case 2:
						kind = []int{2, 1, 2, 0}[i]
					}
					var rq c08Req
					switch kind {
					case 0:
						rq.lengths = true
						rq.ns, rq.np = drawLengths()
						if rq.ns > 120 {
							rq.ns, rq.np = 25, 4+simrt.Draw(18)
						}
						// one time in three only the pre-trigger length moves (same record length, pre-trigger
						// part longer or shorter by 1..30): an edge that is still pending at the cut then keeps
						// its frame while the room before it changes
						if simrt.Draw(3) == 0 {
							np := w.npre + 1 + simrt.Draw(30)
							if simrt.Draw(3) == 0 {
								np = w.npre - 1 - simrt.Draw(30)
							}
							if np >= 1 && np < w.nsamp-1 {
								rq.ns, rq.np = w.nsamp, np
							}
						}
					case 1:
						l := oddLengths[simrt.Draw(len(oddLengths))]
						rq = c08Req{lengths: true, ns: l[0], np: l[1]}
					case 2:
						rq.ts = genEMTState(streamSpec{}, w.signed[0], w.nsamp, w.npre)
						if simrt.Draw(4) == 0 {
							rq.ts.EdgeMultiVerifyNMonotone = w.nsamp - w.npre + 1 + simrt.Draw(3)
						}
					default:
						rq.ts = allOff
					}
					ct.script = append(ct.script, rq)
					issue(ct, rq)
				}
				if ct.final {
					for _, rq := range []c08Req{{ts: allOff}, {lengths: true, ns: nsamp, np: npre}, {ts: ts}} {
						ct.script = append(ct.script, rq)
						issue(ct, rq)
					}
				}
				simrt.Hit("request-sequence")
			} else {
				for _, rq := range ct.script {
					issue(ct, rq)
				}
			}
			if ct.gap > 0 {
				w.gapNext = ct.gap
				simrt.Fault("frames-lost-between-blocks")
				if ct.gap > w.nsamp+w.npre+10 {
					simrt.Hit("lost-frames:more-than-the-retained-history")
				} else {
					simrt.Hit("lost-frames:fewer-than-the-retained-history")
				}
				if pi == 0 {
					env.Op("hardware loses %d frames before sample %d (reported: %v)", ct.gap, ct.pos, ct.drop > 0)
				}
			}
			if ct.drop > 0 {
				w.dropNext = ct.drop
				if ct.gap == 0 {
					simrt.Fault("dropped-frames-flag-on-contiguous-block")
				}
			}
		}
		// atNoop: requests that must change nothing, between two blocks. The edge-multi search goes on as
		// if they had not been made: no exemption for the records around them, and the other pass does
		// without them.
		atNoop := func(nc *c08Noop) {
			w.sync()
			w.drain()
			for i := 0; i < 1+simrt.Draw(3); i++ {
				var ok bool
				var err error
				what := ""
				kind := simrt.Draw(5)
				nm := cur.EdgeMultiVerifyNMonotone
				if kind == 3 && !(cur.EdgeMulti && nm >= 2) {
					kind = 0
				}
				switch kind {
				case 0, 1: // edge-multi settings that ask for more monotone samples than a record has behind its trigger
					bad := genEMTState(streamSpec{}, w.signed[0], w.nsamp, w.npre)
					bad.EdgeMultiVerifyNMonotone = w.nsamp - w.npre + 1 + simrt.Draw(3)
					if kind == 1 {
						bad.EdgeMultiVerifyNMonotone = w.nsamp + 5
					}
					err = w.sc.ConfigureTriggers(&FullTriggerState{ChannelIndices: []int{0}, TriggerState: bad}, &ok)
					what = fmt.Sprintf("ConfigureTriggers edge-multi with nmonotone=%d (post-trigger length %d)", bad.EdgeMultiVerifyNMonotone, w.nsamp-w.npre)
				case 2: // a pre-trigger length longer than the record
					err = w.sc.ConfigurePulseLengths(SizeObject{Nsamp: w.npre, Npre: w.npre + 2}, &ok)
					what = "ConfigurePulseLengths with pre-trigger longer than the record"
				case 3: // a post-trigger length shorter than the monotone run the settings in force ask for
					err = w.sc.ConfigurePulseLengths(SizeObject{Nsamp: w.npre + nm - 1, Npre: w.npre}, &ok)
					what = fmt.Sprintf("ConfigurePulseLengths nsamp=%d npre=%d with edge-multi nmonotone=%d in force", w.npre+nm-1, w.npre, nm)
				default: // the lengths in force
					err = w.sc.ConfigurePulseLengths(SizeObject{Nsamp: w.nsamp, Npre: w.npre}, &ok)
					what = "ConfigurePulseLengths with the lengths in force"
					if err != nil {
						simrt.Fail("harness.noop", "harness:same-lengths-refused", "%s -> %v", what, err)
					}
					err = fmt.Errorf("(no change)")
				}
				env.Op("pass %d at %d: %s -> %v", pi, nc.pos, what, err)
				if err == nil {
					simrt.Fail("C08.validity-rule", "emt:invalid-request-accepted", "%s was accepted although it breaks the validity rule", what)
				}
				w.drain()
				simrt.Hit("request-that-changes-nothing")
				if cur.EdgeMulti {
					simrt.Hit("request-that-changes-nothing:edge-multi-on")
				}
			}
		}
		for _, n := range part {
			if ct := cutAt[w.sent]; ct != nil {
				atCut(ct)
			}
			if nc := noopAt[w.sent]; nc != nil && pi == 1 {
				atNoop(nc)
			}
			w.feedBlock(n, nil)
			if n < w.nsamp-w.npre {
				simrt.Hit("block-shorter-than-lookahead")
			}
		}
		w.sync()
		w.drain()
		w.stop()
		w.drain()
		o.blockFirst, o.blockStamp, o.blockFrame0 = w.blockFirst, w.blockStamp, w.blockFrame0
		var out []emtRec
		for i, ro := range w.sk.recs[before:] {
			r := ro.rec
			out = append(out, emtRec{frame: r.trigFrame, pre: r.presamples, n: len(r.data), data: r.data, at: i})
			o.recs = append(o.recs, ro)
		}
		return out, o
	}
	// first pass: one block between two cuts; second pass: the drawn partition
	var coarse []int
	for i, pos := range cutPos {
		end := total
		if i+1 < len(cutPos) {
			end = cutPos[i+1]
		}
		if end > pos {
			coarse = append(coarse, end-pos)
		}
	}
	one, oa := pass(0, coarse)
	many, ob := pass(1, blocks)
	env.Op("%d block(s): %d records; %d blocks: %d records", len(coarse), len(one), len(blocks), len(many))
	for _, pos := range cutPos {
		ct := cutAt[pos]
		if fmt.Sprint(ct.answers[0]) != fmt.Sprint(ct.answers[1]) {
			simrt.Fail("C08.partition-independent", "emt:request-answers-differ", "the requests at sample %d were answered %v (true: accepted) when the stream came in %d blocks and %v when it came in %d blocks",
				pos, ct.answers[0], len(coarse), ct.answers[1], len(blocks))
		}
	}

	// C01's excerpt oracle for every record of both passes (it also resolves where in the delivered stream a
	// record sits and whether it reaches across a loss of frames)
	w.sent = total
	checkExcerpts(w, 0, oa)
	checkExcerpts(w, 0, ob)
	// What is compared between the passes and held to the structural rules. The property speaks of one
	// stream under one configuration; next to a reconfiguration with data retained the usual exemption of
	// 2 records + 10 samples applies (DESIGN §5 C02), and next to a loss of frames the property settles
	// nothing but crash-freedom and excerpts (checkExcerpts): three record lengths before it (what was still
	// pending when the loss came) and two behind it are left out. Blocks that merely carry a droppedFrames
	// count are part of a contiguous stream and get no exemption.
	mark := func(rs []emtRec, o *chanObs) {
		for i := range rs {
			rs[i].k = o.idx[i]
			rs[i].skip = o.across[i]
			for _, pos := range cutPos {
				ct := cutAt[pos]
				if pos > 0 && (ct.gap > 0 || ct.scripted) && rs[i].k > pos-3*maxLen-10 && rs[i].k < pos+2*maxLen+10 {
					rs[i].skip = true
				}
			}
		}
	}
	mark(one, oa)
	mark(many, ob)
	structural := func(name string, rs []emtRec, o *chanObs) []emtRec {
		var kept []emtRec
		for _, r := range rs {
			if r.skip {
				simrt.Hit("record-not-compared")
				continue
			}
			e := epochOfRec(o, r.at)
			if !e.ts.EdgeMulti {
				simrt.Fail("C08.sound", "emt:record-without-edge-multi", "%s: record at frame %d although no trigger was enabled then", name, r.frame)
			}
			if len(kept) > 0 {
				pv := kept[len(kept)-1]
				if r.frame <= pv.frame {
					simrt.Fail("C08.order", "emt:frames-not-increasing", "%s: record %d has frame %d after frame %d", name, r.at, r.frame, pv.frame)
				}
				if pe := epochOfRec(o, pv.at); pe == e && pv.at+1 == r.at && e.ts.EMTState.mode == EMTRecordsVariableLength {
					end := pv.frame + FrameIndex(pv.n-pv.pre)
					if end > r.frame {
						simrt.Fail("C08.variable-extent", "emt:record-past-next-edge", "%s: record at frame %d (post %d) extends past the next trigger at %d", name, pv.frame, pv.n-pv.pre, r.frame)
					}
					if end > r.frame-FrameIndex(r.pre) {
						simrt.Fail("C08.variable-overlap", "emt:records-overlap", "%s: record at frame %d ends at %d, next record starts at %d", name, pv.frame, end, r.frame-FrameIndex(r.pre))
					}
				}
			}
			if e.ts.EMTState.mode != EMTRecordsVariableLength && (r.n != e.nsamp || r.pre != e.npre) {
				simrt.Fail("C08.full-length", "emt:not-full-length", "%s: record %d at frame %d has len=%d pre=%d in a fixed-length mode (nsamp=%d npre=%d)", name, r.at, r.frame, r.n, r.pre, e.nsamp, e.npre)
			}
			kept = append(kept, r)
		}
		return kept
	}
	one = structural("coarse", one, oa)
	many = structural("partitioned", many, ob)
	if len(one) != len(many) {
		simrt.Fail("C08.partition-independent", "emt:record-count-differs", "%d block(s) give %d records, %d blocks give %d (frames %v vs. %v)", len(coarse), len(one), len(blocks), len(many), framesOf(one), framesOf(many))
	}
	for i := range one {
		a, b := one[i], many[i]
		if a.frame != b.frame || a.pre != b.pre || a.n != b.n {
			simrt.Fail("C08.partition-independent", "emt:record-differs", "record %d: %d block(s) give (frame %d, pre %d, len %d), the partition gives (frame %d, pre %d, len %d)", i, len(coarse), a.frame, a.pre, a.n, b.frame, b.pre, b.n)
		}
	}
	if len(one) > 0 {
		simrt.Hit("emt-records-produced")
	}
	env.Sample(map[string]interface{}{"nsamp": nsamp, "npre": npre, "samples": total, "blocks": len(blocks), "records": len(one), "cuts": len(cutPos), "sequences": sequences, "trouble": trouble, "features": feats, "noop_requests_at": hot})
}

func framesOf(rs []emtRec) []FrameIndex {
	var out []FrameIndex
	for _, r := range rs {
		out = append(out, r.frame)
	}
	if len(out) > 30 {
		out = out[:30]
	}
	return out
}
