//go:build verif

package dastard

// C11, Lancero variant of the control world: the real LanceroSource (reader goroutine, block
// assembly goroutine with its mix-request channel, distributeData) behind the real RPC methods
// ConfigureLanceroSource / Start / Stop, reading from a minimal simulated card. The card follows
// the repository's own lancero.NoHardware (whole frames since the previous read, frame bit on row 0)
// but lives in harness code so that its waits are scheduling points. Ingest correctness is C04's
// subject; here the source only has to run so that mix requests (the one request kind that does not
// travel through the core loop) meet a live Lancero source.

import (
	"encoding/json"
	"fmt"
	"os"
	"path/filepath"
	"time"

	"verif/simrt"
)

type c11Card struct {
	rows, cols  int
	framePeriod time.Duration
	open        bool
	started     bool
	collecting  bool
	lastRead    time.Time
	rowCount    int
	released    int
}

func (lc *c11Card) ChangeRingBuffer(length, threshold int) error { return nil }

func (lc *c11Card) Close() error {
	lc.open = false
	return nil
}

func (lc *c11Card) StartAdapter(waitSeconds, verbosity int) error {
	if lc.started {
		return fmt.Errorf("simulated card: adapter already started")
	}
	lc.started = true
	return nil
}

func (lc *c11Card) StopAdapter() error {
	if !lc.started {
		return fmt.Errorf("simulated card: adapter not started")
	}
	lc.started = false
	return nil
}

func (lc *c11Card) CollectorConfigure(linePeriod, dataDelay int, channelMask uint32, frameLength int) error {
	return nil
}

func (lc *c11Card) StartCollector(simulate bool) error {
	if lc.collecting {
		return fmt.Errorf("simulated card: collector already started")
	}
	lc.collecting = true
	lc.lastRead = time.Now()
	return nil
}

func (lc *c11Card) StopCollector() error {
	if !lc.collecting {
		return fmt.Errorf("simulated card: collector not started")
	}
	lc.collecting = false
	return nil
}

// Wait returns once 20 ms have passed since the previous read.
func (lc *c11Card) Wait() (time.Time, time.Duration, error) {
	if d := time.Until(lc.lastRead.Add(20 * time.Millisecond)); d > 0 {
		time.Sleep(d)
	}
	now := time.Now()
	return now, now.Sub(lc.lastRead), nil
}

// AvailableBuffer returns the whole frames produced since the previous read.
func (lc *c11Card) AvailableBuffer() ([]byte, time.Time, error) {
	now := time.Now()
	if !lc.started || !lc.collecting {
		return nil, now, fmt.Errorf("simulated card: not started")
	}
	frames := int(now.Sub(lc.lastRead) / lc.framePeriod)
	lc.lastRead = lc.lastRead.Add(time.Duration(frames) * lc.framePeriod)
	buf := make([]byte, 0, frames*lc.rows*lc.cols*4)
	for i := 0; i < frames; i++ {
		for row := 0; row < lc.rows; row++ {
			for col := 0; col < lc.cols; col++ {
				v := byte(lc.rowCount)
				lc.rowCount++
				fb := byte(0)
				if row == 0 {
					fb = 1 // frame bit
				}
				buf = append(buf, 0x00, v, fb, v)
			}
		}
	}
	return buf, now, nil
}

func (lc *c11Card) ReleaseBytes(nBytes int) error {
	lc.released += nBytes
	return nil
}

func (lc *c11Card) InspectAdapter() uint32 { return 0 }

// setupLancero installs a LanceroSource over the simulated card in the server and configures it
// through the real RPC method.
func (c *c11World) setupLancero(rows, cols int) {
	framePeriod := []time.Duration{2 * time.Millisecond, 4 * time.Millisecond}[simrt.Draw(2)]
	lsync := int(framePeriod / (time.Duration(rows) * 8 * time.Nanosecond))
	cg := map[string]int{"SETT": 10, "seqln": rows, "lsync": lsync, "testpattern": 0, "propagationdelay": 0, "NSAMP": 1 + simrt.Draw(4), "carddelay": 0, "XPT": 0}
	b, _ := json.Marshal(cg)
	cgPath := filepath.Join(c.env.Dir, "cringeGlobals.json")
	if err := os.WriteFile(cgPath, b, 0644); err != nil {
		simrt.Fail("harness.setup", "harness:cringe-globals", "%v", err)
	}
	cringeGlobalsPath = cgPath
	card := &c11Card{rows: rows, cols: cols, framePeriod: framePeriod, open: true, lastRead: time.Now()}
	// what NewLanceroSource does when it finds one card
	ls := new(LanceroSource)
	ls.name = "Lancero"
	ls.nsamp = 1
	ls.channelsPerPixel = 2
	ls.devices = map[int]*LanceroDevice{0: {devnum: 0, card: card}}
	ls.ncards = 1
	ls.heartbeats = c.sc.heartbeats
	c.sc.lancero = ls
	c.ls = ls
	// (the configuration request itself is sent by configureMain, with its options drawn)
	c.name, c.main = "LANCEROSOURCE", &ls.AnySource
	c.blkLen = int(50 * time.Millisecond / framePeriod) // frames per 50 ms reader tick
	c.period = framePeriod
}

// drawLanceroConfig draws a legal configuration of the one-card Lancero source: every option over the
// range its documentation allows. ShouldAutoRestart is a wish the server notes when a run ends ("not
// implemented yet"); the channel-number options are checked by the next Start against the card's geometry
// (a separation is 0 = number sequentially, or at least the number of rows / of channels per card).
func (c *c11World) drawLanceroConfig() *LanceroSourceConfig {
	cfg := &LanceroSourceConfig{ActiveCards: []int{0}}
	cfg.ShouldAutoRestart = simrt.Draw(2) == 1
	cfg.FiberMask = []uint32{0xffff, 0x0001, 0x00ff, 0xffffffff}[simrt.Draw(4)]
	cfg.CardDelay = [][]int{{1}, nil, {0}, {5, 7}}[simrt.Draw(4)]
	cfg.FirstRow = []int{1, 1, 0, 33, 1000}[simrt.Draw(5)]
	cfg.ChanSepColumns = []int{0, 0, c.lanRows, 8, 32}[simrt.Draw(5)]
	colsep := c.lanRows
	if cfg.ChanSepColumns > 0 {
		colsep = cfg.ChanSepColumns
	}
	cfg.ChanSepCards = []int{0, 0, colsep * c.lanCols, 1000}[simrt.Draw(4)]
	return cfg
}

func c11LanceroDesc(cfg *LanceroSourceConfig) string {
	return fmt.Sprintf("ConfigureLanceroSource{FiberMask:%#x CardDelay:%v ActiveCards:%v ShouldAutoRestart:%v FirstRow:%d ChanSepCards:%d ChanSepColumns:%d}",
		cfg.FiberMask, cfg.CardDelay, cfg.ActiveCards, cfg.ShouldAutoRestart, cfg.FirstRow, cfg.ChanSepCards, cfg.ChanSepColumns)
}

// reqMixLancero: mix requests against a Lancero source.
func (c *c11World) reqMixLancero() *c11Req {
	var ok bool
	r := &c11Req{kind: "ConfigureMixFraction", needsSource: true}
	odd := func() int { return 1 + 2*simrt.Draw(c.nchan/2) }
	var mfo *MixFractionObject
	what := ""
	switch simrt.Draw(8) {
	case 0, 1:
		mfo, what, r.expect = &MixFractionObject{ChannelIndices: []int{odd()}, MixFractions: []float64{0.25 * float64(simrt.Draw(5))}}, "one feedback channel", c11OK
	case 2:
		mfo, what, r.expect = &MixFractionObject{ChannelIndices: []int{1, c.nchan - 1}, MixFractions: []float64{0.5, -1}}, "two feedback channels", c11OK
	case 3:
		mfo, what, r.expect = &MixFractionObject{ChannelIndices: []int{odd(), odd()}, MixFractions: []float64{0.5}}, "fewer fractions than indices", c11Err
	case 4:
		mfo, what, r.expect = &MixFractionObject{ChannelIndices: []int{odd()}, MixFractions: nil}, "no fractions", c11Err
	case 5:
		mfo, what, r.expect, r.badIndex = &MixFractionObject{ChannelIndices: []int{c.drawBadIndex()}, MixFractions: []float64{1}}, "index out of range", c11Err, true
	case 6:
		mfo, what = &MixFractionObject{ChannelIndices: []int{2 * simrt.Draw(c.nchan/2)}, MixFractions: []float64{1}}, "error channel (refused by documentation)"
	default:
		mfo, what = &MixFractionObject{ChannelIndices: []int{odd()}, MixFractions: []float64{1, 2, 3}}, "more fractions than indices"
	}
	r.desc = fmt.Sprintf("indices=%v fractions=%v: %s", mfo.ChannelIndices, mfo.MixFractions, what)
	r.do = func() error { return c.sc.ConfigureMixFraction(mfo, &ok) }
	return r
}
