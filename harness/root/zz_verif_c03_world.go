//go:build verif

package dastard

// Abaco ingest world (DESIGN §3.3), shared by C03 and C12.
//
// Real: AbacoSource with its groups (Sample, PrepareChannels, PrepareRun, StartRun,
// readerMainLoop incl. fillMissingPackets / trimPacketsBefore / demuxData / unwrap,
// getNextBlock + distributeData) and the packets package (every simulated packet is built
// with NewPacket/SetTimestamp/NewData, serialised with Bytes() and decoded with ReadPacket).
// Stub: the UDP receiver (abacoSimProducer implements PacketProducer) and the network.
//
// Ground truth. Group g sends packet index i = 0,1,2,… with sequence number seq0_g+i, every
// packet holding the same number of frames (one value per run). Packet i is sent at
// t0 + i·period and arrives after the group's latency (constant + jitter + lag episodes),
// never before its predecessor (in-order arrival). t0 is the moment the last producer was
// started, so that every group's first packet seen at start-up is index 0 (the code's
// documented synchronisation assumption). Arrivals are evaluated lazily when a producer is
// read ("everything whose arrival time has passed"): no network task is needed.
//
// The harness plays the core loop's part: it performs the steps of Start() and then takes
// raw blocks from getNextBlock().
//
// Histories: one AbacoSource object lives through 1–3 runs (Configure, the steps of Start(),
// data, Stop() called by a client task, Configure again …) with the same channel groups and
// producers; everything else is drawn anew per run (nextRun). A run is stopped after its
// stream has ended or in mid-stream (from between reader ticks or while the reader is inside
// ReadAllPackets). In faulted runs the block consumer is sometimes slow, so that the reader
// gets one or more buffers ahead of it.
//
// Time stamps: not every packet carries a usable one (every k-th packet, the first few only, a
// rate that decodes to 0, a counter that stands still or restarts) — see "time stamps" below.
// Long-stream layout (C12): one group of one channel with thousands of frames per packet.

import (
	"bytes"
	"fmt"
	"os"
	"strings"
	"time"

	"github.com/usnistgov/dastard/packets"

	"verif/simrt"
)

const (
	abacoSimNone      = uint8(0)
	abacoSimSampled   = uint8(1) // handed to Sample()
	abacoSimDiscarded = uint8(2) // arrived between Sample() and StartRun() and was discarded
	abacoSimLost      = uint8(3) // lost in the network
	abacoSimDelivered = uint8(4) // returned by ReadAllPackets in the run phase
)

const abacoSimTick = 50 * time.Millisecond // the reader's period (set by StartRun)

// c03InStartRun is true while the harness is inside AbacoSource.StartRun(): the only
// goroutine started from abaco.go in that window is the reader loop (used to classify it
// for stall faults without depending on a line number).
var c03InStartRun bool

// abacoSimDebug prints reads and blocks when a replay is run with VERIF_VERBOSE=1.
var abacoSimDebug = os.Getenv("VERIF_VERBOSE") == "1"

func c03Classify(site string) string {
	if c03InStartRun && strings.HasPrefix(site, "abaco.go:") {
		return "abacoReader"
	}
	return classify(site)
}

type abacoSimGroup struct {
	ord       int
	firstChan int
	nchan     int
	chanOff   int // position of the group's first channel inside a block
	wide      bool
	seq0      uint32
	baseLat   time.Duration
	jitter    time.Duration
	kSample   int

	nextIdx int
	nextArr time.Duration // arrival of packet nextIdx, relative to t0
	lastArr time.Duration

	fate        []uint8
	delivAt     []time.Time
	pending     []int // arrived, waiting in the "socket buffer"
	lastSampled int
	firstRun    int
	runSeen     bool
	burstLeft   int
	lossFirst   bool
	prod        *abacoSimProducer
	seqEnd      uint32 // (later runs of a history) the sequence number after the previous run's last packet
	lastDeliv   int    // largest index delivered in the run phase
}

func (g *abacoSimGroup) index() GroupIndex { return GroupIndex{Firstchan: g.firstChan, Nchan: g.nchan} }

type abacoSimLag struct{ from, to, ticks int }

type abacoSimWorld struct {
	env     *simrt.Env
	check   string
	faulted bool

	fpp      int
	period   time.Duration
	npackets int
	faultEnd int // no loss, lag, stall for packet indices >= faultEnd
	nchan    int
	groups   []*abacoSimGroup
	prods    []*abacoSimProducer
	tsRate   float64
	tsStep   uint64
	ts0      uint64
	stamps   abacoSimStamps // which packets carry a time stamp, and what it says
	salt     uint32
	signal   [][]uint16 // C12: raw phase per block channel and frame (nil: hashed values)
	lowZero  bool       // int32 payloads carry zero low halves (C12)
	long     bool       // C12: one group of one channel, thousands of frames per packet (long streams, few packets)

	discardWorks bool
	lossBernNum  int
	lossBernDen  int
	lossBurst    bool
	lossTick     bool
	lagGroup     int
	lags         []abacoSimLag
	stallOn      bool
	sleepOn      bool
	delta        time.Duration

	nStarted int
	netUp    bool
	t0       time.Time
	running  bool // run phase (after StartRun began)
	as       *AbacoSource

	// history: several Configure/Start/Stop cycles on ONE AbacoSource object
	runNo   int // 0 for the first run on the source object
	histLen int // number of runs in this history

	// how the run ends: Stop() after the stream has ended, or in mid-stream
	stopEarly    bool
	stopAt       int  // … once every group has got this far
	stopInRead   bool // … called while the reader is inside ReadAllPackets (else between ticks)
	stopAsked    bool
	stopReturned bool

	consumerLag  bool // the block consumer falls behind the reader now and then
	nConsumerLag int
	firstCommon  bool

	nStalls     int
	nSleeps     int
	tickPackets int
	ticksSeen   int
	nLost       int
	nDelivered  int
	lastDeliv   time.Time
	quietAt     time.Time // when every group had passed faultEnd
	quiet       bool
}

// ---------------------------------------------------------------------------------
// generation

func abacoSimPick(menu []int) int { return menu[simrt.Draw(len(menu))] }

// newAbacoSimWorld draws the layout of a source (groups, channels, producers: fixed for all
// runs on that source object) and the first run on it.
func newAbacoSimWorld(env *simrt.Env, check string) *abacoSimWorld {
	return newAbacoSimWorldOf(env, check, false)
}

// newAbacoSimWorldOf: long = the long-stream layout (one group of one channel whose packets are as
// large as a datagram allows, so that a run of a few dozen packets carries ~10^5 samples of one
// channel at the cost of a few hundred scheduler steps).
func newAbacoSimWorldOf(env *simrt.Env, check string, long bool) *abacoSimWorld {
	w := &abacoSimWorld{env: env, check: check, faulted: env.Faulted(), lagGroup: -1, long: long}
	// virtual CPU time per scheduler step, measured (used to size stalls in simulated time)
	t1 := time.Now()
	simrt.Gosched()
	w.delta = time.Since(t1)
	if w.delta <= 0 {
		w.delta = time.Microsecond
	}
	w.histLen = []int{1, 2, 1, 3}[simrt.Draw(4)]
	ngroups := 1 + simrt.Draw(4)
	if long {
		ngroups = 1
		if w.histLen > 2 {
			w.histLen = 2
		}
	}
	first := simrt.Draw(3)
	for i := 0; i < ngroups; i++ {
		g := &abacoSimGroup{ord: i, firstRun: -1, lastSampled: -1, lastDeliv: -1}
		g.nchan = abacoSimPick([]int{1, 2, 3, 4, 8, 5, 6, 7})
		if long {
			g.nchan = 1
		}
		g.firstChan = first
		first += g.nchan
		if simrt.Draw(3) == 2 {
			first += 1 + simrt.Draw(5) // a hole in the channel numbering
		}
		g.chanOff = w.nchan
		w.nchan += g.nchan
		w.groups = append(w.groups, g)
	}
	// producers: one or two
	nprod := 1
	if ngroups > 1 && simrt.Draw(2) == 1 {
		nprod = 2
	}
	for i := 0; i < nprod; i++ {
		w.prods = append(w.prods, &abacoSimProducer{w: w, id: i})
	}
	for i, g := range w.groups {
		p := w.prods[0]
		if nprod == 2 && (i == ngroups-1 || (i > 0 && simrt.Draw(2) == 1)) {
			p = w.prods[1]
		}
		g.prod = p
		p.groups = append(p.groups, g)
	}
	w.drawRun()
	return w
}

// nextRun makes the world of the next run on the same source object: same channel groups
// and producers (the "sockets" keep their open/closed state), everything else drawn anew.
func (w *abacoSimWorld) nextRun() *abacoSimWorld {
	n := &abacoSimWorld{env: w.env, check: w.check, faulted: w.faulted, lagGroup: -1, delta: w.delta, as: w.as,
		runNo: w.runNo + 1, histLen: w.histLen, nchan: w.nchan, lowZero: w.lowZero, long: w.long}
	for _, p := range w.prods {
		n.prods = append(n.prods, &abacoSimProducer{w: n, id: p.id, started: p.started, stopped: p.stopped})
	}
	for _, g := range w.groups {
		ng := &abacoSimGroup{ord: g.ord, firstChan: g.firstChan, nchan: g.nchan, chanOff: g.chanOff, firstRun: -1, lastSampled: -1, lastDeliv: -1,
			seqEnd: g.seq0 + uint32(w.npackets)}
		ng.prod = n.prods[g.prod.id]
		ng.prod.groups = append(ng.prod.groups, ng)
		n.groups = append(n.groups, ng)
	}
	n.drawRun()
	return n
}

// drawRun draws what one run sends and how the network treats it.
func (w *abacoSimWorld) drawRun() {
	w.fpp = abacoSimPick([]int{1, 2, 3, 5, 8, 10, 16, 25, 50, 1 + simrt.Draw(50)})
	w.period = time.Duration(abacoSimPick([]int{25, 50, 10, 17, 30, 60, 120, 12})) * time.Millisecond
	w.salt = uint32(simrt.Draw(1 << 16))
	payload := simrt.Draw(4) // 0 all int16, 1 all int32, 2/3 mixed
	for _, g := range w.groups {
		switch payload {
		case 0:
		case 1:
			g.wide = true
		default:
			g.wide = simrt.Draw(2) == 1
		}
		g.seq0 = 1 + uint32(simrt.Draw(1<<30))
		if w.runNo > 0 && simrt.Draw(2) == 1 {
			g.seq0 = g.seqEnd + uint32(simrt.Draw(1000)) // the firmware kept counting
		}
	}
	// duration: bounded by reader ticks and by the goroutines the code starts per tick
	w.npackets = 24 + simrt.Draw(120)
	if w.histLen > 1 {
		w.npackets = 24 + simrt.Draw(50)
	}
	if w.long {
		// 8000 bytes of payload is what the senders put into a datagram (abaco_test.go): 4000 frames
		// of one 16-bit channel, 2000 of one 32-bit channel
		w.fpp = 3000 + simrt.Draw(1001)
		w.npackets = 24 + simrt.Draw(14)
		for _, g := range w.groups {
			if g.wide {
				w.fpp /= 2
				w.npackets = 44 + simrt.Draw(20)
			}
		}
	}
	for {
		ticks := int(time.Duration(w.npackets) * w.period / abacoSimTick)
		if w.npackets <= 24 || (ticks <= 280 && ticks*(2*w.nchan+3) <= 3400) { // keeps a run at a few thousand scheduler steps
			break
		}
		w.npackets = w.npackets * 3 / 4
	}
	// latency processes: per-group constant below one tick, optional jitter
	latMode := simrt.Draw(3)
	for _, g := range w.groups {
		g.baseLat = time.Duration(1+simrt.Draw(5)) * time.Millisecond
		if latMode >= 1 {
			g.baseLat = time.Duration(1+simrt.Draw(45)) * time.Millisecond
		}
		if latMode == 2 {
			g.jitter = time.Duration(simrt.Draw(20)) * time.Millisecond
		}
	}
	k := 2 + simrt.Draw(5)
	for _, g := range w.groups {
		g.kSample = k
		if w.faulted && simrt.Draw(3) == 2 {
			g.kSample = 2 + simrt.Draw(6)
		}
	}
	w.tsRate = 1e8
	w.tsStep = uint64(w.period / (10 * time.Nanosecond))
	w.drawStamps()
	w.discardWorks = simrt.Draw(2) == 1
	w.faultEnd = 0
	for _, g := range w.groups {
		g.fate = make([]uint8, w.npackets)
		g.delivAt = make([]time.Time, w.npackets)
	}
}

// drawFaults draws the fault plan of a faulted run (loss only when withLoss).
func (w *abacoSimWorld) drawFaults(withLoss bool) {
	tail := 4 + int(3*abacoSimTick/w.period)
	w.faultEnd = w.npackets - tail
	if w.faultEnd < 1 {
		w.faultEnd = 1
	}
	any := false
	for try := 0; !any; try++ {
		if try == 3 { // (a replayed, shortened tape answers 0 for ever)
			w.sleepOn = true
			break
		}
		if withLoss {
			switch simrt.DrawFault(4) {
			case 1:
				w.lossBernNum, w.lossBernDen = 1, []int{20, 50, 8, 3}[simrt.DrawFault(4)]
				any = true
			case 2:
				w.lossBurst = true
				any = true
			case 3:
				w.lossBernNum, w.lossBernDen = 1, 30
				w.lossBurst = true
				any = true
			}
			if simrt.DrawFault(3) == 1 {
				w.lossTick = true
				any = true
			}
			for _, g := range w.groups {
				if simrt.DrawFault(4) == 1 {
					g.lossFirst = true
					any = true
				}
			}
		}
		if len(w.groups) > 1 && simrt.DrawFault(2) == 1 {
			w.lagGroup = simrt.DrawFault(len(w.groups))
			n := 1 + simrt.DrawFault(3)
			at := 0
			for i := 0; i < n; i++ {
				from := at + simrt.DrawFault(1+w.npackets/3)
				if i == 0 && simrt.DrawFault(2) == 1 {
					from = 0 // the group is behind from the very start of the run
				}
				to := from + 1 + simrt.DrawFault(1+w.npackets/3)
				if to > w.faultEnd {
					to = w.faultEnd
				}
				if from >= to {
					break
				}
				w.lags = append(w.lags, abacoSimLag{from, to, 1 + simrt.DrawFault(6)})
				at = to + 1
				any = true
			}
		}
		if simrt.DrawFault(3) == 1 {
			w.stallOn = true
			any = true
		}
		if simrt.DrawFault(3) == 1 {
			w.sleepOn = true
			any = true
		}
		if simrt.DrawFault(3) == 1 {
			w.consumerLag = true
			any = true
		}
	}
}

func (w *abacoSimWorld) describe() string {
	s := fmt.Sprintf("run %d of %d on this source object; ", w.runNo+1, w.histLen)
	if w.stopEarly {
		s += fmt.Sprintf("Stop() once every group has reached packet %d (from inside a read: %v); ", w.stopAt, w.stopInRead)
	}
	s += fmt.Sprintf("%s world: %d groups, %d frames/packet, packet period %v, %d packets/group, %d producers, discardStale effective=%v, fault window ends at packet %d, time stamps on %v",
		w.check, len(w.groups), w.fpp, w.period, w.npackets, len(w.prods), w.discardWorks, w.faultEnd, w.stamps)
	for _, g := range w.groups {
		bits := 16
		if g.wide {
			bits = 32
		}
		s += fmt.Sprintf("; group %d: chan %d..%d int%d seq0=%d latency %v+%v producer %d sampled %d", g.ord, g.firstChan, g.firstChan+g.nchan-1, bits, g.seq0, g.baseLat, g.jitter, g.prod.id, g.kSample)
	}
	if w.faulted {
		s += fmt.Sprintf("; faults: bernoulli %d/%d burst=%v whole-tick=%v lag group %d %v stall=%v slow-read=%v consumer-lag=%v", w.lossBernNum, w.lossBernDen, w.lossBurst, w.lossTick, w.lagGroup, w.lags, w.stallOn, w.sleepOn, w.consumerLag)
		for _, g := range w.groups {
			if g.lossFirst {
				s += fmt.Sprintf(" first-after-start(group %d)", g.ord)
			}
		}
	}
	return s
}

// ---------------------------------------------------------------------------------
// time stamps
//
// The time-stamp TLV is optional in the packet format, its rate field may decode to 0 (the
// source then ignores the stamp: "ts.Rate != 0"), and nothing makes a counter strictly
// increasing from packet to packet. One plan per run, shared by all groups (one firmware):
//
//	all       every packet carries T = ts0 + idx·step                         (mode 0)
//	every-kth only packets r, r+k, r+2k, … carry a stamp                       (mode 1)
//	first-m   only the first m packets carry a stamp                          (mode 2)
//	coarse    the counter advances every c packets: equal stamps in between   (mode 3)
//	restart   the counter starts again from a small value at packet m: later
//	          stamps are smaller than earlier ones                            (mode 4)
//
// In modes 1 and 2 the packets "without" a stamp either have no TLV at all or (rate0) carry
// a TLV whose rate decodes to 0.
//
// A group that was sampled less deeply than the others may see no usable stamp at all during
// start-up (abacoSimUnstampedGroupSample): its packets must still come out, aligned with the
// other groups' (findings-pending/C03-sync-reference-needs-a-stamped-packet.md).
//
// Kept out of the world (C03 does not speak about them, see notes/C03-5.md): a source none of
// whose groups can measure a sample rate (fewer than two distinct usable stamps in every
// group's sample: Sample() then leaves the rate 0 and the frame period undefined, and the
// statement says nothing about rates), stamps with T = 0, and counters whose phase differs
// between groups (their measured rates disagree, which Sample() answers with a panic by design).
type abacoSimStamps struct {
	mode    int
	k, r    int  // mode 1
	m       int  // modes 2 and 4
	c       int  // mode 3
	rate0   bool // modes 1, 2: the other packets carry a stamp with rate 0 instead of none
	restart uint64
}

// abacoSimUnstampedGroupSample: with stamps on every k-th packet only, the first stamped packet may
// lie beyond the sample of a shallowly sampled group (while a deeper group sees two). C03 only: C12
// keeps to streams whose ingest is unproblematic.
const abacoSimUnstampedGroupSample = true

const (
	abacoStampAll = iota
	abacoStampKth
	abacoStampFirstM
	abacoStampCoarse
	abacoStampRestart
)

func (st abacoSimStamps) String() string {
	switch st.mode {
	case abacoStampKth:
		return fmt.Sprintf("packet %d and every %d-th after it only (others: rate-0 stamp=%v)", st.r, st.k, st.rate0)
	case abacoStampFirstM:
		return fmt.Sprintf("the first %d packets only (others: rate-0 stamp=%v)", st.m, st.rate0)
	case abacoStampCoarse:
		return fmt.Sprintf("every packet, the counter advances every %d packets", st.c)
	case abacoStampRestart:
		return fmt.Sprintf("every packet, the counter restarts from %d at packet %d", st.restart, st.m)
	}
	return "every packet"
}

// stamp tells what time stamp packet idx carries: none, a usable one, or one with rate 0.
func (w *abacoSimWorld) stamp(idx int) (has, usable bool, T uint64) {
	st := w.stamps
	T = w.ts0 + uint64(idx)*w.tsStep
	switch st.mode {
	case abacoStampKth:
		if idx < st.r || (idx-st.r)%st.k != 0 {
			return st.rate0, false, T
		}
	case abacoStampFirstM:
		if idx >= st.m {
			return st.rate0, false, T
		}
	case abacoStampCoarse:
		T = w.ts0 + uint64(idx/st.c*st.c)*w.tsStep
	case abacoStampRestart:
		if idx >= st.m {
			T = st.restart + uint64(idx-st.m)*w.tsStep
		}
	}
	return true, true, T
}

// drawStamps draws the run's time-stamp plan. The most deeply sampled group holds two usable
// stamps with different values (so the source has a measured sample rate); a group with a single
// one or none has no rate of its own — the source must cope with that.
func (w *abacoSimWorld) drawStamps() {
	kMin, kMax := 1<<30, 0
	for _, g := range w.groups {
		if g.kSample < kMin {
			kMin = g.kSample
		}
		if g.kSample > kMax {
			kMax = g.kSample
		}
	}
	w.ts0 = 1000 + uint64(simrt.Draw(1<<30))
	w.stamps = abacoSimStamps{}
	st := &w.stamps
	switch simrt.Draw(10) {
	case 5, 6:
		st.mode = abacoStampKth
		rmax := kMin
		if abacoSimUnstampedGroupSample && w.check == "C03" && simrt.Draw(2) == 1 {
			rmax = kMax // (matters only when the groups are sampled to different depths: faulted runs)
		}
		if kMax-1 < rmax {
			rmax = kMax - 1
		}
		st.r = simrt.Draw(rmax)
		st.k = 1 + simrt.Draw(kMax-1-st.r)
		if st.r >= kMin {
			// A group's sample holds no stamp. Sequence numbers start low in such runs: a source that
			// took a raw sequence number for a gap would otherwise fill in up to 2^30 packets and
			// exhaust the worker (no verdict) instead of showing what it emits.
			for _, g := range w.groups {
				g.seq0 = 1 + uint32(simrt.Draw(4000))
			}
		}
		st.rate0 = simrt.Draw(3) == 2
	case 7:
		st.mode = abacoStampFirstM
		st.m = 2 + simrt.Draw(kMax-1)
		st.rate0 = simrt.Draw(3) == 2
	case 8:
		if kMax >= 3 {
			st.mode = abacoStampCoarse
			st.c = 2 + simrt.Draw(kMax-2)
			if st.c > 4 {
				st.c = 4
			}
		}
	case 9:
		st.mode = abacoStampRestart
		st.m = 2 + simrt.Draw(kMax-1)
		st.restart = 1 + uint64(simrt.Draw(1000))
		w.ts0 += uint64(w.npackets+2) * w.tsStep // the restarted counter stays below the earlier values
	}
}

// stampProbes counts what the plan means for this run's sampling phase.
func (w *abacoSimWorld) stampProbes() {
	switch w.stamps.mode {
	case abacoStampKth:
		simrt.Hit("stamps-every-kth-packet")
	case abacoStampFirstM:
		simrt.Hit("stamps-on-first-packets-only")
	case abacoStampCoarse:
		simrt.Hit("stamps-equal-on-consecutive-packets")
	case abacoStampRestart:
		simrt.Hit("stamps-decrease")
	}
	if w.stamps.rate0 {
		simrt.Hit("stamps-with-rate-zero")
	}
	for _, g := range w.groups {
		if g.lastSampled < 0 {
			continue
		}
		// does the sampling phase of this group end on a packet that does not carry the
		// largest usable stamp of the sample?
		best, bestT, n := -1, uint64(0), 0
		var firstT uint64
		for idx := 0; idx <= g.lastSampled; idx++ {
			if _, usable, T := w.stamp(idx); usable {
				if n == 0 {
					firstT = T
				}
				n++
				if T > bestT {
					best, bestT = idx, T
				}
			}
		}
		if best != g.lastSampled {
			simrt.Hit("sampling-ends-after-the-largest-stamp")
		}
		if n == 0 {
			simrt.Hit("group-sample-without-usable-stamp")
		} else if bestT == firstT {
			simrt.Hit("group-rate-not-measurable")
		}
	}
}

// ---------------------------------------------------------------------------------
// ground-truth values

func abacoSimHash(a, b, c, d uint32) uint32 {
	x := uint64(a)*0x9e3779b97f4a7c15 ^ uint64(b)*0xbf58476d1ce4e5b9 ^ uint64(c)*0x94d049bb133111eb ^ uint64(d)*0xd6e8feb86659fd93
	x ^= x >> 31
	x *= 0xbf58476d1ce4e5b9
	x ^= x >> 29
	x *= 0x94d049bb133111eb
	x ^= x >> 32
	return uint32(x)
}

// payload is the value group g sends for its channel ch (0-based inside the group) in
// frame number frame (= packet index · frames per packet + frame inside the packet).
func (w *abacoSimWorld) payload(g *abacoSimGroup, ch, frame int) int32 {
	if w.signal != nil {
		v := int32(int16(w.signal[g.chanOff+ch][frame]))
		if g.wide {
			return v << 16
		}
		return v
	}
	h := abacoSimHash(uint32(g.ord)+w.salt<<8, uint32(ch), uint32(frame), 0x5eed)
	if g.wide {
		if w.lowZero {
			return int32(h &^ 0xffff)
		}
		return int32(h)
	}
	return int32(int16(h))
}

// demuxed returns the 16-bit value the documentation lets the source derive from a payload
// value: the value itself for 16-bit payloads, the 16 highest bits for 32-bit payloads. For
// negative 32-bit values with a non-zero low half "the 16 highest bits" (floor) and a
// division by 2^16 (rounding towards zero) differ by one; the property does not decide
// between them, both are accepted (alt).
func (w *abacoSimWorld) demuxed(g *abacoSimGroup, ch, frame int) (v, alt RawType) {
	p := w.payload(g, ch, frame)
	if !g.wide {
		return RawType(uint16(int16(p))), RawType(uint16(int16(p)))
	}
	return RawType(uint16(p >> 16)), RawType(uint16(p / 0x10000))
}

func (w *abacoSimWorld) makePacket(g *abacoSimGroup, idx int) *packets.Packet {
	pk := packets.NewPacket(10, uint32(20+g.ord), g.seq0+uint32(idx)-1, g.firstChan) // NewData adds one
	has, usable, T := w.stamp(idx)
	if has {
		pk.SetTimestamp(&packets.PacketTimestamp{T: T, Rate: w.tsRate})
	}
	n := w.fpp * g.nchan
	var err error
	if g.wide {
		d := make([]int32, n)
		for k := 0; k < w.fpp; k++ {
			for c := 0; c < g.nchan; c++ {
				d[k*g.nchan+c] = w.payload(g, c, idx*w.fpp+k)
			}
		}
		err = pk.NewData(d, []int16{int16(g.nchan)})
	} else {
		d := make([]int16, n)
		for k := 0; k < w.fpp; k++ {
			for c := 0; c < g.nchan; c++ {
				d[k*g.nchan+c] = int16(w.payload(g, c, idx*w.fpp+k))
			}
		}
		err = pk.NewData(d, []int16{int16(g.nchan)})
	}
	if err != nil {
		simrt.Fail("harness.packet", "harness:packet-build", "NewData: %v", err)
	}
	wire := pk.Bytes()
	if has && !usable {
		// A stamp whose rate decodes to 0: the denominator of the clock period is 0 on the wire.
		// (Bytes() cannot write it: it would look for the period's scale for ever. Layout: 16 bytes
		// of fixed header, 8 bytes of channel-offset TLV, then type, length, bits, exponent,
		// numerator (2), denominator (2), counter (8).)
		wire[30], wire[31] = 0, 0
	}
	q, err := packets.ReadPacket(bytes.NewReader(wire))
	if err != nil {
		simrt.Fail("harness.packet", "harness:packet-decode", "ReadPacket of a packet made by Bytes(): %v", err)
	}
	switch ts := q.Timestamp(); {
	case !has && ts != nil, has && ts == nil:
		simrt.Fail("harness.packet", "harness:packet-stamp", "packet %d: time stamp wanted %v, decoded %v", idx, has, ts)
	case has && (ts.T != T || (usable && ts.Rate != w.tsRate) || (!usable && ts.Rate != 0)):
		simrt.Fail("harness.packet", "harness:packet-stamp", "packet %d: time stamp T=%d usable=%v, decoded %+v", idx, T, usable, *ts)
	}
	if q.SequenceNumber() != g.seq0+uint32(idx) || q.Frames() != w.fpp {
		simrt.Fail("harness.packet", "harness:packet-roundtrip", "packet round trip: seq %d frames %d, want %d and %d", q.SequenceNumber(), q.Frames(), g.seq0+uint32(idx), w.fpp)
	}
	return q
}

// ---------------------------------------------------------------------------------
// network

func (w *abacoSimWorld) lagExtra(g *abacoSimGroup, idx int) time.Duration {
	if g.ord != w.lagGroup {
		return 0
	}
	for _, l := range w.lags {
		if idx >= l.from && idx < l.to {
			return time.Duration(l.ticks) * abacoSimTick
		}
	}
	return 0
}

// schedule computes the arrival time of the group's next packet.
func (w *abacoSimWorld) schedule(g *abacoSimGroup) {
	idx := g.nextIdx
	if idx >= w.npackets {
		return
	}
	a := time.Duration(idx)*w.period + g.baseLat
	if g.jitter > 0 {
		a += time.Duration(simrt.Draw(int(g.jitter/time.Millisecond)*4+1)) * 250 * time.Microsecond
	}
	if w.running && idx < w.faultEnd {
		if x := w.lagExtra(g, idx); x > 0 {
			a += x
			if idx == 0 || w.lagExtra(g, idx-1) == 0 {
				simrt.Fault("lag-episode")
				w.env.Op("group %d lags by %v from packet %d", g.ord, x, idx)
			}
		}
	}
	if a < g.lastArr {
		a = g.lastArr // in-order arrival
	}
	g.nextArr = a
}

// pull hands every packet of g that has arrived by now (relative to t0) to f, in order.
func (w *abacoSimWorld) pull(g *abacoSimGroup, now time.Duration, f func(idx int)) {
	for g.nextIdx < w.npackets && g.nextArr <= now {
		idx := g.nextIdx
		g.lastArr = g.nextArr
		g.nextIdx++
		w.schedule(g)
		f(idx)
	}
}

func (w *abacoSimWorld) minNextIdx() int {
	m := w.npackets
	for _, g := range w.groups {
		if g.nextIdx < m {
			m = g.nextIdx
		}
	}
	return m
}

func (w *abacoSimWorld) allArrived() bool {
	for _, g := range w.groups {
		if g.nextIdx < w.npackets || len(g.pending) > 0 {
			return false
		}
	}
	return true
}

// ---------------------------------------------------------------------------------
// the producer (stands in for AbacoUDPReceiver)

type abacoSimProducer struct {
	w        *abacoSimWorld
	id       int
	groups   []*abacoSimGroup
	started  bool
	stopped  bool
	lastRead time.Time
}

func (p *abacoSimProducer) start() error {
	if p.started && !p.stopped {
		return fmt.Errorf("listen udp: bind: address already in use (simulated producer %d)", p.id)
	}
	p.started, p.stopped = true, false
	w := p.w
	w.nStarted++
	if w.nStarted == len(w.prods) {
		w.netUp = true
		w.t0 = time.Now()
		for _, g := range w.groups {
			w.schedule(g)
		}
	}
	return nil
}

func (p *abacoSimProducer) stop() error {
	p.stopped = true
	return nil
}

// samplePackets returns the first kSample packets of each of the producer's groups.
func (p *abacoSimProducer) samplePackets(d time.Duration) ([]*packets.Packet, error) {
	w := p.w
	deadline := time.Now().Add(d)
	for {
		time.Sleep(25 * time.Millisecond)
		enough := w.netUp
		if w.netUp {
			now := time.Since(w.t0)
			for _, g := range p.groups {
				g := g
				w.pull(g, now, func(idx int) { g.pending = append(g.pending, idx) })
				if len(g.pending) < g.kSample {
					enough = false
				}
			}
		}
		if enough || time.Now().After(deadline) {
			break
		}
	}
	var out []*packets.Packet
	for i := 0; ; i++ {
		any := false
		for _, g := range p.groups {
			if i < g.kSample && i < len(g.pending) {
				idx := g.pending[i]
				out = append(out, w.makePacket(g, idx))
				g.fate[idx] = abacoSimSampled
				g.lastSampled = idx
				any = true
			}
		}
		if !any {
			break
		}
	}
	for _, g := range p.groups {
		n := g.kSample
		if n > len(g.pending) {
			n = len(g.pending)
		}
		g.pending = append([]int(nil), g.pending[n:]...)
	}
	return out, nil
}

// discardStale drops what is waiting in the socket buffer — if that works at all (the
// real receiver's comment: "At least, it is supposed to. We are not sure it actually works").
func (p *abacoSimProducer) discardStale() error {
	w := p.w
	if !w.discardWorks {
		return nil
	}
	now := time.Since(w.t0)
	for _, g := range p.groups {
		g := g
		for _, idx := range g.pending {
			g.fate[idx] = abacoSimDiscarded
		}
		g.pending = nil
		w.pull(g, now, func(idx int) { g.fate[idx] = abacoSimDiscarded })
	}
	return nil
}

func (w *abacoSimWorld) faultWindowOpen() bool {
	return w.faulted && w.running && w.minNextIdx() < w.faultEnd
}

func (w *abacoSimWorld) decideLoss(g *abacoSimGroup, idx int) bool {
	if !w.faulted || idx >= w.faultEnd {
		return false
	}
	first := !g.runSeen
	g.runSeen = true
	if first && g.lossFirst {
		simrt.Hit("first-after-start-lost")
		return true
	}
	if g.burstLeft > 0 {
		g.burstLeft--
		return true
	}
	if w.lossBurst && simrt.Chance(1, 25) {
		g.burstLeft = simrt.DrawFault(10)
		return true
	}
	return w.lossBernNum > 0 && simrt.Chance(w.lossBernNum, w.lossBernDen)
}

// ReadAllPackets returns everything that has arrived since the previous read.
func (p *abacoSimProducer) ReadAllPackets() ([]*packets.Packet, error) {
	w := p.w
	if !p.started || p.stopped {
		return nil, fmt.Errorf("simulated producer %d is not open", p.id)
	}
	if p.id == 0 {
		if w.ticksSeen > 0 && w.tickPackets == 0 {
			simrt.Hit("empty-tick")
		}
		w.ticksSeen++
		w.tickPackets = 0
	}
	if w.stopEarly && w.stopInRead && !w.stopAsked && w.running && w.minNextIdx() >= w.stopAt {
		// the client's Stop() arrives while the reader is inside a tick
		w.requestStop("while the reader is inside ReadAllPackets")
		for i := 0; i < 4 && !w.abortClosed(); i++ {
			simrt.Gosched()
		}
		if w.abortClosed() {
			simrt.Hit("stop-while-reader-in-tick")
		}
	}
	if w.faultWindowOpen() {
		if w.stallOn && w.nStalls < 4 && simrt.Chance(1, 14) { // (a stall costs up to 3000 steps of the run's budget)
			w.nStalls++
			d := time.Duration(60+simrt.DrawFault(840)) * time.Millisecond
			steps := int(d / w.delta)
			if steps > 3000 {
				steps = 3000
			}
			if steps < 1 {
				steps = 1
			}
			w.env.Op("reader stalled for %d scheduler steps (about %v)", steps, time.Duration(steps)*w.delta)
			before := time.Now()
			simrt.Stall("abacoReader", steps)
			simrt.Gosched()
			if time.Since(before) >= time.Duration(steps)*w.delta*9/10 {
				simrt.Hit("stall-held-the-reader")
			}
		}
		if w.sleepOn && w.nSleeps < 6 && simrt.Chance(1, 18) {
			w.nSleeps++
			d := time.Duration(1+simrt.DrawFault(5))*abacoSimTick + time.Duration(simrt.DrawFault(50))*time.Millisecond
			w.env.Op("read of producer %d takes %v", p.id, d)
			simrt.Fault("slow-read")
			time.Sleep(d)
		}
	}
	nowT := time.Now()
	now := nowT.Sub(w.t0)
	var out []*packets.Packet
	for _, g := range p.groups {
		g := g
		leftover := 0
		if grp := w.as.groups[g.index()]; grp != nil {
			leftover = len(grp.queue)
		}
		if leftover > 0 {
			simrt.Hit("leftover-across-tick")
		}
		wipe := w.lossTick && w.faultWindowOpen() && simrt.Chance(1, 12)
		nArr, nLost := 0, 0
		deliver := func(idx int) {
			lost := w.decideLoss(g, idx)
			if wipe && idx < w.faultEnd {
				lost = true
			}
			nArr++
			if lost {
				nLost++
				w.nLost++
				g.fate[idx] = abacoSimLost
				simrt.Fault("packet-loss")
				w.env.Op("group %d packet %d lost (read %d, %d packets queued in the group)", g.ord, idx, w.ticksSeen, leftover)
				if leftover > 0 {
					simrt.Hit("loss-while-leftovers")
				}
				if nArr == 1 {
					simrt.Hit("loss-first-of-tick")
				}
				return
			}
			g.fate[idx] = abacoSimDelivered
			g.delivAt[idx] = nowT
			g.lastDeliv = idx
			if g.firstRun < 0 {
				g.firstRun = idx
			}
			w.nDelivered++
			w.lastDeliv = nowT
			out = append(out, w.makePacket(g, idx))
		}
		for _, idx := range g.pending {
			deliver(idx)
		}
		g.pending = nil
		w.pull(g, now, deliver)
		if nArr > 0 && nLost == nArr {
			simrt.Hit("tick-all-lost-one-group")
		}
		if abacoSimDebug {
			fmt.Printf("DBG %v read %d producer %d group %d: queued before %d, arrived %d (lost %d), next index %d\n", now, w.ticksSeen, p.id, g.ord, leftover, nArr, nLost, g.nextIdx)
		}
	}
	w.tickPackets += len(out)
	if !p.lastRead.IsZero() && nowT.Sub(p.lastRead) > 5*abacoSimTick/2 && len(out) > 0 {
		simrt.Hit("multi-tick-batch")
	}
	p.lastRead = nowT
	if !w.firstCommon && p.id == len(w.prods)-1 {
		// the first tick on which every group has delivered something: is a group that was sampled
		// less deeply still short of the common starting point (its queue is emptied by the alignment)?
		all, S := true, 0
		for _, g := range w.groups {
			all = all && g.firstRun >= 0
			if g.lastSampled+1 > S {
				S = g.lastSampled + 1
			}
		}
		if all {
			w.firstCommon = true
			for _, g := range w.groups {
				if g.lastDeliv < S {
					simrt.Hit("first-alignment-empties-a-group")
				}
			}
		}
	}
	if !w.quiet && w.minNextIdx() >= w.faultEnd {
		w.quiet = true
		w.quietAt = nowT
	}
	return out, nil
}

// ---------------------------------------------------------------------------------
// starting the source and playing the core loop's part

// startSource performs the steps of Start() up to and including StartRun().
func (w *abacoSimWorld) startSource(opts AbacoUnwrapOptions) {
	PubRecordsChan = make(chan []*DataRecord, 16)
	PubSummariesChan = make(chan []*DataRecord, 16)
	clientMessageChan = make(chan ClientUpdate, 16)
	resetViper(w.env.Dir)
	simrt.MapShuffle = true
	as := w.as
	if as == nil {
		var err error
		if as, err = NewAbacoSource(); err != nil {
			simrt.Fail("harness.start", "harness:new-source", "NewAbacoSource: %v", err)
		}
	} else {
		simrt.Hit("restart-on-same-source-object")
	}
	if err := as.Configure(&AbacoSourceConfig{AbacoUnwrapOptions: opts}); err != nil {
		simrt.Fail("harness.start", "harness:configure", "Configure: %v", err)
	}
	for _, p := range w.prods {
		as.producers = append(as.producers, p)
	}
	w.as = as
	if err := as.SetStateStarting(); err != nil {
		simrt.Fail("harness.start", "harness:state", "SetStateStarting: %v", err)
	}
	if err := as.Sample(); err != nil {
		simrt.Fail("harness.start", "harness:sample", "Sample: %v", err)
	}
	if as.nchan != w.nchan || len(as.groups) != len(w.groups) {
		simrt.Fail("harness.start", "harness:sample-layout", "Sample found %d channels in %d groups, the network sends %d in %d", as.nchan, len(as.groups), w.nchan, len(w.groups))
	}
	w.stampProbes()
	if err := as.PrepareChannels(); err != nil {
		simrt.Fail("harness.start", "harness:prepare", "PrepareChannels: %v", err)
	}
	if err := as.PrepareRun(4, 16); err != nil {
		simrt.Fail("harness.start", "harness:prepare", "PrepareRun: %v", err)
	}
	as.RunDoneActivate()
	w.running = true
	c03InStartRun = true
	err := as.StartRun()
	c03InStartRun = false
	if err != nil {
		simrt.Fail("harness.start", "harness:startrun", "StartRun: %v", err)
	}
}

// requestStop has a client task call the real Stop() (which closes abortSelf and then waits for
// the run to end; the pump below ends it the way CoreLoop does).
func (w *abacoSimWorld) requestStop(why string) {
	if w.stopAsked {
		return
	}
	w.stopAsked = true
	w.env.Op("client calls Stop() %s (run %d)", why, w.runNo+1)
	as := w.as
	simrt.GoHarness("stopper", func() {
		if err := as.Stop(); err != nil {
			simrt.Note("harness.stop", "harness:stop-error", "Stop() on the running source: %v", err)
		}
		w.stopReturned = true
	})
}

func (w *abacoSimWorld) abortClosed() bool {
	select {
	case <-w.as.abortSelf:
		return true
	default:
		return false
	}
}

// pump takes blocks from getNextBlock() like CoreLoop does. onIdle is called every 100 ms
// of simulated time and returns true when the client should stop the source. The pump keeps
// draining until the block channel closes, then does what CoreLoop's deferred calls do.
// It returns true if the block channel closed before Stop() was called.
func (w *abacoSimWorld) pump(onBlock func(b *dataBlock), onIdle func() bool) (selfEnded bool) {
	as := w.as
	tick := time.NewTicker(100 * time.Millisecond)
	defer tick.Stop()
	nb := as.getNextBlock()
	for {
		if w.consumerLag && w.nConsumerLag < 5 && !w.stopAsked && w.faultWindowOpen() && simrt.Chance(1, 10) {
			// the consumer (block processing) is slow: the reader gets ahead by one or more buffers
			w.nConsumerLag++
			d := time.Duration(60+simrt.DrawFault(340)) * time.Millisecond
			w.env.Op("block consumer busy for %v", d)
			simrt.Fault("consumer-lag")
			time.Sleep(d)
			if len(as.buffersChan) >= 1 {
				simrt.Hit("consumer-behind-by-a-buffer")
			}
		}
		select {
		case blk, ok := <-nb:
			if !ok {
				selfEnded = !w.stopAsked
				w.finish()
				return selfEnded
			}
			if blk.err != nil {
				w.finish()
				simrt.Fail("harness.pump", "harness:error-block", "the source delivered an error block: %v", blk.err)
			}
			onBlock(blk)
			nb = as.getNextBlock()
		case <-tick.C:
			if !w.stopAsked && onIdle() {
				w.requestStop("between reader ticks")
			}
		}
	}
}

// finish does what CoreLoop's deferred calls do, waits for the client's Stop() to return and
// releases the run's tickers.
func (w *abacoSimWorld) finish() {
	as := w.as
	as.RunDoneDeactivate()
	as.numberWrittenTicker.Stop()
	as.writingState.externalTriggerTicker.Stop()
	as.writingState.dataDropTicker.Stop()
	if w.stopAsked {
		deadline := time.Now().Add(20 * time.Second)
		for !w.stopReturned {
			if time.Now().After(deadline) {
				simrt.Fail(w.check+".stop-returns", "lifecycle:stop-hangs", "the run has ended but Stop() has not returned after 20 s; tasks %v", simrt.AliveTaskInfo())
			}
			time.Sleep(time.Millisecond)
		}
	}
}
