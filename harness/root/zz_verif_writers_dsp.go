//go:build verif

package dastard

// The publisher world behind its real caller (a variant of C05a and C07c, see publisherBody).
//
// The DataPublisher is the one embedded in a real DataStreamProcessor, and every batch of records
// reaches PublishData through the only production callers, dsp.processSegment (auto-triggered
// records cut from a block of a known sample stream) and dsp.processSecondaries (records at frames
// the harness chooses, as the trigger broker would). Short records make a block yield from one to
// ~1500 records, so a batch can meet writer goroutines that are stalled (a slow disk) and overflow
// the writers' real queues in the middle of a batch.
//
// The callers treat an error of PublishData as fatal (panic: the server dies, a fail-stop). The
// harness task recovers that panic, ends the simulated process there and judges what it left:
// the bytes in the files at that instant must be a prefix of what the files hold once everything
// the writers had accepted is written out, and that is the header followed by every record of
// every batch that was published successfully, once and in order, followed by records of the
// dying batch (each at most once, in order) - nothing else.

import (
	"bytes"
	"fmt"
	"math"
	"os"
	"path/filepath"
	"runtime"
	"time"

	"gonum.org/v1/gonum/mat"

	"verif/simrt"
)

var dspFmtName = [3]string{"ljh22", "ljh3", "off"}

type dspWorld struct {
	env         *simrt.Env
	flushOracle bool
	rule        string // "C05" or "C07": the property of the check this run belongs to
	p           chanParams
	dsp         *DataStreamProcessor
	signed      bool
	f0          int64 // frame number of sample 0 of the stream
	t0          time.Time
	period      time.Duration
	salt        uint32
	pattern     int
	next        int // index (in the stream) of the first sample of the next block
	trigMode    int // 0 primaries only, 1 secondaries only, 2 both
	phase       int // primaries sit at samples = phase (mod nsamp); -1 until the first one is seen
	used        map[int64]bool
	captured    map[int64]*DataRecord
	sink        chan []*DataRecord
	bursts      int
	dead        bool // the simulated process has ended (fail-stop)
	abandoned   bool // the harness cannot name the records any more (never on the unchanged code)
	records     int
	publishes   int // batches seen on the record channel
	calls       int // calls of the processor that carried records
}

// val is the ground truth: the value of sample a of the channel's stream.
func (w *dspWorld) val(a int) RawType {
	switch w.pattern {
	case 0:
		return RawType(a*7 + int(w.salt))
	case 1:
		return RawType((uint32(a)*2654435761 + w.salt) >> 15)
	default:
		if a%5 == 0 {
			return 65535
		}
		if a%7 == 0 {
			return 0
		}
		return RawType(1000 + a%300)
	}
}

// wantFor is the record triggered at frame f, derived from the ground truth only (the two analysis
// values the property does not speak of are taken from the record the processor published).
func (w *dspWorld) wantFor(f int64) wantRec {
	p := w.p
	a := int(f - w.f0)
	data := make([]RawType, p.nsamp)
	for i := range data {
		data[i] = w.val(a - p.npre + i)
	}
	fv := func(v RawType) float64 {
		if w.signed {
			return float64(int16(v))
		}
		return float64(v)
	}
	coefs := make([]float64, p.nbases)
	for b := 0; b < p.nbases; b++ {
		s := 0.0
		for i := 0; i < p.nsamp; i++ {
			s += p.proj.At(b, i) * fv(data[i]) // multiples of 1/4 far below 2^53: exact in any order
		}
		coefs[b] = s
	}
	pt := 0.0
	for i := 0; i < p.npre; i++ {
		pt += fv(data[i])
	}
	wr := wantRec{frame: f, time: w.t0.Add(time.Duration(a) * w.period), pre: p.npre, data: data, coefs: coefs,
		ptMean: pt / float64(p.npre), ptDelt: math.NaN(), resid: math.NaN()}
	if r := w.captured[f]; r != nil {
		wr.ptDelt, wr.resid = r.pretrigDelta, r.residualStdDev
	}
	return wr
}

// failStop runs fn and returns the error it panicked with, if it did: the production callers of
// PublishData panic with the error they were given. Anything else keeps unwinding.
func failStop(fn func()) (died error) {
	defer func() {
		if r := recover(); r != nil {
			if e, ok := r.(error); ok {
				if _, rt := r.(runtime.Error); !rt {
					died = e
					return
				}
			}
			panic(r)
		}
	}()
	fn()
	return nil
}

func (w *dspWorld) drainSink() {
	for {
		select {
		case recs := <-w.sink:
			w.publishes++
			for _, r := range recs {
				w.captured[int64(r.trigFrame)] = r
			}
		default:
			return
		}
	}
}

func dspPublisherBody(env *simrt.Env, flushOracle bool) {
	simrt.Hit("publisher-behind-real-processor")
	w := &dspWorld{env: env, flushOracle: flushOracle, rule: "C05", phase: -1,
		used: map[int64]bool{}, captured: map[int64]*DataRecord{}}
	if flushOracle {
		w.rule = "C07"
	}
	p := genChanParams()
	// short records: a block of a few thousand samples yields hundreds of records
	p.nsamp = []int{4, 6, 8, 16}[simrt.Draw(4)]
	p.npre = 2 + simrt.Draw(p.nsamp-3)
	pd := make([]float64, p.nbases*p.nsamp)
	bd := make([]float64, p.nbases*p.nsamp)
	for i := range pd {
		pd[i] = float64((i*7+3)%13)*0.25 - 1
		bd[i] = float64((i*3+1)%11) - 5
	}
	p.proj = mat.NewDense(p.nbases, p.nsamp, pd)
	p.basis = mat.NewDense(p.nsamp, p.nbases, bd)
	w.p = p
	w.signed = simrt.Draw(4) == 0
	w.f0 = []int64{0, 1, 12345678, 1 << 40, (1 << 62) / 64}[simrt.Draw(5)]
	w.t0 = time.Date([]int{1970, 1999, 2024, 2100, 2200}[simrt.Draw(5)], time.Month(1+simrt.Draw(12)), 1+simrt.Draw(28), simrt.Draw(24), simrt.Draw(60), simrt.Draw(60), simrt.Draw(1000000)*1000, time.UTC)
	w.period = time.Duration(p.timebase * 1e9)
	w.salt = uint32(simrt.Draw(1 << 16))
	w.pattern = simrt.Draw(3)
	w.trigMode = simrt.Draw(3)

	dsp := NewDataStreamProcessor(p.index, NewTriggerBroker(1), p.npre, p.nsamp)
	dsp.Name = p.name
	dsp.ChannelNumber = p.number
	dsp.SampleRate = 1 / p.timebase
	if err := dsp.ConfigurePulseLengths(p.nsamp, p.npre); err != nil {
		simrt.Fail("harness.setup", "harness:pulse-lengths", "%v", err)
	}
	if err := dsp.SetProjectorsBasis(p.proj, p.basis, "model"); err != nil {
		simrt.Fail("harness.setup", "harness:projectors", "%v", err)
	}
	if err := dsp.ConfigureTrigger(TriggerState{AutoTrigger: w.trigMode != 1, AutoDelay: 0}); err != nil {
		simrt.Fail("harness.setup", "harness:trigger", "%v", err)
	}
	// the record channel (a ZMQ publisher in production) shows which record objects were published
	w.sink = make(chan []*DataRecord, 64)
	dsp.PubRecordsChan = w.sink
	w.dsp = dsp
	env.Op("publisher behind a DataStreamProcessor: nsamp=%d npre=%d nbases=%d signed=%v first frame %d, triggers: %s", p.nsamp, p.npre, p.nbases, w.signed, w.f0,
		[]string{"auto (processSegment)", "secondaries (processSecondaries)", "auto and secondaries"}[w.trigMode])

	nlives := 1 + simrt.Draw(3)
	total := 0
	var sample map[string]interface{}
	lives := 0
	for life := 0; life < nlives && !w.dead && !w.abandoned; life++ {
		n, s := w.life(life)
		total += n
		sample = s
		lives++
	}
	if lives > 1 {
		simrt.Hit("several-file-lives")
	}
	sample["file_lives"] = lives
	sample["records_in_files"] = total
	sample["caller"] = "DataStreamProcessor"
	sample["ended_by_fail_stop"] = w.dead
	env.Sample(sample)
}

type dspLife struct {
	w      *dspWorld
	use    [3]bool
	path   [3]string
	want   []wantRec // records of the batches published successfully while unpaused: every file must hold them
	paused bool
}

func (lf *dspLife) key(k int, wr wantRec) int64 {
	if k == 0 {
		return wr.frame*int64(lf.w.p.subdiv) + int64(lf.w.p.suboff)
	}
	return wr.frame
}

// fileKeys decodes a file and returns the frame labels of its whole records and the number of bytes behind them.
func (lf *dspLife) fileKeys(k int, b []byte) (keys []int64, trail int, err error) {
	switch k {
	case 0:
		f, e := decodeLJH22(b)
		if e != nil {
			return nil, 0, e
		}
		for _, r := range f.recs {
			keys = append(keys, r.subframe)
		}
		return keys, f.trail, nil
	case 1:
		f, e := decodeLJH3(b)
		if e != nil {
			return nil, 0, e
		}
		for _, r := range f.recs {
			keys = append(keys, r.frame)
		}
		return keys, f.trail, nil
	default:
		f, e := decodeOFF(b)
		if e != nil {
			return nil, 0, e
		}
		for _, r := range f.recs {
			keys = append(keys, r.frame)
		}
		return keys, f.trail, nil
	}
}

type matchVerdict struct {
	kind    string // "", "repeated", "out-of-order", "foreign", "missing"
	detail  string
	present []int // indices into exp of the records found
}

// matchKeys compares the labels of the records in a file with the labels exp of the records
// published, in order of publication (all distinct). The first nMust of them were accepted and must
// all be there; the others (the batch during which the process died) may be there. Every record of
// the file must be one of exp, none twice, in the order of exp.
func matchKeys(got, exp []int64, nMust int) matchVerdict {
	idx := make(map[int64]int, len(exp))
	for i, k := range exp {
		idx[k] = i
	}
	seen := make(map[int64]int, len(got))
	var v matchVerdict
	j := 0
	for i, g := range got {
		if first, dup := seen[g]; dup {
			v.kind = "repeated"
			v.detail = fmt.Sprintf("record %d of the file (frame label %d) is the same record as record %d: a record published once is in the file twice (%d records in the file, %d published)", i, g, first, len(got), len(exp))
			return v
		}
		seen[g] = i
		k, ok := idx[g]
		if !ok {
			v.kind = "foreign"
			v.detail = fmt.Sprintf("record %d of the file has frame label %d, which no published record has", i, g)
			return v
		}
		if k < j {
			v.kind = "out-of-order"
			v.detail = fmt.Sprintf("record %d of the file (frame label %d) was published as number %d, before the record in front of it (number %d)", i, g, k, j-1)
			return v
		}
		for q := j; q < k; q++ {
			if q < nMust {
				v.kind = "missing"
				v.detail = fmt.Sprintf("published record number %d (frame label %d) was accepted (its batch was published without an error) but is not in the file, although record number %d, published after it, is (%d records in the file, %d accepted)", q, exp[q], k, len(got), nMust)
				return v
			}
		}
		v.present = append(v.present, k)
		j = k + 1
	}
	if j < nMust {
		v.kind = "missing"
		v.detail = fmt.Sprintf("the file ends after %d records; accepted records number %d to %d (their batches were published without an error) are not in it", len(got), j, nMust-1)
	}
	return v
}

// writerCount is the writer's own count of the records it accepted.
func (lf *dspLife) writerCount(k int) int {
	dsp := lf.w.dsp
	switch {
	case k == 0 && dsp.LJH22 != nil:
		return dsp.LJH22.RecordsWritten
	case k == 1 && dsp.LJH3 != nil:
		return dsp.LJH3.RecordsWritten
	case k == 2 && dsp.OFF != nil:
		return dsp.OFF.RecordsWritten()
	}
	return 0
}

func (lf *dspLife) expKeys(k int, extra []wantRec) []int64 {
	exp := make([]int64, 0, len(lf.want)+len(extra))
	for _, wr := range lf.want {
		exp = append(exp, lf.key(k, wr))
	}
	for _, wr := range extra {
		exp = append(exp, lf.key(k, wr))
	}
	return exp
}

// judgeFile checks one file against the accepted records (and, after a fail-stop, the dying batch);
// it returns the records the file must then hold exactly.
func (lf *dspLife) judgeFile(k int, b []byte, dying []wantRec, when string, missingRule, missingSig string) []wantRec {
	name := dspFmtName[k]
	keys, trail, err := lf.fileKeys(k, b)
	if err != nil {
		simrt.Fail(lf.w.rule+".whole-records", "files:unparsable:"+name, "%s: the %s file does not parse: %v", when, name, err)
	}
	if trail != 0 {
		simrt.Fail(lf.w.rule+".whole-records", "files:partial-record:"+name, "%s: the %s file ends with %d bytes that are not a whole record (after %d whole records)", when, name, trail, len(keys))
	}
	v := matchKeys(keys, lf.expKeys(k, dying), len(lf.want))
	switch v.kind {
	case "":
	case "missing":
		simrt.Fail(missingRule, missingSig, "%s, %s file: %s", when, name, v.detail)
	default:
		simrt.Fail(lf.w.rule+".records-once-in-order", "files:record-"+v.kind+":"+name, "%s, %s file: %s", when, name, v.detail)
	}
	out := make([]wantRec, 0, len(v.present))
	for _, i := range v.present {
		if i < len(lf.want) {
			out = append(out, lf.want[i])
		} else {
			out = append(out, dying[i-len(lf.want)])
		}
	}
	return out
}

func (lf *dspLife) checkContent(k int, recs []wantRec) {
	switch k {
	case 0:
		checkLJH22File(lf.path[0], lf.w.p, recs, "Scripted")
	case 1:
		checkLJH3File(lf.path[1], lf.w.p, recs, false)
	default:
		checkOFFFile(lf.path[2], lf.w.p, recs)
	}
}

// flushed is C07's completeness clause through the publisher (C07c only): when Flush or
// SetPause(true) returns, every file holds exactly the records accepted so far.
func (lf *dspLife) flushed(what string) {
	if !lf.w.flushOracle {
		return
	}
	n := 0
	for k := 0; k < 3; k++ {
		if !lf.use[k] {
			continue
		}
		n++
		b, err := os.ReadFile(lf.path[k])
		if err != nil {
			if len(lf.want) == 0 {
				continue // created lazily with the first record
			}
			simrt.Fail("C07.flush-complete", "publisher:flush-incomplete", "%s returned, %d records were accepted, but %s does not exist", what, len(lf.want), filepath.Base(lf.path[k]))
		}
		// which of the two it is when a record is not there is read from the writer's own count (diagnosis only):
		// accepted by the writer and not yet in the file (the flush is incomplete), or never taken by the writer
		// although its batch was published without an error
		rule, sig := "C07.flush-complete", "publisher:flush-incomplete"
		if lf.writerCount(k) < len(lf.want) {
			rule, sig = "C07.accepted-records-stored", "files:accepted-record-missing:"+dspFmtName[k]
		}
		lf.judgeFile(k, b, nil, "when "+what+" returned", rule, sig)
	}
	if n > 1 {
		simrt.Hit("flush-with-several-outputs")
	}
}

// account books the records of one call of the processor; it returns false when the run is over.
func (lf *dspLife) account(frames []int64, died error, what string, steps int) bool {
	w := lf.w
	var batch []wantRec
	for _, f := range frames {
		if w.used[f] {
			// two records with one frame number: the harness could not tell them apart in the files.
			// Not reachable on the unchanged code (secondaries avoid the auto-trigger positions).
			simrt.Hit("harness:frame-collision")
			w.abandoned = true
			return false
		}
		w.used[f] = true
	}
	for _, f := range frames {
		batch = append(batch, w.wantFor(f))
	}
	w.records += len(frames)
	if len(frames) > 0 {
		w.calls++
	}
	anyFile := lf.use[0] || lf.use[1] || lf.use[2]
	if len(frames) >= 600 && anyFile && !lf.paused {
		simrt.Hit("dsp:burst-of-600-or-more-records-in-one-call")
	}
	if died != nil {
		w.env.Op("%s: %d records (paused=%v, %d scheduler steps) - the caller PANICKED: %v", what, len(frames), lf.paused, steps, died)
	} else {
		w.env.Op("%s: %d records (paused=%v, %d scheduler steps)", what, len(frames), lf.paused, steps)
	}
	if lf.paused {
		batch = nil // a paused publisher stores nothing
	}
	if died != nil {
		lf.failStop(batch, died, what)
		return false
	}
	lf.want = append(lf.want, batch...)
	return true
}

// failStop judges what the dead process left.
func (lf *dspLife) failStop(dying []wantRec, died error, what string) {
	w := lf.w
	w.dead = true
	simrt.Hit("dsp:fail-stop")
	simrt.Hit("dsp:fail-stop:in-" + what)
	// the writers' own count of accepted records
	var accepted [3]int
	for k := 0; k < 3; k++ {
		if lf.use[k] {
			accepted[k] = lf.writerCount(k)
		}
	}
	// (1) the files as the dead process leaves them: what was handed to the OS, nothing of the queues
	var atDeath [3][]byte
	var existed [3]bool
	for k := 0; k < 3; k++ {
		if lf.use[k] {
			if b, err := os.ReadFile(lf.path[k]); err == nil {
				atDeath[k], existed[k] = b, true
			}
		}
	}
	// (2) let the writers put out what they had accepted (no more stalls: nothing else happens any more)
	simrt.Unstall()
	simrt.Within(600*time.Second, w.rule+".stop-returns", "files:stop-hangs", func() {
		w.dsp.RemoveLJH22()
		w.dsp.RemoveOFF()
		w.dsp.RemoveLJH3()
	})
	w.env.Op("the process is dead; writers closed to see what they had accepted (their counts: ljh22 %d, ljh3 %d, off %d; %d accepted before the dying batch of %d)", accepted[0], accepted[1], accepted[2], len(lf.want), len(dying))
	whole, cut := 0, 0
	for k := 0; k < 3; k++ {
		if !lf.use[k] {
			continue
		}
		name := dspFmtName[k]
		b, err := os.ReadFile(lf.path[k])
		if err != nil {
			if len(lf.want) > 0 || accepted[k] > 0 {
				simrt.Fail(w.rule+".accepted-records-stored", "files:missing:"+name, "after the fail-stop the %s file %s cannot be read although %d records were accepted (writer's count %d): %v", name, filepath.Base(lf.path[k]), len(lf.want), accepted[k], err)
			}
			continue
		}
		if existed[k] && !bytes.HasPrefix(b, atDeath[k]) {
			simrt.Fail(w.rule+".crash-leaves-prefix", "files:death-state-not-a-prefix:"+name, "the %d bytes of the %s file at the moment the process died are not a prefix of the file's final %d bytes", len(atDeath[k]), name, len(b))
		}
		when := fmt.Sprintf("after the fail-stop in %s (%v)", what, died)
		recs := lf.judgeFile(k, b, dying, when, w.rule+".accepted-records-stored", "files:accepted-record-missing:"+name)
		if len(recs) != accepted[k] {
			simrt.Fail(w.rule+".accepted-records-stored", "files:writer-count-mismatch:"+name, "%s: the %s writer counted %d accepted records, the closed file holds %d", when, name, accepted[k], len(recs))
		}
		lf.checkContent(k, recs)
		switch n := len(recs) - len(lf.want); {
		case n == len(dying) && n > 0:
			whole++
			simrt.Hit("dsp:fail-stop:whole-dying-batch-in:" + name)
		case n > 0:
			cut++
			simrt.Hit("dsp:fail-stop:dying-batch-cut-short-in:" + name)
		default:
			cut++
			simrt.Hit("dsp:fail-stop:nothing-of-dying-batch-in:" + name)
		}
		if existed[k] && len(atDeath[k]) < len(b) {
			simrt.Hit("dsp:fail-stop:accepted-data-still-queued-at-death")
		}
	}
	if whole > 0 && cut > 0 {
		simrt.Hit("dsp:fail-stop:one-writer-took-the-whole-batch-another-overflowed")
	}
}

// publishBlock feeds one block of the stream through the real per-channel processing of a block:
// processSegment, processSecondaries, TrimStream.
func (lf *dspLife) publishBlock(n int) bool {
	w := lf.w
	p := w.p
	dsp := w.dsp
	auto := w.trigMode != 1
	nsec := 0
	var L int
	step := 1 + simrt.Draw(3)
	switch w.trigMode {
	case 0:
		L = n*p.nsamp + simrt.Draw(p.nsamp)
	case 1:
		nsec = n
		L = n*step + p.nsamp + simrt.Draw(8)
	default:
		if simrt.Draw(2) == 0 {
			L = n*p.nsamp + simrt.Draw(p.nsamp)
			nsec = simrt.Draw(20)
		} else {
			nsec = n
			L = n*step + n*step/(p.nsamp-1) + 2*p.nsamp + simrt.Draw(8)
		}
	}
	raw := make([]RawType, L)
	for i := range raw {
		raw[i] = w.val(w.next + i)
	}
	seg := NewDataSegment(raw, 1, FrameIndex(w.f0+int64(w.next)), w.t0.Add(time.Duration(w.next)*w.period), w.period)
	seg.signed = w.signed
	w.next += L
	s0 := simrt.Steps()
	died := failStop(func() { dsp.processSegment(seg) })
	w.drainSink()
	var prim []int64
	for _, f := range dsp.lastTrigList.frames {
		prim = append(prim, int64(f))
	}
	if auto && w.phase < 0 && len(prim) > 0 {
		w.phase = int((prim[0] - w.f0) % int64(p.nsamp))
	}
	if !lf.account(prim, died, "processSegment", simrt.Steps()-s0) {
		return false
	}
	if nsec > 0 {
		// frames a group trigger could name: any record that lies inside the samples the channel holds
		first := int(int64(dsp.stream.firstFrameIndex) - w.f0)
		lo := first + p.npre + simrt.Draw(step)
		hi := first + len(dsp.stream.rawData) - (p.nsamp - p.npre)
		var sec []int64
		var frames []FrameIndex
		for a := lo; a <= hi && len(sec) < nsec; a += step {
			f := w.f0 + int64(a)
			if w.used[f] || (auto && (w.phase < 0 || a%p.nsamp == w.phase)) {
				continue
			}
			sec = append(sec, f)
			frames = append(frames, FrameIndex(f))
		}
		if len(sec) > 0 {
			s0 = simrt.Steps()
			died = failStop(func() { dsp.processSecondaries(frames) })
			w.drainSink()
			if !lf.account(sec, died, "processSecondaries", simrt.Steps()-s0) {
				return false
			}
		}
	}
	dsp.TrimStream()
	return true
}

// life is one file life on the processor's publisher; it returns the number of records its files must hold.
func (w *dspWorld) life(life int) (int, map[string]interface{}) {
	p := w.p
	dsp := w.dsp
	lf := &dspLife{w: w}
	switch simrt.Draw(6) {
	case 0:
		lf.use[0] = true
	case 1:
		lf.use[1] = true
	case 2:
		lf.use[2] = true
	case 3:
		lf.use[0], lf.use[2] = true, true
	case 4:
		lf.use[0], lf.use[1] = true, true
	default:
		lf.use = [3]bool{true, true, true}
	}
	prefix := "d_"
	if life > 0 {
		prefix = fmt.Sprintf("d%d_", life)
	}
	lf.path = [3]string{filepath.Join(w.env.Dir, prefix+p.name+".ljh"), filepath.Join(w.env.Dir, prefix+p.name+".ljh3"), filepath.Join(w.env.Dir, prefix+p.name+".off")}
	start := time.Date(2024, 2, 3, 4, 5, 6, 0, time.UTC)
	if lf.use[0] {
		dsp.SetLJH22(p.index, p.npre, p.nsamp, 1, p.timebase, start, p.rows, p.cols, p.nchans, p.subdiv, p.row, p.col, p.suboff,
			lf.path[0], "Scripted", p.name, p.number, Pixel{X: 3, Y: 4, Name: "px"})
	}
	if lf.use[1] {
		dsp.SetLJH3(p.index, p.timebase, p.rows, p.cols, p.subdiv, p.suboff, lf.path[1])
	}
	if lf.use[2] {
		dsp.SetOFF(p.index, p.npre, p.nsamp, 1, p.timebase, start, p.rows, p.cols, p.nchans, p.subdiv, p.row, p.col, p.suboff,
			lf.path[2], "Scripted", p.name, p.number, p.proj, p.basis, "model", Pixel{X: 3, Y: 4, Name: "px"})
	}
	w.env.Op("file life %d: ljh22=%v ljh3=%v off=%v", life, lf.use[0], lf.use[1], lf.use[2])
	nops := 2 + simrt.Draw(8)
	sample := func() map[string]interface{} {
		return map[string]interface{}{"formats": fmt.Sprintf("ljh22=%v ljh3=%v off=%v", lf.use[0], lf.use[1], lf.use[2]), "nsamp": p.nsamp, "npre": p.npre, "nbases": p.nbases, "ops": nops}
	}
	for i := 0; i < nops; i++ {
		switch k := simrt.Draw(10); {
		case k < 6:
			var n int
			switch c := simrt.Draw(6); {
			case c < 2:
				n = 1 + simrt.Draw(20)
			case c < 4 || w.bursts >= 3:
				n = 100 + simrt.Draw(300)
			default:
				n = 600 + simrt.Draw(900) // more than a writer's queue can take if the disk does not keep up
				w.bursts++
			}
			if w.env.Faulted() && simrt.Chance(1, 2) {
				st := 16 << simrt.DrawFault(12) // 16 .. 32768 steps: shorter and longer than a batch takes
				st += simrt.DrawFault(st)
				simrt.Stall("writeLoop", st)
				w.env.Op("stall writer goroutines for %d steps (a disk that does not keep up)", st)
			}
			if !lf.publishBlock(n) {
				return len(lf.want), sample()
			}
		case k < 7:
			dsp.Flush()
			w.env.Op("flush")
			lf.flushed("Flush")
		case k < 8:
			lf.paused = !lf.paused
			dsp.SetPause(lf.paused)
			w.env.Op("pause=%v", lf.paused)
			if lf.paused {
				lf.flushed("SetPause(true)")
			}
		default:
			d := []time.Duration{time.Millisecond, 100 * time.Millisecond, 3500 * time.Millisecond}[simrt.Draw(3)]
			time.Sleep(d)
			w.env.Op("sleep %v", d)
		}
		if w.env.Faulted() && simrt.Chance(1, 6) {
			st := 5 + simrt.DrawFault(200)
			simrt.Stall("writeLoop", st)
			w.env.Op("stall writer goroutines for %d steps", st)
		}
	}
	// the counters, before the writers are dropped
	var accepted [3]int
	for k := 0; k < 3; k++ {
		if lf.use[k] {
			accepted[k] = lf.writerCount(k)
		}
	}
	// a stall of 65 000 scheduler steps can be 130 s of simulated time (up to 2 ms of virtual CPU per step)
	simrt.Within(600*time.Second, w.rule+".stop-returns", "files:stop-hangs", func() {
		dsp.RemoveLJH22()
		dsp.RemoveOFF()
		dsp.RemoveLJH3()
	})
	w.env.Op("stop (%d records expected in the files; writers counted ljh22 %d, ljh3 %d, off %d)", len(lf.want), accepted[0], accepted[1], accepted[2])
	if len(lf.want) == 0 {
		simrt.Hit("no-record-while-active")
	}
	for k := 0; k < 3; k++ {
		if !lf.use[k] {
			continue
		}
		b, err := os.ReadFile(lf.path[k])
		if err != nil {
			if len(lf.want) == 0 && os.IsNotExist(err) {
				continue
			}
			simrt.Fail("C05.file-exists", "files:missing:"+dspFmtName[k], "%s file %s cannot be read although %d records were accepted: %v", dspFmtName[k], filepath.Base(lf.path[k]), len(lf.want), err)
		}
		lf.judgeFile(k, b, nil, "after stop", w.rule+".accepted-records-stored", "files:accepted-record-missing:"+dspFmtName[k])
		lf.checkContent(k, lf.want)
	}
	if w.calls > 0 && w.publishes > 0 {
		simrt.Hit("dsp:life-completed-without-fail-stop")
	}
	return len(lf.want), sample()
}
