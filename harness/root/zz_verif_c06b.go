//go:build verif

package dastard

// C06b: "the writing state reported to clients agrees with behaviour" with SEVERAL clients.
//
// net/rpc serves every connection on its own goroutine, so a GUI and a script issue WriteControl
// requests concurrently. The data loop executes them one after the other; every client (and the
// SENDALL cache, and the saved configuration) learns the resulting state from the WRITING status
// messages, which reach all of them through one channel, in one order. C06 has one sequential client
// and reads the state through the reply path; here two or three client tasks issue requests at drawn
// moments against a running scripted source (real Start / CoreLoop / SourceControl methods), the
// status channel is recorded in publication order, and the oracle is about the messages:
//
//   (a) at quiescence (every client between requests, an empty request has gone through the loop,
//       the status channel has drained) the LAST WRITING message published — what every client now
//       believes — states the source's writing state (active, paused, file types, pattern), and the
//       files agree with what the clients were told: a record emitted during a quiescent stretch is
//       in the file of a (session, type, channel) exactly when the last message said active, not
//       paused, that pattern and that type (OFF: channels with projectors). Records emitted while
//       requests were in flight are free (they may be in either).
//   (b) the WRITING messages are reports of states the loop went through, in the loop's order: there
//       is a non-decreasing assignment of messages to "state after the k-th executed request"
//       (k = 0: the state before any request) with equal content, and a message is never assigned to
//       a request that the loop had not begun to execute when the message was received. Nothing is demanded
//       about how many messages there are per request, nor about the order of a client's reply and
//       the broadcast.
//
// The loop's order is observed, not inferred: the source handed to Start is a wrapper whose
// WriteControl calls the real one and then notes the state the source reports, inside the loop.

import (
	"encoding/base64"
	"fmt"
	"os"
	"path/filepath"
	"strings"
	"time"

	"gonum.org/v1/gonum/mat"

	"verif/simrt"
)

func init() {
	simrt.Register(&simrt.Check{Name: "C06b", Property: "C06", Body: c06bBody, Classify: classify,
		Real: []string{"Start/CoreLoop/ProcessSegments/Stop", "SourceControl.WriteControl, SetExperimentStateLabel, WriteComment, ConfigureProjectorsBasis, ConfigureTriggers (two or three concurrent callers)",
			"AnySource.WriteControl / writeControlStart / makeDirectory", "WritingState", "broadcastWritingState and the client-update channel", "DataPublisher + ljh/off writers + asyncbufio on real files"},
		Stub: []string{"hardware (ScriptedSource feeding harness-made blocks)", "ZMQ publishers and status publisher (sinks; the status sink records the messages in channel order)", "net/rpc transport (methods called directly from client tasks)",
			"faulted runs: a client task, or the status consumer, loses the CPU for a number of scheduler steps"}})
}

// c06bSource is the scripted source with an observation point in WriteControl (runs inside the data loop).
type c06bSource struct {
	*ScriptedSource
	w *c06bWorld
}

type c06bExec struct {
	client int
	req    string
	err    error
	state  *WritingState // what the source reports right after the request, inside the loop
}

type c06bMsg struct {
	state *WritingState
	hi    int // requests the loop had begun to execute when the message was received
}

type c06bReq struct {
	kind  string // "wc", "label", "comment"
	cfg   *WriteControlConfig
	text  string
	desc  string
	delay int
	arg   int
}

type c06bRec struct {
	frame int64
	free  bool          // emitted while requests were in flight
	told  *WritingState // quiescent records: what the clients had been told last
}

type c06bWorld struct {
	*pipeWorld
	src      *c06bSource
	exec     []c06bExec
	begun    int // WriteControl requests the loop has begun to execute (>= len(exec))
	msgs     []c06bMsg
	badMsg   string
	owner    map[*WriteControlConfig]int
	inflight int
	flying   []string // kinds of the WriteControl requests in flight
	stalls   int
}

func (d *c06bSource) WriteControl(config *WriteControlConfig) error {
	w := d.w
	w.begun++
	err := d.ScriptedSource.WriteControl(config)
	cl, known := w.owner[config]
	if !known {
		cl = -1
	}
	w.exec = append(w.exec, c06bExec{client: cl, req: config.Request, err: err, state: d.ScriptedSource.ComputeWritingState()})
	if known && w.env.Faulted() && w.stalls > 0 && w.inflight > 1 && simrt.Chance(1, 3) {
		// the requester loses the CPU at its next scheduling point: somewhere between the loop's answer
		// and whatever the RPC method does after it
		w.stalls--
		steps := 5 + simrt.DrawFault(120)
		w.env.Op("fault: client %d is not scheduled for %d steps from the execution of its %s on", cl, steps, config.Request)
		simrt.Stall(fmt.Sprintf("harness:c06b-client%d", cl), steps)
	}
	return err
}

func c06bSame(a, b *WritingState) bool {
	return a.Active == b.Active && a.Paused == b.Paused && a.BasePath == b.BasePath && a.FilenamePattern == b.FilenamePattern &&
		a.WriteLJH22 == b.WriteLJH22 && a.WriteLJH3 == b.WriteLJH3 && a.WriteOFF == b.WriteOFF
}

func c06bStr(s *WritingState) string {
	return fmt.Sprintf("{active=%v paused=%v ljh22=%v ljh3=%v off=%v pattern=%q}", s.Active, s.Paused, s.WriteLJH22, s.WriteLJH3, s.WriteOFF, filepath.Base(filepath.Dir(s.FilenamePattern)))
}

// start does for the wrapped scripted source what SourceControl.Start does for the built-in ones.
func (w *c06bWorld) start() error {
	s := w.sc
	s.ActiveSource = DataSource(w.src)
	s.status.SourceName = "Scripted"
	s.status.Running = true
	if err := Start(s.ActiveSource, s.queuedRequests, s.status.Npresamp, s.status.Nsamples); err != nil {
		s.status.Running = false
		s.isSourceActive = false
		return err
	}
	s.isSourceActive = true
	s.status.SamplePeriod = s.ActiveSource.SamplePeriod()
	s.status.Nchannels = s.ActiveSource.Nchan()
	s.status.ChanGroups = s.ActiveSource.ChanGroups()
	s.broadcastStatus()
	s.broadcastTriggerState()
	s.broadcastGroupTriggerState()
	s.broadcastChannelNames()
	return nil
}

// state k: what the source reported after the k-th executed WriteControl (0: before any).
func (w *c06bWorld) stateAt(k int, initial *WritingState) *WritingState {
	if k == 0 {
		return initial
	}
	return w.exec[k-1].state
}

func c06bBody(env *simrt.Env) {
	nchan := 1 + simrt.Draw(3)
	nsamp := []int{8, 16}[simrt.Draw(2)]
	npre := 3 + simrt.Draw(nsamp-4)
	rate := 10000.0
	w := &c06bWorld{pipeWorld: newPipeWorld(env, nchan, npre, nsamp, rate), owner: map[*WriteControlConfig]int{}}
	w.src = &c06bSource{ScriptedSource: w.ss, w: w}
	resetViper(env.Dir)
	w.ss.subframeDivisions = 1
	w.T0 = time.Now()
	total := 120 * 4 * nsamp
	w.stream = make([][]RawType, nchan)
	for c := 0; c < nchan; c++ {
		s := make([]RawType, total)
		for i := range s {
			s[i] = RawType(1000*(c+1) + i%97)
		}
		w.stream[c] = s
	}
	w.sk.onMsg = func(m msgObs) {
		if m.tag != "WRITING" {
			return
		}
		var st *WritingState
		switch v := m.state.(type) {
		case **WritingState:
			if v != nil {
				st = *v
			}
		case *WritingState:
			st = v
		case WritingState:
			st = &v
		}
		if st == nil {
			w.badMsg = fmt.Sprintf("%T", m.state)
			return
		}
		w.msgs = append(w.msgs, c06bMsg{state: st, hi: w.begun})
	}
	if err := w.start(); err != nil {
		simrt.Fail("harness.start", "harness:start", "Start failed: %v", err)
	}
	all := make([]int, nchan)
	for i := range all {
		all[i] = i
	}
	{
		ts := TriggerState{AutoTrigger: true, AutoDelay: time.Duration(float64(nsamp+simrt.Draw(nsamp)) / rate * float64(time.Second)), EdgeLevel: 100, EdgeRising: true}
		var ok bool
		if err := w.sc.ConfigureTriggers(&FullTriggerState{ChannelIndices: all, TriggerState: ts}, &ok); err != nil {
			simrt.Fail("harness.configure", "harness:configure", "%v", err)
		}
	}
	hasProj := make([]bool, nchan)
	for c := 0; c < nchan; c++ {
		if simrt.Draw(2) == 0 {
			continue
		}
		nb := 2
		proj, basis := make([]float64, nb*nsamp), make([]float64, nb*nsamp)
		for i := range proj {
			proj[i] = float64((i*7+c)%13) * 0.125
			basis[i] = float64((i*3+c)%11) - 5
		}
		pb, _ := mat.NewDense(nb, nsamp, proj).MarshalBinary()
		bb, _ := mat.NewDense(nsamp, nb, basis).MarshalBinary()
		var ok bool
		if err := w.sc.ConfigureProjectorsBasis(&ProjectorsBasisObject{ChannelIndex: c, ProjectorsBase64: base64.StdEncoding.EncodeToString(pb),
			BasisBase64: base64.StdEncoding.EncodeToString(bb), ModelDescription: "verif"}, &ok); err != nil {
			simrt.Fail("harness.projectors", "harness:projectors", "%v", err)
		}
		hasProj[c] = true
	}
	if env.Faulted() {
		w.stalls = 1 + simrt.DrawFault(4)
	}
	env.Op("two-client write-control world nchan=%d nsamp=%d npre=%d projectors=%v", nchan, nsamp, npre, hasProj)

	basePath := filepath.Join(env.Dir, "data")
	otherPath := filepath.Join(env.Dir, "data2")
	notADir := filepath.Join(env.Dir, "plainfile")
	os.WriteFile(notADir, []byte("x"), 0644)
	initial := w.ss.ComputeWritingState()
	recs := make([][]c06bRec, nchan) // per channel, in emission order
	recIdx := 0
	nFree, nQuiet := 0, 0

	told := func() *WritingState {
		if len(w.msgs) == 0 {
			return initial
		}
		return w.msgs[len(w.msgs)-1].state
	}
	take := func(free bool, t *WritingState) {
		for ; recIdx < len(w.sk.recs); recIdx++ {
			r := w.sk.recs[recIdx].rec
			recs[r.channelIndex] = append(recs[r.channelIndex], c06bRec{frame: int64(r.trigFrame), free: free, told: t})
			if free {
				nFree++
			} else {
				nQuiet++
			}
		}
	}
	feedOne := func() {
		w.feedBlock(nsamp+simrt.Draw(3*nsamp), nil)
		w.sync()
	}

	drawReq := func() *c06bReq {
		r := &c06bReq{kind: "wc", delay: simrt.Draw(5), arg: simrt.Draw(6)}
		switch k := simrt.Draw(16); {
		case k < 4:
			cfg := &WriteControlConfig{Request: []string{"START", "Start"}[simrt.Draw(2)]}
			m := []int{1, 1, 2, 4, 3, 5, 7, 0}[simrt.Draw(8)]
			cfg.WriteLJH22, cfg.WriteLJH3, cfg.WriteOFF = m&1 != 0, m&2 != 0, m&4 != 0
			switch simrt.Draw(8) {
			case 0:
				cfg.Path = "" // the path of the previous START, if there was one
			case 1:
				cfg.Path = filepath.Join(notADir, "sub")
			case 2:
				cfg.Path = otherPath
			default:
				cfg.Path = basePath
			}
			r.cfg = cfg
			r.desc = fmt.Sprintf("START ljh22=%v ljh3=%v off=%v path=%q", cfg.WriteLJH22, cfg.WriteLJH3, cfg.WriteOFF, strings.TrimPrefix(cfg.Path, env.Dir))
		case k < 6:
			r.cfg, r.desc = &WriteControlConfig{Request: "STOP"}, "STOP"
		case k < 9:
			r.cfg, r.desc = &WriteControlConfig{Request: []string{"PAUSE", "Pause"}[simrt.Draw(2)]}, "PAUSE"
		case k < 12:
			r.cfg, r.desc = &WriteControlConfig{Request: "UNPAUSE"}, "UNPAUSE"
		case k < 13:
			r.cfg = &WriteControlConfig{Request: "UNPAUSE " + []string{"A", "run 7"}[simrt.Draw(2)]}
			r.desc = r.cfg.Request
		case k < 14:
			r.cfg = &WriteControlConfig{Request: []string{"FOO", "UNPAUSEx", ""}[simrt.Draw(3)]}
			r.desc = fmt.Sprintf("malformed %q", r.cfg.Request)
		case k < 15:
			r.kind, r.text = "label", []string{"cal", "dark", "beam on"}[simrt.Draw(3)]
			r.desc = "label " + r.text
		default:
			r.kind, r.text = "comment", []string{"first comment", "second\n"}[simrt.Draw(2)]
			r.desc = "comment"
		}
		return r
	}

	// one client: its requests one after the other, each at a drawn moment
	client := func(id int, plan []*c06bReq, done chan struct{}) {
		for _, r := range plan {
			switch r.delay {
			case 1:
				for k := r.arg; k > 0; k-- {
					simrt.Gosched()
				}
			case 2:
				time.Sleep(time.Duration(10+90*r.arg) * time.Microsecond)
			case 3:
				// right after the loop has executed somebody's next request
				n0 := len(w.exec)
				for k := 0; k < 400 && len(w.exec) == n0 && w.inflight > 0; k++ {
					simrt.Gosched()
				}
			}
			var ok bool
			var err error
			if w.inflight > 0 {
				simrt.Hit("request-issued-while-another-is-in-flight")
			}
			w.inflight++
			switch r.kind {
			case "wc":
				up := strings.ToUpper(r.cfg.Request)
				for _, f := range w.flying {
					if f != up && (strings.HasPrefix(f, "PAUSE") || strings.HasPrefix(up, "PAUSE")) {
						simrt.Hit("pause-and-another-state-change-in-flight-together")
					}
				}
				w.flying = append(w.flying, up)
				w.owner[r.cfg] = id
				err = w.sc.WriteControl(r.cfg, &ok)
				for i, f := range w.flying {
					if f == up {
						w.flying = append(w.flying[:i], w.flying[i+1:]...)
						break
					}
				}
			case "label":
				err = w.sc.SetExperimentStateLabel(&StateLabelConfig{Label: r.text, WaitForError: true}, &ok)
			default:
				txt := r.text
				err = w.sc.WriteComment(&txt, &ok)
			}
			w.inflight--
			// (the sandbox path differs from process to process: keep it out of the run's identity)
			env.Op("client %d: %s -> %s", id, r.desc, strings.ReplaceAll(fmt.Sprint(err), env.Dir, "<sandbox>"))
			if err != nil {
				simrt.Hit("request-rejected")
			}
		}
		close(done)
	}

	checkedMsgs, lastIdx, msgF := 0, 0, 0
	quiesce := func(what string) {
		// every client is between requests; whatever the loop still had to send after answering goes out
		// before it takes the empty request, and the sink takes what is in the channel
		w.barrier()
		w.drain()
		if w.badMsg != "" {
			simrt.Fail("C06.status-message", "wc2:status-unreadable", "a WRITING message carries a %s, not a writing state", w.badMsg)
		}
		now := w.ss.ComputeWritingState()
		t := told()
		simrt.Hit("quiescence-checked")
		if now.Active && !now.Paused {
			simrt.Hit("quiescence-while-writing")
		} else if now.Active {
			simrt.Hit("quiescence-while-paused")
		}
		// rejected requests leave the state alone (decided on the loop's own sequence)
		for k := lastIdx; k < len(w.exec); k++ {
			if e := w.exec[k]; e.err != nil && !c06bSame(e.state, w.stateAt(k, initial)) {
				simrt.Fail("C06.rejected-request", "wc2:rejected-request-changed-state", "client %d's request %q was rejected (%v) but the state the source reports changed from %s to %s", e.client, e.req, e.err, c06bStr(w.stateAt(k, initial)), c06bStr(e.state))
			}
		}
		lastIdx = len(w.exec)
		// (a) what all clients believe now
		if !c06bSame(t, now) {
			hist := w.history(initial, 8)
			if len(w.msgs) == 0 {
				simrt.Fail("C06.last-status", "wc2:state-changed-without-status", "%s: all clients are between requests and no WRITING message was ever published, but the source reports %s (before the requests: %s). %s", what, c06bStr(now), c06bStr(initial), hist)
			}
			simrt.Fail("C06.last-status", "wc2:last-status-differs", "%s: all clients are between requests and the status channel has drained; the last WRITING message every client holds says %s but the source reports %s. %s", what, c06bStr(t), c06bStr(now), hist)
		}
		// (b) the messages are reports of the loop's states, in the loop's order
		f := msgF
		for j := checkedMsgs; j < len(w.msgs); j++ {
			m := w.msgs[j]
			k := f
			for k <= m.hi && k <= len(w.exec) && !c06bSame(m.state, w.stateAt(k, initial)) {
				k++
			}
			if k > m.hi || k > len(w.exec) {
				simrt.Fail("C06.status-order", "wc2:status-out-of-order", "WRITING message %d says %s; the previous message reported the state after executed request %d, and the loop had begun %d requests when this one was received: none of the states %d..%d is that. %s", j+1, c06bStr(m.state), f, m.hi, f, m.hi, w.history(initial, 10))
			}
			f = k
		}
		msgF = f
		checkedMsgs = len(w.msgs)
	}

	nrounds := 5 + simrt.Draw(8)
	for round := 0; round < nrounds; round++ {
		nclients := []int{1, 2, 2, 2, 3, 3}[simrt.Draw(6)]
		plans := make([][]*c06bReq, nclients)
		for i := range plans {
			n := 1 + simrt.Draw(3)
			for k := 0; k < n; k++ {
				plans[i] = append(plans[i], drawReq())
			}
		}
		if simrt.Draw(4) == 0 && nclients >= 2 {
			// the sharpest case, often: both clients change the pause flag at the same time
			plans[0][0] = &c06bReq{kind: "wc", cfg: &WriteControlConfig{Request: "PAUSE"}, desc: "PAUSE"}
			plans[1][0] = &c06bReq{kind: "wc", cfg: &WriteControlConfig{Request: "UNPAUSE"}, desc: "UNPAUSE", delay: simrt.Draw(4), arg: simrt.Draw(6)}
		}
		nfeed := []int{0, 0, 1, 2}[simrt.Draw(4)]
		if env.Faulted() && w.stalls > 0 && simrt.Chance(1, 5) {
			w.stalls--
			steps := 20 + simrt.DrawFault(200)
			env.Op("fault: the status consumer is not scheduled for %d steps", steps)
			simrt.Stall("harness:sink-status", steps)
		}
		dones := make([]chan struct{}, nclients)
		for i := range plans {
			i := i
			dones[i] = make(chan struct{})
			simrt.GoHarness(fmt.Sprintf("c06b-client%d", i), func() { client(i, plans[i], dones[i]) })
		}
		if nclients > 1 {
			simrt.Hit("round-with-concurrent-clients")
		}
		for b := 0; b < nfeed; b++ {
			feedOne() // blocks are processed between the requests
		}
		for i := range dones {
			<-dones[i]
		}
		quiesce(fmt.Sprintf("round %d", round))
		take(true, nil)
		// a quiet stretch: the records emitted now go where the clients have been told they go
		nq := simrt.Draw(3)
		t := told()
		for b := 0; b < nq; b++ {
			feedOne()
		}
		w.drain()
		take(false, t)
		if simrt.Draw(8) == 0 {
			time.Sleep(1100 * time.Millisecond)
		}
	}
	// end: stop writing (one client), then every file is closed and complete
	if told().Active {
		var ok bool
		cfg := &WriteControlConfig{Request: "STOP"}
		w.owner[cfg] = 0
		err := w.sc.WriteControl(cfg, &ok)
		env.Op("final STOP -> %s", strings.ReplaceAll(fmt.Sprint(err), env.Dir, "<sandbox>"))
		quiesce("after the final STOP")
		if err != nil || told().Active {
			simrt.Fail("C06.stop-state", "wc2:stop-refused-while-active", "a single client's STOP while the reported state was active returned %v and left the reported state %s", err, c06bStr(told()))
		}
	}
	w.checkFiles(initial, recs, hasProj)
	w.stop()
	env.Sample(map[string]interface{}{"channels": nchan, "rounds": nrounds, "requests_executed": len(w.exec), "writing_messages": len(w.msgs), "records_in_quiet_stretches": nQuiet, "records_while_requests_in_flight": nFree})
}

// history renders the last n executed requests and the last n WRITING messages.
func (w *c06bWorld) history(initial *WritingState, n int) string {
	var sb strings.Builder
	sb.WriteString("Executed by the loop, in order: ")
	from := len(w.exec) - n
	if from < 0 {
		from = 0
	}
	for k := from; k < len(w.exec); k++ {
		e := w.exec[k]
		fmt.Fprintf(&sb, "[%d] client %d %q -> %v, state %s; ", k+1, e.client, e.req, e.err, c06bStr(e.state))
	}
	sb.WriteString("WRITING messages, in order of publication: ")
	from = len(w.msgs) - n
	if from < 0 {
		from = 0
	}
	for j := from; j < len(w.msgs); j++ {
		fmt.Fprintf(&sb, "[%d] %s (received when the loop had begun %d requests); ", j+1, c06bStr(w.msgs[j].state), w.msgs[j].hi)
	}
	return sb.String()
}

// checkFiles: all writing has stopped. For every run directory any state ever named, every channel and
// every type: the file holds, in order, the records of the quiet stretches during which the clients had
// been told "active, not paused, this pattern, this type", and otherwise only records emitted while
// requests were in flight.
func (w *c06bWorld) checkFiles(initial *WritingState, recs [][]c06bRec, hasProj []bool) {
	var patterns []string
	seen := map[string]bool{}
	add := func(s *WritingState) {
		if s != nil && s.FilenamePattern != "" && !seen[s.FilenamePattern] {
			seen[s.FilenamePattern] = true
			patterns = append(patterns, s.FilenamePattern)
		}
	}
	for _, e := range w.exec {
		add(e.state)
	}
	for _, m := range w.msgs {
		add(m.state)
	}
	for _, pat := range patterns {
		if strings.Count(pat, "%s") != 2 {
			simrt.Fail("C06.pattern", "wc2:bad-pattern", "reported file pattern %q does not take a channel name and an extension", pat)
		}
		for c := 0; c < w.nchan; c++ {
			for t, ext := range []string{"ljh", "ljh3", "off"} {
				var must []int64
				free := map[int64]bool{}
				for _, r := range recs[c] {
					if r.free {
						free[r.frame] = true
						continue
					}
					s := r.told
					on := []bool{s.WriteLJH22, s.WriteLJH3, s.WriteOFF && hasProj[c]}[t]
					if s.Active && !s.Paused && s.FilenamePattern == pat && on {
						must = append(must, r.frame)
					}
				}
				path := fmt.Sprintf(pat, w.ss.chanNames[c], ext)
				b, err := os.ReadFile(path)
				if err != nil {
					if len(must) > 0 {
						simrt.Fail("C06.records-stored", "wc2:file-missing:"+ext, "channel %d: %d records were emitted while all clients had been told active, unpaused, %s enabled, pattern %s — but %s does not exist", c, len(must), ext, filepath.Base(filepath.Dir(pat)), filepath.Base(path))
					}
					continue
				}
				frames, perr := c06bFrames(t, b)
				if perr != nil {
					simrt.Fail("C06.parse", "wc2:unparsable:"+ext, "channel %d: %s does not parse after the final STOP: %v", c, filepath.Base(path), perr)
				}
				i := 0
				for _, f := range frames {
					if t == 0 {
						f = (f - int64(w.ss.subframeOffsets[c])) / int64(w.ss.subframeDivisions)
					}
					switch {
					case i < len(must) && must[i] == f:
						i++
					case free[f]:
					default:
						simrt.Fail("C06.records-stored", "wc2:record-stored-against-status:"+ext, "channel %d %s in %s: the file holds the record with frame %d, which was emitted in a quiet stretch while the last WRITING message did not say active, unpaused, %s enabled with this pattern (or it is out of order)", c, ext, filepath.Base(filepath.Dir(pat)), f, ext)
					}
				}
				if i < len(must) {
					simrt.Fail("C06.records-stored", "wc2:record-missing-against-status:"+ext, "channel %d %s in %s: the file holds %d of the %d records emitted in quiet stretches while the last WRITING message said active, unpaused, %s enabled with this pattern (first missing frame %d)", c, ext, filepath.Base(filepath.Dir(pat)), i, len(must), ext, must[i])
				}
				if len(must) > 0 {
					simrt.Hit("file-checked-against-status-messages")
				}
			}
		}
	}
}

func c06bFrames(t int, b []byte) ([]int64, error) {
	var out []int64
	switch t {
	case 0:
		f, err := decodeLJH22(b)
		if err != nil {
			return nil, err
		}
		if f.trail != 0 {
			return nil, fmt.Errorf("%d trailing bytes after the last whole record", f.trail)
		}
		for _, r := range f.recs {
			out = append(out, r.subframe)
		}
	case 1:
		f, err := decodeLJH3(b)
		if err != nil {
			return nil, err
		}
		if f.trail != 0 {
			return nil, fmt.Errorf("%d trailing bytes after the last whole record", f.trail)
		}
		for _, r := range f.recs {
			out = append(out, r.frame)
		}
	default:
		f, err := decodeOFF(b)
		if err != nil {
			return nil, err
		}
		if f.trail != 0 {
			return nil, fmt.Errorf("%d trailing bytes after the last whole record", f.trail)
		}
		for _, r := range f.recs {
			out = append(out, r.frame)
		}
	}
	return out, nil
}
