//go:build verif

package dastard

// C03 — Abaco ingest: exact demultiplexing, gap filling, contiguous frames (DESIGN §5).
//
// Oracle (written from the property statement; the reference is the harness's own record of
// what each group sent and what reached the source):
//
//	reference(g)[i]  = the frames of packet i if the source received it ("real slot": handed
//	                   over by ReadAllPackets in the run phase, or by samplePackets during
//	                   start-up), else a filler slot of the same frame count (lost, or
//	                   discarded before the run). Fillers stand for lost packets only: a
//	                   packet that start-up sampling consumed was not lost, so the output
//	                   either starts after it or shows its samples
//	                   (content:filler-for-packet-not-lost).
//	g0               = packet index of the first slot emitted; one value for all groups;
//	                   g0 <= S, S = first index for which every group has a slot after
//	                   start-up (= 1 + the largest index any group handed to Sample()); only
//	                   such values are tried, so an output that starts later fails C03.content.
//
//	C03.block-shape        every block has one segment per channel, all of one length > 0
//	C03.frames-contiguous  all segments of a block carry the same firstFrameIndex and
//	                       first_{k+1} = first_k + len_k
//	C03.content            per channel, the concatenation of the blocks equals the reference
//	                       from g0 on: real slots bit-identical (32-bit payloads reduced to
//	                       their upper 16 bits), filler slots by count only
//	C03.aligned            the same g0 fits every group (the i-th emitted slot of every group
//	                       is packet g0+i)
//	C03.dropped-count      Σ droppedFrames over all blocks == Σ frames of filler slots emitted
//	                       (summed over groups, as the source reports them); fillers of the
//	                       unavoidable start-up prefix (before g0) may or may not be counted
//	C03.sample-count       at the end every channel got (last index − g0 + 1)·frames frames
//	C03.liveness           once the fault window is over, a packet handed to the source is
//	                       emitted within 1 s (simulated) + 1500 scheduler steps' worth of
//	                       virtual CPU time (with the rare 2 ms/step setting the simulated
//	                       machine needs more than a reader period per read cycle)
//
// g0 is not known a priori (the first slots may be fillers): the oracle keeps, per group,
// the set of values of g0 that are consistent with everything emitted so far.

import (
	"fmt"
	"time"

	"verif/simrt"
)

func init() {
	real := []string{"AbacoSource: Sample, PrepareChannels, PrepareRun, StartRun, readerMainLoop, fillMissingPackets, trimPacketsBefore, demuxData, getNextBlock, distributeData", "AbacoGroup / PhaseUnwrapper", "packets: NewPacket, SetTimestamp, NewData, Bytes, ReadPacket, MakePretendPacket"}
	stub := []string{"UDP receiver (scripted PacketProducer over a simulated network: latency, lag, loss)", "core loop (the harness performs the steps of Start() and takes raw blocks from getNextBlock())", "ring-buffer transport is not part of this world"}
	simrt.Register(&simrt.Check{Name: "C03", Property: "C03", Body: c03Body, Classify: c03Classify, MaxSteps: 120000, Real: real, Stub: stub})
}

// c03Oracle follows the emitted stream. cmp decides whether an emitted value is an
// acceptable image of a real slot's value (exact for C03, modulo the quantum for C12).
type c03Oracle struct {
	w        *abacoSimWorld
	rule     string // "C03" or "C12"
	cmp      func(g *abacoSimGroup, ch, frame int, got RawType) bool
	S        int
	cands    [][]int // per group: values of g0 still consistent
	emitted  int     // frames emitted per channel so far
	blocks   int
	haveNext bool
	next     FrameIndex
	dropped  int
	lens     []int // block lengths (C12: the batches each unwrapper saw)
	out      [][]RawType
	keepOut  bool
	held     []c03Held // every block received, with a checksum taken at reception
}

// c03Held remembers a block: data handed to the consumer must not change afterwards (the
// processors read it long after the reader has moved on).
type c03Held struct {
	b   *dataBlock
	sum uint64
}

func c03Sum(b *dataBlock) uint64 {
	h := uint64(14695981039346656037)
	for i := range b.segments {
		for _, v := range b.segments[i].rawData {
			h = (h ^ uint64(v)) * 1099511628211
		}
		h = (h ^ uint64(len(b.segments[i].rawData))) * 1099511628211
	}
	return h
}

// verifyHeld: no block has changed since it was received.
func (o *c03Oracle) verifyHeld() {
	for k, h := range o.held {
		if c03Sum(h.b) != h.sum {
			o.fail("content", "content:block-changed-after-emission", "block %d of the run (of %d) no longer holds the samples it held when the consumer received it: its buffer was written again", k, len(o.held))
		}
	}
}

func newC03Oracle(w *abacoSimWorld, rule string) *c03Oracle {
	o := &c03Oracle{w: w, rule: rule}
	for _, g := range w.groups {
		if g.lastSampled+1 > o.S {
			o.S = g.lastSampled + 1
		}
	}
	o.cands = make([][]int, len(w.groups))
	for i := range o.cands {
		for c := 0; c <= o.S && c < w.npackets; c++ {
			o.cands[i] = append(o.cands[i], c)
		}
	}
	o.cmp = func(g *abacoSimGroup, ch, frame int, got RawType) bool {
		v, alt := w.demuxed(g, ch, frame)
		return got == v || got == alt
	}
	return o
}

func (o *c03Oracle) real(g *abacoSimGroup, idx int) bool {
	return idx >= 0 && idx < o.w.npackets && (g.fate[idx] == abacoSimDelivered || g.fate[idx] == abacoSimSampled)
}

// filler: a slot of the reference that stands for a lost (or discarded) packet.
func (o *c03Oracle) filler(g *abacoSimGroup, idx int) bool {
	return g.fate[idx] != abacoSimDelivered && g.fate[idx] != abacoSimSampled
}

// fits reports whether the block is consistent with g0 = c for group g; if not, the first
// offending position. sampledAsFiller (diagnosis only) reads the slots of packets that start-up
// sampling consumed as filler slots.
func (o *c03Oracle) fits(g *abacoSimGroup, b *dataBlock, c int, sampledAsFiller bool) (ok bool, pos, idx, ch int) {
	w := o.w
	L := len(b.segments[0].rawData)
	for j := 0; j < L; j++ {
		f := c*w.fpp + o.emitted + j // reference frame number
		idx := f / w.fpp
		if idx >= w.npackets {
			return false, j, idx, 0
		}
		if g.fate[idx] == abacoSimNone {
			// a slot (even a filler) for a packet that has not reached the source and is
			// not known to be lost cannot have been emitted
			return false, j, idx, -1
		}
		if g.fate[idx] != abacoSimDelivered && (g.fate[idx] != abacoSimSampled || sampledAsFiller) {
			continue
		}
		for ch := 0; ch < g.nchan; ch++ {
			if !o.cmp(g, ch, f, b.segments[g.chanOff+ch].rawData[j]) {
				return false, j, idx, ch
			}
		}
	}
	return true, 0, 0, 0
}

// showsDelivered: with g0 = c, do the next n frames include a packet of the run phase? (Only then
// does a fit that reads sampled packets' slots as fillers say anything.)
func (o *c03Oracle) showsDelivered(g *abacoSimGroup, c, n int) bool {
	w := o.w
	for j := 0; j < n; j++ {
		if idx := (c*w.fpp + o.emitted + j) / w.fpp; idx < w.npackets && g.fate[idx] == abacoSimDelivered {
			return true
		}
	}
	return false
}

// chunkIs reports whether the block, from position pos to the end of that packet's worth
// of frames, shows real packet idx of group g.
func (o *c03Oracle) chunkIs(g *abacoSimGroup, b *dataBlock, pos, k, idx int) bool {
	w := o.w
	if !o.real(g, idx) {
		return false
	}
	L := len(b.segments[0].rawData)
	n := 0
	for ; k < w.fpp && pos < L; k, pos = k+1, pos+1 {
		for ch := 0; ch < g.nchan; ch++ {
			if !o.cmp(g, ch, idx*w.fpp+k, b.segments[g.chanOff+ch].rawData[pos]) {
				return false
			}
			n++
		}
	}
	return n > 0
}

// explain classifies a content mismatch of group g under g0 = c at block position pos.
func (o *c03Oracle) explain(g *abacoSimGroup, b *dataBlock, c, pos, idx, ch int) (sig, text string) {
	w := o.w
	f := c*w.fpp + o.emitted + pos
	k := f % w.fpp
	if idx >= w.npackets {
		return "content:more-frames-than-sent", fmt.Sprintf("group %d: output continues beyond the last packet sent (index %d)", g.ord, w.npackets-1)
	}
	if ch < 0 {
		return "content:more-frames-than-received", fmt.Sprintf("group %d block %d position %d: the output is longer than everything received so far (this position would be packet %d, which has not reached the source)", g.ord, o.blocks, pos, idx)
	}
	got := b.segments[g.chanOff+ch].rawData[pos]
	want, _ := w.demuxed(g, ch, f)
	base := fmt.Sprintf("group %d (channels %d..%d) block %d position %d channel %d: expected frame %d of packet %d (arrived) = 0x%04x, got 0x%04x",
		g.ord, g.firstChan, g.firstChan+g.nchan-1, o.blocks, pos, g.firstChan+ch, k, idx, want, got)
	for d := 1; d <= 40; d++ {
		if o.chunkIs(g, b, pos, k, idx+d) {
			lostReal := 0
			for i := idx; i < idx+d; i++ {
				if o.real(g, i) {
					lostReal++
				}
			}
			nf := 0
			for i := idx - 1; i >= 0 && !o.real(g, i); i-- {
				nf++
			}
			if lostReal == d && nf > 0 {
				return "content:too-few-fillers", base + fmt.Sprintf("; the output shows packet %d here: the stream is %d packet(s) short, and the %d lost packet(s) just before were not all filled in", idx+d, d, nf)
			}
			return "content:arrived-packet-missing", base + fmt.Sprintf("; the output shows packet %d here: %d slot(s) are missing from the stream (%d of them packets that arrived)", idx+d, d, lostReal)
		}
		if o.chunkIs(g, b, pos, k, idx-d) {
			return "content:extra-or-repeated-frames", base + fmt.Sprintf("; the output shows packet %d here: %d slot(s) too many were emitted before", idx-d, d)
		}
	}
	// the right packet but another channel / frame?
	for c2 := 0; c2 < g.nchan; c2++ {
		for k2 := 0; k2 < w.fpp; k2++ {
			if (c2 != ch || k2 != k) && o.cmp(g, c2, idx*w.fpp+k2, got) {
				return "content:wrong-sample-of-packet", base + fmt.Sprintf("; that is channel %d frame %d of the same packet (de-interleaving)", g.firstChan+c2, k2)
			}
		}
	}
	return "content:wrong-values", base
}

func (o *c03Oracle) fail(rule, sig, format string, args ...interface{}) {
	simrt.Fail(o.rule+"."+rule, sig, format, args...)
}

func (o *c03Oracle) onBlock(b *dataBlock) {
	w := o.w
	// ---- shape
	if len(b.segments) != w.nchan {
		o.fail("block-shape", "shape:channel-count", "block %d has %d segments, the source has %d channels", o.blocks, len(b.segments), w.nchan)
	}
	L := len(b.segments[0].rawData)
	for i := range b.segments {
		if len(b.segments[i].rawData) != L {
			o.fail("block-shape", "shape:unequal-lengths", "block %d: channel 0 has %d samples, channel %d has %d", o.blocks, L, i, len(b.segments[i].rawData))
		}
	}
	if L == 0 {
		o.fail("block-shape", "shape:empty-block", "block %d is empty", o.blocks)
	}
	// ---- frame numbers
	first := b.segments[0].firstFrameIndex
	drop := b.segments[0].droppedFrames
	for i := range b.segments {
		if b.segments[i].firstFrameIndex != first {
			o.fail("frames-contiguous", "frames:segments-disagree", "block %d: firstFrameIndex %d on channel 0, %d on channel %d", o.blocks, first, b.segments[i].firstFrameIndex, i)
		}
		if b.segments[i].droppedFrames != drop {
			o.fail("dropped-count", "dropped:segments-disagree", "block %d: droppedFrames %d on channel 0, %d on channel %d", o.blocks, drop, b.segments[i].droppedFrames, i)
		}
	}
	if o.haveNext && first != o.next {
		o.fail("frames-contiguous", "frames:not-contiguous", "block %d starts at frame %d, the previous block ended at %d", o.blocks, first, o.next)
	}
	o.haveNext = true
	o.next = first + FrameIndex(L)
	if drop < 0 {
		o.fail("dropped-count", "dropped:negative", "block %d reports %d dropped frames", o.blocks, drop)
	}
	o.dropped += drop
	// ---- content, per group
	for gi, g := range w.groups {
		var keep []int
		type miss struct{ c, pos, idx, ch int }
		var lastMiss *miss
		for _, c := range o.cands[gi] {
			ok, pos, idx, ch := o.fits(g, b, c, false)
			if ok {
				keep = append(keep, c)
			} else if lastMiss == nil || c <= o.S {
				lastMiss = &miss{c, pos, idx, ch}
			}
		}
		if len(keep) == 0 {
			// filler frames where a packet consumed by start-up sampling would be?
			for ci := len(o.cands[gi]) - 1; ci >= 0; ci-- {
				c := o.cands[gi][ci]
				if ok, _, _, _ := o.fits(g, b, c, true); ok && o.showsDelivered(g, c, L) {
					_, pos, idx, _ := o.fits(g, b, c, false)
					o.fail("content", "content:filler-for-packet-not-lost", "group %d (channels %d..%d) block %d position %d: the output fits the stream from packet %d on only if packet %d is a filler slot, but that packet was not lost: start-up sampling received it (the group's packets 0..%d were sampled, its first packet of the run phase is %d); %d frames emitted before this block of %d; candidates before this block %v",
						g.ord, g.firstChan, g.firstChan+g.nchan-1, o.blocks, pos, c, idx, g.lastSampled, g.firstRun, o.emitted, L, o.cands[gi])
				}
			}
			// report against the most plausible start: the single candidate that had
			// survived so far, else the latest admissible one
			m := lastMiss
			sig, text := o.explain(g, b, m.c, m.pos, m.idx, m.ch)
			o.fail("content", sig, "%s (taking packet %d as the first one emitted; %d frames emitted before this block of %d; candidates before this block %v)", text, m.c, o.emitted, L, o.cands[gi])
		}
		o.cands[gi] = keep
	}
	if len(o.common()) == 0 {
		o.fail("aligned", "aligned:groups-start-differently", "after block %d no first packet index fits all groups: per group the consistent values are %v", o.blocks, o.cands)
	}
	if o.keepOut {
		if o.out == nil {
			o.out = make([][]RawType, w.nchan)
		}
		for i := range b.segments {
			o.out[i] = append(o.out[i], b.segments[i].rawData...)
		}
	}
	if abacoSimDebug {
		fmt.Printf("DBG %v block %d len %d first %d dropped %d emittedBefore %d cands %v queues %v\n", time.Since(w.t0), o.blocks, L, first, drop, o.emitted, o.cands, o.queueLens())
	}
	o.held = append(o.held, c03Held{b, c03Sum(b)})
	o.lens = append(o.lens, L)
	o.emitted += L
	o.blocks++
	o.checkLive("")
}

// common returns the values of g0 consistent with all groups, ascending.
func (o *c03Oracle) common() []int {
	var out []int
	for _, c := range o.cands[0] {
		all := true
		for gi := 1; gi < len(o.cands); gi++ {
			found := false
			for _, c2 := range o.cands[gi] {
				if c2 == c {
					found = true
				}
			}
			all = all && found
		}
		if all {
			out = append(out, c)
		}
	}
	return out
}

// checkLive: after the fault window, every packet handed to the source at least 1 s ago
// has been emitted. With g0 ambiguous the largest consistent value is used (lenient).
func (o *c03Oracle) checkLive(when string) {
	w := o.w
	if !w.quiet {
		return
	}
	cs := o.common()
	g0 := o.S
	if o.blocks > 0 && len(cs) > 0 {
		g0 = cs[len(cs)-1]
	}
	now := time.Now()
	for _, g := range w.groups {
		for idx := g0; idx < w.npackets; idx++ {
			if g.fate[idx] != abacoSimDelivered || g.delivAt[idx].Before(w.quietAt) {
				continue
			}
			if now.Sub(g.delivAt[idx]) <= o.liveBound() {
				break
			}
			if (idx-g0+1)*w.fpp > o.emitted {
				o.fail("liveness", "liveness:arrived-not-emitted", "%sgroup %d packet %d reached the source %v ago (after the last fault) and has not been emitted; %d frames emitted in %d blocks, first emitted packet %d; queue lengths %v; virtual CPU per step %v, bound %v",
					when, g.ord, idx, now.Sub(g.delivAt[idx]), o.emitted, o.blocks, g0, o.queueLens(), o.w.delta, o.liveBound())
			}
		}
	}
}

// liveBound is the liveness bound: 1 s plus the virtual CPU time of 1500 scheduler steps,
// at most 4 s (the source's own watchdogs fire after 5 s without data).
func (o *c03Oracle) liveBound() time.Duration {
	if o.w.delta > 200*time.Microsecond {
		// With milliseconds of virtual CPU per scheduling step one read cycle of a many-channel source
		// costs more simulated time than a reader tick: the simulated machine is saturated and falls
		// behind without bound. Latency means nothing there (the property states none); the content,
		// alignment and numbering rules still apply to everything that comes out.
		return time.Hour
	}
	b := time.Second + 1500*o.w.delta
	if b > 4*time.Second {
		b = 4 * time.Second
	}
	return b
}

func (o *c03Oracle) queueLens() []int {
	var out []int
	for _, g := range o.w.groups {
		n := -1
		if grp := o.w.as.groups[g.index()]; grp != nil {
			n = len(grp.queue)
		}
		out = append(out, n)
	}
	return out
}

// finalChecks runs after the stream ended and everything had a second to come out.
func (o *c03Oracle) finalChecks() (g0 int) {
	w := o.w
	o.verifyHeld()
	cs := o.common()
	if o.blocks == 0 || len(cs) == 0 {
		o.fail("liveness", "liveness:nothing-emitted", "no block was emitted although %d packets reached the source", w.nDelivered)
	}
	// the sample count pins g0 down even if the candidates are still ambiguous
	g0 = -1
	for _, c := range cs {
		if (w.npackets-c)*w.fpp == o.emitted {
			g0 = c
		}
	}
	if g0 < 0 {
		c := cs[len(cs)-1]
		want := (w.npackets - c) * w.fpp
		sig := "count:frames-missing-at-end"
		if o.emitted > want {
			sig = "count:too-many-frames"
		}
		o.fail("sample-count", sig, "every group's last packet (index %d) reached the source, the output starts at packet %v, so each channel must have got %d frames; it got %d (queue lengths %v)", w.npackets-1, cs, want, o.emitted, o.queueLens())
	}
	fill, slack := 0, 0
	for _, g := range w.groups {
		for idx := g0; idx < w.npackets; idx++ {
			if o.filler(g, idx) {
				fill += w.fpp
			}
		}
		for idx := g.lastSampled + 1; idx < g0; idx++ {
			if g.fate[idx] != abacoSimDelivered {
				slack += w.fpp
			}
		}
	}
	if fill > 0 {
		simrt.Hit("filler-emitted")
	}
	if o.dropped < fill {
		o.fail("dropped-count", "dropped:under-reported", "the blocks report %d dropped frames in total, but %d filler frames were emitted (summed over groups; first emitted packet %d)", o.dropped, fill, g0)
	}
	if o.dropped > fill+slack {
		o.fail("dropped-count", "dropped:over-reported", "the blocks report %d dropped frames in total, but only %d filler frames were emitted (+%d in the start-up prefix before packet %d)", o.dropped, fill, slack, g0)
	}
	return g0
}

// truncatedChecks are the end-of-run checks of a run that the client stopped in mid-stream:
// what was emitted is a prefix of the reference (checked block by block), nothing needs to
// have come out yet, and the dropped-frame total must be explainable: at least the fillers
// emitted, at most those plus the fillers that can still sit in the queues (plus the start-up
// prefix, as in finalChecks). Returns a consistent first packet index (-1: nothing emitted).
func (o *c03Oracle) truncatedChecks() int {
	w := o.w
	o.verifyHeld()
	if o.blocks == 0 {
		return -1
	}
	cs := o.common()
	lo, hi := o.emitted/w.fpp, (o.emitted+w.fpp-1)/w.fpp
	ok := false
	var tried []string
	for _, c := range cs {
		fillLo, fillHi, slack, later := 0, 0, 0, 0
		for _, g := range w.groups {
			for idx := c; idx < c+hi && idx < w.npackets; idx++ {
				if o.filler(g, idx) {
					fillHi += w.fpp
					if idx < c+lo {
						fillLo += w.fpp
					}
				}
			}
			for idx := c + hi; idx < g.nextIdx; idx++ {
				if g.fate[idx] != abacoSimDelivered {
					later += w.fpp
				}
			}
			for idx := g.lastSampled + 1; idx < c; idx++ {
				if g.fate[idx] != abacoSimDelivered {
					slack += w.fpp
				}
			}
		}
		tried = append(tried, fmt.Sprintf("start %d: %d..%d emitted, +%d start-up, +%d still queued", c, fillLo, fillHi, slack, later))
		if o.dropped >= fillLo && o.dropped <= fillHi+slack+later {
			ok = true
		}
	}
	if !ok {
		o.fail("dropped-count", "dropped:inconsistent-at-stop", "the run was stopped in mid-stream; the blocks report %d dropped frames in total, which fits no reading of the filler frames (%v)", o.dropped, tried)
	}
	return cs[len(cs)-1]
}

// abacoSimRun drives one run: start, pump until the stream has ended and one more second
// has passed (or until the drawn moment of an early Stop), final checks.
func abacoSimRun(w *abacoSimWorld, o *c03Oracle) (g0 int) {
	limit := time.Duration(w.npackets)*w.period + 12*time.Second + 40000*w.delta
	began := time.Now()
	selfEnded := w.pump(o.onBlock, func() bool {
		o.checkLive("")
		settle := o.liveBound()
		if cap := 4 * time.Second; settle > cap { // the source's own watchdogs fire after 5 s without data
			settle = cap
		}
		if w.allArrived() && time.Since(w.lastDeliv) > settle+100*time.Millisecond {
			return true
		}
		if w.stopEarly && !w.stopInRead && w.minNextIdx() >= w.stopAt {
			simrt.Hit("stop-between-ticks-in-mid-stream")
			return true
		}
		if time.Since(began) > limit {
			return true
		}
		return false
	})
	if selfEnded {
		o.fail("liveness", "liveness:source-ended-by-itself", "the source closed its block channel %v after the start although packets kept arriving (at most %v apart); %d blocks, %d frames emitted", time.Since(began), 7*abacoSimTick+900*time.Millisecond, o.blocks, o.emitted)
	}
	if w.stopEarly {
		o.checkLive("at the early stop: ")
		return o.truncatedChecks()
	}
	if !w.allArrived() {
		o.fail("liveness", "liveness:reader-stopped-reading", "the reader did not read all packets within %v: next packet indices %d of %d", limit, w.minNextIdx(), w.npackets)
	}
	o.checkLive("at the end: ")
	return o.finalChecks()
}

// c03DrawStop draws how the client ends the run: after the stream (full end-of-run checks)
// or in mid-stream, from a task that runs while the reader is inside a tick or between ticks.
func c03DrawStop(w *abacoSimWorld) {
	if simrt.Draw(3) != 2 {
		return
	}
	lo := 2
	for _, g := range w.groups {
		if g.kSample+2 > lo {
			lo = g.kSample + 2
		}
	}
	if lo >= w.npackets {
		return
	}
	w.stopEarly = true
	w.stopAt = lo + simrt.Draw(w.npackets-lo)
	w.stopInRead = simrt.Draw(2) == 1
}

func c03Body(env *simrt.Env) {
	w := newAbacoSimWorld(env, "C03")
	for {
		if w.faulted {
			w.drawFaults(true)
		}
		c03DrawStop(w)
		env.Op("%s", w.describe())
		mixed16, mixed32 := false, false
		for _, g := range w.groups {
			mixed16 = mixed16 || !g.wide
			mixed32 = mixed32 || g.wide
		}
		if mixed16 && mixed32 {
			simrt.Hit("int16-and-int32-groups")
		}
		w.startSource(AbacoUnwrapOptions{})
		o := newC03Oracle(w, "C03")
		g0 := abacoSimRun(w, o)
		gap := 0
		for _, g := range w.groups {
			for idx := g0; g0 >= 0 && idx < w.npackets && g.fate[idx] != abacoSimDelivered && g.fate[idx] != abacoSimNone; idx++ {
				gap++
			}
		}
		if gap > 0 {
			simrt.Hit("startup-gap-filled")
		}
		if !w.faulted && w.nLost > 0 {
			simrt.Fail("harness.nominal", "harness:loss-in-nominal", "packets were lost in a nominal run")
		}
		env.Sample(map[string]interface{}{"groups": len(w.groups), "channels": w.nchan, "frames_per_packet": w.fpp, "packets_per_group": w.npackets,
			"period_ms": int(w.period / time.Millisecond), "lost": w.nLost, "delivered": w.nDelivered, "blocks": o.blocks, "frames_out": o.emitted,
			"first_emitted_packet": g0, "dropped_reported": o.dropped, "read_ticks": w.ticksSeen, "run_of_history": fmt.Sprintf("%d/%d", w.runNo+1, w.histLen), "stopped_in_mid_stream": w.stopEarly})
		if w.runNo+1 >= w.histLen {
			return
		}
		// the client reconfigures and starts the same source object again, at once or after a while
		time.Sleep(time.Duration(simrt.Draw(4)) * 70 * time.Millisecond)
		w = w.nextRun()
	}
}
