//go:build verif

package dastard

// C10: source life cycle — start/stop always completes, cleans up, and is repeatable.
// Real SourceControl with its real sources (Triangle, SimPulse, Erroring) plus the
// scripted source for self-termination faults; concurrent Stop callers released at
// drawn scheduler steps; task census after every stop.

import (
	"fmt"
	"path/filepath"
	"strings"
	"time"

	"verif/simrt"
)

func init() {
	simrt.Register(&simrt.Check{Name: "C10", Property: "C10", Body: c10Body, Classify: classify,
		Real: []string{"SourceControl.Start/Stop (RPC methods)", "Start / CoreLoop / AnySource.Stop / RunDone wait group", "TriangleSource, SimPulseSource, ErroringSource producers", "WriteControl STOP on stop", "asyncbufio writer goroutines (census)"},
		Stub: []string{"scripted source for error-block / closed-channel self-termination and failed Start", "status and record publishers (sinks)", "net/rpc transport"}})
}

// sourceTaskAlive lists live tasks spawned from source, core-loop or writer code.
func sourceTasksAlive() []string {
	var out []string
	for _, site := range simrt.AliveTasks() {
		switch {
		case strings.HasPrefix(site, "data_source.go"), strings.HasPrefix(site, "simulated_data_sources.go"), strings.HasPrefix(site, "abaco.go"),
			strings.HasPrefix(site, "lancero_source.go"), strings.HasPrefix(site, "roach.go"), strings.HasPrefix(site, "asyncbufio.go"),
			strings.HasPrefix(site, "zz_verif_base.go"):
			out = append(out, site)
		}
	}
	return out
}

type c10World struct {
	env  *simrt.Env
	w    *pipeWorld
	kind int // 0 triangle, 1 simpulse, 2 erroring, 3 scripted
	name string
	ds   DataSource
	any  *AnySource
}

func (c *c10World) readCounter() int { return c.any.readCounter }

func c10Body(env *simrt.Env) {
	kind := simrt.Draw(4)
	nchan := 1 + simrt.Draw(3)
	w := newPipeWorld(env, nchan, 4, 16, 10000)
	resetViper(env.Dir)
	c := &c10World{env: env, w: w, kind: kind}
	sc := w.sc
	var ok bool
	switch kind {
	case 0:
		c.name, c.ds, c.any = "TRIANGLESOURCE", sc.triangle, &sc.triangle.AnySource
		if err := sc.ConfigureTriangleSource(&TriangleSourceConfig{Nchan: nchan, SampleRate: 10000, Min: 100, Max: RawType(150 + 50*simrt.Draw(3))}, &ok); err != nil {
			simrt.Fail("harness.configure", "harness:configure", "%v", err)
		}
	case 1:
		c.name, c.ds, c.any = "SIMPULSESOURCE", sc.simPulses, &sc.simPulses.AnySource
		if err := sc.ConfigureSimPulseSource(&SimPulseSourceConfig{Nchan: nchan, SampleRate: 10000, Pedestal: 1000, Amplitudes: []float64{5000, 8000}, Nsamp: 100 + 50*simrt.Draw(3)}, &ok); err != nil {
			simrt.Fail("harness.configure", "harness:configure", "%v", err)
		}
	case 2:
		c.name, c.ds, c.any = "ERRORINGSOURCE", sc.erroring, &sc.erroring.AnySource
	default:
		c.name, c.ds, c.any = "scripted", w.ss, &w.ss.AnySource
		total := 16 * 400
		w.stream = make([][]RawType, nchan)
		for ch := range w.stream {
			w.stream[ch] = make([]RawType, total)
			for i := range w.stream[ch] {
				w.stream[ch][i] = RawType(1000 + i%50)
			}
		}
		w.T0 = time.Now()
	}
	env.Op("life-cycle world source=%s nchan=%d", c.name, nchan)

	expectActive := false
	writing := false
	wpaused := false // writing is paused (the last accepted write-control request was PAUSE)
	starts := 0
	start := func() {
		before := c.ds.GetState()
		var err error
		if kind == 3 {
			if simrt.Draw(5) == 0 && !expectActive {
				if simrt.Draw(2) == 0 {
					w.ss.sampleErr = fmt.Errorf("hardware is not sending data yet")
				} else {
					// fails later in the start sequence, after channels and run state were prepared
					w.ss.startRunErr = fmt.Errorf("driver refuses to start the run")
					simrt.Hit("failed-start-in-StartRun")
				}
			}
			failing := w.ss.sampleErr != nil || w.ss.startRunErr != nil
			if expectActive {
				// the RPC layer refuses while a source is active; ask the source itself too
				err = Start(w.ss, sc.queuedRequests, 4, 16)
			} else {
				w.sent, w.fed = 0, 0
				err = w.startScripted()
			}
			if failing {
				simrt.Hit("failed-start")
				if err == nil {
					simrt.Fail("C10.failed-start", "lifecycle:failed-start-succeeded", "Start succeeded although the source could not sample its hardware")
				}
				if st := c.ds.GetState(); st != Inactive {
					simrt.Fail("C10.failed-start", "lifecycle:failed-start-not-inactive", "after a failed Start the source is in state %v", st)
				}
				env.Op("start -> %v (hardware silent)", err)
				return
			}
		} else {
			name := c.name
			err = sc.Start(&name, &ok)
			if err != nil && expectActive {
				// ask the source itself as well: it must refuse and change nothing
				err = Start(c.ds, sc.queuedRequests, 4, 16)
			}
		}
		env.Op("start -> %v", err)
		if expectActive {
			simrt.Hit("start-while-active")
			if err == nil {
				simrt.Fail("C10.start-only-when-inactive", "lifecycle:start-on-active-accepted", "Start succeeded on a source in state %v", before)
			}
			if st := c.ds.GetState(); st != before && !(kind == 2) {
				simrt.Fail("C10.start-only-when-inactive", "lifecycle:rejected-start-changed-state", "a rejected Start changed the state from %v to %v", before, st)
			}
			return
		}
		if err != nil {
			simrt.Fail("C10.restartable", "lifecycle:start-failed", "Start #%d on an inactive %s source failed: %v", starts+1, c.name, err)
		}
		starts++
		if starts > 1 {
			simrt.Hit("restart")
		}
		expectActive = true
		if kind == 2 {
			return // the erroring source ends by itself at once
		}
		if st := c.ds.GetState(); st != Active {
			simrt.Fail("C10.active-after-start", "lifecycle:not-active-after-start", "after a successful Start the source is in state %v", st)
		}
		// blocks are delivered: within 2 s the processed-block counter moves
		before0 := c.readCounter()
		if kind == 3 {
			w.feedBlock(40, nil)
			w.feedBlock(40, nil)
		}
		deadline := time.Now().Add(2 * time.Second)
		for c.readCounter() == before0 {
			if time.Now().After(deadline) {
				simrt.Fail("C10.delivers-blocks", "lifecycle:no-blocks-after-start", "no block was processed within 2 s of a successful Start (%s)", c.name)
			}
			time.Sleep(5 * time.Millisecond)
		}
	}

	checkStopped := func(what string) {
		// grace period: goroutines that were told to stop get their turn
		time.Sleep(200 * time.Millisecond)
		if st := c.ds.GetState(); st != Inactive {
			simrt.Fail("C10.inactive-after-stop", "lifecycle:not-inactive-after-stop", "%s: all Stop calls returned but the source is in state %v", what, st)
		}
		if alive := sourceTasksAlive(); len(alive) > 0 {
			simrt.Fail("C10.workers-exit", "lifecycle:workers-alive:"+alive[0], "%s: worker goroutines still alive after all Stop calls returned: %v", what, alive)
		}
		if ws := c.ds.ComputeWritingState(); ws.Active {
			simrt.Fail("C10.writing-stopped", "lifecycle:writing-still-active", "%s: the source is stopped but writing is still reported active (%s)", what, stateString(ws))
		}
		if fds := openFDsUnder(env.Dir); len(fds) > 0 {
			simrt.Fail("C10.writing-stopped", "lifecycle:files-open-after-stop", "%s: files still open after the source stopped: %v", what, fds)
		}
		writing = false
		wpaused = false
		expectActive = false
	}

	var stopK func()
	stopK = func() {
		k := 1 + simrt.Draw(3)
		done := make(chan int, k)
		// sometimes a client asks for a Start while the Stop calls are in progress
		// (built-in sources only: they are started by the real SourceControl.Start, whose serialisation with
		// Stop is part of what is being checked; the scripted source is started by a harness stand-in)
		racing := kind < 2 && simrt.Draw(4) == 0
		var raceErr error
		stopsDone := false
		raceDone := make(chan struct{})
		if racing {
			delay := time.Duration(simrt.Draw(5)) * 5 * time.Millisecond
			go func() {
				time.Sleep(delay)
				simrt.Within(20*time.Second, "C10.start-returns", "lifecycle:start-hangs", func() {
					// an impatient client: asks again until the server accepts (or the Stop callers are done)
					for try := 0; try < 300; try++ {
						name := c.name
						var ok2 bool
						raceErr = sc.Start(&name, &ok2)
						if raceErr == nil || stopsDone {
							break
						}
						time.Sleep(time.Duration(200+simrt.Draw(800)) * time.Microsecond)
					}
				})
				close(raceDone)
			}()
		}
		for i := 0; i < k; i++ {
			i := i
			viaRPC := simrt.Draw(2) == 0 || racing // with a Start in flight every caller is a client of the server
			delay := time.Duration(simrt.Draw(4)) * 7 * time.Millisecond
			go func() {
				time.Sleep(delay)
				simrt.Within(20*time.Second, "C10.stop-returns", "lifecycle:stop-hangs", func() {
					if viaRPC {
						var dummy string
						var ok2 bool
						sc.Stop(&dummy, &ok2)
					} else {
						c.ds.Stop()
					}
				})
				done <- i
			}()
		}
		for i := 0; i < k; i++ {
			<-done
		}
		if k > 1 {
			simrt.Hit("concurrent-stops")
		}
		if writing && wpaused {
			simrt.Hit("stop-while-writing-paused")
		}
		env.Op("%d concurrent Stop calls returned", k)
		stopsDone = true
		if racing {
			<-raceDone
			simrt.Hit("start-racing-stop")
			env.Op("racing Start -> %v", raceErr)
			// A Start can only have been accepted after a Stop had made the source inactive; a Stop
			// caller arriving later may have stopped that new run again. Both outcomes are legal:
			// what is not is a source that is neither cleanly running nor cleanly stopped.
			time.Sleep(50 * time.Millisecond)
			if raceErr == nil && c.ds.GetState() == Active {
				simrt.Hit("racing-start-accepted")
				before0 := c.readCounter()
				if kind == 3 {
					w.feedBlock(40, nil)
					w.feedBlock(40, nil)
				}
				deadline := time.Now().Add(2 * time.Second)
				for c.readCounter() == before0 {
					if time.Now().After(deadline) {
						simrt.Fail("C10.delivers-blocks", "lifecycle:no-blocks-after-start", "a Start accepted while Stop calls were finishing reports Active but no block was processed within 2 s (%s)", c.name)
					}
					time.Sleep(5 * time.Millisecond)
				}
				expectActive = true
				stopK()
				return
			}
			if st := c.ds.GetState(); st != Inactive && st != Active {
				// give a stop that is still completing its turn
				time.Sleep(500 * time.Millisecond)
			}
		}
		// the server object refreshes its own view on the next call that needs it
		sc.handlePossibleStoppedSource()
		checkStopped(fmt.Sprintf("after %d Stop calls", k))
	}

	selfEnd := func() {
		// scripted source only: error block or closed feed
		if simrt.Draw(2) == 0 {
			b := new(dataBlock)
			b.err = fmt.Errorf("scripted hardware error")
			w.ss.feed <- b
			env.Op("source delivers an error block")
		} else {
			w.ss.feed <- nil
			env.Op("source closes its block channel")
		}
		simrt.Fault("self-termination")
		deadline := time.Now().Add(5 * time.Second)
		for c.ds.Running() {
			if time.Now().After(deadline) {
				simrt.Fail("C10.self-termination", "lifecycle:self-termination-ignored", "the source is still running 5 s after it ended itself")
			}
			time.Sleep(5 * time.Millisecond)
		}
	}

	selfEndOp := func() {
		if writing {
			simrt.Hit("self-termination-while-writing")
		}
		if writing && wpaused {
			simrt.Hit("self-termination-while-writing-paused")
		}
		selfEnd()
		// a client then calls Stop (it does not know the source ended)
		stopK()
	}

	nops := 3 + simrt.Draw(8)
	for i := 0; i < nops; i++ {
		switch op := simrt.Draw(10); {
		case op < 3:
			start()
			if kind == 2 && expectActive {
				// the erroring source stops on its own; a Stop afterwards must still return
				deadline := time.Now().Add(5 * time.Second)
				for c.ds.Running() && time.Now().Before(deadline) {
					time.Sleep(5 * time.Millisecond)
				}
				stopK()
			}
		case op < 6:
			if expectActive {
				stopK()
			} else {
				// Stop on an inactive source returns (with an error) and changes nothing
				simrt.Within(20*time.Second, "C10.stop-returns", "lifecycle:stop-hangs", func() { c.ds.Stop() })
				env.Op("Stop on an inactive source")
			}
		case op < 7:
			if expectActive && !writing && kind != 2 {
				err := sc.WriteControl(&WriteControlConfig{Request: "START", Path: filepath.Join(env.Dir, "data"), WriteLJH22: true}, &ok)
				env.Op("write START -> %v", err)
				writing = err == nil
				if writing {
					// make sure records are flowing into files
					all := make([]int, nchan)
					for j := range all {
						all[j] = j
					}
					sc.ConfigureTriggers(&FullTriggerState{ChannelIndices: all, TriggerState: TriggerState{AutoTrigger: true, AutoDelay: 2 * time.Millisecond, EdgeLevel: 100}}, &ok)
					if simrt.Draw(2) == 1 {
						// ... and paused at once (the operator is not ready yet)
						err := sc.WriteControl(&WriteControlConfig{Request: "PAUSE"}, &ok)
						env.Op("write PAUSE -> %v", err)
						wpaused = err == nil
					}
				}
			} else if expectActive && writing {
				// the operator pauses / resumes writing: the source may then stop, or end by itself, in the paused state
				req := "PAUSE"
				if wpaused && simrt.Draw(3) > 0 {
					req = "UNPAUSE"
				}
				err := sc.WriteControl(&WriteControlConfig{Request: req}, &ok)
				env.Op("write %s -> %v", req, err)
				if err == nil {
					wpaused = req == "PAUSE"
				}
			}
			if kind == 3 && env.Faulted() && expectActive && writing && simrt.Chance(1, 2) {
				// the hardware fails in the middle of a writing session (possibly a paused one)
				if simrt.Draw(2) == 0 {
					w.feedBlock(20+simrt.Draw(60), nil)
				}
				selfEndOp()
			}
		case op < 8:
			if expectActive && kind == 3 {
				if env.Faulted() {
					selfEndOp()
				} else {
					w.feedBlock(30+simrt.Draw(40), nil)
				}
			}
		default:
			time.Sleep(time.Duration(1+simrt.Draw(60)) * time.Millisecond)
			if kind == 3 && expectActive && simrt.Draw(2) == 0 {
				w.feedBlock(20+simrt.Draw(60), nil)
			}
		}
	}
	if expectActive {
		stopK()
	}
	// finally the same source starts and runs once more
	if kind != 2 {
		start()
		stopK()
	}
	env.Sample(map[string]interface{}{"source": c.name, "channels": nchan, "ops": nops, "starts": starts})
}
