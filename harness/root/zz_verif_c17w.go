//go:build verif

package dastard

// C17w: the writers world of C05a/C07c (a DataPublisher with the real LJH2.2/LJH3/OFF writers on real
// files, also inside a real DataStreamProcessor; writer goroutines that fall a whole queue behind) run in
// the race-detector build. The producing side (the channel's processing goroutine) and the writer
// goroutine of each file share a bufio.Writer through asyncbufio's queue; only the writer goroutine may
// touch it. Oracle: C17's (any report of the race detector between two accesses made by dastard code).

import "verif/simrt"

func init() {
	simrt.Register(&simrt.Check{Name: "C17w", Property: "C17", Body: func(env *simrt.Env) { publisherBody(env, true) },
		Classify: classify, Judge: c17Judge, MaxSteps: 1500000,
		Real: []string{"DataPublisher.PublishData / Flush / SetPause / Remove*", "ljh and off writers", "asyncbufio.Writer (queue, writeLoop, flush)", "DataStreamProcessor.processSegment / processSecondaries in a third of the histories"},
		Stub: []string{"disk (real files in the run's sandbox directory; the writer goroutine is stalled by the scheduler)"}})
}
