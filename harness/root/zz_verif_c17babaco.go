//go:build verif

package dastard

// C17b, Abaco part: a simulated network and simulated packet producers (PacketProducer) for the
// real AbacoSource of the SourceControl object. Unlike the C03 world there is no ground-truth
// bookkeeping (C17b has no value oracle): the network is an endless packet stream that survives
// Stop/Start cycles, and it also sends external-trigger packets.
//
// Group g sends packet number i at t0 + i*period; it arrives after the group's latency (plus a
// lag episode in some faulted runs), never before its predecessor. Everything that has arrived
// since the previous read is returned by ReadAllPackets; what arrives while no producer is open
// is never seen (closed socket). All data packets are built with the packets package and pass
// through Bytes() and ReadPacket(); external-trigger packets are laid out by hand after the
// example in testData/timer_packets.bin (there is no constructor for them) and decoded with
// ReadPacket().
//
// The producers' methods run on dastard's goroutines (Sample's helpers, the reader). State that
// is also used by harness tasks is atomic, so that the harness adds no race reports of its own.

import (
	"bytes"
	"encoding/binary"
	"fmt"
	"sync/atomic"
	"time"

	"github.com/usnistgov/dastard/packets"

	"verif/simrt"
)

type c17bGroup struct {
	ord       int
	firstChan int
	nchan     int
	wide      bool
	seq0      uint32
	lat       time.Duration
	kSample   int
	next      int           // next packet number to deliver
	lastArr   time.Duration // arrival (relative to t0) of the last packet pulled
	pending   []int         // arrived during sampling, not handed out yet
	prod      *c17bProducer
}

type c17bNet struct {
	fpp     int
	period  time.Duration
	nsamp   int // record length (pulse spacing follows it)
	scale   int // amplitude factor (8 when the source drops the 4 low bits)
	groups  []*c17bGroup
	prods   []*c17bProducer
	t0      time.Time
	tsRate  float64
	tsStep  uint64
	ts0     uint64
	etrigOn bool
	etSeq   uint32
	etNext  int // packet number after which the next external-trigger packet is due

	discardWorks bool
	faulted      bool
	lossDen      int // one packet in lossDen is lost (0: none)
	burstLeft    int
	lagGroup     int // -1: none
	lagFrom      int
	lagTo        int
	lagExtra     time.Duration
	slowRead     bool

	// Counters written by the reader goroutine only and loaded by harness tasks. (Probes are not
	// counted with simrt.Hit / simrt.Fault from dastard's goroutines: the runtime's mutex behind
	// them would order those goroutines after whatever harness task counted something before,
	// and could hide a race from the detector.)
	inRead  atomic.Int32 // producers currently inside ReadAllPackets
	nReads  atomic.Int32
	nLost   atomic.Int32
	nEtrigs atomic.Int32
	nSlow   atomic.Int32
	nLags   atomic.Int32
}

// c17bNewNet draws the layout of the network of one run.
func c17bNewNet(env *simrt.Env, nsamp int, rescale bool) *c17bNet {
	n := &c17bNet{nsamp: nsamp, scale: 1, lagGroup: -1, faulted: env.Faulted(), t0: time.Now()}
	if rescale {
		n.scale = 8
	}
	ngroups := 1 + simrt.Draw(3)
	n.fpp = []int{8, 4, 16, 25}[simrt.Draw(4)]
	n.period = []time.Duration{10 * time.Millisecond, 20 * time.Millisecond, 25 * time.Millisecond}[simrt.Draw(3)]
	first := simrt.Draw(3)
	for i := 0; i < ngroups; i++ {
		g := &c17bGroup{ord: i, firstChan: first, nchan: 1 + simrt.Draw(3), wide: simrt.Draw(3) == 2}
		first += g.nchan
		if simrt.Draw(3) == 2 {
			first += 1 + simrt.Draw(4)
		}
		g.seq0 = 1 + uint32(simrt.Draw(1<<30))
		g.lat = time.Duration(1+simrt.Draw(30)) * time.Millisecond
		n.groups = append(n.groups, g)
	}
	k := 2 + simrt.Draw(4)
	for _, g := range n.groups {
		g.kSample = k
		if simrt.Draw(3) == 2 {
			g.kSample = 2 + simrt.Draw(5) // groups sampled to different depths: the trim path runs
		}
	}
	nprod := 1
	if ngroups > 1 && simrt.Draw(2) == 1 {
		nprod = 2
	}
	for i := 0; i < nprod; i++ {
		n.prods = append(n.prods, &c17bProducer{n: n, id: i})
	}
	for i, g := range n.groups {
		p := n.prods[0]
		if nprod == 2 && (i == ngroups-1 || (i > 0 && simrt.Draw(2) == 1)) {
			p = n.prods[1]
		}
		g.prod = p
		p.groups = append(p.groups, g)
	}
	n.tsRate = 1e8
	n.tsStep = uint64(n.period / (10 * time.Nanosecond))
	n.ts0 = 1000 + uint64(simrt.Draw(1<<30))
	n.discardWorks = simrt.Draw(2) == 1
	n.etrigOn = simrt.Draw(4) > 0
	if n.faulted {
		switch simrt.DrawFault(4) {
		case 1:
			n.lossDen = []int{20, 8, 50, 3}[simrt.DrawFault(4)]
		case 2:
			n.lossDen = 30
			n.slowRead = true
		case 3:
			n.slowRead = true
		}
		if ngroups > 1 && simrt.DrawFault(2) == 1 {
			n.lagGroup = simrt.DrawFault(ngroups)
			n.lagFrom = 20 + simrt.DrawFault(200)
			n.lagTo = n.lagFrom + 1 + simrt.DrawFault(60)
			n.lagExtra = time.Duration(1+simrt.DrawFault(5)) * 50 * time.Millisecond
		}
		if n.lossDen == 0 && n.lagGroup < 0 {
			n.lossDen = 12
		}
	}
	return n
}

func (n *c17bNet) nchan() int {
	c := 0
	for _, g := range n.groups {
		c += g.nchan
	}
	return c
}

func (n *c17bNet) sampleRate() float64 {
	return float64(n.fpp) / n.period.Seconds()
}

func (n *c17bNet) describe() string {
	s := fmt.Sprintf("abaco net: %d groups, %d producers, %d frames/packet every %v (%.0f frames/s), discardStale works=%v, ext triggers=%v",
		len(n.groups), len(n.prods), n.fpp, n.period, n.sampleRate(), n.discardWorks, n.etrigOn)
	for _, g := range n.groups {
		s += fmt.Sprintf("; group %d: chan %d..%d wide=%v latency %v sampled %d producer %d", g.ord, g.firstChan, g.firstChan+g.nchan-1, g.wide, g.lat, g.kSample, g.prod.id)
	}
	if n.faulted {
		s += fmt.Sprintf("; faults: loss 1/%d, lag group %d packets %d..%d by %v, slow reads %v", n.lossDen, n.lagGroup, n.lagFrom, n.lagTo, n.lagExtra, n.slowRead)
	}
	return s
}

// value is the sample of channel ch (inside group g) in frame number frame: a baseline with a
// little structure and a one-sample-rise pulse every 3 record lengths.
func (n *c17bNet) value(g *c17bGroup, ch, frame int) int {
	v := 1000 + (frame+3*ch)%7
	if ph := (frame + 13*(g.firstChan+ch)) % (3 * n.nsamp); ph < 6 {
		v += 3000 - 400*ph
	}
	return v * n.scale
}

func (n *c17bNet) makePacket(g *c17bGroup, idx int) *packets.Packet {
	pk := packets.NewPacket(10, uint32(20+g.ord), g.seq0+uint32(idx)-1, g.firstChan) // NewData adds one
	pk.SetTimestamp(&packets.PacketTimestamp{T: n.ts0 + uint64(idx)*n.tsStep, Rate: n.tsRate})
	var err error
	if g.wide {
		d := make([]int32, n.fpp*g.nchan)
		for k := 0; k < n.fpp; k++ {
			for c := 0; c < g.nchan; c++ {
				d[k*g.nchan+c] = int32(n.value(g, c, idx*n.fpp+k)) << 16
			}
		}
		err = pk.NewData(d, []int16{int16(g.nchan)})
	} else {
		d := make([]int16, n.fpp*g.nchan)
		for k := 0; k < n.fpp; k++ {
			for c := 0; c < g.nchan; c++ {
				d[k*g.nchan+c] = int16(n.value(g, c, idx*n.fpp+k))
			}
		}
		err = pk.NewData(d, []int16{int16(g.nchan)})
	}
	if err != nil {
		simrt.Fail("harness.packet", "harness:packet-build", "NewData: %v", err)
	}
	q, err := packets.ReadPacket(bytes.NewReader(pk.Bytes()))
	if err != nil {
		simrt.Fail("harness.packet", "harness:packet-decode", "ReadPacket of a packet made by Bytes(): %v", err)
	}
	return q
}

// makeEtrigPacket builds an external-trigger packet with one entry per time stamp.
func (n *c17bNet) makeEtrigPacket(stamps []uint64) *packets.Packet {
	const hdrLen = 16 + 16 + 8 + 16 + 8
	b := make([]byte, 0, hdrLen+16*len(stamps))
	b = append(b, 1, hdrLen)
	b = binary.BigEndian.AppendUint16(b, uint16(16*len(stamps)))
	b = binary.BigEndian.AppendUint32(b, 0x810b00ff)
	b = binary.BigEndian.AppendUint32(b, 0x06080020)
	n.etSeq++
	b = binary.BigEndian.AppendUint32(b, n.etSeq)
	// time stamp with unit: 64 bits, 10^-11 s x 1000/1 = 10 ns
	b = append(b, 0x13, 2, 64, 0xf5)
	b = binary.BigEndian.AppendUint16(b, 1000)
	b = binary.BigEndian.AppendUint16(b, 1)
	b = binary.BigEndian.AppendUint64(b, stamps[len(stamps)-1])
	b = append(b, 0x21, 1, '>', 'I', 'I', 'Q', ' ', ' ')
	b = append(b, 0x29, 2)
	b = append(b, []byte("value,active,t")...)
	b = append(b, 0x22, 1, 0, 0, 0, 1, 0, 0)
	for i, t := range stamps {
		b = binary.BigEndian.AppendUint32(b, 0x80000000|uint32(i&1))
		b = binary.BigEndian.AppendUint32(b, 2)
		b = binary.BigEndian.AppendUint64(b, t)
	}
	q, err := packets.ReadPacket(bytes.NewReader(b))
	if err != nil {
		simrt.Fail("harness.packet", "harness:etrig-packet-decode", "ReadPacket of an external-trigger packet: %v", err)
	}
	if !q.IsExternalTrigger() || q.Frames() != len(stamps) {
		simrt.Fail("harness.packet", "harness:etrig-packet-shape", "external-trigger packet decoded as trigger=%v with %d entries, want %d", q.IsExternalTrigger(), q.Frames(), len(stamps))
	}
	return q
}

func (n *c17bNet) arrival(g *c17bGroup, idx int) time.Duration {
	a := time.Duration(idx)*n.period + g.lat
	if g.ord == n.lagGroup && idx >= n.lagFrom && idx < n.lagTo {
		a += n.lagExtra
	}
	if a < g.lastArr {
		a = g.lastArr
	}
	return a
}

// pull hands every packet of g that has arrived by now to f, in order.
func (n *c17bNet) pull(g *c17bGroup, now time.Duration, f func(idx int)) {
	for {
		a := n.arrival(g, g.next)
		if a > now {
			return
		}
		if g.ord == n.lagGroup && g.next == n.lagFrom {
			n.nLags.Add(1)
		}
		g.lastArr = a
		idx := g.next
		g.next++
		f(idx)
	}
}

// ---------------------------------------------------------------------------------

type c17bProducer struct {
	n      *c17bNet
	id     int
	groups []*c17bGroup
	isOpen bool
}

// begin is called by the client task before every Start request: a new acquisition, in which
// every group is first seen with the same packet number (what arrived before is never seen).
func (n *c17bNet) begin() {
	now := time.Since(n.t0)
	first := int(now/n.period) + 2
	for _, g := range n.groups {
		g.next = first
		g.lastArr = 0
		g.pending = nil
	}
	n.etNext = first + 3
}

func (p *c17bProducer) start() error {
	if p.isOpen {
		return fmt.Errorf("listen udp: bind: address already in use (simulated producer %d)", p.id)
	}
	p.isOpen = true
	return nil
}

func (p *c17bProducer) stop() error {
	p.isOpen = false
	return nil
}

func (p *c17bProducer) samplePackets(d time.Duration) ([]*packets.Packet, error) {
	n := p.n
	deadline := time.Now().Add(d)
	for {
		time.Sleep(25 * time.Millisecond)
		now := time.Since(n.t0)
		enough := true
		for _, g := range p.groups {
			g := g
			n.pull(g, now, func(idx int) { g.pending = append(g.pending, idx) })
			if len(g.pending) < g.kSample {
				enough = false
			}
		}
		if enough || time.Now().After(deadline) {
			break
		}
	}
	var out []*packets.Packet
	for i := 0; ; i++ {
		any := false
		for _, g := range p.groups {
			if i < g.kSample && i < len(g.pending) {
				out = append(out, n.makePacket(g, g.pending[i]))
				any = true
			}
		}
		if !any {
			break
		}
	}
	for _, g := range p.groups {
		k := g.kSample
		if k > len(g.pending) {
			k = len(g.pending)
		}
		g.pending = append([]int(nil), g.pending[k:]...)
	}
	return out, nil
}

func (p *c17bProducer) discardStale() error {
	n := p.n
	if !n.discardWorks {
		return nil
	}
	now := time.Since(n.t0)
	for _, g := range p.groups {
		g.pending = nil
		n.pull(g, now, func(int) {})
	}
	return nil
}

func (p *c17bProducer) ReadAllPackets() ([]*packets.Packet, error) {
	n := p.n
	if !p.isOpen {
		return nil, fmt.Errorf("simulated producer %d is not open", p.id)
	}
	n.inRead.Add(1)
	defer n.inRead.Add(-1)
	n.nReads.Add(1)
	// a read takes a little time (the real receiver hands the packets over between two goroutines)
	d := time.Duration(50+simrt.Draw(1500)) * time.Microsecond
	if n.slowRead && simrt.Chance(1, 25) {
		d = time.Duration(1+simrt.DrawFault(4))*50*time.Millisecond + time.Duration(simrt.DrawFault(40))*time.Millisecond
		n.nSlow.Add(1)
	}
	time.Sleep(d)
	now := time.Since(n.t0)
	var out []*packets.Packet
	for _, g := range p.groups {
		g := g
		deliver := func(idx int) {
			lost := false
			if n.burstLeft > 0 {
				n.burstLeft--
				lost = true
			} else if n.lossDen > 0 && simrt.Chance(1, n.lossDen) {
				lost = true
				if simrt.Chance(1, 6) {
					n.burstLeft = simrt.DrawFault(5)
				}
			}
			if lost {
				n.nLost.Add(1)
				return
			}
			out = append(out, n.makePacket(g, idx))
		}
		for _, idx := range g.pending {
			deliver(idx)
		}
		g.pending = nil
		n.pull(g, now, deliver)
	}
	if p.id == 0 && n.etrigOn {
		cur := p.groups[0].next
		if cur >= n.etNext {
			k := 1 + simrt.Draw(3)
			stamps := make([]uint64, k)
			t := n.ts0 + uint64(cur-2)*n.tsStep
			for i := range stamps {
				t += 1 + uint64(simrt.Draw(int(n.tsStep)))
				stamps[i] = t
			}
			out = append(out, n.makeEtrigPacket(stamps))
			n.nEtrigs.Add(int32(k))
			n.etNext = cur + 1 + simrt.Draw(12)
		}
	}
	return out, nil
}
