//go:build verif

package dastard

// C11: control requests — serialised with data, answered once, never wedge or crash.
//
// World (DESIGN §3.6 with one client): the real SourceControl, the real core loop and the real
// processors with a *running* source. Most runs use the scripted source of zz_verif_base.go fed
// by a hardware task paced on the fake clock (blocks with pulses, external-trigger lists and
// drop counts; it can end the source by itself with an error block or a closed channel); some
// runs use the real TriangleSource / SimPulseSource configured and started through the real RPC
// methods, and the real ErroringSource for self-termination of a built-in source. One client
// task (task 0) issues every request kind of the RPC layer (zz_verif_c11req.go) at drawn times:
// back to back, between blocks, while ProcessSegments is running, immediately after Stop, in the
// steps around a self-termination and after the source has ended by itself with nothing in
// between that refreshes the server's "source is active" flag. The configuration of a source is part
// of the request mix (zz_verif_c11cfg.go): the main source is configured through its configuration
// request with the options the server reads later (LanceroSourceConfig.ShouldAutoRestart, channel
// numbering, channel count, block length) drawn over their legal ranges, and configuration requests
// arrive while the source runs, between runs and with contents that are refused.
//
// Oracle rules (written from the property statement, not from the code):
//   C11.returns          every call returns within 20 s of simulated time
//   C11.reply-kind       request with no source running => error; clearly invalid arguments
//                        (negative / too large channel index, mismatched list lengths, malformed
//                        or wrong-shape matrices, non-positive sizes, pre-trigger >= length,
//                        unknown write-control verb) => error; well-formed request on a healthy
//                        source => no error. Everything else: only "returns".
//   C11.progress         after a request the block counter keeps increasing while the source
//                        is alive
//   C11.mutual-exclusion region monitor: `process` never overlaps `request`/`closure`, and a
//                        `closure` (function literal that sends a result) only ever runs inside
//                        the `request` region of the core-loop task
//   no-panic             automatic (signature panic:<frame>)
//
// Faulted runs plan one I/O failure: an operation that fails (create / mkdir / stat / temp file), or a
// FULL DISK for one class of the small files the request path writes (comment.txt, the experiment-state
// file, channels.json, the external-trigger / data-drop logs that STOP flushes): the file is created, its
// handle is /dev/full, every write or flush fails with ENOSPC (simrt.FaultFS.FullMatch). A request one of
// whose writes failed for certain must be answered with an error (reply:success-despite-io-failure:<kind>),
// once; liveness, progress and mutual exclusion are never relaxed.

import (
	"errors"
	"fmt"
	"os"
	"path/filepath"
	"regexp"
	"strings"
	"syscall"
	"time"

	"verif/simrt"
)

func init() {
	simrt.Register(&simrt.Check{Name: "C11", Property: "C11", Body: c11Body, Classify: classify, MaxSteps: 120000, Judge: c11Judge,
		Real: []string{"every exported request method of SourceControl (ConfigureTriggers, ConfigurePulseLengths, ConfigureProjectorsBasis, WriteControl, SetExperimentStateLabel in wait mode, WriteComment, ReadComment, CoupleErrToFB, CoupleFBToErr, Add/DeleteGroupTriggerCoupling, StopTriggerCoupling, ConfigureMixFraction, StoreRawDataBlock, SendAllStatus, Start, Stop; ConfigureTriangleSource, ConfigureSimPulseSource, ConfigureLanceroSource, ConfigureAbacoSource, ConfigureRoachSource with the sources' Configure methods)",
			"runLaterIfActive / handlePossibleStoppedSource", "Start / CoreLoop / ProcessSegments / per-channel processors / TriggerBroker", "AnySource handlers (ChangeTriggerState, ConfigurePulseLengths, ConfigureProjectorsBases, WriteControl, writeControlStart, makeDirectory, ArchiveDataBlock and its writer goroutine)",
			"WritingState, HandleExternalTriggers, HandleDataDrop", "TriangleSource, SimPulseSource, ErroringSource producers", "DataPublisher + LJH writers on real files"},
		Stub: []string{"hardware (ScriptedSource fed by a paced hardware task)", "status, record and summary publishers (sinks)", "net/rpc + JSON codec + TCP (methods called directly by one client task)", "file-system failures (simrt fault FS behind the interposed os.* calls)", "full disk for one class of small files written on the request path (faulted runs: comment.txt, experiment-state file, channels.json, and the external-trigger / data-drop logs that STOP flushes; the file is created, its handle is /dev/full, every write or flush fails with ENOSPC)", "Lancero / Abaco / ROACH sources (mix requests only reach the generic refusal)"}})
}

// c11FailStop is the message of the core loop's deliberate panic when ProcessSegments returns
// an error (data_source.go, CoreLoop).
const c11FailStop = "Panic to stop source when processSegments errors"

// c11Judge: any panic is a violation, with one classified exception (DESIGN §2.5): the core
// loop's own, commented fail-stop panic when block processing reports an I/O error, in a run
// whose injected failure was aimed at a file that block processing (not a request handler)
// creates. The property's fault quantifier is "single I/O failures in request handlers".
func c11Judge(res *simrt.Result) *simrt.Violation {
	if res.Crash != nil && strings.Contains(res.Crash.Value, c11FailStop) {
		inBlock := res.Probes["plan:io-failure:external-trigger"] > 0 || res.Probes["plan:io-failure:data-drop"] > 0 ||
			res.Probes["plan:disk-full:external-trigger"] > 0 || res.Probes["plan:disk-full:data-drop"] > 0
		fired := false
		for k, v := range res.Faults {
			if (strings.HasPrefix(k, "ioerr:") || strings.HasPrefix(k, "fulldisk:")) && v > 0 {
				fired = true
			}
		}
		if inBlock && fired {
			res.Probes["fail-stop:block-processing-io-error"]++
			return nil
		}
	}
	if res.Crash != nil && strings.Contains(res.Crash.Value, "simrt: too many tasks") {
		// only reached by runs that are already waiting out a 20 s bound while thousands of blocks
		// pass: a limit of the runtime, not a verdict (the watchdog of the same defect fires in other runs)
		return nil
	}
	if res.Crash != nil {
		frame := res.Crash.Frame
		if frame == "" {
			frame = res.Crash.Value
			if i := strings.IndexByte(frame, '\n'); i >= 0 {
				frame = frame[:i]
			}
			if len(frame) > 120 {
				frame = frame[:120]
			}
		}
		st := strings.Split(res.Crash.Stack, "\n")
		if len(st) > 40 {
			st = st[:40]
		}
		return &simrt.Violation{Rule: "no-panic", Sig: "panic:" + frame, Detail: res.Crash.Value + "\n" + strings.Join(st, "\n")}
	}
	if res.Deadlock {
		return &simrt.Violation{Rule: "no-deadlock", Sig: "deadlock", Detail: "every task blocked for ever"}
	}
	return nil
}

// states of the source as the harness knows them
const (
	c11Down    = 0 // no source is running (never started, Stop returned, or ended and deactivated)
	c11Healthy = 1 // running, and the hardware has not been told to end it
	c11Ending  = 2 // the terminating block is on its way / the core loop is shutting down
)

// reply kinds demanded of a request issued on a source that is healthy for the whole call
const (
	c11Any = 0
	c11OK  = 1
	c11Err = 2
)

// writing model
const (
	c11WOff     = 0
	c11WOn      = 1
	c11WUnknown = 2
)

type c11World struct {
	env  *simrt.Env
	w    *pipeWorld
	sc   *SourceControl
	kind int // 0 scripted, 1 triangle, 2 simpulse, 3 lancero (simulated card)
	ls   *LanceroSource
	name string // Start name of the built-in source
	main *AnySource
	any  *AnySource // the AnySource of the source started last
	rate float64

	nchanMain int
	nchan     int // channels of the source started last
	nsamp     int // record lengths in force (model; valid while lenKnown)
	npre      int
	lenKnown  bool

	// life of the source
	up        bool // a Start succeeded and neither a Stop returned nor a self-end was observed
	termSent  bool // the source has been told to end by itself (or is a self-ending one)
	selfEnded bool // the last "down" came from a self-termination
	everUp    bool
	starts    int
	endReq    int // 1 error block, 2 closed channel: the hardware ends the source at its next block
	selfEnds  int
	hwStop    chan struct{}
	hwDone    chan struct{}
	termCh    chan struct{}
	endNow    chan struct{} // closed to make the hardware end the source without waiting for its next block time
	termAt    time.Time     // when the terminating block was issued
	callStart time.Time
	blkLen    int
	blkVar    int
	period    time.Duration
	blockTime time.Duration // nominal duration of one block

	// model of request-visible state
	writing   int
	commentOK bool
	emt       bool
	emtShort  bool // variable-length edge-multi records may be configured
	projAsked bool // projectors may be loaded
	offMaybe  bool // an OFF file may be open
	rawAsked  bool
	rawNames  []string
	rawSeen   map[string]bool
	dataDir   string

	// region monitor
	inProcess, inRequest, inClosure int
	reqTask                         int
	procSignal                      chan struct{}
	procDigest                      string
	procDigestOf                    *AnySource    // the source the digest was taken of (the harness's notion of "the running source" lags behind during a two-client episode)
	enteredSignal                   chan struct{} // closed when the core loop enters the request of the call in flight
	overlap                         bool          // a call of the second client is in flight: replies are not pinned down
	two                             bool          // this run has a second client
	callActive                      bool
	callEntered                     bool
	callWaited                      bool
	callKind                        string
	callState                       int
	lastKind                        string

	fs          *simrt.FaultFS
	reconfigure func(nchan int) error // configures the inactive main source (legal options drawn anew) for a number of channels

	// configuration of the main source (zz_verif_c11cfg.go)
	minBlock   time.Duration // shortest block period this run's virtual CPU cost allows
	blockTime0 time.Duration // SimPulse: duration of one pulse of spNsamp samples
	triHalf    int
	spNsamp    int
	lanRows    int
	lanCols    int
	cfgAuto    bool // the main source's configuration in force has ShouldAutoRestart set
	cfgUnsure  bool // a configuration request of the mix may have left the main source unconfigured (Lancero remembers a refusal)
	runAuto    bool // the run in progress (or the one that ended last) belongs to a source configured with ShouldAutoRestart
	mapMaybe   bool // a TES map may be loaded in the map server
	nmaps      int
	faultClass string
	persist    bool // the failure stays: from its first occurrence on, every operation of the class fails
	full       bool // the failure is a full disk for the class: the file is created, every write through its handle fails
	fullNoted  int  // full-disk handles counted into fires so far
	fires      int  // how often the injected failure has happened so far
	nreq       int
	nerr       int
}

func c11Body(env *simrt.Env) {
	// The virtual CPU time per scheduler step is drawn per run (1 µs .. 2 ms). Measure it (nothing else
	// runs yet) and keep the block period well above the cost of processing one block, so that the
	// pipeline idles between blocks as a healthy acquisition does: in a permanently saturated system a
	// priority-based schedule policy may starve a ready thread for ever, which no operating system does,
	// and "did not return within 20 s" would then be the simulator's doing.
	t0 := time.Now()
	simrt.Gosched()
	minBlock := 400 * time.Since(t0)
	kind := []int{0, 0, 0, 1, 2, 3}[simrt.Draw(6)]
	if kind == 3 && minBlock > 40*time.Millisecond {
		kind = 0 // the Lancero reader's 50 ms tick is fixed
	}
	nchan := 1 + simrt.Draw(4)
	lanRows, lanCols := 2+(nchan-1)%2, 1+(nchan-1)/2
	if kind == 3 {
		nchan = 2 * lanRows * lanCols
	}
	nsamp := []int{16, 40, 100}[simrt.Draw(3)]
	npre := 3 + simrt.Draw(nsamp-4)
	blkLen := []int{nsamp/2 + 1, nsamp, 2*nsamp + 3, 5 * nsamp}[simrt.Draw(4)]
	// sample rate such that a block lasts 5 or 20 ms (built-in sources: 10 kHz, 10-30 ms per buffer)
	scaled := func(d time.Duration) time.Duration {
		if d < minBlock {
			return minBlock
		}
		return d
	}
	triHalf := 50 + 50*simrt.Draw(3)               // TriangleSource: a buffer is one cycle of 2*(max-min) samples
	spNsamp := []int{107, 153, 211}[simrt.Draw(3)] // SimPulseSource: a buffer is one pulse of Nsamp samples
	var blockTime time.Duration
	switch kind {
	case 0:
		blockTime = scaled([]time.Duration{20 * time.Millisecond, 5 * time.Millisecond}[simrt.Draw(2)])
	case 1:
		blockTime = scaled(time.Duration(2*triHalf) * 100 * time.Microsecond)
		blkLen = 2 * triHalf
	case 3:
		blockTime = 50 * time.Millisecond
	default:
		// (10.7 / 15.3 / 21.1 ms or a multiple of 1.07: the producer selects on its buffer ticker and on a 1 s
		// heartbeat ticker; if both fire at the same fake instant the Go runtime, not the tape, picks the case)
		blockTime = time.Duration(spNsamp) * 100 * time.Microsecond
		if blockTime < minBlock {
			blockTime = minBlock * 107 / 100
		}
		blkLen = spNsamp
	}
	rate := float64(blkLen) / blockTime.Seconds()
	w := newPipeWorld(env, nchan, npre, nsamp, rate)
	resetViper(env.Dir)
	c := &c11World{env: env, w: w, sc: w.sc, kind: kind, rate: rate, nchanMain: nchan, nchan: nchan, nsamp: nsamp, npre: npre, lenKnown: true,
		reqTask: -1, lastKind: "start", rawSeen: map[string]bool{}, dataDir: filepath.Join(env.Dir, "data"),
		minBlock: minBlock, blockTime0: blockTime, triHalf: triHalf, spNsamp: spNsamp, lanRows: lanRows, lanCols: lanCols}
	c.period = w.period
	c.blkLen = blkLen
	c.blockTime = blockTime
	c.blkVar = simrt.Draw(3) * (1 + nsamp/8)
	simrt.SetMonitor(c.monitor)

	// file-system plan: always installed (temporary files land in the sandbox with sequential
	// names); one failure per run in the faulted configuration only
	c.fs = simrt.NewFaultFS(env.Dir)
	c.faultClass = "none"
	if env.Faulted() {
		switch simrt.DrawFault(13) {
		case 8, 9:
			c.planDiskFull("comment", "comment.txt")
		case 10, 11:
			c.planDiskFull("experiment-state", "experiment_state")
		case 12:
			// (only the scripted hardware delivers external triggers and drop counts; channels.json is
			// written by the Start method, which the scripted source does not go through)
			switch side := simrt.DrawFault(3); {
			case kind != 0 && side == 0:
				c.planDiskFull("channel-groups", "channels.json")
			case kind != 0:
				c.planDiskFull("comment", "comment.txt")
			case side == 1:
				c.planDiskFull("external-trigger", "external_trigger")
				c.fs.FullFrom = 0
			default:
				c.planDiskFull("data-drop", "data_drop")
				c.fs.FullFrom = 0
			}
		case 1:
			c.faultClass, c.fs.FailMatch, c.fs.FailAt = "comment", "comment.txt", simrt.DrawFault(2)
		case 2:
			c.faultClass, c.fs.FailMatch, c.fs.FailAt = "experiment-state", "experiment_state", simrt.DrawFault(2)
		case 3:
			c.faultClass, c.fs.FailMatch, c.fs.FailAt = "external-trigger", "external_trigger", 0
		case 4:
			c.faultClass, c.fs.FailMatch, c.fs.FailAt = "data-drop", "data_drop", 0
		case 5:
			c.faultClass, c.fs.FailMatch, c.fs.FailAt = "run-directory", "mkdirall ", simrt.DrawFault(3)
		case 6:
			c.faultClass, c.fs.FailMatch, c.fs.FailAt = "run-directory-stat", "stat "+c.dataDir, 0
		case 7:
			c.faultClass, c.fs.FailMatch, c.fs.FailAt = "temp-file", "createtemp", simrt.DrawFault(2)
		}
		if c.faultClass != "none" && !c.full {
			c.fs.FailErr = []error{syscall.EIO, syscall.EACCES, syscall.ENOSPC}[simrt.DrawFault(3)]
			simrt.Hit("plan:io-failure:" + c.faultClass)
			// an uncreatable file is a condition, not an event: in half of the runs every later attempt on
			// the same path class fails too (name too long, directory not writable, quota)
			if c.persist = simrt.DrawFault(2) == 1; c.persist {
				simrt.Hit("plan:io-failure-persistent:" + c.faultClass)
			}
		}
	}
	simrt.SetFS(c.fs)

	var ok bool
	// The main source is configured through its configuration request, with the options the server reads
	// later drawn over their legal ranges (zz_verif_c11cfg.go); so is every reconfiguration before a restart.
	c.reconfigure = c.configureMain
	switch kind {
	case 0:
		c.name, c.main = "scripted", &w.ss.AnySource
	case 1:
		c.name, c.main = "TRIANGLESOURCE", &c.sc.triangle.AnySource
	case 3:
		c.setupLancero(lanRows, lanCols)
	default:
		c.name, c.main = "SIMPULSESOURCE", &c.sc.simPulses.AnySource
	}
	if err := c.reconfigure(nchan); err != nil {
		simrt.Fail("harness.configure", "harness:configure", "%v", err)
	}
	c.any = c.main
	env.Op("control world source=%s nchan=%d nsamp=%d npre=%d block=%d+%d samples / %v fault=%s auto-restart=%v", c.name, nchan, nsamp, npre, c.blkLen, c.blkVar, c.blockTime, c.faultClass, c.cfgAuto)
	if c.full {
		env.Op("fault plan: the disk is full for %v from creation #%d of such a file on (%d creations, 0 = all later ones)", c.fs.FullMatch, c.fs.FullFrom, c.fs.FullCount)
	}

	// sometimes the first requests arrive before any source was ever started
	if simrt.Draw(5) == 4 {
		for i := 0; i < 1+simrt.Draw(2); i++ {
			c.call(c.drawRequest())
		}
	}
	c.startMain()
	// records should flow in most runs: auto triggers on every channel
	if simrt.Draw(4) != 3 {
		all := c.allChannels()
		ts := TriggerState{AutoTrigger: true, AutoDelay: time.Duration(float64(c.nsamp+simrt.Draw(2*c.nsamp)) / rate * float64(time.Second)), EdgeLevel: 100, EdgeRising: true}
		c.call(&c11Req{kind: "ConfigureTriggers", desc: "auto on all channels", expect: c11OK, needsSource: true,
			do: func() error {
				return c.sc.ConfigureTriggers(&FullTriggerState{ChannelIndices: all, TriggerState: ts}, &ok)
			}})
	}

	c.nreq = 8 + simrt.Draw(16)
	restarts := 0
	c.two = simrt.Draw(3) == 2
	maxRestarts := 2
	if c.two {
		maxRestarts = 4
	}
	for i := 0; i < c.nreq; i++ {
		if c.two && simrt.Draw(4) == 3 && c.twoClientEpisode() {
			c.pollRawBlocks()
			continue
		}
		if c.state() == c11Down && restarts < maxRestarts && simrt.Draw(3) == 2 {
			restarts++
			c.startMain()
		}
		c.timing()
		c.call(c.drawRequest())
		c.pollRawBlocks()
	}

	// wind down: the pipeline still makes progress, Stop returns, requests afterwards are refused
	if c.state() == c11Healthy {
		c.checkProgress(c.lastKind, 1)
		time.Sleep(c.blockTime * time.Duration(simrt.Draw(4)))
		c.pollRawBlocks()
	}
	if c.state() != c11Down {
		c.call(c.reqStop())
	}
	for i := 0; i < 1+simrt.Draw(2); i++ {
		c.call(c.drawRequest())
	}
	c.stopHardware()
	c.pollRawBlocks()
	env.Sample(map[string]interface{}{"source": c.name, "channels": nchan, "requests": c.nreq, "error_replies": c.nerr, "starts": c.starts,
		"self_terminations": c.selfEnds, "io_failure": c.faultClass, "io_failure_persistent": c.persist, "disk_full": c.full, "io_failures_fired": c.fires, "raw_blocks_completed": len(c.rawSeen)})
}

// planDiskFull: the disk is full for one class of small files (a condition, like a quota or a full
// partition: the file can be created, nothing can be written into it). Of the creations of the class,
// number FullFrom and either all later ones or only that one get a handle on /dev/full.
func (c *c11World) planDiskFull(class, match string) {
	c.faultClass, c.full = class, true
	c.fs.FullMatch = []string{match}
	c.fs.FullFrom = simrt.DrawFault(2)
	c.fs.FullCount = simrt.DrawFault(2)
	simrt.Hit("plan:disk-full:" + class)
}

// stateFileOnFullDisk: the experiment-state file is open and its handle is the full-disk one, so the
// next label written into it fails.
func (c *c11World) stateFileOnFullDisk() bool {
	f := c.any.writingState.experimentStateFile
	return f != nil && f.Name() == "/dev/full"
}

// sideLogPendingOnFullDisk: the external-trigger or data-drop log is open on the full disk with bytes
// waiting in its buffer, so the flush that STOP performs fails.
func (c *c11World) sideLogPendingOnFullDisk() bool {
	ws := &c.any.writingState
	if f, b := ws.externalTriggerFile, ws.externalTriggerFileBufferedWriter; f != nil && b != nil && f.Name() == "/dev/full" && b.Buffered() > 0 {
		return true
	}
	if f, b := ws.dataDropFile, ws.dataDropFileBufferedWriter; f != nil && b != nil && f.Name() == "/dev/full" && b.Buffered() > 0 {
		return true
	}
	return false
}

// noteFires counts occurrences of the injected failure and, in the persistent mode, re-arms the plan
// so that the next operation of the same path class fails as well. (simrt's plan fails one operation;
// a fresh plan with FailAt 0 is installed each time the previous one has fired. Called at every request
// boundary and every region event, i.e. between any two operations of one class that dastard performs.)
func (c *c11World) noteFires() {
	if n := c.fs.FullFired; n > c.fullNoted {
		c.fires += n - c.fullNoted
		c.fullNoted = n
	}
	if !c.fs.Fired {
		return
	}
	c.fires++
	if !c.persist {
		c.fs.Fired = false
		c.fs.FailAt = -1
		return
	}
	nf := simrt.NewFaultFS(c.fs.TmpDir)
	nf.FailMatch, nf.FailAt, nf.FailErr, nf.TmpSeq, nf.Ops = c.fs.FailMatch, 0, c.fs.FailErr, c.fs.TmpSeq, c.fs.Ops
	c.fs = nf
	simrt.SetFS(nf)
}

// ---------------------------------------------------------------------------------
// region monitor (runs inside simrt.Enter/Exit on the task that enters the region)

func (c *c11World) monitor(ev simrt.RegionEvent) {
	c.noteFires()
	switch ev.Region {
	case "process":
		if ev.Enter {
			if c.inRequest > 0 || c.inClosure > 0 {
				simrt.Note("C11.mutual-exclusion", "mutex:processing-during-request", "ProcessSegments entered by task %d while a request is being executed (request regions %d, closures %d)", ev.TaskID, c.inRequest, c.inClosure)
			}
			c.inProcess++
			c.procDigest, c.procDigestOf = c.digest(), c.any
			if c.procSignal != nil {
				close(c.procSignal)
				c.procSignal = nil
			}
		} else {
			c.inProcess--
			if d := c.digest(); d != c.procDigest && c.inProcess == 0 && c.procDigestOf == c.any {
				simrt.Note("C11.mutual-exclusion", "mutex:settings-changed-during-processing", "settings that only requests change were different when ProcessSegments returned from what they were when it started (request in flight: %v %s)\nbefore: %s\nafter:  %s", c.callActive, c.callKind, c.procDigest, d)
			}
			if c.callActive && !c.callEntered {
				c.callWaited = true
			}
		}
	case "request":
		if ev.Enter {
			if c.inProcess > 0 {
				simrt.Note("C11.mutual-exclusion", "mutex:request-during-processing", "the core loop (task %d) runs a request while ProcessSegments is active", ev.TaskID)
			}
			c.inRequest++
			c.reqTask = ev.TaskID
			if c.callActive {
				c.callEntered = true
				if c.enteredSignal != nil {
					close(c.enteredSignal)
					c.enteredSignal = nil
				}
			}
		} else {
			c.inRequest--
		}
	case "closure":
		if ev.Enter {
			if c.inProcess > 0 {
				simrt.Note("C11.mutual-exclusion", "mutex:closure-during-processing", "a request closure runs on task %d (%s) while ProcessSegments is active", ev.TaskID, ev.Class)
			}
			if c.inRequest == 0 || ev.TaskID != c.reqTask {
				simrt.Note("C11.mutual-exclusion", "mutex:closure-off-core-loop", "a request closure runs on task %d (%s), not inside the core loop's request step (request regions open: %d, core-loop task %d)", ev.TaskID, ev.Class, c.inRequest, c.reqTask)
			}
			c.inClosure++
		} else {
			c.inClosure--
		}
	}
}

// digest renders everything that only control requests may change: per channel the trigger
// settings, record lengths, projectors, output files and pause flag; the writing state; the
// group-trigger connections. "Requests take effect only between data blocks" means it is the same
// when ProcessSegments returns as when it was entered.
func (c *c11World) digest() string {
	ds := c.any
	var b strings.Builder
	for _, dsp := range ds.processors {
		ts := &dsp.TriggerState
		fmt.Fprintf(&b, "[%d/%d a%v,%d,%d l%v,%v,%d e%v,%v,%v,%d m%v,%d,%d,%d,%d,%d,%v p%p,%p f%v,%v,%v,%v]", dsp.NSamples, dsp.NPresamples,
			ts.AutoTrigger, ts.AutoDelay, ts.AutoVetoRange, ts.LevelTrigger, ts.LevelRising, ts.LevelLevel, ts.EdgeTrigger, ts.EdgeRising, ts.EdgeFalling, ts.EdgeLevel,
			ts.EdgeMulti, ts.EMTState.mode, ts.EMTState.threshold, ts.EMTState.nmonotone, ts.EMTState.npre, ts.EMTState.nsamp, ts.EMTState.enableZeroThreshold,
			dsp.projectors, dsp.basis, dsp.DataPublisher.HasLJH22(), dsp.DataPublisher.HasLJH3(), dsp.DataPublisher.HasOFF(), dsp.DataPublisher.WritingPaused)
	}
	ws := &ds.writingState
	fmt.Fprintf(&b, " w%v,%v,%q,%q", ws.Active, ws.Paused, filepath.Base(ws.FilenamePattern), ws.ExperimentStateLabel)
	if ds.broker != nil {
		fmt.Fprintf(&b, " g%d", ds.broker.nconnections)
		for rx, src := range ds.broker.sources {
			for sidx := range src {
				fmt.Fprintf(&b, ",%d>%d", sidx, rx)
			}
		}
	}
	return b.String()
}

// ---------------------------------------------------------------------------------
// source life

// state resolves what the harness knows about the source right now.
func (c *c11World) state() int {
	if !c.up {
		return c11Down
	}
	if !c.termSent {
		return c11Healthy
	}
	if !c.any.Running() {
		// the core loop has deactivated the source: from here on no source is running
		c.noteDown(true)
		return c11Down
	}
	return c11Ending
}

func (c *c11World) noteDown(self bool) {
	if c.runAuto && c.up {
		if self {
			simrt.Hit("run-with-auto-restart-ended-by-itself")
		} else {
			simrt.Hit("run-with-auto-restart-ended-by-stop")
		}
	}
	c.up = false
	c.selfEnded = self
	c.writing = c11WOff // a run that ends stops its writing (C10)
	c.commentOK = false
	if self {
		c.selfEnds++
	}
}

// startMain starts the world's main source (harness-level for the scripted source, whose name
// the RPC method does not know; through the RPC method otherwise).
func (c *c11World) startMain() {
	for deadline := time.Now().Add(10 * time.Second); c.state() != c11Down; {
		if c.state() == c11Healthy {
			return // a Start request of the workload has started it already
		}
		if time.Now().After(deadline) {
			simrt.Fail("harness.start", "harness:source-never-ended", "a self-ending source is still running after 10 s")
		}
		time.Sleep(time.Millisecond)
	}
	c.stopHardware()
	var err error
	if c.starts > 0 && c.reconfigure != nil && simrt.Draw(3) == 2 {
		// a restart with another number of channels and other options (the source is reconfigured while it
		// is inactive; the channel count of the Lancero source is its card's)
		n, before := 1+simrt.Draw(4), c.nchanMain
		if c.kind == 3 {
			n = c.nchanMain
		}
		if err := c.reconfigure(n); err != nil {
			simrt.Fail("C11.reply-kind", "reply:error-for-valid:configure-"+c.name, "a legal configuration of the inactive %s source (%d channels) was refused: %v", c.name, n, err)
		}
		if n != before {
			simrt.Hit("restart-with-other-channel-count")
			if c.rawPending() {
				simrt.Hit("restart-with-other-channel-count-and-unfinished-raw-block")
			}
		}
	}
	c.ensureConfigured()
	if c.kind == 0 {
		c.w.sent, c.w.fed = 0, 0
		err = c.w.startScripted()
	} else {
		// a stale flag would make the RPC method refuse; any status request refreshes it
		var ok bool
		var dummy string
		c.sc.SendAllStatus(&dummy, &ok)
		name := c.name
		before := c.fs.FullFired
		err = c.startWatched(&name, &ok)
		if err != nil && c.fs.FullFired > before {
			// Start could not write channels.json (full disk) and says so: no source is running then
			c.noteFires()
			c.env.Op("start %s refused: %v", c.name, err)
			return
		}
		if err != nil {
			// No source is running (Stop has returned, or the run ended by itself and the source reports that it
			// is not running), the flag of the RPC layer was refreshed by a status request, the source has a
			// legal configuration: the server has to start it.
			simrt.Fail("C11.reply-kind", "reply:error-for-valid:Start", "Start of the inactive, configured %s source was refused: %v (%s; previous run of a source configured with ShouldAutoRestart: %v)", c.name, err, c.whyDown(), c.runAuto)
		}
	}
	if err != nil {
		simrt.Fail("harness.start", "harness:start", "Start of the %s source failed: %v", c.name, err)
	}
	c.noteStarted(c.main, c.nchanMain, false)
	c.env.Op("start %s (#%d, %d channels)", c.name, c.starts, c.nchanMain)
	if c.kind == 0 {
		c.hwStop, c.hwDone, c.termCh, c.endNow = make(chan struct{}), make(chan struct{}), make(chan struct{}), make(chan struct{})
		stop, done, term := c.hwStop, c.hwDone, c.termCh
		go c.hardware(stop, done, term)
	}
}

// startWatched is the harness's own Start of the main source, under the same 20 s watchdog as every request.
func (c *c11World) startWatched(name *string, ok *bool) error {
	done := make(chan struct{})
	go func() {
		// (20 s in which the simulated CPU was idle: see simrt.IdleTimeout)
		if simrt.IdleTimeout(done, 20*time.Second) {
			simrt.Note("C11.returns", "hang:Start:after-"+c.lastKind, "Start(%s) did not return within 20 s of simulated time (%s); tasks: %v", *name, c.whyDown(), simrt.AliveTaskInfo())
		}
	}()
	err := c.sc.Start(name, ok)
	close(done)
	return err
}

func (c *c11World) noteStarted(any *AnySource, nchan int, selfEnding bool) {
	c.runAuto = any.ShouldAutoRestart() // (what the server will read when this run ends)
	if c.runAuto {
		simrt.Hit("run-of-source-with-auto-restart-started")
	}
	c.any, c.nchan = any, nchan
	c.up, c.everUp, c.termSent, c.endReq = true, true, selfEnding, 0
	c.starts++
	c.lastKind = "start"
	c.writing, c.commentOK, c.emt, c.lenKnown = c11WOff, false, false, true // (an unfinished raw-block request outlives a restart)
	c.emtShort, c.projAsked, c.offMaybe = false, false, false
}

func (c *c11World) stopHardware() {
	if c.hwStop != nil {
		close(c.hwStop)
		<-c.hwDone
		c.hwStop = nil
	}
}

// hardware paces blocks on the fake clock and hands them to the scripted source.
func (c *c11World) hardware(stop, done, term chan struct{}) {
	defer close(done)
	ss := c.w.ss
	T0 := time.Now()
	F0 := FrameIndex(1000 * c.starts)
	sent := 0
	for i := 0; ; i++ {
		n := c.blkLen + (i%3)*c.blkVar
		if d := time.Until(T0.Add(time.Duration(sent+n) * c.period)); d > 0 {
			tm := time.NewTimer(d)
			select {
			case <-tm.C:
			case <-stop:
				tm.Stop()
				return
			}
		}
		terminate := func() {
			var b *dataBlock // nil: the source closes its block channel
			if c.endReq == 1 {
				b = &dataBlock{err: errors.New("scripted hardware error")}
			}
			c.termSent, c.termAt = true, time.Now()
			close(term)
			select {
			case ss.feed <- b:
			case <-stop:
			}
		}
		if c.endReq != 0 {
			terminate()
			return
		}
		b := new(dataBlock)
		b.segments = make([]DataSegment, c.nchanMain)
		for ch := range b.segments {
			data := make([]RawType, n)
			for k := range data {
				s := sent + k
				v := 1000 + 300*ch + s%17
				if p := s % 131; p < 8 {
					v += 4000 >> uint(p) // a pulse every 131 samples
				}
				data[k] = RawType(v)
			}
			b.segments[ch] = DataSegment{rawData: data, framesPerSample: 1, framePeriod: c.period, firstFrameIndex: F0 + FrameIndex(sent),
				firstTime: T0.Add(time.Duration(sent) * c.period)}
			if i%3 == 2 {
				b.segments[ch].droppedFrames = 2
			}
		}
		b.nSamp = n
		if i%2 == 1 {
			b.externalTriggerRowcounts = []int64{int64(F0) + int64(sent), int64(F0) + int64(sent) + 3}
		}
		select {
		case ss.feed <- b:
			sent += n
		case <-c.endNow:
			// told to end the source while this block was still waiting to be taken: the block is lost
			terminate()
			return
		case <-stop:
			return
		}
	}
}

// ---------------------------------------------------------------------------------
// the client's timing

func (c *c11World) timing() {
	st := c.state()
	switch t := simrt.Draw(10); {
	case t == 9:
		c.lateOrphan(st)
	case t == 0:
		// back to back
	case t <= 2:
		time.Sleep(c.blockTime * time.Duration(1+simrt.Draw(20)) / 10)
	case t <= 4:
		// arrive while a block is being processed
		if st == c11Healthy {
			sig := make(chan struct{})
			c.procSignal = sig
			tm := time.NewTimer(time.Second)
			select {
			case <-sig:
			case <-tm.C:
				c.procSignal = nil
			}
			tm.Stop()
		}
	case t == 5:
		if st == c11Healthy {
			c.call(c.reqStop())
			simrt.Hit("request-right-after-stop")
		}
	case t <= 7:
		// the source ends by itself (fault: faulted configuration only)
		if c.env.Faulted() && st == c11Healthy && c.kind == 0 && c.endReq == 0 {
			c.endReq = 1 + simrt.DrawFault(2)
			simrt.Fault("self-termination")
			c.env.Op("hardware told to end the source by itself (%s)", []string{"", "error block", "closed channel"}[c.endReq])
			switch simrt.Draw(3) {
			case 0:
				// request in the steps around the termination
				tm := time.NewTimer(2 * time.Second)
				select {
				case <-c.termCh:
				case <-tm.C:
				}
				tm.Stop()
				for k := simrt.Draw(6); k > 0; k-- {
					simrt.Gosched()
				}
			case 1:
				// request once the source is gone, nothing in between refreshes the server's flag
				deadline := time.Now().Add(10 * time.Second)
				for c.state() != c11Down && time.Now().Before(deadline) {
					time.Sleep(c.blockTime / 2)
				}
			}
		}
	default:
		// several blocks; the longer one lets the 1 s tickers of the writing code fire
		time.Sleep(c.blockTime * []time.Duration{12, 55}[simrt.Draw(2)])
	}
}

// lateOrphan arranges that the next request waits for a busy core loop for several of the RPC layer's
// re-check periods (100 ms) and that the source ends by itself at a drawn moment of that wait. The core
// loop is kept busy the way a slow preceding request keeps it busy: a closure that takes 150-800 ms is
// handed to it through the request queue. When it is done the core loop finds both the waiting request
// and the end of the data; whichever it takes, the caller must get its one reply.
// c11CloseOnce closes a harness signal channel that two harness tasks may both decide to close.
func c11CloseOnce(ch chan struct{}) {
	defer func() { recover() }()
	close(ch)
}

func (c *c11World) lateOrphan(st int) {
	if !c.env.Faulted() || st != c11Healthy || c.kind != 0 || c.endReq != 0 {
		return
	}
	busy := time.Duration(150+simrt.Draw(14)*50) * time.Millisecond
	when := time.Duration(20+simrt.Draw(int(busy/time.Millisecond))) * time.Millisecond // may also fall before the first re-check
	kind := 1 + simrt.DrawFault(2)
	tm := time.NewTimer(5 * time.Second)
	select {
	case c.sc.queuedRequests <- func() { time.Sleep(busy) }:
	case <-tm.C:
		return
	}
	tm.Stop()
	simrt.Fault("self-termination")
	c.env.Op("core loop busy for %v; the hardware ends the source (%s) %v into it", busy, []string{"", "error block", "closed channel"}[kind], when)
	endNow := c.endNow
	go func() {
		time.Sleep(when)
		if c.endReq == 0 && c.endNow == endNow {
			c.endReq = kind
			c11CloseOnce(endNow)
		}
	}()
}

// ---------------------------------------------------------------------------------
// one request + oracle

type c11Req struct {
	kind        string
	desc        string
	expect      int  // reply kind demanded on a source that is healthy for the whole call
	needsSource bool // the property's "error if no source is running" applies to this kind
	queued      bool // goes through runLaterIfActive
	isStart     bool // a WriteControl START: if refused, it must leave the writing state as it was
	badIndex    bool // carries an out-of-range channel index
	config      bool // a source configuration request (zz_verif_c11cfg.go)
	mustSucceed bool // a legal configuration of a source that is idle: accepted whatever else is going on
	expectIdle  int  // reply kind demanded when no source is running (configuration requests only)
	do          func() error
	onOK        func()
	onErr       func()
}

func (c *c11World) call(r *c11Req) {
	st := c.state()
	c.noteFires()
	firesBefore := c.fires
	callStart := time.Now()
	c.callStart = callStart
	stale := st == c11Down && c.selfEnded && c.sc.isSourceActive
	snapBefore := ""
	if r.isStart && st == c11Healthy {
		snapBefore = c.writingSnapshot()
	}
	c.callActive, c.callEntered, c.callWaited, c.callKind, c.callState = true, false, false, r.kind, st
	// full disk: what the request will find (taken before the call; only requests change it, and this
	// client's requests are issued one at a time)
	fullHandles := c.fs.FullFired
	stateFull, sidePending := false, false
	if c.full && st == c11Healthy {
		stateFull, sidePending = c.stateFileOnFullDisk(), c.sideLogPendingOnFullDisk()
	}

	done := make(chan struct{})
	go func() {
		if simrt.IdleTimeout(done, 20*time.Second) {
			sig, what := c.hangSignature(r)
			simrt.Note("C11.returns", sig, "%s(%s) did not return within 20 s of simulated time: %s; tasks: %v", r.kind, r.desc, what, simrt.AliveTaskInfo())
		}
	}()
	err := r.do()
	close(done)
	c.callActive = false

	c.noteFires()
	fired := c.fires > firesBefore
	healthy := st == c11Healthy && !c.termSent && !c.overlap
	// An I/O step of this request failed for certain (full disk): the property demands an error reply.
	//  - the request created a file of the class and got the full-disk handle: WriteComment writes the (non-empty)
	//    comment at once, whoever creates the experiment-state file writes its header and a label at once;
	//  - the experiment-state file was already open on the full disk and the request writes a label into it
	//    (state label, "UNPAUSE label", STOP's closing label);
	//  - STOP flushes a side log that has bytes pending for the full disk.
	ioFailed := ""
	if c.full && healthy && c.callEntered {
		createdFull := c.fs.FullFired > fullHandles
		switch {
		case createdFull && c.faultClass == "comment" && r.kind == "WriteComment":
			ioFailed = "comment.txt was created but the comment could not be written (disk full)"
		case createdFull && c.faultClass == "experiment-state" && r.queued:
			ioFailed = "the experiment-state file was created but nothing could be written into it (disk full)"
		case stateFull && (r.kind == "SetExperimentStateLabel" || r.kind == "WriteControl-UNPAUSE-label" || r.kind == "WriteControl-STOP"):
			ioFailed = "the label could not be written into the experiment-state file (disk full)"
		case sidePending && r.kind == "WriteControl-STOP":
			ioFailed = "the pending lines of the external-trigger / data-drop log could not be flushed (disk full)"
			simrt.Hit("stop-flush-failed-on-full-disk")
		}
	}
	if ioFailed != "" {
		fired = true
		simrt.Hit("request-write-failed-on-full-disk:" + r.kind)
	}
	if c.termSent && st == c11Healthy && !c.callEntered && r.queued && c.termAt.Sub(callStart) > 100*time.Millisecond {
		// the request had been waiting for the core loop for more than one re-check period of the RPC layer
		// when the source ended itself, and the core loop never took it
		simrt.Hit("request-orphaned-after-long-wait")
	}
	reply := "<nil>"
	if err != nil {
		// the sandbox path and printed addresses differ from process to process
		reply = c11Addr.ReplaceAllString(strings.ReplaceAll(err.Error(), c.env.Dir, "$DIR"), "0x?")
	}
	c.env.Op("%s(%s) [%s] -> %s", r.kind, r.desc, []string{"no source", "running", "ending"}[st], reply)
	if err != nil {
		c.nerr++
	}
	if c.callWaited {
		simrt.Hit("request-queued-during-processing")
	}
	if st == c11Ending {
		simrt.Hit("request-near-self-termination")
	}
	if stale {
		simrt.Hit("request-after-self-termination-stale-flag")
	}
	if st == c11Down && !c.everUp {
		simrt.Hit("request-before-any-start")
	}
	if st == c11Down && c.everUp && c.runAuto && r.needsSource {
		simrt.Hit("request-after-run-with-auto-restart-ended")
	}
	if r.config {
		simrt.Hit("configuration-request:" + r.kind)
	}
	if r.badIndex && c.callEntered {
		simrt.Hit("invalid-index-reached-handler")
	}
	switch {
	case ioFailed != "" && err == nil:
		simrt.Fail("C11.reply-kind", "reply:success-despite-io-failure:"+r.kind, "%s(%s) was answered with success although an I/O step of the request failed: %s", r.kind, r.desc, ioFailed)
	case fired:
		// relaxation: the reply may be the I/O error or a result; liveness is not relaxed
		simrt.Hit("handler-hit-by-io-failure")
		if c.fires > 1 {
			simrt.Hit("handler-hit-by-io-failure-again")
		}
	case c.overlap:
		// the other client's Start or Stop is in flight: either order is a valid history
	case r.mustSucceed && err != nil:
		simrt.Fail("C11.reply-kind", "reply:error-for-valid:"+r.kind, "%s(%s) is a legal configuration of a source that is not running but was answered with the error %q", r.kind, r.desc, reply)
	case st == c11Down && r.expectIdle == c11Err && err == nil:
		simrt.Fail("C11.reply-kind", "reply:success-for-invalid:"+r.kind, "%s(%s) has invalid arguments but was answered with success", r.kind, r.desc)
	case st == c11Down && r.needsSource && err == nil:
		simrt.Fail("C11.reply-kind", "reply:success-without-source:"+r.kind, "%s(%s) answered success although no source is running (%s)", r.kind, r.desc, c.whyDown())
	case healthy && r.expect == c11OK && err != nil:
		simrt.Fail("C11.reply-kind", "reply:error-for-valid:"+r.kind, "%s(%s) is a well-formed request on a running source but was answered with the error %q", r.kind, r.desc, reply)
	case healthy && r.expect == c11Err && err == nil:
		simrt.Fail("C11.reply-kind", "reply:success-for-invalid:"+r.kind, "%s(%s) has invalid arguments but was answered with success", r.kind, r.desc)
	}
	if r.isStart && st == c11Healthy && c.mapMaybe {
		switch {
		case err == nil:
			simrt.Hit("start-accepted-with-map-loaded")
		case strings.Contains(reply, "map file invalidated"):
			simrt.Hit("start-refused-map-invalidated")
		default:
			simrt.Hit("start-refused-with-map-loaded")
		}
	}
	// (the source must also still be running: an injected failure that fires in block processing ends
	// the run through the core loop's fail-stop, whose clean-up stops writing - not this request)
	if r.isStart && healthy && err != nil && !fired {
		// a START that is refused leaves nothing behind: reported state and writers as before.
		// The snapshot is taken first and the run's health is read afterwards (taking the snapshot has
		// scheduling points: a run that the hardware ends meanwhile stops its writing by itself).
		snapAfter := c.writingSnapshot()
		if c.up && !c.termSent && c.fires == firesBefore && c.any.Running() && snapAfter != snapBefore {
			simrt.Fail("C11.refused-start", "reply:refused-start-changed-state", "%s(%s) was refused (%s) but changed the writing state\nbefore: %s\nafter:  %s", r.kind, r.desc, reply, snapBefore, snapAfter)
		}
		simrt.Hit("start-refused-cleanly")
	}
	if err == nil {
		if r.onOK != nil {
			r.onOK()
		}
	} else if r.onErr != nil {
		r.onErr()
	}
	if c.callEntered {
		c.lastKind = r.kind // the last request the core loop actually executed
	}
	if healthy && c.state() == c11Healthy && (err != nil || fired || simrt.Draw(2) == 1) {
		need := 1
		if fired {
			need = 4 // past a block that carries a drop count and one that carries external triggers
		}
		c.checkProgress(c.lastKind, need)
	}
}

func (c *c11World) whyDown() string {
	switch {
	case !c.everUp:
		return "none was ever started"
	case c.selfEnded:
		return "the source ended by itself"
	}
	return "Stop has returned"
}

func (c *c11World) hangSignature(r *c11Req) (sig, what string) {
	switch {
	case c.callState == c11Down && !r.queued:
		// the kinds that do not go through runLaterIfActive have their own way to a reply
		return "hang:request-without-source:" + r.kind, "no source was running (" + c.whyDown() + ")"
	case c.callState == c11Down && c.selfEnded:
		return "hang:request-after-source-ended", "the source had ended by itself before the call"
	case c.callState == c11Down:
		return "hang:request-without-source", "no source was running (" + c.whyDown() + ")"
	case c.callState == c11Healthy && c.termSent && r.queued && !c.callEntered:
		return "hang:queued-request-orphaned-by-source-end", fmt.Sprintf("the request was waiting for the core loop (for %v) when the source ended by itself, and nobody answered it", c.termAt.Sub(c.callStart))
	case c.callState == c11Ending || c.termSent:
		return "hang:request-while-source-ending", "the source ended by itself around the call"
	case !r.queued:
		return "hang:" + r.kind + ":after-" + c.lastKind, "the source is running (last request through the core loop: " + c.lastKind + ")"
	case c.callEntered:
		return "hang:no-reply:" + r.kind, "the core loop ran the request but the caller never got a reply"
	}
	return "hang:core-loop-not-serving:after-" + c.lastKind, "the core loop never took the request (previous request: " + c.lastKind + ")"
}

// checkProgress: while the source is alive the block counter keeps increasing.
func (c *c11World) checkProgress(after string, need int) {
	target := c.any.readCounter + need
	last := c.any.readCounter
	// 20 s in which the simulated CPU was idle (time charged for scheduler steps does not count: simrt.IdleTimeout)
	since, steps0 := time.Now(), simrt.Steps()
	step := c.blockTime / 3
	for c.any.readCounter < target {
		if c.state() != c11Healthy || c.endReq != 0 {
			return
		}
		if n := c.any.readCounter; n != last {
			last, since, steps0, step = n, time.Now(), simrt.Steps(), c.blockTime/3
		}
		if time.Since(since)-time.Duration(simrt.Steps()-steps0)*simrt.StepCost() > 20*time.Second {
			simrt.Fail("C11.progress", "progress:stalled-after:"+after, "no data block was processed for 20 s of simulated time after %s although the source is running (blocks processed: %d); tasks: %v", after, last, simrt.AliveTaskInfo())
		}
		time.Sleep(step)
		if step < 500*time.Millisecond {
			step *= 2
		}
	}
}

// rawPending: a raw-block request was accepted and its file has not reached its final name.
func (c *c11World) rawPending() bool {
	c.pollRawBlocks()
	for _, n := range c.rawNames {
		if !c.rawSeen[n] {
			return true
		}
	}
	return false
}

// writingSnapshot renders the reported writing state and which channels have which writers.
func (c *c11World) writingSnapshot() string {
	ws := c.any.ComputeWritingState()
	var b strings.Builder
	fmt.Fprintf(&b, "reported{active=%v paused=%v ljh22=%v ljh3=%v off=%v pattern=%q}", ws.Active, ws.Paused, ws.WriteLJH22, ws.WriteLJH3, ws.WriteOFF, filepath.Base(ws.FilenamePattern))
	for i, dsp := range c.any.processors {
		fmt.Fprintf(&b, " ch%d{ljh22=%v ljh3=%v off=%v paused=%v}", i, dsp.DataPublisher.HasLJH22(), dsp.DataPublisher.HasLJH3(), dsp.DataPublisher.HasOFF(), dsp.DataPublisher.WritingPaused)
	}
	return b.String()
}

// pollRawBlocks notices raw-data block files that have reached their final name.
func (c *c11World) pollRawBlocks() {
	for _, n := range c.rawNames {
		if !c.rawSeen[n] {
			if _, err := os.Lstat(n); err == nil {
				c.rawSeen[n] = true
				simrt.Hit("raw-block-completed")
			}
		}
	}
}

var c11Addr = regexp.MustCompile(`0x[0-9a-f]+`)
