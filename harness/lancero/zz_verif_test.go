//go:debug asynctimerchan=0
//go:build verif

package lancero

import (
	"testing"

	"verif/simrt"
)

func TestVerif(t *testing.T) { simrt.Main(t) }
