//go:build verif

package lancero

// C04b — the Lancero card's DMA ring below the Lanceroer interface (property C04, first clause:
// "every frame's word ... appears exactly once, in frame order ... however the byte stream is
// chopped into driver reads").
//
// The check C04 (package dastard) substitutes a scripted card AT the Lanceroer interface, so the
// code below that interface runs nowhere: Lancero's exported methods, the adapter (the DMA ring in
// user memory, the read/write index registers, availableBuffer / releaseBytes / wait / start /
// stop), the collector and the register access of lanceroDevice. Here that code is real and the
// DEVICE is simulated:
//
//   - the four device files are files the harness owns (in the run's sandbox directory): a register
//     written with pwrite reads back with pread, exactly what the driver's register files do for
//     read/write registers; the registers the card itself drives (write index, available bytes,
//     status, max fill, the SGDMA engine's control/status words) are driven by a firmware task;
//   - the DMA ring is the memory the adapter allocated itself (posix_memalign in
//     allocateRingBuffer); the firmware task writes into it as the card's SGDMA engine does and
//     takes its length and interrupt threshold from the registers the adapter programmed (RBS, RBTH);
//   - the firmware task runs on the fake clock: it answers the start/stop handshakes of
//     cyclicStart/cyclicStop (engine RUN, BUSY), and while adapter, engine and collector run it
//     writes frames of the drawn geometry (columns x rows 4-byte words, frame bit set on the words of
//     row 0) in bursts drawn relative to the free space, to the end of the ring and to the frame
//     size, publishes the write index, the available-byte count, the threshold status bit and the
//     threshold interrupt event; it stalls, bursts, fills the ring completely (the card keeps one
//     bus beat free: write index == read index means empty) and never overwrites bytes the host has
//     not released (it reads the read index register).
//
// The consumer (the harness' main task) uses only Lancero's exported methods, in the order
// dastard's sampleCard/StartRun use them: ChangeRingBuffer, StartAdapter, CollectorConfigure,
// StartCollector, then Wait / AvailableBuffer / FindFrameBits / ReleaseBytes with drawn release
// sizes (everything; whole frames as the reader does; fewer frames; a part of a frame; a few bytes;
// nothing), StopCollector, StopAdapter; one to three such episodes per run on the same Lancero
// object with new ring sizes and geometries, finally Close.
//
// Oracle. Stream byte i of an episode is a function of i (c04bWorld.word), so every byte handed to
// the consumer is attributable. With "written" the bytes the card has published and "released" the
// bytes the consumer has released, every AvailableBuffer must return bytes released, released+1, …:
// nothing stale, skipped, repeated or reordered, and never more than written-released. A read may
// return fewer bytes than are available (they must come later): after the card has stopped
// producing, reading and releasing must deliver everything that was written. The read index the
// card is told (register RBRI) must be released mod ring length, the ring length and threshold the
// card is told must be those of the ring the adapter reads from, and no call may fail while the
// card behaves. In the faulted configuration the card may overflow (status bit FULL, data beyond
// the ring are lost): the next ReleaseBytes must report it; the bytes written before the overflow
// still obey the stream oracle; the next episode must work again. Other faults: scheduler stalls
// of either side.

import (
	"encoding/binary"
	"fmt"
	"io"
	"os"
	"path/filepath"
	"time"
	"unsafe"

	"verif/simrt"
)

func init() {
	simrt.Register(&simrt.Check{
		Name: "C04b", Property: "C04", Body: c04bBody, Classify: c04bClassify, MaxSteps: 120000,
		Real: []string{
			"lancero.Lancero (ChangeRingBuffer, StartAdapter, StopAdapter, CollectorConfigure, StartCollector, StopCollector, Wait, AvailableBuffer, ReleaseBytes, InspectAdapter, Close)",
			"lancero.adapter (allocateRingBuffer, start, stop, wait, availableBuffer, releaseBytes, status, inspect; the DMA ring it allocates with posix_memalign)",
			"lancero.collector (configure, start, stop)",
			"lancero.lanceroDevice (readRegister/writeRegister/readControl/writeControl, readEvents, cyclicStart, cyclicStop, Close)",
			"lancero.FindFrameBits (first alignment of an episode, as in StartRun)",
		},
		Stub: []string{
			"/dev/lancero_user*, _control*, _events*, _sgdma*: plain files owned by the harness (registers read back what was written; the event file holds one word per threshold interrupt; the SGDMA file is only read once by cyclicStart)",
			"card firmware (ring-buffer adapter, SGDMA write engine, collector): a harness task on the fake clock that fills the adapter's own DMA ring and drives the write-index/available/status registers",
			"NewLancero/openLanceroDevice (hard-wired /dev paths) are not run: the Lancero object is assembled from its parts as NewLancero does",
		},
	})
}

func c04bClassify(site string) string {
	switch site {
	case "harness:firmware":
		return "firmware"
	case "harness:main":
		return "consumer"
	}
	return site
}

const (
	c04bEngineID      int64 = 0x200 // SGDMA write engine: identification
	c04bEngineStatus  int64 = 0x204 // bit 0 = BUSY
	c04bEngineControl int64 = 0x208 // bit 0 = RUN
)

type c04bWorld struct {
	env *simrt.Env
	sim *simrt.Sim
	lan *Lancero

	user, control, events, sgdma *os.File

	// what the consumer configured for this episode (the crate side of the geometry)
	cols, rows int
	W          int // words per frame
	F          int // bytes per frame
	phase      int // word of a frame with which the stream starts
	salt       uint32
	quantum    int // the card advances its write index in multiples of this (word or bus beat)
	period     time.Duration

	// firmware state
	quit        bool
	closed      bool
	fwExited    bool
	engineOn    bool
	busyShown   bool
	busyClear   bool // BUSY is cleared one poll after the engine stopped
	startDelay  int
	ring        []byte
	L           int   // ring length the card was told (RBS)
	thresh      int   // interrupt threshold the card was told (RBTH)
	wi          int   // write index
	produced    int64 // stream bytes written and published since the engine started
	epoch       int   // engine starts so far
	idle        bool  // the firmware saw the collector stopped (or the engine) and produces nothing
	overflowed  bool
	above       bool // fill level at or above the threshold
	maxFill     int
	evWritten   int
	stallPolls  int
	heldUp      int // consecutive polls in which the running engine wrote nothing
	mayOverflow bool

	// consumer's model
	consumed int64 // stream bytes released since the engine started
	evRead   int
	nReads   int
	held     []byte // the slice returned by the last read (AvailableBuffer documents a copy)
	heldAt   int64
	nWraps   int
}

func c04bMin(a, b int) int {
	if a < b {
		return a
	}
	return b
}

// ---------------------------------------------------------------------------------
// the stream

// word is the k-th 4-byte word of the episode's stream (little endian in memory). Bit 16 (bit 0 of
// byte 2, where FindFrameBits(b, 2) looks) is the frame bit: set on the words of row 0.
func (w *c04bWorld) word(k int64) uint32 {
	kk := k + int64(w.phase)
	v := (uint32(kk) + w.salt) * 2654435761
	v ^= v >> 15
	v *= 2246822519
	v ^= v >> 13
	if int(kk%int64(w.W)) < w.cols {
		v |= 1 << 16
	} else {
		v &^= 1 << 16
	}
	return v
}

func (w *c04bWorld) streamByte(i int64) byte {
	return byte(w.word(i/4) >> (8 * uint(i%4)))
}

// verify compares data with the stream from byte offset start on; returns the index of the first
// wrong byte or -1.
func (w *c04bWorld) verify(data []byte, start int64) int {
	i := 0
	for ; i < len(data) && (start+int64(i))%4 != 0; i++ {
		if data[i] != w.streamByte(start+int64(i)) {
			return i
		}
	}
	k := (start + int64(i)) / 4
	for ; i+4 <= len(data); i, k = i+4, k+1 {
		if binary.LittleEndian.Uint32(data[i:]) != w.word(k) {
			for j := 0; j < 4; j++ {
				if data[i+j] != w.streamByte(start+int64(i+j)) {
					return i + j
				}
			}
		}
	}
	for ; i < len(data); i++ {
		if data[i] != w.streamByte(start+int64(i)) {
			return i
		}
	}
	return -1
}

// attribute says which stream offset wrong bytes actually come from, if any nearby.
func (w *c04bWorld) attribute(got []byte, want int64) string {
	m := c04bMin(len(got), 8)
	if m < 4 {
		return ""
	}
	match := func(j int64) bool {
		if j < 0 {
			return false
		}
		for t := 0; t < m; t++ {
			if got[t] != w.streamByte(j+int64(t)) {
				return false
			}
		}
		return true
	}
	say := func(j int64) string {
		switch {
		case j < want && (want-j)%int64(w.L) == 0:
			return fmt.Sprintf("The bytes returned there are those of stream offset %d, i.e. what the ring held %d lap(s) earlier: stale data, released long ago, are delivered as new.", j, (want-j)/int64(w.L))
		case j < want:
			return fmt.Sprintf("The bytes returned there are those of stream offset %d: %d bytes behind, i.e. data already delivered come again.", j, want-j)
		case j >= w.produced:
			return fmt.Sprintf("The bytes returned there would be those of stream offset %d, which the card has not written.", j)
		}
		return fmt.Sprintf("The bytes returned there are those of stream offset %d: %d bytes were skipped.", j, j-want)
	}
	for lap := int64(1); lap <= 3; lap++ {
		if j := want - lap*int64(w.L); match(j) {
			return say(j)
		}
	}
	for d := int64(1); d <= 8192; d++ {
		if match(want - d) {
			return say(want - d)
		}
		if match(want + d) {
			return say(want + d)
		}
	}
	allJunk := true
	for t := 0; t < m; t++ {
		if got[t] != 0xEE {
			allJunk = false
		}
	}
	if allJunk {
		return "The bytes returned there are ring memory the card has never written in this episode."
	}
	return "The bytes returned there match no nearby stream offset."
}

// ---------------------------------------------------------------------------------
// the device: register files

func (w *c04bWorld) rd(f *os.File, off int64) uint32 {
	var b [4]byte
	if n, err := f.ReadAt(b[:], off); n < 4 {
		simrt.Fail("C04b.setup", "harness:register-file", "reading register 0x%x of %s: %v", off, f.Name(), err)
	}
	return binary.LittleEndian.Uint32(b[:])
}

func (w *c04bWorld) wr(f *os.File, off int64, v uint32) {
	var b [4]byte
	binary.LittleEndian.PutUint32(b[:], v)
	if n, err := f.WriteAt(b[:], off); n < 4 {
		simrt.Fail("C04b.setup", "harness:register-file", "writing register 0x%x of %s: %v", off, f.Name(), err)
	}
}

func (w *c04bWorld) openDev(name string, size int64) *os.File {
	f, err := os.OpenFile(filepath.Join(w.env.Dir, "lancero_"+name+"0"), os.O_RDWR|os.O_CREATE|os.O_TRUNC, 0600)
	if err == nil {
		err = f.Truncate(size) // all registers read as zero
	}
	if err != nil {
		simrt.Fail("C04b.setup", "harness:device-file", "creating the %s device file: %v", name, err)
	}
	return f
}

// ---------------------------------------------------------------------------------
// the firmware task

func (w *c04bWorld) firmware() {
	defer func() { w.fwExited = true }()
	for {
		d := w.period
		if !w.engineOn {
			d = 3 * time.Millisecond // nothing to do but watch the control registers
		} else if w.heldUp > 0 {
			// nothing to write (ring full, collector off): look again later and later, so that a
			// scheduler that prefers this task still lets the consumer run
			d = c04bBackoff(d, w.heldUp)
		}
		simrt.SleepSim(d)
		if w.quit || w.closed || simrt.Current() != w.sim {
			return
		}
		if w.env.Faulted() && simrt.Chance(1, 40) {
			steps := 3 + simrt.DrawFault(40)
			simrt.Stall("consumer", steps)
			w.env.Op("fault: consumer stalled for %d steps", steps)
		}
		before := w.produced
		w.fwStep()
		if w.engineOn && w.produced == before && w.stallPolls == 0 {
			w.heldUp++
		} else {
			w.heldUp = 0
		}
	}
}

// c04bBackoff doubles a polling period with every fruitless poll, up to 8 ms (four times the largest
// simulated cost of a scheduler step).
func c04bBackoff(d time.Duration, fruitless int) time.Duration {
	for i := 0; i < fruitless && d < 8*time.Millisecond; i++ {
		d *= 2
	}
	if d > 8*time.Millisecond {
		d = 8 * time.Millisecond
	}
	return d
}

func (w *c04bWorld) fwStep() {
	ctrl := w.rd(w.user, adapterCTRL)
	eng := w.rd(w.control, c04bEngineControl)
	if !w.engineOn {
		if w.busyClear {
			w.wr(w.control, c04bEngineStatus, 0)
			w.busyClear = false
			return
		}
		if ctrl&bitsAdapterCtrlRun != 0 && ctrl&bitsAdapterCtrlIEFlush == 0 && eng&1 == 0 {
			if w.startDelay > 0 {
				w.startDelay--
				return
			}
			w.engineStart()
		}
		return
	}
	if !w.busyShown {
		w.wr(w.control, c04bEngineStatus, 1)
		w.busyShown = true
		return
	}
	if eng&1 == 0 {
		// the host wrote the engine's control word with RUN cleared (cyclicStop)
		w.engineOn = false
		w.idle = true
		w.startDelay = simrt.Draw(3)
		if simrt.Draw(2) == 0 {
			w.wr(w.control, c04bEngineStatus, 0)
		} else {
			w.busyClear = true
		}
		w.env.Op("F engine stopped after %d bytes (%d laps)", w.produced, w.produced/int64(w.L))
		return
	}
	ri := int(w.rd(w.user, adapterRBRI))
	if ri >= w.L {
		simrt.Fail("C04b.read-index", "lancero-ring:read-index-register-out-of-range", "the card finds read index %d in register RBRI; the ring it was given has %d bytes", ri, w.L)
	}
	fill := (w.wi - ri + w.L) % w.L
	w.publishLevel(fill)
	if w.rd(w.user, colRegisterCtrl)&bitsCtrlRun == 0 || ctrl&bitsAdapterCtrlRun == 0 || ctrl&bitsAdapterCtrlIEFlush != 0 {
		w.idle = true
		return
	}
	w.idle = false
	if w.overflowed {
		return
	}
	if w.stallPolls > 0 {
		w.stallPolls--
		return
	}
	if simrt.Draw(8) == 7 {
		w.stallPolls = 1 + simrt.Draw(6)
		simrt.Hit("ring:card-pauses")
		return
	}
	w.produce(fill)
}

func (w *c04bWorld) engineStart() {
	a := w.lan.adapter
	L := w.rd(w.user, adapterRBS)
	th := w.rd(w.user, adapterRBTH)
	if a.buffer == nil || L != a.length || L == 0 {
		simrt.Fail("C04b.ring-size", "lancero-ring:ring-size-register-wrong", "the adapter was started with ring length register RBS=%d; the ring the adapter reads from has %d bytes", L, a.length)
	}
	if th == 0 || th > L {
		simrt.Fail("C04b.ring-size", "lancero-ring:threshold-register-wrong", "the adapter was started with threshold register RBTH=%d on a ring of %d bytes", th, L)
	}
	// the SGDMA engine got the ring's address through the read() on the sgdma device
	w.ring = unsafe.Slice((*byte)(unsafe.Pointer(a.buffer)), int(L))
	if L <= 4<<20 {
		for i := range w.ring {
			w.ring[i] = 0xEE
		}
	}
	w.L, w.thresh = int(L), int(th)
	w.wi, w.produced, w.overflowed, w.above, w.maxFill, w.stallPolls, w.heldUp = 0, 0, false, false, 0, 0, 0
	w.mayOverflow = w.env.Faulted() && simrt.DrawFault(3) == 0
	w.epoch++
	w.idle = false
	w.evWritten, w.evRead = 0, 0
	w.events.Truncate(0)
	w.events.Seek(0, 0)
	w.wr(w.user, adapterRBWI, 0)
	w.wr(w.user, adapterRBAD, 0)
	w.wr(w.user, adapterFILL, 0)
	w.wr(w.user, adapterSTA, bitsAdapterCtrlRun)
	w.wr(w.control, c04bEngineID, 0x1fc00000+uint32(w.epoch))
	w.wr(w.control, c04bEngineControl, 0x00fa0000|uint32(simrt.Draw(4))<<8|1)
	w.engineOn = true
	w.busyShown = simrt.Draw(2) == 0
	if w.busyShown {
		w.wr(w.control, c04bEngineStatus, 1)
	}
	w.env.Op("F engine started: ring %d bytes, threshold %d", w.L, w.thresh)
}

// publishLevel writes the registers that follow the fill level and raises the threshold interrupt.
func (w *c04bWorld) publishLevel(fill int) {
	w.wr(w.user, adapterRBAD, uint32(fill))
	if fill > w.maxFill {
		w.maxFill = fill
		w.wr(w.user, adapterFILL, uint32(fill))
	}
	sta := bitsAdapterCtrlRun
	if fill >= w.thresh {
		sta |= bitsAdapterCtrlIEThresh
		if !w.above {
			var b [4]byte
			binary.LittleEndian.PutUint32(b[:], 1)
			w.events.WriteAt(b[:], int64(4*w.evWritten))
			w.evWritten++
		}
		w.above = true
	} else {
		w.above = false
	}
	if fill >= 3*w.L/4 {
		sta |= bitsAdapterCtrlIEFlush // the alarm level
	}
	if w.overflowed {
		sta |= bitsAdapterCtrlIEFull
	}
	w.wr(w.user, adapterSTA, sta)
}

// produce lets the card write a burst of the stream into the ring and publish its write index.
func (w *c04bWorld) produce(fill int) {
	L, q, F := w.L, w.quantum, w.F
	free := L - q - fill
	toEnd := L - w.wi
	groups := [][]int{
		{F, 2 * F, q, 3 * F, 7 * F},
		{free, free / 2, free - q, free - F, free / 3},
		{toEnd, toEnd - q, toEnd + q, toEnd + F, toEnd - F},
	}
	var n int
	switch g := simrt.Draw(len(groups) + 1); {
	case g < len(groups):
		n = groups[g][simrt.Draw(len(groups[g]))]
	default:
		n = simrt.Draw(L)
	}
	if w.mayOverflow && n > free && free < L/8 && simrt.Chance(1, 4) {
		// the host is too slow: the card fills the ring, raises FULL, the rest is lost
		n = free / q * q
		w.write(n)
		w.overflowed = true
		w.publishLevel(fill + n)
		simrt.Fault("ring-overflow")
		w.env.Op("F fault: ring overflow after %d bytes (write index %d, read index register %d): status FULL", w.produced, w.wi, (w.wi-fill-n+2*L)%L)
		return
	}
	if n > free {
		n = free
	}
	if n < 0 {
		n = 0
	}
	n = n / q * q
	if n == 0 {
		if free < q {
			simrt.Hit("ring:card-held-up-by-full-ring")
		}
		return
	}
	from := w.wi
	w.write(n)
	w.publishLevel(fill + n)
	if from+n > L {
		simrt.Hit("ring:burst-crosses-wrap")
	} else if from+n == L {
		simrt.Hit("ring:burst-ends-at-wrap")
	}
	if fill+n == L-q {
		simrt.Hit("ring:filled-exactly-full")
	}
	w.env.Op("F wrote %d bytes at %d -> write index %d (stream %d, fill %d of %d)", n, from, w.wi, w.produced, fill+n, L)
}

func (w *c04bWorld) write(n int) {
	k := w.produced / 4
	pos := w.wi
	for off := 0; off < n; off += 4 {
		binary.LittleEndian.PutUint32(w.ring[pos:], w.word(k))
		k++
		pos += 4
		if pos >= w.L {
			pos = 0
		}
	}
	w.wi = pos
	w.produced += int64(n)
	w.wr(w.user, adapterRBWI, uint32(w.wi))
}

// ---------------------------------------------------------------------------------
// the consumer (main task)

var c04bRingsOdd = []int{96, 160, 224, 320, 480, 736, 960, 1440, 4000, 12288, 24576 + 32}
var c04bRingsPow2 = []int{64, 128, 256, 512, 1024, 4096, 16384}
var c04bCols = []int{2, 1, 3, 4, 5, 6, 8}
var c04bRows = []int{3, 2, 4, 5, 7, 8, 11, 16, 24, 32, 33, 40, 1}

func c04bGcd(a, b int) int {
	for b != 0 {
		a, b = b, a%b
	}
	return a
}

// drawEpisode draws geometry, ring length and threshold of the next episode; returns ring length,
// threshold and a description of how the length was chosen.
func (w *c04bWorld) drawEpisode() (int, int, string) {
	w.cols = c04bCols[simrt.Draw(len(c04bCols))]
	w.rows = c04bRows[simrt.Draw(len(c04bRows))]
	kind := simrt.Draw(40)
	if kind == 39 && 4*w.cols*w.rows < 640 {
		w.rows = (160 + w.cols - 1) / w.cols // 65536 frames exceed the hard cap
	}
	w.W = w.cols * w.rows
	w.F = 4 * w.W
	w.phase = 0
	if simrt.Draw(3) > 0 {
		w.phase = simrt.Draw(w.W)
	}
	w.salt = uint32(simrt.Draw(1<<16))*40503 + uint32(w.epoch)*977
	w.quantum = 4
	if simrt.Draw(2) == 1 {
		w.quantum = 32
	}
	w.period = []time.Duration{200 * time.Microsecond, 50 * time.Microsecond, time.Millisecond}[simrt.Draw(3)]
	var L int
	var how string
	production := func() int {
		// StartRun's rule: 4 x 16384 frames, at most the hard cap of the driver
		n := 4 * 16384 * w.F
		if n > int(HardMaxBufSize) {
			n = int(HardMaxBufSize)
		}
		return n
	}
	frames := func() int {
		unit := w.F / c04bGcd(w.F, 32) * 32 // whole frames and whole bus beats
		return unit * (1 + simrt.Draw(12))
	}
	switch {
	case kind < 14:
		L, how = c04bRingsOdd[simrt.Draw(len(c04bRingsOdd))], "menu"
	case kind < 20:
		L, how = c04bRingsPow2[simrt.Draw(len(c04bRingsPow2))], "menu"
	case kind < 28:
		L, how = 32*(2+simrt.Draw(256)), "any multiple of the bus width"
	case kind < 34:
		L, how = frames(), "a whole number of frames"
	case kind < 36:
		L, how = 300*4096, "sampleCard's 300 pages"
	case kind < 39:
		if L, how = production(), "StartRun's 65536 frames"; L > 8<<20 {
			L, how = frames(), "a whole number of frames"
		}
	default:
		L, how = production(), "StartRun's 65536 frames limited by HardMaxBufSize"
	}
	for L < 64 {
		L *= 2
	}
	var th int
	switch simrt.Draw(5) {
	case 0:
		th = L / 4 // StartRun
	case 1:
		th = L / 3 // sampleCard
	case 2:
		th = L / 2
	case 3:
		th = c04bMin(w.F, L/2)
	default:
		th = 1 + simrt.Draw(L/2)
	}
	return L, th, how
}

func c04bBody(env *simrt.Env) {
	SetLogOutput(io.Discard)
	w := &c04bWorld{env: env, sim: simrt.Current(), period: time.Millisecond}
	w.user = w.openDev("user", 4096)
	w.control = w.openDev("control", 4096)
	w.events = w.openDev("events", 0)
	w.sgdma = w.openDev("sgdma", 0)
	dev := &lanceroDevice{FileUser: w.user, FileControl: w.control, FileEvents: w.events, FileSGDMA: w.sgdma, validFiles: true, verbosity: 3 * simrt.Draw(2)}
	// as NewLancero assembles it
	w.lan = &Lancero{device: dev, collector: &collector{device: dev}, adapter: &adapter{device: dev, verbosity: 3 * simrt.Draw(2)}}
	defer func() {
		w.closed = true
		w.ring = nil
		w.lan.Close() // closes the device files, frees the ring
	}()
	simrt.GoHarness("firmware", w.firmware)

	nEpisodes := 1 + simrt.Draw(3)
	for ep := 0; ep < nEpisodes; ep++ {
		w.episode(ep)
	}
	w.quit = true
	for !w.fwExited {
		simrt.SleepSim(time.Millisecond)
	}
	env.Sample(map[string]interface{}{"episodes": nEpisodes, "last_ring": w.L, "last_frame_bytes": w.F, "reads": w.nReads, "wraps": w.nWraps})
}

func (w *c04bWorld) episode(ep int) {
	env := w.env
	L, th, how := w.drawEpisode()
	env.Op("episode %d: %d columns x %d rows (frame %d bytes, stream starts at word %d of a frame), ring %d bytes (%s), threshold %d, card advances by %d bytes",
		ep+1, w.cols, w.rows, w.F, w.phase, L, how, th, w.quantum)
	if L&(L-1) == 0 {
		simrt.Hit("ring:length-power-of-two")
	} else {
		simrt.Hit("ring:length-not-power-of-two")
	}
	if L == int(HardMaxBufSize) {
		simrt.Hit("ring:length-at-hard-cap")
	}
	if L%w.F != 0 {
		simrt.Hit("ring:frames-straddle-the-wrap")
	}
	if ep > 0 {
		simrt.Hit("ring:restart-on-same-object")
	}

	// the sgdma device is only read once per start: it "returns" the whole ring
	if err := w.sgdma.Truncate(int64(L)); err != nil {
		simrt.Fail("C04b.setup", "harness:device-file", "sizing the sgdma file: %v", err)
	}
	w.sgdma.Seek(0, 0)
	func() {
		defer func() {
			if r := recover(); r != nil {
				if _, ok := r.(error); ok {
					simrt.Fail("C04b.start", "lancero-ring:change-ring-buffer-failed", "ChangeRingBuffer(%d, %d) panicked: %v", L, th, r)
				}
				panic(r)
			}
		}()
		if err := w.lan.ChangeRingBuffer(L, th); err != nil {
			simrt.Fail("C04b.start", "lancero-ring:change-ring-buffer-failed", "ChangeRingBuffer(%d, %d): %v", L, th, err)
		}
	}()
	epoch := w.epoch
	verbosity := 3 * simrt.Draw(2)
	if err := w.lan.StartAdapter(2+3*simrt.Draw(2), verbosity); err != nil {
		simrt.Fail("C04b.start", "lancero-ring:start-adapter-failed", "StartAdapter on a card that answers within milliseconds: %v", err)
	}
	if w.epoch != epoch+1 || !w.engineOn {
		simrt.Fail("C04b.start", "lancero-ring:start-adapter-did-not-start", "StartAdapter returned nil but the card's write engine was started %d times (running: %v)", w.epoch-epoch, w.engineOn)
	}
	w.consumed, w.held = 0, nil
	if simrt.Draw(4) == 0 {
		w.lan.InspectAdapter()
	}
	lp, dd, mask, fl := 1+simrt.Draw(64), simrt.Draw(16), uint32(1+simrt.Draw(0xffff)), 1+simrt.Draw(64)
	if err := w.lan.CollectorConfigure(lp, dd, mask, fl); err != nil {
		simrt.Fail("C04b.start", "lancero-ring:collector-configure-failed", "CollectorConfigure: %v", err)
	}
	if got := [4]uint32{w.rd(w.user, colRegisterLP), w.rd(w.user, colRegisterDD), w.rd(w.user, colRegisterMask), w.rd(w.user, colRegisterFL)}; got != [4]uint32{uint32(lp), uint32(dd), mask, uint32(fl)} {
		simrt.Fail("C04b.start", "lancero-ring:collector-registers-wrong", "CollectorConfigure(%d, %d, 0x%x, %d) left line period, data delay, mask, frame length registers = %v", lp, dd, mask, fl, got)
	}
	simulate := simrt.Draw(4) == 3
	if err := w.lan.StartCollector(simulate); err != nil {
		simrt.Fail("C04b.start", "lancero-ring:start-collector-failed", "StartCollector: %v", err)
	}
	if w.rd(w.user, colRegisterCtrl)&bitsCtrlRun == 0 {
		simrt.Fail("C04b.start", "lancero-ring:collector-not-running", "StartCollector(%v) returned nil; collector control register = 0x%x", simulate, w.rd(w.user, colRegisterCtrl))
	}

	nOps := 10 + simrt.Draw(60)
	if L >= 4<<20 {
		nOps = 6 + simrt.Draw(10)
	}
	if ep > 0 {
		nOps = nOps/2 + 3
	}
	w.idle = false
	aligned := w.rows < 2 || L < 8*w.F || simrt.Draw(3) == 0 // otherwise the first reads look for the frame start as StartRun does
	fruitless := 0                                           // consecutive reads that brought nothing new
	lastAvail := -1
	reported := false
	for op := 0; op < nOps && !reported; op++ {
		w.pause(fruitless)
		if env.Faulted() && simrt.Chance(1, 16) {
			steps := 3 + simrt.DrawFault(40)
			simrt.Stall("firmware", steps)
			env.Op("fault: card stalled for %d steps", steps)
		}
		w.maybeWait()
		b := w.read()
		if len(b) == lastAvail || len(b) == 0 {
			fruitless++
		} else {
			fruitless = 0
		}
		lastAvail = len(b)
		if !aligned {
			// StartRun looks for the first frame start in what the first threshold's worth of data
			// holds; the reader never looks at less than three frames
			if len(b) >= 3*w.F {
				reported = w.align(b)
				aligned = true
			}
			continue
		}
		reported = w.release(b, -1)
	}

	// the end of the episode
	collectorFirst := simrt.Draw(4) != 0
	if collectorFirst {
		if err := w.lan.StopCollector(); err != nil {
			simrt.Fail("C04b.stop", "lancero-ring:stop-collector-failed", "StopCollector: %v", err)
		}
		if !reported && simrt.Draw(4) != 0 {
			w.drain()
		} else {
			simrt.Hit("ring:stopped-with-data-unread")
		}
	}
	if err := w.lan.StopAdapter(); err != nil {
		simrt.Fail("C04b.stop", "lancero-ring:stop-adapter-failed", "StopAdapter on a card that answers within milliseconds: %v", err)
	}
	if w.engineOn {
		simrt.Fail("C04b.stop", "lancero-ring:stop-adapter-did-not-stop", "StopAdapter returned nil but the card's write engine still runs")
	}
	if !collectorFirst {
		if err := w.lan.StopCollector(); err != nil {
			simrt.Fail("C04b.stop", "lancero-ring:stop-collector-failed", "StopCollector: %v", err)
		}
	}
	if c := w.rd(w.user, colRegisterCtrl); c != 0 {
		simrt.Fail("C04b.stop", "lancero-ring:collector-still-running", "after StopCollector the collector control register is 0x%x", c)
	}
	laps := w.consumed / int64(L)
	switch {
	case laps >= 3:
		simrt.Hit("ring:episode-3-or-more-laps")
	case laps >= 1:
		simrt.Hit("ring:episode-1-or-2-laps")
	}
}

// pause lets simulated time pass between the consumer's operations.
func (w *c04bWorld) pause(fruitless int) {
	p := w.period
	ds := []time.Duration{0, p / 2, p, 3 * p}
	d := ds[simrt.Draw(len(ds))]
	if fruitless > 0 {
		d = c04bBackoff(p, fruitless-1)
	}
	if d > 0 {
		simrt.SleepSim(d)
	}
	simrt.Y("c04b:consumer")
}

// maybeWait calls Wait when the card would let it return: enough data (fast path, register RBAD) or
// a threshold interrupt event pending (a plain file cannot block as the event device does).
func (w *c04bWorld) maybeWait() {
	if simrt.Draw(3) == 0 {
		return
	}
	fast := int(w.rd(w.user, adapterRBAD)) >= w.thresh
	if !fast && w.evRead >= w.evWritten {
		return
	}
	_, _, err := w.lan.Wait()
	if err != nil {
		simrt.Fail("C04b.wait", "lancero-ring:wait-error", "Wait with %d bytes available (threshold %d), %d interrupt events pending: %v", w.rd(w.user, adapterRBAD), w.thresh, w.evWritten-w.evRead, err)
	}
	if fast {
		simrt.Hit("ring:wait-returns-at-once")
	} else {
		w.evRead++
		simrt.Hit("ring:wait-takes-interrupt-event")
	}
}

// read calls AvailableBuffer and checks what it returns against the stream.
func (w *c04bWorld) read() []byte {
	L := w.L
	avail := int(w.produced - w.consumed)
	ri := int(w.consumed % int64(L))
	wi := w.wi
	w.recheckHeld()
	b, _, err := w.lan.AvailableBuffer()
	w.nReads++
	w.env.Op("C AvailableBuffer -> %d bytes, err=%v (read index %d, write index %d, %d unreleased of %d written, ring %d)", len(b), err, ri, wi, avail, w.produced, L)
	if err != nil {
		simrt.Fail("C04b.read-result", "lancero-ring:available-buffer-error", "AvailableBuffer: %v", err)
	}
	n := len(b)
	state := fmt.Sprintf("ring of %d bytes, read index %d, write index %d; the card has written %d bytes (%d laps), %d are released", L, ri, wi, w.produced, w.produced/int64(L), w.consumed)
	if bad := w.verify(b[:c04bMin(n, avail)], w.consumed); bad >= 0 {
		simrt.Fail("C04b.fifo", "lancero-ring:read-wrong-bytes", "AvailableBuffer returned %d bytes; byte %d is 0x%02x, want 0x%02x = stream byte %d (%s). %s",
			n, bad, b[bad], w.streamByte(w.consumed+int64(bad)), w.consumed+int64(bad), state, w.attribute(b[bad:], w.consumed+int64(bad)))
	}
	if n > avail {
		simrt.Fail("C04b.fifo", "lancero-ring:read-more-than-written", "AvailableBuffer returned %d bytes but only %d bytes are written and not yet released (%s). %s",
			n, avail, state, w.attribute(b[avail:], w.produced))
	}
	// probes
	if L&(L-1) != 0 && n > 0 {
		simrt.Hit("ring:read-from-ring-not-power-of-two")
	}
	switch {
	case avail == 0:
		simrt.Hit("ring:read-when-exactly-empty")
	case avail == L-w.quantum:
		simrt.Hit("ring:read-when-exactly-full")
	}
	if avail > 0 && wi < ri {
		simrt.Hit("ring:write-index-wrapped-behind-read-index")
		if L&(L-1) != 0 {
			simrt.Hit("ring:write-index-wrapped-behind-read-index,length-not-power-of-two")
		}
	}
	if n > 0 {
		switch {
		case ri+n > L:
			simrt.Hit("ring:read-crosses-wrap")
			w.nWraps++
		case ri+n == L:
			simrt.Hit("ring:read-ends-at-wrap")
			w.nWraps++
		}
	}
	if n < avail {
		simrt.Hit("ring:read-shorter-than-available")
	}
	if L == int(HardMaxBufSize) && n > 0 && ri+n >= L {
		simrt.Hit("ring:read-crosses-wrap,length-at-hard-cap")
	}
	if n > 0 && n <= 1<<20 {
		w.held, w.heldAt = b, w.consumed
	}
	return b
}

// recheckHeld looks again at the slice the previous read returned, after the consumer released (part
// of) it and the card went on writing: AvailableBuffer hands out a copy so that the caller may release
// first and use the data afterwards.
func (w *c04bWorld) recheckHeld() {
	if w.held == nil {
		return
	}
	if bad := w.verify(w.held, w.heldAt); bad >= 0 {
		simrt.Fail("C04b.copy", "lancero-ring:returned-buffer-overwritten", "the slice returned by an earlier AvailableBuffer (stream bytes %d..%d) changed after the bytes were released and the card wrote on: byte %d is now 0x%02x, was 0x%02x (AvailableBuffer documents a copy)",
			w.heldAt, w.heldAt+int64(len(w.held)), bad, w.held[bad], w.streamByte(w.heldAt+int64(bad)))
	}
	w.held = nil
}

// align does what StartRun does with the first data (at least three frames): find the first frame
// start, release what is in front of it. Returns what release returns.
func (w *c04bWorld) align(b []byte) bool {
	at := (int64(w.phase) + w.consumed/4) % int64(w.W)
	q, p, n, err := FindFrameBits(b, 2)
	if err != nil {
		simrt.Fail("C04b.framebits", "lancero:framebits-not-found", "FindFrameBits on %d bytes (at least 3 frames of %d columns x %d rows) starting at word %d of a frame: %v", len(b), w.cols, w.rows, at, err)
	}
	first := (at + int64(q)) % int64(w.W)
	if first != 0 || n != w.cols || p-q != w.W {
		simrt.Fail("C04b.framebits", "lancero:framebits-misaligned", "FindFrameBits on %d bytes starting at word %d of a frame of %d columns x %d rows returned q=%d (word %d of a frame), p=%d, n=%d", len(b), at, w.cols, w.rows, q, first, p, n)
	}
	simrt.Hit("ring:aligned-with-FindFrameBits")
	return w.release(b, 4*q)
}

// release draws how much of the data just read to release (n < 0) and calls ReleaseBytes. Returns
// true when an overflow of the card was reported.
func (w *c04bWorld) release(b []byte, n int) bool {
	L, F := w.L, w.F
	if n < 0 {
		whole := len(b) / F * F
		if F > L/3 {
			whole = len(b)
		}
		switch k := simrt.Draw(12); {
		case k < 4:
			n = whole // the reader: all whole frames
		case k < 6:
			n = len(b) // sampleCard: everything
		case k < 8:
			n = whole
			if whole >= F {
				n = F * (1 + simrt.Draw(whole/F)) // some of the frames
			}
		case k < 9:
			n = 4 * simrt.Draw(len(b)/4+1) // any number of words
		case k < 10:
			n = simrt.Draw(len(b) + 1) // any number of bytes
		case k < 11:
			n = 0
		default:
			simrt.Hit("ring:read-without-release")
			return false
		}
	}
	if n == 0 {
		simrt.Hit("ring:release-nothing")
	} else if n < len(b) {
		simrt.Hit("ring:release-part-of-read")
		if n%F != 0 {
			simrt.Hit("ring:release-part-of-a-frame")
		}
	}
	overflowed := w.overflowed
	err := w.lan.ReleaseBytes(n)
	w.consumed += int64(n)
	w.env.Op("C ReleaseBytes(%d) -> err=%v (released %d)", n, err, w.consumed)
	if got, want := w.rd(w.user, adapterRBRI), uint32(w.consumed%int64(L)); got != want {
		simrt.Fail("C04b.read-index", "lancero-ring:read-index-register-wrong", "after ReleaseBytes(%d) the card is told read index %d; %d bytes are released in a ring of %d, so the next unread byte is at %d", n, got, w.consumed, L, want)
	}
	if overflowed {
		if err == nil {
			simrt.Fail("C04b.overflow-reported", "lancero-ring:overflow-not-reported", "the card overflowed (status FULL) after %d bytes; ReleaseBytes(%d) returned nil", w.produced, n)
		}
		simrt.Hit("ring:overflow-reported")
		return true
	}
	if err != nil && !w.overflowed {
		simrt.Fail("C04b.release", "lancero-ring:release-error", "ReleaseBytes(%d) of %d bytes read: %v (the card has not overflowed: %d bytes unreleased in a ring of %d)", n, len(b), err, w.produced-w.consumed, L)
	}
	return err != nil
}

// drain: the collector is stopped; once the card has noticed, everything it wrote must come out.
func (w *c04bWorld) drain() {
	for i := 0; !w.idle; i++ {
		simrt.SleepSim(w.period)
		if i > 2000 {
			simrt.Fail("C04b.setup", "harness:firmware-does-not-stop", "the firmware task has not noticed the stopped collector after %d polls", i)
		}
	}
	overflowed := w.overflowed
	for i := 0; i < 64; i++ { // read and release until nothing comes
		simrt.Y("c04b:drain")
		b := w.read()
		if len(b) == 0 {
			break
		}
		if w.release(b, len(b)) {
			break
		}
	}
	if w.consumed != w.produced && !overflowed {
		simrt.Fail("C04b.complete", "lancero-ring:bytes-never-delivered", "the card stopped after writing %d bytes; reading and releasing until nothing comes delivered %d: the last %d bytes never reach the consumer (ring %d, read index %d, write index %d)",
			w.produced, w.consumed, w.produced-w.consumed, w.L, w.consumed%int64(w.L), w.wi)
	}
	if w.consumed == w.produced {
		simrt.Hit("ring:drained-to-the-last-byte")
	}
}
